(* C19 - specification side: what flag over file over default means, when a run must
   be refused, the known-finding classes of the command line level, and the boolean
   oracles applied at run time to what the implementation produced. *)
From Coq Require Import String Ascii List Bool Arith.
Require Import TT.Model.C19Config.
Import ListNotations.
Local Open Scope string_scope.

(* ---------------------------------------------------------------- specification of precedence *)
(* the configuration file: the first candidate that is a parseable document *)
Fixpoint the_file (f : fs) (ps : list string) : option json :=
  match ps with
  | [] => None
  | p :: r => match fs_get f p with Some (NDoc (Some d)) => Some d | _ => the_file f r end
  end.
Definition file_section (f : fs) (ps : list string) : option json :=
  match the_file f ps with Some d => get P d | None => None end.
Definition sec_str (sec : option json) (k : string) : option string :=
  match sec with Some tg => as_str (get [PKey k] tg) | None => None end.
Definition sec_bool (sec : option json) (k : string) : option bool :=
  match sec with Some tg => as_bool (get [PKey k] tg) | None => None end.

(* flag over file over default *)
Definition effective {A} (flag file : option A) (default : A) : A :=
  match flag with Some x => x | None => match file with Some y => y | None => default end end.
Definition flag_of (b : bool) : option bool := if b then Some true else None.

Definition spec_eff (f : fs) (fl : flags) : eff :=
  let sec := file_section f cands in
  let v := effective (flag_of (f_verbose fl)) (sec_bool sec "verbose") false in
  {| e_project := effective (f_project fl) (sec_str sec "projectPath") "./src-tauri";
     e_output := effective (f_output fl) (sec_str sec "outputPath") "./src/generated";
     e_lib := effective (f_validation fl) (sec_str sec "validationLibrary") "none";
     e_verbose := v; e_log_verbose := v;
     e_visualize := effective (flag_of (f_visualize fl)) (sec_bool sec "visualizeDeps") false;
     e_force := effective (flag_of (f_force fl)) (sec_bool sec "force") false |}.

(* must the run be refused? *)
Definition spec_invalid (f : fs) (e : eff) : bool :=
  negb (lib_ok (e_lib e)) || negb (fs_exists f (e_project e)).

(* init must be refused when its settings are invalid *)
Definition init_invalid (f : fs) (il : iflags) : bool :=
  negb (lib_ok (init_lib il)) || negb (fs_exists f (init_project il)).

(* ---------------------------------------------------------------- run-time oracles *)
Fixpoint json_eqb (a b : json) {struct a} : bool :=
  match a, b with
  | JNull, JNull => true
  | JBool x, JBool y => Bool.eqb x y
  | JNum x, JNum y => String.eqb x y
  | JStr x, JStr y => String.eqb x y
  | JArr x, JArr y =>
      (fix go (l1 l2 : list json) : bool :=
         match l1, l2 with
         | [], [] => true
         | u :: r1, w :: r2 => json_eqb u w && go r1 r2
         | _, _ => false
         end) x y
  | JObj x, JObj y =>
      (fix go (l1 l2 : list (string * json)) : bool :=
         match l1, l2 with
         | [], [] => true
         | (k1, u) :: r1, (k2, w) :: r2 => String.eqb k1 k2 && json_eqb u w && go r1 r2
         | _, _ => false
         end) x y
  | _, _ => false
  end.
Definition ojson_eqb (a b : option json) : bool :=
  match a, b with Some x, Some y => json_eqb x y | None, None => true | _, _ => false end.

(* every path of either document (objects in the given key order) *)
Fixpoint paths (fuel : nat) (j : json) : list (list pel) :=
  match fuel with
  | O => [[]]
  | S n =>
      [] :: match j with
            | JObj kvs => flat_map (fun kv => map (cons (PKey (fst kv))) (paths n (snd kv))) kvs
            | JArr l =>
                (fix go (i : nat) (l : list json) : list (list pel) :=
                   match l with [] => [] | v :: r => (map (cons (PIdx i)) (paths n v) ++ go (S i) r)%list end) 0 l
            | _ => []
            end
  end.

(* preservation oracle on two documents (objects must be given with sorted keys so that
   json_eqb is equality of values): every path of either document outside the section
   has the same value before and after *)
Definition preserved_b (fuel : nat) (before after : json) : bool :=
  forallb (fun q => negb (outside_section q) || ojson_eqb (get q before) (get q after))
          (paths fuel before ++ paths fuel after)%list.

(* ---------------------------------------------------------------- equality tests used by the oracles *)
Definition obool_eqb (a b : option bool) : bool :=
  match a, b with Some x, Some y => Bool.eqb x y | None, None => true | _, _ => false end.
Fixpoint strs_eqb (a b : list string) : bool :=
  match a, b with [] , [] => true | x :: r, y :: s => String.eqb x y && strs_eqb r s | _, _ => false end.
Fixpoint pairs_eqb (a b : list (string * string)) : bool :=
  match a, b with
  | [], [] => true
  | (k, v) :: r, (k', v') :: s => String.eqb k k' && String.eqb v v' && pairs_eqb r s
  | _, _ => false
  end.
Definition opt_eqb {A} (e : A -> A -> bool) (a b : option A) : bool :=
  match a, b with Some x, Some y => e x y | None, None => true | _, _ => false end.
Definition config_eqb (a b : config) : bool :=
  String.eqb (project_path a) (project_path b) && String.eqb (output_path a) (output_path b)
  && String.eqb (validation_library a) (validation_library b)
  && obool_eqb (verbose a) (verbose b) && obool_eqb (visualize_deps a) (visualize_deps b)
  && obool_eqb (include_private a) (include_private b)
  && opt_eqb pairs_eqb (type_mappings a) (type_mappings b)
  && opt_eqb strs_eqb (exclude_patterns a) (exclude_patterns b)
  && opt_eqb strs_eqb (include_patterns a) (include_patterns b)
  && String.eqb (default_parameter_case a) (default_parameter_case b)
  && String.eqb (default_field_case a) (default_field_case b)
  && obool_eqb (force a) (force b).
Definition eff_eqb (a b : eff) : bool :=
  String.eqb (norm (e_project a)) (norm (e_project b)) && String.eqb (norm (e_output a)) (norm (e_output b))
  && String.eqb (e_lib a) (e_lib b) && Bool.eqb (e_verbose a) (e_verbose b)
  && Bool.eqb (e_log_verbose a) (e_log_verbose b) && Bool.eqb (e_visualize a) (e_visualize b)
  && Bool.eqb (e_force a) (e_force b).

(* library level: the settings read back are the settings written *)
Definition roundtrip_b (c : config) (loaded : option config) : bool :=
  match loaded with Some c' => config_eqb c' (normalise c) | None => false end.

(* what was seen of a run of the real binary *)
Inductive cli_obs :=
| ORejected (untouched : bool)      (* non-zero exit; was every file left as it was? *)
| ONoCommands                       (* exit 0, nothing generated *)
| ORan (e : eff).                   (* exit 0; the settings the run was seen to use *)

(* generate: refused before anything is written when the effective settings are
   invalid, otherwise run with exactly the effective settings *)
Definition generate_ok_b (f : fs) (fl : flags) (o : cli_obs) : bool :=
  let e := spec_eff f fl in
  if spec_invalid f e then match o with ORejected true => true | _ => false end
  else match o with
       | ORan e' => eff_eqb e e'
       | ONoCommands => match fs_get f (e_project e) with Some NProj => false | _ => true end
       | ORejected _ => false
       end.

(* init: refused before anything is written when its settings are invalid or when the
   target is not a document the settings can be written into; otherwise the document keeps
   everything outside the section and reads back as the settings given.
   after = the target document after the run (None = not a readable document);
   bref = the target document before the run in its reference reading (every decimal
   literal denotes the double nearest to it) *)
Definition init_ok_b (f : fs) (il : iflags) (bref : json) (o : cli_obs) (after : option json) : bool :=
  if init_invalid f il then match o with ORejected true => true | _ => false end
  else match fs_get f (init_target il) with
       | Some (NDoc (Some d)) =>
           if saveable d then
             match o, after with
             | ORejected _, _ => false
             | _, Some a => preserved_b 40 bref a && roundtrip_b (init_config il) (load_doc a)
             | _, None => false
             end
           else match o with ORejected true => true | _ => false end
       | _ => match o with ORejected true => true | _ => false end
       end.

(* library level round trip, judged on what from_tauri_config returned: settings that
   validate must come back (normalised); settings that do not validate must be refused *)
Definition roundtrip_lres_b (f : fs) (c : config) (l : lres) : bool :=
  match validate f c with
  | None => match l with LOk c' => config_eqb c' (normalise c) | _ => false end
  | Some _ => match l with LErr => true | _ => false end
  end.

(* library level, whole oracle. dref = reference reading of the text before; after =
   the document found afterwards when the save reported success, None when it reported an
   error and left the file byte for byte as it was; l = what from_tauri_config then returned.
   A document the settings cannot be written into must be refused; any other must keep every
   outside path and read back as the settings written *)
Definition lib_ok_b (f : fs) (c : config) (dref : json) (after : option json) (l : lres) : bool :=
  if saveable dref then
    match after with
    | Some a => preserved_b 40 dref a && roundtrip_lres_b f c l
    | None => false
    end
  else match after with None => true | Some _ => false end.

(* ---------------------------------------------------------------- the standalone file: flag over file over default *)
(* field k, the i-th in declaration order: by name in an object, by position in an array *)
Definition flat_str (d : json) (k : string) (i : nat) : option string := as_str (flat_at d k i).
Definition flat_bool (d : json) (k : string) (i : nat) : option bool := as_bool (flat_at d k i).
Definition spec_eff_c (fl : flags) (d : json) : eff :=
  let v := effective (flag_of (f_verbose fl)) (flat_bool d "verbose" 3) false in
  {| e_project := effective (f_project fl) (flat_str d "project_path" 0) "./src-tauri";
     e_output := effective (f_output fl) (flat_str d "output_path" 1) "./src/generated";
     e_lib := effective (f_validation fl) (flat_str d "validation_library" 2) "none";
     e_verbose := v; e_log_verbose := v;
     e_visualize := effective (flag_of (f_visualize fl)) (flat_bool d "visualize_deps" 4) false;
     e_force := effective (flag_of (f_force fl)) (flat_bool d "force" 11) false |}.

(* generate -c: a missing, unreadable or malformed file is refused; otherwise as generate *)
Definition generate_c_ok_b (f : fs) (fl : flags) (p : string) (o : cli_obs) : bool :=
  match fs_get f p with
  | Some (NDoc (Some d)) =>
      match from_flat d with
      | None => match o with ORejected true => true | _ => false end
      | Some _ =>
          let e := spec_eff_c fl d in
          if spec_invalid f e then match o with ORejected true => true | _ => false end
          else match o with
               | ORan e' => eff_eqb e e'
               | ONoCommands => match fs_get f (e_project e) with Some NProj => false | _ => true end
               | ORejected _ => false
               end
      end
  | _ => match o with ORejected true => true | _ => false end
  end.

(* save_to_file then from_file gives back exactly the settings *)
Definition flat_roundtrip_b (c : config) (loaded : option config) : bool :=
  match loaded with Some c' => config_eqb c' c | None => false end.


(* ---------------------------------------------------------------- the build-script loader: file over default *)
(* the configuration file of the build script: the typegen section of tauri.conf.json in
   the project root when there is one, else typegen.json *)
Definition spec_eff_sec (sec : option json) : eff :=
  let v := effective None (sec_bool sec "verbose") false in
  {| e_project := effective None (sec_str sec "projectPath") "./src-tauri";
     e_output := effective None (sec_str sec "outputPath") "./src/generated";
     e_lib := effective None (sec_str sec "validationLibrary") "none";
     e_verbose := v; e_log_verbose := v;
     e_visualize := effective None (sec_bool sec "visualizeDeps") false;
     e_force := effective None (sec_bool sec "force") false |}.
Definition build_section (f : fs) : option json :=
  match fs_get f "tauri.conf.json" with Some (NDoc (Some d)) => get P d | _ => None end.
Definition spec_eff_build (f : fs) : eff :=
  match build_section f with
  | Some tg => spec_eff_sec (Some tg)
  | None => match fs_get f "typegen.json" with
            | Some (NDoc (Some t)) => spec_eff_c no_flags t
            | _ => spec_eff_sec None
            end
  end.
(* C19-9: the build script does not refuse a configuration it cannot use (invalid section,
   malformed or invalid typegen.json): it logs a warning and falls back to the next source *)
Definition kf_build_fallback (f : fs) : bool :=
  match build_section f with
  | Some tg => match validate f (config_of_section tg) with Some _ => true | None => false end
  | None => match fs_get f "typegen.json" with
            | Some (NDoc (Some t)) => match from_file f "typegen.json" with None => true | Some _ => false end
            | _ => false
            end
  end.
(* the oracle: a configuration that cannot be used must be refused; otherwise the run uses
   the file's settings over the defaults (verbosity is not observable in the build script) *)
Definition build_invalid (f : fs) : bool :=
  kf_build_fallback f || spec_invalid f (spec_eff_build f).
Definition eff_eqb_build (a b : eff) : bool :=
  String.eqb (norm (e_project a)) (norm (e_project b)) && String.eqb (norm (e_output a)) (norm (e_output b))
  && String.eqb (e_lib a) (e_lib b) && Bool.eqb (e_visualize a) (e_visualize b) && Bool.eqb (e_force a) (e_force b).
Definition build_ok_b (f : fs) (o : cli_obs) : bool :=
  if build_invalid f then match o with ORejected true => true | _ => false end
  else match o with
       | ORan e' => eff_eqb_build (spec_eff_build f) e'
       | ONoCommands => match fs_get f (e_project (spec_eff_build f)) with Some NProj => false | _ => true end
       | ORejected _ => false
       end.

(* ---------------------------------------------------------------- init -o <standalone file> *)
(* refused before anything is written when the settings are invalid (whatever the shape of
   the missing project path) or when an existing file would be overwritten without --force; a
   refusal is also accepted, with nothing written, when the file cannot be created (its directory
   does not exist or is a regular file) - the text does not ask for the directory to be created;
   otherwise the file created reads back as exactly the settings given *)
Definition init_file_ok_b (f : fs) (il : iflags) (force : bool) (o : cli_obs) (after : option json) : bool :=
  if init_invalid f il then match o with ORejected true => true | _ => false end
  else if fs_exists f (or_else (i_output il) "tauri.conf.json") && negb force
       then match o with ORejected true => true | _ => false end
       else match o, after with
            | ORejected u, _ => negb (init_writable f (or_else (i_output il) "tauri.conf.json")) && u
            | _, Some a => flat_roundtrip_b (init_config il) (from_flat a)
            | _, None => false
            end.

(* ---------------------------------------------------------------- Prop-level readings of the oracles *)
(* (deepening round 7) what each boolean oracle decides, as a proposition; the equivalences
   are proved in Proofs/C19OracleProofs.v *)
(* what the model's result looks like to an observer of the real binary: both kinds of
   refusal are a non-zero exit (the theorems say the file system is then the one the run
   started from, hence untouched = true) *)
Definition obs_of_result (r : result) : cli_obs :=
  match r with
  | RReject _ _ | RFail _ => ORejected true
  | RNoCommands _ _ => ONoCommands
  | RRun e _ => ORan e
  end.

(* the observable settings up to a leading ./ of the two paths *)
Definition eff_norm (e : eff) : eff :=
  {| e_project := norm (e_project e); e_output := norm (e_output e); e_lib := e_lib e;
     e_verbose := e_verbose e; e_log_verbose := e_log_verbose e; e_visualize := e_visualize e;
     e_force := e_force e |}.

(* an accepted run: seen with exactly the settings e, or nothing to generate because the
   project has no commands *)
Definition ran_ok_P (f : fs) (e : eff) (o : cli_obs) : Prop :=
  match o with
  | ORan e' => eff_norm e = eff_norm e'
  | ONoCommands => fs_get f (e_project e) <> Some NProj
  | ORejected _ => False
  end.

(* precedence and refusal, generate *)
Definition generate_ok_P (f : fs) (fl : flags) (o : cli_obs) : Prop :=
  if spec_invalid f (spec_eff f fl) then o = ORejected true else ran_ok_P f (spec_eff f fl) o.

(* precedence and refusal, generate -c *)
Definition generate_c_ok_P (f : fs) (fl : flags) (p : string) (o : cli_obs) : Prop :=
  match fs_get f p with
  | Some (NDoc (Some d)) =>
      match from_flat d with
      | None => o = ORejected true
      | Some _ => if spec_invalid f (spec_eff_c fl d) then o = ORejected true else ran_ok_P f (spec_eff_c fl d) o
      end
  | _ => o = ORejected true
  end.

(* preservation: every path of length at most fuel outside the section has the same value
   (or is absent) in both documents *)
Definition preserved_P (fuel : nat) (before after : json) : Prop :=
  forall q, length q <= fuel -> outside_section q = true -> get q before = get q after.

(* nesting depth of a document: no path that leads somewhere is longer *)
Fixpoint depth (j : json) : nat :=
  match j with
  | JArr l => S ((fix go (l : list json) : nat := match l with [] => 0 | v :: r => Nat.max (depth v) (go r) end) l)
  | JObj kvs => S ((fix go (l : list (string * json)) : nat :=
                      match l with [] => 0 | (_, v) :: r => Nat.max (depth v) (go r) end) kvs)
  | _ => 0
  end.

(* preservation without a bound *)
Definition preserved_all_P (before after : json) : Prop :=
  forall q, outside_section q = true -> get q before = get q after.

(* library level *)
Definition roundtrip_lres_P (f : fs) (c : config) (l : lres) : Prop :=
  match validate f c with None => l = LOk (normalise c) | Some _ => l = LErr end.
Definition lib_ok_P (f : fs) (c : config) (dref : json) (after : option json) (l : lres) : Prop :=
  if saveable dref
  then exists a, after = Some a /\ preserved_P 40 dref a /\ roundtrip_lres_P f c l
  else after = None.

(* ---------------------------------------------------------------- the build script with project detection *)
(* the configuration file of the build script is the one of the detected project root: the
   section of its tauri.conf.json (tauri.conf.js when only that exists) if there is one, else
   its typegen.json *)
Definition build_section_at (f : fs) (tp : option string) : option json :=
  match tp with
  | Some p => match fs_get f p with Some (NDoc (Some d)) => get P d | _ => None end
  | None => None
  end.
Definition spec_eff_build_at (f : fs) (tp : option string) (gp : string) : eff :=
  match build_section_at f tp with
  | Some tg => spec_eff_sec (Some tg)
  | None => match fs_get f gp with
            | Some (NDoc (Some t)) => spec_eff_c no_flags t
            | _ => spec_eff_sec None
            end
  end.
(* C19-9 at a given root *)
Definition kf_build_fallback_at (f : fs) (tp : option string) (gp : string) : bool :=
  match build_section_at f tp with
  | Some tg => match validate f (config_of_section tg) with Some _ => true | None => false end
  | None => match fs_get f gp with
            | Some (NDoc (Some t)) => match from_file f gp with None => true | Some _ => false end
            | _ => false
            end
  end.
Definition spec_eff_build_detect (f : fs) : eff :=
  match build_root f with
  | Some r => spec_eff_build_at f (build_conf_path f r) (r ++ "typegen.json")
  | None => spec_eff_sec None
  end.
Definition kf_build_fallback_detect (f : fs) : bool :=
  match build_root f with
  | Some r => kf_build_fallback_at f (build_conf_path f r) (r ++ "typegen.json")
  | None => false
  end.
Definition build_invalid_detect (f : fs) : bool :=
  match build_root f with
  | Some _ => kf_build_fallback_detect f || spec_invalid f (spec_eff_build_detect f)
  | None => false
  end.
(* no project detected: nothing may be generated (exit 0 or not); otherwise as build_ok_b *)
Definition build_ok_detect_b (f : fs) (o : cli_obs) : bool :=
  match build_root f with
  | None => match o with ORan _ => false | ORejected u => u | ONoCommands => true end
  | Some _ =>
      if build_invalid_detect f then match o with ORejected true => true | _ => false end
      else match o with
           | ORan e' => eff_eqb_build (spec_eff_build_detect f) e'
           | ONoCommands => match fs_get f (e_project (spec_eff_build_detect f)) with Some NProj => false | _ => true end
           | ORejected _ => false
           end
  end.

(* ---------------------------------------------------------------- Prop-level readings of the init oracles *)
Definition init_ok_P (f : fs) (il : iflags) (bref : json) (o : cli_obs) (after : option json) : Prop :=
  if init_invalid f il then o = ORejected true
  else match fs_get f (init_target il) with
       | Some (NDoc (Some d)) =>
           if saveable d
           then match o with
                | ORejected _ => False
                | _ => exists a, after = Some a /\ preserved_P 40 bref a /\ load_doc a = Some (normalise (init_config il))
                end
           else o = ORejected true
       | _ => o = ORejected true
       end.
Definition init_file_ok_P (f : fs) (il : iflags) (force : bool) (o : cli_obs) (after : option json) : Prop :=
  let t := or_else (i_output il) "tauri.conf.json" in
  if init_invalid f il then o = ORejected true
  else if fs_exists f t && negb force then o = ORejected true
  else match o with
       | ORejected u => init_writable f t = false /\ u = true
       | _ => exists a, after = Some a /\ from_flat a = Some (init_config il)
       end.
(* the document a result leaves at a path *)
Definition doc_at (r : result) (t : string) : option json :=
  match fs_get (match r with RReject _ f | RFail f | RNoCommands _ f | RRun _ f => f end) t with
  | Some (NDoc (Some d)) => Some d
  | _ => None
  end.
