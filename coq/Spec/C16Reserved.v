(* C16 - the reserved names of the property text, as a proposition and as a
   boolean function on file names, and the run-time oracle on an observed
   change set. No proofs here (Proofs/C16Proofs.v). *)
From Coq Require Import String Ascii List Bool.
Require Import TT.Model.Str TT.Model.C16Fs.
Import ListNotations.
Local Open Scope list_scope.

(* types/commands/events/index/schemas/models/bindings .ts and .d.ts *)
Definition reserved_stems : list str :=
  [L "types"; L "commands"; L "events"; L "index"; L "schemas"; L "models"; L "bindings"].

(* ... .typecache, dependency-graph.txt/.dot *)
Definition reserved_fixed : list str :=
  [L ".typecache"; L "dependency-graph.txt"; L "dependency-graph.dot"].

Definition reserved_exact : list str :=
  flat_map (fun st => [st ++ L ".ts"; st ++ L ".d.ts"]) reserved_stems ++ reserved_fixed.

(* the property text, literally *)
Definition reserved_name (n : str) : Prop :=
  In n reserved_exact
  \/ (exists t, n = L "generated_" ++ t)             (* names starting with generated_ *)
  \/ (exists a b, n = a ++ L "_generated" ++ b).      (* names containing _generated *)

Definition reserved_name_b (n : str) : bool :=
  in_b n reserved_exact || starts (L "generated_") n || contains (L "_generated") n.

(* a file directly inside the output directory bearing a reserved name *)
Definition reserved (out q : path) : Prop := exists n, q = out ++ [n] /\ reserved_name n.
Definition reserved_b (out q : path) : bool :=
  match strip_prefix out q with Some [n] => reserved_name_b n | _ => false end.

Fixpoint is_prefix (p q : path) : bool :=
  match p, q with
  | [], _ => true
  | x :: p', y :: q' => str_eqb x y && is_prefix p' q'
  | _ :: _, [] => false
  end.

(* ---- project sources: what the analysis reads, the .rs files below the project path *)
Definition ends_rs (n : str) : bool := starts (rev (L ".rs")) (rev n).
Definition is_source (proj q : path) : bool := is_prefix proj q && ends_rs (last q []).

(* a run may change q: a reserved name directly inside its output directory that is not a project source *)
Definition proj_of (r : run) : path := c_proj (r_cfg r).
Definition out_of (r : run) : path := c_out (r_cfg r).
Definition may_change (r : run) (q : path) : Prop := reserved (out_of r) q /\ is_source (proj_of r) q = false.

(* ---- oracle for one observed run: out = configured output directory, proj = project path,
   tgt = the file init was pointed at (if the run is an init),
   changed_files = regular files created, overwritten with different bytes, or deleted,
   new_dirs / gone_dirs = directories created / removed. *)
Definition path_opt_eqb (t : option path) (q : path) : bool :=
  match t with Some p => path_eqb p q | None => false end.

Definition file_change_ok (out proj : path) (tgt : option path) (q : path) : bool :=
  (reserved_b out q && negb (is_source proj q)) || path_opt_eqb tgt q.

Definition c16_ok_b (out proj : path) (tgt : option path) (changed_files new_dirs gone_dirs : list path) : bool :=
  forallb (file_change_ok out proj tgt) changed_files
  && forallb (fun d => is_prefix d out) new_dirs
  && match gone_dirs with [] => true | _ => false end.

(* the changed files that the oracle rejects (reported in the evidence, used by the class matcher) *)
Definition c16_offending (out proj : path) (tgt : option path) (changed_files : list path) : list path :=
  filter (fun q => negb (file_change_ok out proj tgt q)) changed_files.
