(* C05 / C18: the recorded defect classes, as boolean predicates on the case (site, mode, mapping,
   Rust type). The same predicates are premises of the theorems in Properties/C05.v, C18.v and
   (extracted) the run-time matcher of known_findings/C05.json. Definitions only. *)
From Coq Require Import String Ascii.
From Coq Require Import List Arith Bool.
Require Import TT.Model.Str TT.Model.TypeParse TT.Spec.TsType TT.Model.Render TT.Model.C05Emit.
Require Import TT.Proofs.TypeParseProofs.   (* sem: the structure a correct parser would return *)
Import ListNotations.
Local Open Scope list_scope.

(* a mapped name renders as its target, which is a primitive of the TypeScript side *)
Fixpoint msubst (m : mapping) (t : tstruct) : tstruct :=
  match t with
  | TPrim p => TPrim p
  | TArr u => TArr (msubst m u)
  | TMap k v => TMap (msubst m k) (msubst m v)
  | TSet u => TSet (msubst m u)
  | TTuple l => TTuple (map (msubst m) l)
  | TOpt u => TOpt (msubst m u)
  | TRes u => TRes (msubst m u)
  | TCustom n => match lookup m n with Some target => TPrim target | None => TCustom n end
  end.

Fixpoint has_custom (t : tstruct) : bool :=
  match t with
  | TPrim _ => false
  | TCustom _ => true
  | TArr u | TSet u | TOpt u | TRes u => has_custom u
  | TMap k v => has_custom k || has_custom v
  | TTuple l => existsb has_custom l
  end.
Fixpoint has_opt (t : tstruct) : bool :=
  match t with
  | TPrim _ | TCustom _ => false
  | TOpt _ => true
  | TArr u | TSet u | TRes u => has_opt u
  | TMap k v => has_opt k || has_opt v
  | TTuple l => existsb has_opt l
  end.
Fixpoint has_set (t : tstruct) : bool :=
  match t with
  | TPrim _ | TCustom _ => false
  | TSet _ => true
  | TArr u | TOpt u | TRes u => has_set u
  | TMap k v => has_set k || has_set v
  | TTuple l => existsb has_set l
  end.
Fixpoint has_res (t : tstruct) : bool :=
  match t with
  | TPrim _ | TCustom _ => false
  | TRes _ => true
  | TArr u | TOpt u | TSet u => has_res u
  | TMap k v => has_res k || has_res v
  | TTuple l => existsb has_res l
  end.

(* ---- add_types_prefix: what it gets right ----
   It understands exactly: a primitive, a name, (primitive | name)[], anything followed by | null,
   and it leaves Record<..> and [..] texts untouched. *)
Fixpoint head_is_map (t : tstruct) : bool :=
  match t with
  | TMap _ _ => true
  | TArr u | TSet u | TOpt u | TRes u => head_is_map u
  | _ => false
  end.
(* element type of a (possibly nested) sequence: what remains under [] [] .. ; Result is transparent *)
Fixpoint seq_core (t : tstruct) : tstruct :=
  match t with
  | TArr u | TSet u => seq_core u
  | TRes u => seq_core u
  | _ => t
  end.
Fixpoint seq_depth (t : tstruct) : nat :=
  match t with
  | TArr u | TSet u => S (seq_depth u)
  | TRes u => seq_depth u
  | _ => 0
  end.
(* 0: handled correctly; 1: a declared name is left without the namespace (inside Record<..> or a
   tuple); 2: the namespace is put in front of something that is not a declared name
   (string[][] , Record<..>[] , [..][]) *)
Fixpoint pfx_class (t : tstruct) : nat :=
  match t with
  | TPrim _ | TCustom _ => 0
  | TRes u => pfx_class u
  | TOpt u => if head_is_map u then (if has_custom u then 1 else 0) else pfx_class u
  | TArr u | TSet u =>
      match seq_core u with
      | TCustom _ => 0                                   (* types.N[][].. is right at any depth *)
      | TPrim _ | TTuple [] => if Nat.eqb (seq_depth u) 0 then 0 else 2
      | _ => 2
      end
  | TTuple [] => 0
  | TMap _ _ | TTuple _ => if has_custom t then 1 else 0
  end.

(* ---- the classes ---- *)
Inductive kclass :=
| KResultComma      (* extract_result_ok_type cuts at the first comma *)
| KTupleComma       (* extract_tuple_types splits at every comma *)
| KUnionUnderSeq    (* T | null[] : no parentheses around a union under [] *)
| KPrefixComposite  (* add_types_prefix in front of a composite element type *)
| KPrefixUnqualified(* add_types_prefix leaves names inside Record<..> / [..] unqualified *)
| KZodOptional      (* schema builder: Option is .optional(), which rejects null *)
| KZodSet           (* schema builder: z.set(..) is not a JSON array *)
| KZodResult.       (* schema builder: z.union([T, z.object({ error })]) is not T *)

Definition in_class (k : kclass) (s : site) (md : mode) (m : mapping) (t : rty) : bool :=
  let ts := msubst m (sem t) in
  match k with
  | KResultComma => kf_result_ok_has_comma t
  | KTupleComma => kf_tuple_elem_has_comma t
  | KUnionUnderSeq => site_is_type s md && kf_union_under_seq ts
  | KPrefixComposite => site_qualified s && Nat.eqb (pfx_class ts) 2
  | KPrefixUnqualified => site_qualified s && Nat.eqb (pfx_class ts) 1
  | KZodOptional => negb (site_is_type s md) && (has_opt ts || match s with SParam => is_optional t | _ => false end)
  | KZodSet => negb (site_is_type s md) && has_set ts
  | KZodResult => negb (site_is_type s md) && has_res ts
  end.

Definition all_classes : list kclass :=
  [KResultComma; KTupleComma; KUnionUnderSeq; KPrefixComposite; KPrefixUnqualified; KZodOptional; KZodSet; KZodResult].
Definition classes_of (s : site) (md : mode) (m : mapping) (t : rty) : list kclass :=
  filter (fun k => in_class k s md m t) all_classes.
Definition kf_C05 (s : site) (md : mode) (m : mapping) (t : rty) : bool :=
  existsb (fun k => in_class k s md m t) all_classes.
