(* C05 / C18: the recorded defect classes, as boolean predicates on the case (site, mode, mapping,
   Rust type). The same predicates are premises of the theorems in Properties/C05.v, C18.v and
   (extracted) the run-time matcher of known_findings/C05.json. Definitions only. *)
From Coq Require Import String Ascii.
From Coq Require Import List Arith Bool.
Require Import TT.Model.Str TT.Model.TypeParse TT.Spec.TsType TT.Model.Render TT.Model.C05Emit.
Require Import TT.Proofs.TypeParseProofs.   (* sem: the structure a correct parser would return *)
Import ListNotations.
Local Open Scope list_scope.

(* a mapped name renders as its target, which is a primitive of the TypeScript side *)
Fixpoint msubst (m : mapping) (t : tstruct) : tstruct :=
  match t with
  | TPrim p => TPrim p
  | TArr u => TArr (msubst m u)
  | TMap k v => TMap (msubst m k) (msubst m v)
  | TSet u => TSet (msubst m u)
  | TTuple l => TTuple (map (msubst m) l)
  | TOpt u => TOpt (msubst m u)
  | TRes u => TRes (msubst m u)
  | TCustom n => match lookup m n with Some target => TPrim target | None => TCustom n end
  end.

Fixpoint has_custom (t : tstruct) : bool :=
  match t with
  | TPrim _ => false
  | TCustom _ => true
  | TArr u | TSet u | TOpt u | TRes u => has_custom u
  | TMap k v => has_custom k || has_custom v
  | TTuple l => existsb has_custom l
  end.
Fixpoint has_opt (t : tstruct) : bool :=
  match t with
  | TPrim _ | TCustom _ => false
  | TOpt _ => true
  | TArr u | TSet u | TRes u => has_opt u
  | TMap k v => has_opt k || has_opt v
  | TTuple l => existsb has_opt l
  end.
Fixpoint has_set (t : tstruct) : bool :=
  match t with
  | TPrim _ | TCustom _ => false
  | TSet _ => true
  | TArr u | TOpt u | TRes u => has_set u
  | TMap k v => has_set k || has_set v
  | TTuple l => existsb has_set l
  end.
Fixpoint has_res (t : tstruct) : bool :=
  match t with
  | TPrim _ | TCustom _ => false
  | TRes _ => true
  | TArr u | TOpt u | TSet u => has_res u
  | TMap k v => has_res k || has_res v
  | TTuple l => existsb has_res l
  end.

(* ---- add_types_prefix (after the repair C05-4-prefix-composite) ----
   It qualifies a name, recurses through T[] and T | null, and leaves Record<..> and [..] texts
   untouched (pinned by unit tests): wrong exactly when, below any number of [] and | null, the text is
   a Record<..> or a tuple that mentions a declared name. *)
Fixpoint spine_core (t : tstruct) : tstruct :=
  match t with
  | TArr u | TSet u | TOpt u | TRes u => spine_core u
  | _ => t
  end.
(* 0: handled correctly; 1: a declared name is left without the namespace *)
Definition pfx_class (t : tstruct) : nat :=
  match spine_core t with
  | TMap _ _ => if has_custom (spine_core t) then 1 else 0
  | TTuple (_ :: _) => if has_custom (spine_core t) then 1 else 0
  | _ => 0
  end.

(* ---- the classes ---- *)
Inductive kclass :=
| KUnionUnderSeq    (* T | null[] : no parentheses around a union under [] *)
| KPrefixUnqualified(* add_types_prefix leaves names inside Record<..> / [..] unqualified *)
| KZodOptional      (* schema builder: Option is .optional(), which rejects null *)
| KZodSet           (* schema builder: z.set(..) is not a JSON array *)
| KZodResult.       (* schema builder: z.union([T, z.object({ error })]) is not T *)

Definition in_class (k : kclass) (s : site) (md : mode) (m : mapping) (t : rty) : bool :=
  let ts := msubst m (sem t) in
  match k with
  | KUnionUnderSeq => site_is_type s md && kf_union_under_seq ts
  | KPrefixUnqualified => site_qualified s && Nat.eqb (pfx_class ts) 1
  | KZodOptional => negb (site_is_type s md) && (has_opt ts || match s with SParam => is_optional t | _ => false end)
  | KZodSet => negb (site_is_type s md) && has_set ts
  | KZodResult => negb (site_is_type s md) && has_res ts
  end.

Definition all_classes : list kclass :=
  [KUnionUnderSeq; KPrefixUnqualified; KZodOptional; KZodSet; KZodResult].
Definition classes_of (s : site) (md : mode) (m : mapping) (t : rty) : list kclass :=
  filter (fun k => in_class k s md m t) all_classes.
Definition kf_C05 (s : site) (md : mode) (m : mapping) (t : rty) : bool :=
  existsb (fun k => in_class k s md m t) all_classes.
