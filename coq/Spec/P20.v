(* C20: boolean checkers used as the run-time oracle on what the
   implementation returned (extracted). Definitions only. *)
From Coq Require Import List Arith Bool.
Require Import TT.Model.Base TT.Model.Topo TT.Model.Kahn.
Import ListNotations.

Section P20.
Context {node : Type} {ED : EqDec node}.

Fixpoint nodup_b (l : list node) : bool :=
  match l with [] => true | x :: r => negb (memb x r) && nodup_b r end.

(* nodes reachable from [todo] (reflexive), by saturation; fuel bounds the
   number of nodes added *)
Fixpoint closure (fuel : nat) (g : Topo.graph node) (acc todo : list node) : list node :=
  match fuel with
  | 0 => acc
  | S f =>
    match todo with
    | [] => acc
    | n :: rest =>
        if memb n acc then closure f g acc rest
        else closure f g (n :: acc) (Topo.deps g n ++ rest)
    end
  end.

Definition sum_len (g : Topo.graph node) : nat :=
  fold_right (fun e a => S (length (snd e)) + a) 0 g.

Definition reach_from (g : Topo.graph node) (roots : list node) : list node :=
  closure (S (length roots + sum_len g + sum_len g)) g [] roots.

Definition reach_b (g : Topo.graph node) (a b : node) : bool := memb b (reach_from g [a]).

Fixpoint index_of (x : node) (l : list node) : option nat :=
  match l with
  | [] => None
  | y :: r => if eq_dec x y then Some 0 else option_map S (index_of x r)
  end.

Definition before_b (v u : node) (l : list node) : bool :=
  match index_of v l, index_of u l with
  | Some i, Some j => Nat.ltb i j
  | _, _ => false
  end.

(* the three clauses of the type-ordering half of C20, on a returned list *)
Definition topo_ok_b (g : Topo.graph node) (req out : list node) : bool :=
  let r := reach_from g req in
  nodup_b out
  && forallb (fun n => memb n r) out
  && forallb (fun n => memb n out) r
  && forallb (fun u => forallb (fun v => reach_b g v u || before_b v u out) (Topo.deps g u)) out.

(* Kahn half *)
Definition graph_of_deps (ns : list node) (deps : list (Kahn.dep node)) : Topo.graph node :=
  map (fun n => (n, map snd (filter (fun d => if eq_dec (fst d) n then true else false) deps))) ns.

Definition acyclic_b (ns : list node) (deps : list (Kahn.dep node)) : bool :=
  let g := graph_of_deps ns deps in
  forallb (fun d => negb (reach_b g (snd d) (fst d))) deps.

Definition kahn_list_ok_b (ns : list node) (deps : list (Kahn.dep node)) (l : list node) : bool :=
  nodup_b l && Nat.eqb (length l) (length ns) && forallb (fun n => memb n l) ns
  && forallb (fun d => before_b (snd d) (fst d) l) deps.

(* [res = Some l] : the resolver returned Ok l; [None] : circular dependency *)
Definition kahn_ok_b (ns : list node) (deps : list (Kahn.dep node)) (res : option (list node)) : bool :=
  match res with
  | Some l => acyclic_b ns deps && kahn_list_ok_b ns deps l
  | None => negb (acyclic_b ns deps)
  end.
End P20.
