(* C04 - observation of the real files: from the token streams (Spec/TsLex.v) of types.ts and
   commands.ts recover, for one command, the parameter schema, the declaration of the Params type
   and the shape of the second argument of invoke, as a Model/C04Model.gen, to which the shared
   resolution C04Model.invoke_keys is then applied.
   Keys are read as the run of tokens in key position, concatenated: an identifier, a number, or
   (since the repair C01-bare-key-quote, for every serialized name that is not an identifier name:
   kebab cases, digit-first keys, the empty key) one double-quoted string literal, whose body is the
   key; the matching access is params.k or params["k"]. A bare non-identifier key (user-id, what the
   tool printed before that repair) would still be reported as written - its validity is C01, not C04.
   Definitions only. *)
From Coq Require Import String Ascii.
From Coq Require Import List Arith Bool.
Require Import TT.Model.Str TT.Spec.TsLex TT.Model.C04Case TT.Model.C04Model.
Import ListNotations.
Local Open Scope list_scope.

Definition tk_text (t : tk) : str :=
  match t with KId s => s | KNum s => s | KP s => s | KStr _ b => b | KTpl b => b | KErr w => w end.
Definition is_p (s : string) (t : tk) : bool := match t with KP p => str_eqb p (L s) | _ => false end.
Definition is_id (s : string) (t : tk) : bool := match t with KId p => str_eqb p (L s) | _ => false end.
Definition opens (t : tk) : bool := is_p "(" t || is_p "[" t || is_p "{" t.
Definition closes (t : tk) : bool := is_p ")" t || is_p "]" t || is_p "}" t.

(* tokens up to the bracket that closes the one already consumed; rest after it *)
Fixpoint take_close (depth : nat) (l : list tk) (acc : list tk) : option (list tk * list tk) :=
  match l with
  | [] => None
  | c :: r =>
      if opens c then take_close (S depth) r (c :: acc)
      else if closes c then match depth with 0 => Some (rev acc, r) | S d => take_close d r (c :: acc) end
      else take_close depth r (c :: acc)
  end.
(* split at a separator at bracket depth 0 *)
Fixpoint split_top (sep : string) (depth : nat) (l : list tk) (cur : list tk) : list (list tk) :=
  match l with
  | [] => [rev cur]
  | c :: r =>
      if opens c || is_p "<" c then split_top sep (S depth) r (c :: cur)          (* < > of type arguments count as brackets here *)
      else if closes c || is_p ">" c then split_top sep (pred depth) r (c :: cur)
      else if is_p sep c && Nat.eqb depth 0 then rev cur :: split_top sep depth r []
      else split_top sep depth r (c :: cur)
  end.
(* skip <...> after invoke *)
Fixpoint skip_angle (depth : nat) (l : list tk) : option (list tk) :=
  match l with
  | [] => None
  | c :: r => if is_p "<" c then skip_angle (S depth) r
              else if is_p ">" c then match depth with 0 => None | 1 => Some r | S d => skip_angle d r end
              else skip_angle depth r
  end.

(* the run of tokens before the first ? or : ; returns key text, optional flag, tokens after the colon *)
Fixpoint key_run (l : list tk) (acc : str) : option (str * bool * list tk) :=
  match l with
  | [] => None
  | c :: r =>
      if is_p ":" c then Some (acc, false, r)
      else if is_p "?" c then match r with c2 :: r2 => if is_p ":" c2 then Some (acc, true, r2) else None | [] => None end
      else key_run r (acc ++ tk_text c)
  end.

(* interface body (tokens between the braces): key[?]: type; ... ; index signatures are skipped *)
Definition member_of (chunk : list tk) : option (list (str * bool)) :=
  match chunk with
  | [] => Some []
  | c :: _ => if is_p "[" c then Some []
              else match key_run chunk [] with Some (k, o, _) => Some [(k, o)] | None => None end
  end.
Fixpoint concatM {A} (l : list (option (list A))) : option (list A) :=
  match l with
  | [] => Some []
  | Some x :: r => match concatM r with Some y => Some (x ++ y) | None => None end
  | None :: _ => None
  end.
Definition members_of (body : list tk) : option (list (str * bool)) :=
  concatM (map member_of (split_top ";" 0 body [])).

(* z.object({ key: expr[.optional()], ... }) *)
Definition ends_optional (v : list tk) : bool :=
  match rev v with
  | c4 :: c3 :: c2 :: c1 :: _ => is_p ")" c4 && is_p "(" c3 && is_id "optional" c2 && is_p "." c1
  | _ => false
  end.
Definition prop_of (chunk : list tk) : option (list (str * bool)) :=
  match chunk with
  | [] => Some []
  | _ => match key_run chunk [] with
         | Some (k, false, v) => Some [(k, ends_optional v)]
         | _ => None
         end
  end.
Definition props_of (body : list tk) : option (list (str * bool)) :=
  concatM (map prop_of (split_top "," 0 body [])).

(* first suffix of l that follows the token pattern pat (identifiers and punctuators compared by text) *)
Definition tk_same (a b : tk) : bool :=
  match a, b with
  | KId x, KId y => str_eqb x y
  | KP x, KP y => str_eqb x y
  | _, _ => false
  end.
Fixpoint strip_pat (pat l : list tk) : option (list tk) :=
  match pat, l with
  | [], _ => Some l
  | a :: p', b :: l' => if tk_same a b then strip_pat p' l' else None
  | _, [] => None
  end.
Fixpoint after (pat l : list tk) : option (list tk) :=
  match strip_pat pat l with
  | Some r => Some r
  | None => match l with [] => None | _ :: l' => after pat l' end
  end.
Definition I (s : string) : tk := KId (L s).
Definition Pn (s : string) : tk := KP (L s).

(* name following typeof in a token run *)
Fixpoint typeof_name (l : list tk) : option str :=
  match l with
  | KId a :: ((KId b :: _) as r) => if str_eqb a (L "typeof") then Some b else typeof_name r
  | _ :: r => typeof_name r
  | [] => None
  end.
Fixpoint until_p (s : string) (l : list tk) (acc : list tk) : option (list tk * list tk) :=
  match l with
  | [] => None
  | c :: r => if is_p s c then Some (rev acc, r) else until_p s r (c :: acc)
  end.

(* declaration of type T in types.ts: (decl, name of the schema it refers to) *)
Definition find_decl (types : list tk) (T : str) : option (decl * option str) :=
  match after [I "export"; I "interface"; KId T] types with
  | Some r =>
      match until_p "{" r [] with
      | Some (hd, r1) =>
          match take_close 0 r1 [] with
          | Some (body, _) =>
              match members_of body with
              | Some ms =>
                  match hd with
                  | [] => Some (DInterface false ms, None)
                  | h :: _ => if is_id "extends" h then
                                match typeof_name hd with Some s => Some (DInterface true ms, Some s) | None => None end
                              else None
                  end
              | None => None
              end
          | None => None
          end
      | None => None
      end
  | None =>
      match after [I "export"; I "type"; KId T; Pn "="] types with
      | Some r => match until_p ";" r [] with
                  | Some (rhs, _) => match typeof_name rhs with Some s => Some (DAlias, Some s) | None => None end
                  | None => None
                  end
      | None => Some (DNone, None)
      end
  end.
Definition find_schema (types : list tk) (S : str) : option (list (str * bool)) :=
  match after [I "export"; I "const"; KId S; Pn "="; I "z"; Pn "."; I "object"; Pn "("; Pn "{"] types with
  | Some r => match take_close 0 r [] with Some (body, _) => props_of body | None => None end
  | None => None
  end.

(* ---- commands.ts: the invoke call of command name, with the Params type and the validating schema
        of the enclosing wrapper ---- *)
Inductive argshape := ANone | AParams | AResultData | ASpread (ks : list str).
Definition concat_text (l : list tk) : str := concat (map tk_text l).
(* value of an explicit property: params.k  or  params['k'] *)
Definition value_is_params_key (k : str) (v : list tk) : bool :=
  match v with
  | p :: d :: rest => is_id "params" p &&
      ((is_p "." d && str_eqb (concat_text rest) k) ||
       match d, rest with
       | KP o, [KStr _ b; c] => str_eqb o (L "[") && is_p "]" c && str_eqb b k
       | _, _ => false end)
  | _ => false
  end.
Definition is_result_data (v : list tk) : bool :=
  match v with [a; b; c] => is_id "result" a && is_p "." b && is_id "data" c | _ => false end.
(* entries of an object literal: exactly one spread of result.data, every other entry k: params.k *)
Fixpoint lit_entries (chunks : list (list tk)) (spreads : nat) (ks : list str) : option (nat * list str) :=
  match chunks with
  | [] => Some (spreads, rev ks)
  | [] :: r => lit_entries r spreads ks
  | (c :: v) :: r =>
      if is_p "..." c then (if is_result_data v then lit_entries r (S spreads) ks else None)
      else match key_run (c :: v) [] with
           | Some (k, false, val) => if value_is_params_key k val then lit_entries r spreads (k :: ks) else None
           | _ => None
           end
  end.
Definition classify_arg (a : list tk) : option argshape :=
  match a with
  | [p] => if is_id "params" p then Some AParams else None
  | c :: r =>
      if is_result_data a then Some AResultData
      else if is_p "{" c then
        match take_close 0 r [] with
        | Some (body, []) =>
            match lit_entries (split_top "," 0 body []) 0 [] with
            | Some (1, ks) => Some (ASpread ks)
            | _ => None
            end
        | _ => None
        end
      else None
  | [] => None
  end.

(* after the identifier invoke: [<..>] ( 'name' [, arg] ) *)
Definition invoke_args (l : list tk) : option (str * option (list tk)) :=
  let l1 := match l with c :: _ => if is_p "<" c then skip_angle 0 l else Some l | [] => None end in
  match l1 with
  | Some (o :: KStr _ name :: r) =>
      if is_p "(" o then
        match take_close 0 r [] with
        | Some ([], _) => Some (name, None)
        | Some (c :: arg, _) => if is_p "," c then Some (name, Some arg) else None
        | None => None
        end
      else None
  | _ => None
  end.

Record site := { s_T : option str; s_S : option str; s_arg : argshape }.
(* left-to-right scan remembering the Params type of the current function and the schema that parsed params *)
Fixpoint scan (fuel : nat) (name : str) (l : list tk) (T S : option str) (acc : list (option site)) : list (option site) :=
  match fuel with 0 => acc | S f =>
  match l with
  | [] => acc
  | c :: r =>
      if is_id "function" c then
        match r with
        | KId _ :: o :: KId p :: col :: KId t :: d :: KId tn :: _ =>
            if is_p "(" o && str_eqb p (L "params") && is_p ":" col && str_eqb t (L "types") && is_p "." d
            then scan f name r (Some tn) None acc else scan f name r None None acc
        | _ => scan f name r None None acc
        end
      else if is_id "const" c then
        match strip_pat [I "result"; Pn "="; I "types"; Pn "."] r with
        | Some (KId sn :: r2) =>
            match strip_pat [Pn "."; I "safeParse"; Pn "("; I "params"; Pn ")"] r2 with
            | Some _ => scan f name r T (Some sn) acc
            | None => scan f name r T S acc
            end
        | _ => scan f name r T S acc
        end
      else if is_id "invoke" c then
        match invoke_args r with
        | Some (nm, arg) =>
            if str_eqb nm name then
              let shape := match arg with None => Some ANone | Some a => classify_arg a end in
              scan f name r T S (match shape with
                                 | Some sh => Some {| s_T := T; s_S := S; s_arg := sh |}
                                 | None => None end :: acc)
            else scan f name r T S acc
        | None => scan f name r T S acc          (* the import of invoke, or not a call *)
        end
      else scan f name r T S acc
  end end.

Inductive obs_err := ENoCall | EManyCalls | EArg | EDecl | ESchema | ESchemaMismatch | ELex.
Inductive obs_res := ObsErr (e : obs_err) | ObsGen (g : gen).

Definition observe_toks (types commands : list tk) (name : str) : obs_res :=
  if has_err types || has_err commands then ObsErr ELex else
  match scan (S (List.length commands)) name commands None None [] with
  | [] => ObsErr ENoCall
  | [None] => ObsErr EArg
  | [Some s] =>
      let dres := match s_T s with Some T => find_decl types T | None => Some (DNone, None) end in
      match dres with
      | None => ObsErr EDecl
      | Some (d, dS) =>
          (* the schema: named by safeParse and/or by the declaration; they must agree *)
          let sname := match s_S s, dS with
                       | Some a, Some b => if str_eqb a b then Some (Some a) else None
                       | Some a, None => Some (Some a)
                       | None, Some b => Some (Some b)
                       | None, None => Some None end in
          match sname with
          | None => ObsErr ESchemaMismatch
          | Some None =>
              ObsGen {| g_schema := None; g_decl := d;
                        g_call := match s_arg s with ANone => CNoArg | AParams => CParams
                                                   | AResultData => CResultData | ASpread ks => CSpread ks end |}
          | Some (Some sn) =>
              match find_schema types sn with
              | None => ObsErr ESchema
              | Some sc =>
                  ObsGen {| g_schema := Some sc; g_decl := d;
                            g_call := match s_arg s with ANone => CNoArg | AParams => CParams
                                                       | AResultData => CResultData | ASpread ks => CSpread ks end |}
              end
          end
      end
  | _ => ObsErr EManyCalls
  end.
Definition observe (types_ts commands_ts : str) (name : str) : obs_res :=
  observe_toks (lex_module types_ts) (lex_module commands_ts) name.
