(* C12, binding histories: the per-function symbol table of event_parser.rs as a state machine over
   the statements that precede an emit.  bind is one step (extract_local_binding, Model/Events.v
   bind_local), run the fold, infer the payload inference under the resulting table.  The class
   C12-scope (and finding C05-10) is restated in terms of the HISTORY of the bindings of one name:
   the last binding before the emit is un-typable while an earlier one (or a parameter) left an
   entry.  Definitions only. *)
From Coq Require Import String Ascii List Arith Bool.
Require Import TT.Model.Str TT.Model.TypeParse TT.Model.Events TT.Spec.C12Spec.
Import ListNotations.
Local Open Scope list_scope.

(* one step: only a let statement touches the table *)
Definition bind (sy : symtab) (s : stmt) : symtab :=
  match s with SLet p init => bind_local p init sy | _ => sy end.
Definition run (sy : symtab) (ss : list stmt) : symtab := fold_left bind ss sy.
Definition infer (sy : symtab) (e : expr) : str := infer_payload e sy.

Definition pat_name (p : pat) : option str :=
  match p with PIdent v => Some v | PTyped v _ => Some v | POther => None end.
(* s is a let that binds the name x (whatever the tool makes of it) *)
Definition rebinds (x : str) (s : stmt) : bool :=
  match s with
  | SLet p _ => match pat_name p with Some v => str_eqb x v | None => false end
  | _ => false end.
(* the type the tool records for x at s under the table sy: None when s does not bind x or is
   un-typable for the tool (no annotation and an initialiser it cannot read, or no initialiser) *)
Definition typed_as (x : str) (s : stmt) (sy : symtab) : option str :=
  match s with
  | SLet (PTyped v t) _ => if str_eqb x v then Some (type_name t) else None
  | SLet (PIdent v) (Some i) =>
      if str_eqb x v then (if str_eqb (infer_init i sy) unknown then None else Some (infer_init i sy)) else None
  | _ => None end.

(* the last binding of x along the run: None = x is not bound by ss; Some None = the last binding is
   un-typable; Some (Some t) = the last binding is typable and records t *)
Fixpoint last_kind (x : str) (sy : symtab) (ss : list stmt) : option (option str) :=
  match ss with
  | [] => None
  | s :: r => match last_kind x (bind sy s) r with
              | Some k => Some k
              | None => if rebinds x s then Some (typed_as x s sy) else None end
  end.
(* the last TYPABLE binding of x along the run *)
Fixpoint last_typable (x : str) (sy : symtab) (ss : list stmt) : option str :=
  match ss with
  | [] => None
  | s :: r => match last_typable x (bind sy s) r with Some t => Some t | None => typed_as x s sy end
  end.

(* the class C12-scope / C05-10 on a history: the last binding of x before the emit is un-typable and
   the table still answers (a parameter or an earlier typable binding of the same name left an entry) *)
Definition kf_bind_scope (x : str) (sy : symtab) (ss : list stmt) : bool :=
  match last_kind x sy ss with
  | Some None => match lookup x (run sy ss) with Some _ => true | None => false end
  | _ => false end.
(* the neighbouring class C12-name on a history: no entry at all (the name itself becomes the type) *)
Definition kf_bind_name (x : str) (sy : symtab) (ss : list stmt) : bool :=
  match lookup x (run sy ss) with Some _ => false | None => true end.

(* statements whose visit leaves the table to bind alone and yields no event: the initialiser /
   expression has no method call and no nested statement list at its top *)
Definition plain (e : expr) : bool :=
  match e with
  | XPath _ | XField _ _ | XLit _ | XStruct _ | XRef _ | XCall _ _ | XTuple _ | XOther => true
  | _ => false end.
Definition plain_stmt (s : stmt) : bool :=
  match s with SExpr e => plain e | SLet _ (Some i) => plain i | SLet _ None => true | SOther => true end.
(* the payload is the variable x, possibly under & and .clone() *)
Fixpoint var_payload (x : str) (e : expr) : bool :=
  match e with
  | XPath [y] => str_eqb x y
  | XRef u => var_payload x u
  | XMethod r m [] => str_eqb m (L "clone") && var_payload x r
  | _ => false end.
Definition emit_stmt (n : str) (p : expr) : stmt :=
  SExpr (XMethod (XPath [L "app"]) (L "emit") [XLit (LStr n); p]).
(* the type string a history leaves for x: the last typable binding, else what was there before *)
Definition hist_type (x : str) (sy : symtab) (ss : list stmt) : str :=
  match last_typable x sy ss with
  | Some t => t
  | None => match lookup x sy with Some t => t | None => unraw x end end.
