(* C08 round 7: run-time comparison of the text level with the files the real tool writes: the token stream of the
   real types.ts / commands.ts (specification lexer) against the text-level model applied to the analysed data
   (types_toks_a / commands_toks_a, which C08_types_ts_of_analysis ties to Pipeline.v), events.ts as text. *)
From Coq Require Import String Ascii List Arith Bool.
Require TT.Model.Events.
Require Import TT.Model.Str TT.Spec.TsLex TT.Model.C08Fingerprint TT.Model.C08Text.
Import ListNotations.
Local Open Scope list_scope.

Definition tk_eqb8 (a b : tk) : bool :=
  match a, b with
  | KId x, KId y | KNum x, KNum y | KTpl x, KTpl y | KP x, KP y | KErr x, KErr y => str_eqb x y
  | KStr q x, KStr r y => Ascii.eqb q r && str_eqb x y
  | _, _ => false
  end.
(* None = equal; Some i = position of the first difference *)
Fixpoint tks_diff (i : nat) (a b : list tk) : option nat :=
  match a, b with
  | [], [] => None
  | x :: a', y :: b' => if tk_eqb8 x y then tks_diff (S i) a' b' else Some i
  | _, _ => Some i
  end.
Definition model_types (w : sched) (p : project) (c : config) : list tk :=
  types_toks_a (a_structs_sorted (analyse w p)) (a_cmds_sorted (g_ppath c) (analyse w p)).
Definition model_commands (w : sched) (p : project) (c : config) : list tk :=
  commands_toks_a (a_cmds_sorted (g_ppath c) (analyse w p)).
Definition model_events (w : sched) (p : project) (c : config) : str :=
  TT.Model.Events.events_text (TT.Model.Events.map_events (sorted_maps c) (ev_pairs (a_events (analyse w p)))).
Definition text_check (w : sched) (p : project) (c : config) (types_real commands_real : str) : option nat * option nat :=
  (tks_diff 0 (lex_module types_real) (model_types w p c), tks_diff 0 (lex_module commands_real) (model_commands w p c)).
Definition events_check (w : sched) (p : project) (c : config) (events_real : str) : bool :=
  match tks_diff 0 (lex_module events_real) (lex_module (model_events w p c)) with None => true | Some _ => false end.
