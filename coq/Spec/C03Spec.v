(* C03 - specification: which functions must have a wrapper, stated on path COMPONENTS
   (never on substrings of a path string); domain predicate for layouts (no recorded class
   is left: C03-1 and C03-2 are repaired); the observation read back from commands.ts through the module parser; the
   boolean oracle. *)
From Coq Require Import String Ascii.
From Coq Require Import List Arith Bool Permutation.
Require Import TT.Model.Str TT.Model.Pipeline TT.Spec.TsLex TT.Spec.TsModule TT.Model.C03Discover.
Import ListNotations.
Local Open Scope list_scope.

(* ---- ground truth ---- *)
Definition seg_is (s : string) (x : str) : bool := str_eqb x (L s).
(* the attribute path is tauri::command or command (arguments, if any, are not looked at) *)
Definition command_attr (path : list str) : bool :=
  match path with
  | [a; b] => seg_is "tauri" a && seg_is "command" b
  | [a] => seg_is "command" a
  | _ => false
  end.
Definition annotated (f : fn_def) : bool := existsb command_attr (fn_attrs f).
Definition top_level_annotated (items : list ritem) : list fn_def :=
  flat_map (fun it => match it with RFn f => if annotated f then [f] else [] | _ => [] end) items.

(* file name stem.rs with a non-empty stem *)
Definition rs_name (name : str) : bool :=
  starts (rev (L ".rs")) (rev name) && (4 <=? List.length name).
Definition excluded_dir (d : str) : bool := seg_is "target" d || seg_is ".git" d.

(* the text of a Rust source file may start with a byte order mark, then a shebang line; before
   the first item there may be white space, comments and inner attributes, nothing else
   (a frontmatter block is not stable Rust; a shebang or a BOM anywhere else is an error) *)
Definition pro_is_trivia (x : pro) : bool :=
  match x with PInnerAttr | PDocInner | PBlank | PComment => true | _ => false end.
Definition rust_prologue_ok (l : list pro) : bool :=
  let l := match l with PBom :: r => r | _ => l end in
  let l := match l with PShebang :: r => r | _ => l end in
  forallb pro_is_trivia l.
(* the items of an entry that is a Rust source file, None when it fails to parse *)
Definition spec_content (c : content) : option (list ritem) :=
  match c with
  | Parsed items => Some items
  | Source p items => if rust_prologue_ok p then Some items else None
  | Unparsable | NotUtf8 => None
  end.
Definition spec_entry (dirs : list str) (name : str) (c : content) : list (list str * fn_def) :=
  match spec_content c with
  | Some items =>
      if rs_name name && negb (existsb excluded_dir dirs)
      then map (fun f => (dirs ++ [name], f)) (top_level_annotated items) else []
  | None => []
  end.

Fixpoint spec_node (dirs : list str) (n : node) : list (list str * fn_def) :=
  match n with
  | NFile name c => spec_entry dirs name c
  | NDir name ch => flat_map (spec_node (dirs ++ [name])) ch
  (* an entry named stem.rs that is a symbolic link to a regular file IS an .rs file under the
     project path (it is one for every program that opens it); its place is that of the link *)
  | NLink name (LFile c) => spec_entry dirs name c
  (* under the project path, recursively = the directory tree proper: a link to a directory is
     not a directory of the tree (following it could leave the project or loop), a dangling
     link is no file *)
  | NLink _ _ => []
  end.
Definition spec_nodes (dirs : list str) (l : layout) := flat_map (spec_node dirs) l.
(* every (file components, function) that must get exactly one wrapper *)
Definition annotated_spec (l : layout) : list (list str * fn_def) := spec_nodes [] l.
(* the Rust name of a function declared with a raw identifier (fn r#type) is the identifier
   without the r# marker (type) *)
Definition rust_name (ident : str) : str :=
  match ident with
  | a :: b :: rest => if Ascii.eqb a "r" && Ascii.eqb b "#" then rest else ident
  | _ => ident
  end.
Definition spec_obs (pf : list str * fn_def) : str * str := (rust_name (fn_name (snd pf)), promise_of (snd pf)).

(* the same on the list of walked files; C03Proofs.spec_walk shows the two agree *)
Definition spec_accept (comps : list str) : bool :=
  rs_name (last comps []) && negb (existsb excluded_dir (removelast comps)).
Definition spec_files (files : list (list str * content)) : list (list str * fn_def) :=
  flat_map (fun pc => match snd pc with
                      | Parsed items => if spec_accept (fst pc) then map (fun f => (fst pc, f)) (top_level_annotated items) else []
                      | _ => [] end) files.

(* ---- domain: names are real directory entry names; siblings are distinct ---- *)
Definition slash_free (s : str) : bool := negb (existsb (Ascii.eqb slash) s).
Definition name_ok (s : str) : bool :=
  slash_free s && negb (str_eqb s []) && negb (seg_is "." s) && negb (seg_is ".." s).
Definition node_name (n : node) : str := match n with NFile s _ => s | NDir s _ => s | NLink s _ => s end.
Fixpoint nodup_b (l : list str) : bool :=
  match l with [] => true | x :: r => negb (existsb (str_eqb x) r) && nodup_b r end.
(* a text starts with at most one byte order mark (with two, syn and rustc disagree: the lexer
   behind syn::parse_file strips a second one, rustc does not; outside the domain) *)
Definition content_ok (c : content) : bool :=
  match c with Source (PBom :: PBom :: _) _ => false | _ => true end.
Fixpoint node_ok (n : node) : bool :=
  match n with
  | NFile name c => name_ok name && content_ok c
  | NDir name ch => name_ok name && forallb node_ok ch && nodup_b (map node_name ch)
  | NLink name (LFile c) => name_ok name && content_ok c
  | NLink name _ => name_ok name
  end.
Definition layout_ok (l : layout) : bool := forallb node_ok l && nodup_b (map node_name l).

(* ---- recorded class ---- *)
(* C03-3: a run of the CLI on a tree without any discovered command while the output directory
   holds the wrappers of an earlier run: the tool returns early and the stale commands.ts keeps
   exporting wrappers for commands that no longer exist *)
Definition stale_step (root : str) (s : step) (st : option (list cmd)) : bool :=
  match s_route s, analyze root (s_tree s), st with
  | RCli, [], Some (_ :: _) => true
  | _, _, _ => false
  end.
Fixpoint kf_cli_stale (root : str) (st : option (list cmd)) (steps : list step) : bool :=
  match steps with
  | [] => false
  | s :: r => stale_step root s st || kf_cli_stale root (run_step root s st) r
  end.

(* ---- observation: the wrappers of a commands.ts, read through Spec/TsModule ---- *)
Fixpoint show_ty (t : ty) : str :=
  match t with
  | TyRef path args =>
      join (L ".") path ++ match args with [] => [] | _ => L "<" ++ join (L ", ") (map show_ty args) ++ L ">" end
  | TyArr u => L "(" ++ show_ty u ++ L ")[]"
  | TyTuple ts => L "[" ++ join (L ", ") (map show_ty ts) ++ L "]"
  | TyUnion ts => L "(" ++ join (L " | ") (map show_ty ts) ++ L ")"
  | TyLit s => L "lit:" ++ s
  | TyTypeof p => L "typeof " ++ join (L ".") p
  | TyFun ps r => L "fn(" ++ join (L ", ") (map (fun p => match p with (_, t') => show_ty t' end) ps) ++ L ") => " ++ show_ty r
  | TyObj ms ix => L "{" ++ join (L "; ") (map (fun m => match m with (_, t') => show_ty t' end) ms)
                   ++ L " # " ++ join (L "; ") (map (fun m => match m with (_, t') => show_ty t' end) ix) ++ L "}"
  end.
(* canonical form of a type text: parse it with the specification parser, print it back *)
Definition canon_type (text : str) : str :=
  match ptype (lex_module text) with
  | Some (t, []) => show_ty t
  | _ => L "<unparsable:" ++ text ++ L ">"
  end.

(* skip a balanced type argument list; the opening angle bracket is already consumed *)
Fixpoint skip_angle (depth : nat) (l : list tk) : list tk :=
  match l with
  | [] => []
  | c :: r => if tk_is ">" c then match depth with 0 => r | S d => skip_angle d r end
              else if tk_is "<" c then skip_angle (S depth) r else skip_angle depth r
  end.
(* first arguments of the calls of invoke in a body; None = not a string literal *)
Fixpoint invokes (l : list tk) : list (option str) :=
  match l with
  | [] => []
  | KId i :: r =>
      if str_eqb i (L "invoke") then
        let after := match r with c :: r' => if tk_is "<" c then skip_angle 0 r' else r | [] => r end in
        match after with
        | c :: KStr _ s :: _ => if tk_is "(" c then Some s :: invokes r else None :: invokes r
        | c :: _ => if tk_is "(" c then None :: invokes r else invokes r
        | [] => invokes r
        end
      else invokes r
  | _ :: r => invokes r
  end.

Record wrapper_obs := { wo_fn : str; wo_invokes : list (option str); wo_ret : str }.
Definition wrappers_of (m : list item) : list wrapper_obs :=
  flat_map (fun it => match it with
                      | IFunction _ name _ ret body =>
                          [{| wo_fn := name; wo_invokes := invokes body;
                              wo_ret := match ret with Some t => show_ty t | None => L "<none>" end |}]
                      | _ => [] end) m.
(* None: the file is not a module of the emitted subset *)
Definition read_wrappers (commands_ts : str) : option (list wrapper_obs) :=
  option_map wrappers_of (parse_module commands_ts).

(* ---- oracle ---- *)
Definition pair_eqb (a b : str * str) : bool := str_eqb (fst a) (fst b) && str_eqb (snd a) (snd b).
Fixpoint remove_one (x : str * str) (l : list (str * str)) : option (list (str * str)) :=
  match l with
  | [] => None
  | y :: r => if pair_eqb x y then Some r else option_map (cons y) (remove_one x r)
  end.
Fixpoint perm_b (a b : list (str * str)) : bool :=
  match a with
  | [] => match b with [] => true | _ => false end
  | x :: a' => match remove_one x b with Some b' => perm_b a' b' | None => false end
  end.
(* each exported function invokes exactly one literal command name, and the multiset of
   (invoke name, canonical return type) is the expected one *)
Definition one_invoke (w : wrapper_obs) : option (str * str) :=
  match wo_invokes w with [Some s] => Some (s, wo_ret w) | _ => None end.
Definition c03_ok (expected : list (str * str)) (obs : option (list wrapper_obs)) : bool :=
  match obs with
  | None => false
  | Some ws => match mapM one_invoke ws with
               | Some pairs => perm_b pairs expected
               | None => false end
  end.
Definition canon_pairs (l : list (str * str)) : list (str * str) := map (fun p => (fst p, canon_type (snd p))) l.
