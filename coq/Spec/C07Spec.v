(* C07: specification (reachable serde types), observation of types.ts, oracle, known classes, domain.
   Definitions only. The specification does not use the two string scanners of the implementation:
   it reads names off the syntax tree of the types. *)
From Coq Require Import String Ascii.
From Coq Require Import List Arith Bool.
Require Import TT.Model.Base TT.Model.Str TT.Model.C07TypeParse TT.Model.C07Harvest TT.Model.C07Worklist TT.Model.C07Reach.
Require Import TT.Spec.TsLex TT.Spec.TsModule TT.Spec.TsObs.
Import ListNotations.
Local Open Scope list_scope.

(* ---------------- specification ---------------- *)
(* every path name a type mentions (last segment), container heads included: they are filtered out
   later by the restriction to project-defined types *)
Fixpoint leaf_names (q : cty) : list str :=
  match q with
  | CPath _ n _ args => n :: flat_map leaf_names args
  | CRef t => leaf_names t
  | CTuple ts => flat_map leaf_names ts
  end.
(* for return types: only the success arm of a Result *)
Fixpoint ok_names (q : cty) : list str :=
  match q with
  | CPath _ n _ args =>
      if str_eqb n (L "Result") then match args with a :: _ => ok_names a | [] => [] end
      else n :: flat_map ok_names args
  | CRef t => ok_names t
  | CTuple ts => flat_map ok_names ts
  end.

(* a project-defined serde type: derives Serialize or Deserialize *)
Definition serde_def (d : tdef) : bool :=
  existsb (fun x => str_eqb x (L "Serialize") || str_eqb x (L "Deserialize")
                    || str_eqb x (L "serde::Serialize") || str_eqb x (L "serde::Deserialize")) (d_derives d).
(* every type definition of the project, those inside inline modules included *)
Definition item_defs (it : C07Reach.item) : list tdef := match it with IDef d => [d] | IMod ds => ds | _ => [] end.
Definition spec_defs (p : project) : list tdef := flat_map (fun f => flat_map item_defs (snd f)) p.
Definition nested_defs (p : project) : list tdef :=
  flat_map (fun f => flat_map (fun it => match it with IMod ds => ds | _ => [] end) (snd f)) p.
Definition spec_lookup (p : project) (n : str) : option tdef := find (fun d => serde_def d && str_eqb (d_name d) n) (spec_defs p).
Definition spec_defined (p : project) (n : str) : bool := match spec_lookup p n with Some _ => true | None => false end.
Definition spec_succ (p : project) (n : str) : list str :=
  match spec_lookup p n with
  | Some d => match d_kind d with
              | DStruct fs => flat_map (fun f => leaf_names (f_ty f)) (filter (fun f => negb (f_skip f)) fs)
              | _ => [] end
  | None => []
  end.

(* the declared type of the payload variable (references stripped), or the struct literal's name *)
Fixpoint lookup_param (v : str) (ps : list (str * cty)) : option cty :=
  match ps with
  | [] => None
  | (n, t) :: r => match lookup_param v r with Some x => Some x | None => if str_eqb n v then Some t else None end
  end.
Definition payload_names (f : fndef) (e : pay) : list str :=
  match e with
  | PVar v => match lookup_param v (fn_params f) with Some t => leaf_names t | None => [] end
  | PStruct n => [n]
  | POther => []
  | PVariant e _ _ => [e]                            (* the payload is a value of the enum *)
  | PNew _ n => [n]
  end.
Definition event_roots (p : project) : list str := flat_map (fun f => flat_map (payload_names f) (fn_emits f)) (all_fns p).
Definition command_roots (p : project) : list str :=
  flat_map (fun c => flat_map leaf_names (cmd_channels c) ++ flat_map leaf_names (cmd_params c)
                     ++ match fn_ret c with Some t => ok_names t | None => [] end) (commands p).
Definition spec_fuel (p : project) (roots : list str) : nat :=
  S (List.length roots + list_sum (map (fun d => S (List.length (spec_succ p (d_name d)))) (spec_defs p))).
Definition reach_from (p : project) (roots : list str) : list str :=
  match work str_dec (spec_succ p) (spec_defined p) (spec_defined p) (spec_fuel p roots) roots [] with
  | Some l => l | None => [] end.
Definition reachable_spec (p : project) : list str := reach_from p (command_roots p ++ event_roots p).

(* the dependency graph of the property text, restricted to reachable types; acyclicity for C09 *)
Definition spec_edges (p : project) (n : str) : list str := filter (spec_defined p) (spec_succ p n).
Fixpoint reaches (fuel : nat) (p : project) (from target : str) : bool :=
  match fuel with
  | 0 => false
  | S f => existsb (fun m => str_eqb m target || reaches f p m target) (spec_edges p from)
  end.
Definition spec_acyclic (p : project) : bool :=
  forallb (fun d => negb (reaches (S (List.length (spec_defs p))) p (d_name d) (d_name d))) (filter serde_def (spec_defs p)).

(* ---------------- observation of types.ts (token level: robust against unparsable right-hand sides) ---------------- *)
Inductive dk := DkInterface | DkType | DkConst.
Local Open Scope string_scope.
Definition kp_in (s : str) (l : list string) : bool := existsb (fun x => str_eqb s (L x)) l.
Definition decl_of (k n : str) : list (dk * str) :=
  if str_eqb k (L "interface") then [(DkInterface, n)]
  else if str_eqb k (L "type") then [(DkType, n)]
  else if str_eqb k (L "const") then [(DkConst, n)] else [].
Fixpoint scan_decls (depth : nat) (l : list tk) : list (dk * str) :=
  match l with
  | [] => []
  | t :: r =>
    match t with
    | KP s => if kp_in s ["{"; "("; "["] then scan_decls (S depth) r
              else if kp_in s ["}"; ")"; "]"] then scan_decls (pred depth) r else scan_decls depth r
    | KId e => (if Nat.eqb depth 0 && str_eqb e (L "export")
                then match r with KId k :: KId n :: _ => decl_of k n | _ => [] end else [])
               ++ scan_decls depth r
    | _ => scan_decls depth r
    end
  end.
Definition ends_in (suffix : string) (s : str) : bool := starts (rev (L suffix)) (rev s).
Definition drop_suffix (suffix : string) (s : str) : str := firstn (List.length s - String.length suffix) s.

Record obs := { ob_types : list str;       (* struct / enum declarations, with multiplicity, in file order *)
                ob_aliases : list str;     (* zod mode: the z.infer aliases next to the schemas *)
                ob_parsed : bool }.
(* plain mode: interfaces and aliases whose name does not end in Params *)
Definition observe_plain (text : str) : obs :=
  let ds := scan_decls 0 (lex_module text) in
  {| ob_types := flat_map (fun d => match d with
                                    | (DkInterface, n) | (DkType, n) => if ends_in "Params" n then [] else [n]
                                    | _ => [] end) ds;
     ob_aliases := [];
     ob_parsed := match parse_module text with Some _ => true | None => false end |}.
(* Zod mode: constants XSchema (not XParamsSchema) declare X *)
Definition observe_zod (text : str) : obs :=
  let ds := scan_decls 0 (lex_module text) in
  {| ob_types := flat_map (fun d => match d with
                                    | (DkConst, n) => if ends_in "Schema" n && negb (ends_in "ParamsSchema" n)
                                                      then [drop_suffix "Schema" n] else []
                                    | _ => [] end) ds;
     ob_aliases := flat_map (fun d => match d with
                                      | (DkInterface, n) | (DkType, n) => if ends_in "Params" n then [] else [n]
                                      | _ => [] end) ds;
     ob_parsed := match parse_module text with Some _ => true | None => false end |}.
Local Close Scope string_scope.

(* ---------------- oracle ---------------- *)
Definition subset_b (a b : list str) : bool := forallb (fun x => smemb x b) a.
Definition same_set_b (a b : list str) : bool := subset_b a b && subset_b b a.
Definition nodup_b (l : list str) : bool := negb (has_dup l).
(* exactly once each, precisely the reachable ones; aliases at most once and only for declared types *)
Definition c07_ok (expected : list str) (o : obs) : bool :=
  nodup_b (ob_types o) && same_set_b (ob_types o) expected
  && nodup_b (ob_aliases o) && subset_b (ob_aliases o) (ob_types o).
Definition c07_corr (model : option (list str)) (o : obs) : bool :=
  match model with Some m => same_set_b (ob_types o) m | None => false end.

(* ---------------- known classes ---------------- *)
(* every type string the two scanners see: roots and the fields of indexed definitions *)
Definition root_types (p : project) : list cty :=
  flat_map (fun c => cmd_channels c ++ cmd_params c ++ match fn_ret c with Some t => [t] | None => [] end) (commands p).
Definition field_types (p : project) : list cty :=
  flat_map (fun d => match d_kind d with
                     | DStruct fs => map f_ty (filter (fun f => negb (f_skip f)) fs)
                     | _ => [] end) (filter included (defs p)).
Definition all_types (p : project) : list cty := root_types p ++ field_types p.

(* a struct field holding a two-argument Result: the renderer keeps the success arm only, so the
   error arm is an edge of the serde shape that is not followed *)
Fixpoint has_result2 (t : rty) : bool :=
  match t with
  | RPath n args => (is_name n "Result" && Nat.leb 2 (List.length args)) || existsb has_result2 args
  | RRef t => has_result2 t
  | RTuple ts => existsb has_result2 ts
  end.

Definition kf_c07_field_result (p : project) : bool := existsb (fun t => has_result2 (rty_of t)) (field_types p).
(* a serde type whose name the harvester's final test rejects (lower-case or underscore initial, or a
   name of the built-in table) is never looked for *)
Definition kf_c07_odd_name (p : project) : bool :=
  existsb (fun d => serde_def d && negb (custom_name (d_name d))) (spec_defs p).
(* an event payload whose type the tool does not read off the expression: an enum variant (path or struct-variant
   literal) or a constructor call through a module path *)
Definition kf_c07_payload_expr (p : project) : bool :=
  existsb (fun f => existsb (fun e => match e with PVariant _ _ _ => true | PNew (_ :: _) _ => true | _ => false end) (fn_emits f)) (all_fns p).
(* a serde type defined inside an inline module is never indexed *)
Definition kf_c07_inline_mod (p : project) : bool := existsb serde_def (nested_defs p).

(* ---------------- domain ---------------- *)
Local Open Scope string_scope.
Definition container_heads : list string := ["Option"; "Result"; "Vec"; "HashMap"; "BTreeMap"; "HashSet"; "BTreeSet"].
Local Close Scope string_scope.
(* identifiers may contain non-ASCII letters (UTF-8 bytes >= 128); the first character must be one the model classifies *)
Definition ident_char (c : ascii) : bool := is_id_char c && negb (Ascii.eqb c "$"%char).
Definition is_ident (s : str) : bool :=
  match s with c :: _ => negb (is_digit c) && forallb ident_char s && first_classified s | [] => false end.
(* bare names; generic heads are the std containers with their arities; map keys print no comma *)
Fixpoint ty_ok (q : cty) : bool :=
  match q with
  | CPath segs n angle args =>
      match segs with [] => true | _ => false end && is_ident n && Bool.eqb angle (negb (Nat.eqb (List.length args) 0))
      && forallb ty_ok args
      && match args with
         | [] => true
         | [a] => one_of n ["Option"; "Vec"; "HashSet"; "BTreeSet"; "Result"]%string
         | [k; v] => (one_of n ["HashMap"; "BTreeMap"]%string && negb (multi (rty_of k))) || is_name n "Result"
         | _ => false end
  | CRef t => ty_ok t
  | CTuple ts => forallb ty_ok ts
  end.
Definition def_names (p : project) : list str := map d_name (spec_defs p).
Definition top_names (p : project) : list str := map d_name (defs p).
Definition input_types (p : project) : list cty := flat_map (fun c => cmd_channels c ++ cmd_params c) (commands p).
(* an event payload variable is declared with a bare or borrowed named type *)
Definition bare_named (t : cty) : bool :=
  match t with
  | CPath [] n false [] => is_ident n
  | CRef (CPath [] n false []) => is_ident n
  | _ => false end.
Definition in_domain (p : project) : bool :=
  forallb ty_ok (all_types p)
  && forallb ty_ok (flat_map (fun d => match d_kind d with DStruct fs => map f_ty fs | _ => [] end) (defs p))
  && (nodup_b (def_names p) && nodup_b (top_names p))                   (* one definition per name *)
  && forallb (fun d => is_ident (d_name d) && negb (one_of (d_name d) container_heads)
                       && Bool.eqb (included d) (serde_def d)
                       && match d_kind d with DTuple => negb (serde_def d) | _ => true end) (spec_defs p)
  && forallb (fun t => negb (has_result2 (rty_of t))) (input_types p)      (* Result only in returns and fields *)
  && forallb (fun f => forallb (fun e => match e with
                                         | PVar v => match lookup_param v (fn_params f) with
                                                     | Some t => bare_named t
                                                     (* a local whose type cannot be read off the syntax (untyped let
                                                        from a call): the tool falls back to the variable's name *)
                                                     | None => is_ident v && negb (custom_name v) end
                                         | PStruct n => is_ident n
                                         | PVariant e v _ => is_ident e && is_ident v
                                         | PNew segs n => is_ident n && forallb is_ident segs
                                         | POther => false end) (fn_emits f)) (all_fns p).

(* ---------------- statement level ---------------- *)
(* the specification as a proposition: least set closed under field types from the roots, restricted
   to project-defined serde types ([reachable_spec] computes it, see Proofs/C07Concrete.v) *)
Definition SpecReach (p : project) (x : str) : Prop :=
  target (spec_succ p) (spec_defined p) (command_roots p ++ event_roots p) x.
(* every hash collection is iterated in some duplicate-free order of its elements *)
Definition ord_ok (o : orders) : Prop :=
  forall s k l, NoDup (o s k l) /\ forall x, In x (o s k l) <-> In x l.

Definition reach_from_opt (p : project) (roots : list str) : option (list str) :=
  work str_dec (spec_succ p) (spec_defined p) (spec_defined p) (spec_fuel p roots) roots [].
(* agreement of the three readers of type strings on the defined names of the project: a decidable
   premise of C07_exact (evaluated on every generated case; implied by the complement of the
   syntactic classes, see C07_agree_partial) *)
Definition raw_fields_ts (p : project) (n : str) : list (list str) :=
  match field_strings p n with Some l => map ts_of l | None => [] end.
Definition dnames (p : project) : list str := filter (resolvable p) (def_names p).
Definition agree_b (p : project) : bool :=
  forallb (fun n => Bool.eqb (resolvable p n) (spec_defined p n)) (def_names p)
  && forallb (fun n => forallb (fun y =>
        Bool.eqb (smemb y (deps_of p n)) (smemb y (spec_succ p n))
        && Bool.eqb (smemb y (concat (raw_fields_ts p n))) (smemb y (spec_succ p n))) (dnames p)) (dnames p)
  && forallb (fun y =>
        Bool.eqb (smemb y (used_roots p)) (smemb y (command_roots p))
        && implb (smemb y (command_roots p) || smemb y (event_roots p)) (smemb y (harvest_roots p))
        && Bool.eqb (existsb (fun e => smemb y (ts_of e)) (events p)) (smemb y (event_roots p))) (dnames p).
