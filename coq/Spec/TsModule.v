(* Specification parser for the module subset the tool emits (grammar of DESIGN section 12) *)
From Coq Require Import String Ascii.
From Coq Require Import List Arith Lia Bool.
Require Import TT.Model.Str TT.Spec.TsLex.
Import ListNotations.
Local Open Scope list_scope.

Inductive key := KeyId (s : str) | KeyStr (s : str) | KeyNum (s : str).

Inductive ty :=
| TyRef (path : list str) (args : list ty)
| TyArr (t : ty)
| TyTuple (ts : list ty)
| TyUnion (ts : list ty)
| TyLit (s : str)
| TyTypeof (path : list str)
| TyFun (params : list (str * bool * ty)) (ret : ty)
| TyObj (members : list (key * bool * ty)) (index : list (str * ty * ty)).

Inductive ex :=
| EId (s : str) | EStr (q : ascii) (s : str) | ENum (s : str) | ETpl (s : str)
| EArr (l : list ex)
| EObj (props : list (option key * ex))          (* None = spread *)
| EMember (e : ex) (name : str) (optional_chain : bool)
| ECall (f : ex) (targs : list ty) (args : list ex)
| EIndex (e i : ex)
| EArrow (params : list str) (body : ex)
| EUnary (op : str) (e : ex)
| ESpread (e : ex).

Inductive item :=
| IImport (type_only : bool) (names : list (bool * str)) (star_as : option str) (from : str)
| IExportStar (from : str)
| IInterface (name : str) (tparams : list str) (ext : option ty) (members : list (key * bool * ty)) (index : list (str * ty * ty))
| ITypeAlias (name : str) (tparams : list str) (t : ty)
| IConst (name : str) (e : ex)
| IFunction (is_async : bool) (name : str) (params : list (str * bool * ty)) (ret : option ty) (body : list tk).

Definition P (s : string) : tk := KP (L s).
Definition tk_is (s : string) (t : tk) : bool :=
  match t with KP p => str_eqb p (L s) | KId p => str_eqb p (L s) | _ => false end.
Definition RT (A : Type) := option (A * list tk).

(* ---------------- types ---------------- *)
Fixpoint p_path (n : nat) (acc : list str) (l : list tk) : list str * list tk :=
  match n with 0 => (rev acc, l) | S n' =>
  match l with
  | KP d :: KId s :: r => if str_eqb d (L ".") then p_path n' (s :: acc) r else (rev acc, l)
  | _ => (rev acc, l)
  end end.
Fixpoint p_suffix (n : nat) (t : ty) (l : list tk) : ty * list tk :=
  match n with 0 => (t, l) | S n' =>
  match l with
  | a :: b :: r => if tk_is "[" a && tk_is "]" b then p_suffix n' (TyArr t) r else (t, l)
  | _ => (t, l)
  end end.

Section TyOpen.
  Variable rec : list tk -> RT ty.

  (* comma separated list of types up to a closing punctuator *)
  Fixpoint p_tylist (close : string) (n : nat) (l : list tk) (acc : list ty) : RT (list ty) :=
    match n with 0 => None | S n' =>
      match rec l with
      | Some (a, c :: r) => if tk_is "," c then p_tylist close n' r (a :: acc)
                            else if tk_is close c then Some (rev (a :: acc), r) else None
      | _ => None
      end end.

  (* (id [?] : type , ...) *)
  Fixpoint p_params (n : nat) (l : list tk) (acc : list (str * bool * ty)) : RT (list (str * bool * ty)) :=
    match n with 0 => None | S n' =>
      match l with
      | c :: r => if tk_is ")" c then Some (rev acc, r) else
          match l with
          | KId name :: r1 =>
              let '(opt, r2) := match r1 with q :: r' => if tk_is "?" q then (true, r') else (false, r1) | [] => (false, r1) end in
              match r2 with
              | col :: r3 => if tk_is ":" col then
                    match rec r3 with
                    | Some (t, c2 :: r4) => if tk_is "," c2 then p_params n' r4 ((name, opt, t) :: acc)
                                            else if tk_is ")" c2 then Some (rev ((name, opt, t) :: acc), r4) else None
                    | _ => None end
                  else None
              | [] => None end
          | _ => None end
      | [] => None end end.

  (* { key?: type; [k: T]: U; ... } — also used for interface bodies; '{' already consumed *)
  Fixpoint p_members (n : nat) (l : list tk) (ms : list (key * bool * ty)) (ix : list (str * ty * ty))
    : RT (list (key * bool * ty) * list (str * ty * ty)) :=
    match n with 0 => None | S n' =>
      match l with
      | c :: r =>
        if tk_is "}" c then Some ((rev ms, rev ix), r)
        else if tk_is ";" c || tk_is "," c then p_members n' r ms ix
        else if tk_is "[" c then
          match r with
          | KId k :: col :: r1 => if tk_is ":" col then
              match rec r1 with
              | Some (kt, cl :: col2 :: r2) => if tk_is "]" cl && tk_is ":" col2 then
                    match rec r2 with Some (vt, r3) => p_members n' r3 ms ((k, kt, vt) :: ix) | None => None end
                  else None
              | _ => None end else None
          | _ => None end
        else
          let k := match c with KId s => Some (KeyId s) | KStr _ s => Some (KeyStr s) | KNum s => Some (KeyNum s) | _ => None end in
          match k with
          | None => None
          | Some k =>
              let '(opt, r2) := match r with q :: r' => if tk_is "?" q then (true, r') else (false, r) | [] => (false, r) end in
              match r2 with
              | col :: r3 => if tk_is ":" col then
                    match rec r3 with Some (t, r4) => p_members n' r4 ((k, opt, t) :: ms) ix | None => None end
                  else None
              | [] => None end
          end
      | [] => None end end.

  Definition looks_like_params (l : list tk) : bool :=
    match l with
    | c :: _ => if tk_is ")" c then true else
        match l with
        | KId _ :: c2 :: _ => tk_is ":" c2 || tk_is "?" c2
        | _ => false end
    | [] => false end.

  Definition p_primary (l : list tk) : RT ty :=
    match l with
    | KStr _ s :: r => Some (TyLit s, r)
    | KId s :: r =>
        if str_eqb s (L "typeof") then
          match r with KId h :: r1 => let '(p, r2) := p_path (List.length r1) [h] r1 in Some (TyTypeof p, r2) | _ => None end
        else
          let '(p, r1) := p_path (List.length r) [s] r in
          match r1 with
          | c :: r2 => if tk_is "<" c then
                match p_tylist ">" (S (List.length r2)) r2 [] with Some (args, r3) => Some (TyRef p args, r3) | None => None end
              else Some (TyRef p [], r1)
          | [] => Some (TyRef p [], r1) end
    | c :: r =>
        if tk_is "(" c then
          if looks_like_params r then
            match p_params (S (List.length r)) r [] with
            | Some (ps, a :: r1) => if tk_is "=>" a then
                  match rec r1 with Some (t, r2) => Some (TyFun ps t, r2) | None => None end else None
            | _ => None end
          else match rec r with Some (t, c2 :: r1) => if tk_is ")" c2 then Some (t, r1) else None | _ => None end
        else if tk_is "[" c then
          match r with
          | c2 :: r1 => if tk_is "]" c2 then Some (TyTuple [], r1)
                        else match p_tylist "]" (S (List.length r)) r [] with Some (ts, r2) => Some (TyTuple ts, r2) | None => None end
          | [] => None end
        else if tk_is "{" c then
          match p_members (S (List.length r)) r [] [] with Some ((ms, ix), r1) => Some (TyObj ms ix, r1) | None => None end
        else None
    | [] => None
    end.

  Definition p_postfix (l : list tk) : RT ty :=
    match p_primary l with Some (t, r) => Some (p_suffix (List.length r) t r) | None => None end.

  Fixpoint p_alts (n : nat) (l : list tk) (acc : list ty) : RT (list ty) :=
    match n with 0 => None | S n' =>
      match l with
      | c :: r1 => if tk_is "|" c then
            match p_postfix r1 with Some (t, r2) => p_alts n' r2 (t :: acc) | None => None end
          else Some (rev acc, l)
      | [] => Some (rev acc, l)
      end end.

  Definition p_type_body (l : list tk) : RT ty :=
    let l := match l with c :: r => if tk_is "|" c then r else l | [] => l end in   (* leading | *)
    match p_postfix l with
    | None => None
    | Some (t, r) => match p_alts (S (List.length r)) r [] with
                     | Some ([], r') => Some (t, r')
                     | Some (more, r') => Some (TyUnion (t :: more), r')
                     | None => None end
    end.
End TyOpen.

Fixpoint p_type (fuel : nat) (l : list tk) : RT ty :=
  match fuel with 0 => None | S f => p_type_body (p_type f) l end.
Definition TYF := 64.   (* nesting depth budget for types *)
Definition ptype (l : list tk) : RT ty := p_type TYF l.
Definition pmembers (l : list tk) := p_members ptype (S (List.length l)) l [] [].
Definition pparams (l : list tk) := p_params ptype (S (List.length l)) l [].
Definition ptylist close (l : list tk) := p_tylist ptype close (S (List.length l)) l [].

(* ---------------- expressions (what `export const X = …;` can hold) ---------------- *)
Section ExOpen.
  Variable rec : list tk -> RT ex.

  Fixpoint p_exlist (close : string) (n : nat) (l : list tk) (acc : list ex) : RT (list ex) :=
    match n with 0 => None | S n' =>
      match l with
      | c :: r =>
          if tk_is close c then Some (rev acc, r)
          else if tk_is "," c then p_exlist close n' r acc
          else if tk_is "..." c then
            match rec r with Some (e, r1) => p_exlist close n' r1 (ESpread e :: acc) | None => None end
          else match rec l with Some (e, r1) => p_exlist close n' r1 (e :: acc) | None => None end
      | [] => None end end.

  Fixpoint p_props (n : nat) (l : list tk) (acc : list (option key * ex)) : RT (list (option key * ex)) :=
    match n with 0 => None | S n' =>
      match l with
      | c :: r =>
          if tk_is "}" c then Some (rev acc, r)
          else if tk_is "," c then p_props n' r acc
          else if tk_is "..." c then
            match rec r with Some (e, r1) => p_props n' r1 ((None, e) :: acc) | None => None end
          else
            let k := match c with KId s => Some (KeyId s) | KStr _ s => Some (KeyStr s) | KNum s => Some (KeyNum s) | _ => None end in
            match k, r with
            | Some k, col :: r1 =>
                if tk_is ":" col then
                  match rec r1 with Some (e, r2) => p_props n' r2 ((Some k, e) :: acc) | None => None end
                else match c with                       (* shorthand { a, b } *)
                     | KId s => if tk_is "," col || tk_is "}" col then p_props n' r ((Some k, EId s) :: acc) else None
                     | _ => None end
            | _, _ => None end
      | [] => None end end.

  (* ( a, b ) =>   or   () =>  : returns the parameter names when the tokens have that shape *)
  Fixpoint arrow_params (n : nat) (l : list tk) (acc : list str) : option (list str * list tk) :=
    match n with 0 => None | S n' =>
      match l with
      | c :: r =>
          if tk_is ")" c then match r with a :: r1 => if tk_is "=>" a then Some (rev acc, r1) else None | [] => None end
          else if tk_is "," c then arrow_params n' r acc
          else match c with KId s => arrow_params n' r (s :: acc) | _ => None end
      | [] => None end end.

  Definition p_atom (l : list tk) : RT ex :=
    match l with
    | KId s :: r =>
        match r with
        | a :: r1 => if tk_is "=>" a then match rec r1 with Some (b, r2) => Some (EArrow [s] b, r2) | None => None end
                     else Some (EId s, r)
        | [] => Some (EId s, r) end
    | KStr q s :: r => Some (EStr q s, r)
    | KNum s :: r => Some (ENum s, r)
    | KTpl s :: r => Some (ETpl s, r)
    | c :: r =>
        if tk_is "[" c then match p_exlist "]" (S (List.length r)) r [] with Some (es, r1) => Some (EArr es, r1) | None => None end
        else if tk_is "{" c then match p_props (S (List.length r)) r [] with Some (ps, r1) => Some (EObj ps, r1) | None => None end
        else if tk_is "(" c then
          match arrow_params (S (List.length r)) r [] with
          | Some (ps, r1) => match rec r1 with Some (b, r2) => Some (EArrow ps b, r2) | None => None end
          | None => match rec r with Some (e, c2 :: r1) => if tk_is ")" c2 then Some (e, r1) else None | _ => None end
          end
        else None
    | [] => None
    end.

  Fixpoint p_ops (n : nat) (e : ex) (l : list tk) : RT ex :=
    match n with 0 => Some (e, l) | S n' =>
      match l with
      | c :: r =>
          if tk_is "." c then match r with KId s :: r1 => p_ops n' (EMember e s false) r1 | _ => None end
          else if tk_is "?." c then
            match r with
            | KId s :: r1 => p_ops n' (EMember e s true) r1
            | c2 :: r1 => if tk_is "(" c2 then
                  match p_exlist ")" (S (List.length r1)) r1 [] with Some (args, r2) => p_ops n' (ECall e [] args) r2 | None => None end
                else None
            | [] => None end
          else if tk_is "(" c then
            match p_exlist ")" (S (List.length r)) r [] with Some (args, r1) => p_ops n' (ECall e [] args) r1 | None => None end
          else if tk_is "[" c then
            match rec r with Some (i, c2 :: r1) => if tk_is "]" c2 then p_ops n' (EIndex e i) r1 else None | _ => None end
          else if tk_is "<" c then
            match ptylist ">" r with
            | Some (targs, c2 :: r1) => if tk_is "(" c2 then
                  match p_exlist ")" (S (List.length r1)) r1 [] with Some (args, r2) => p_ops n' (ECall e targs args) r2 | None => None end
                else Some (e, l)
            | _ => Some (e, l) end
          else Some (e, l)
      | [] => Some (e, l) end end.

  Definition p_expr_body (l : list tk) : RT ex :=
    match l with
    | c :: r =>
        if tk_is "-" c || tk_is "!" c || tk_is "+" c then
          match rec r with Some (e, r1) => Some (EUnary (match c with KP p => p | _ => [] end) e, r1) | None => None end
        else if tk_is "await" c || tk_is "new" c then
          match rec r with Some (e, r1) => Some (EUnary (match c with KId p => p | _ => [] end) e, r1) | None => None end
        else match p_atom l with Some (a, r1) => p_ops (S (List.length r1)) a r1 | None => None end
    | [] => None end.
End ExOpen.

Fixpoint p_expr (fuel : nat) (l : list tk) : RT ex :=
  match fuel with 0 => None | S f => p_expr_body (p_expr f) l end.
Definition pexpr (l : list tk) : RT ex := p_expr 64 l.

(* ---------------- items ---------------- *)
Fixpoint p_balanced (n : nat) (depth : nat) (l : list tk) (acc : list tk) : RT (list tk) :=
  match n with 0 => None | S n' =>
    match l with
    | c :: r =>
        if tk_is "{" c || tk_is "(" c || tk_is "[" c then p_balanced n' (S depth) r (c :: acc)
        else if tk_is "}" c || tk_is ")" c || tk_is "]" c then
          match depth with
          | 0 => if tk_is "}" c then Some (rev acc, r) else None
          | S d => p_balanced n' d r (c :: acc) end
        else match c with KErr _ => None | _ => p_balanced n' depth r (c :: acc) end
    | [] => None end end.

Fixpoint p_idlist (close : string) (n : nat) (l : list tk) (acc : list str) : RT (list str) :=
  match n with 0 => None | S n' =>
    match l with
    | c :: r => if tk_is close c then Some (rev acc, r) else if tk_is "," c then p_idlist close n' r acc
                else match c with KId s => p_idlist close n' r (s :: acc) | _ => None end
    | [] => None end end.

Fixpoint p_import_names (n : nat) (l : list tk) (acc : list (bool * str)) : RT (list (bool * str)) :=
  match n with 0 => None | S n' =>
    match l with
    | c :: r =>
        if tk_is "}" c then Some (rev acc, r) else if tk_is "," c then p_import_names n' r acc
        else match l with
             | KId t :: KId s :: r1 => if str_eqb t (L "type") then p_import_names n' r1 ((true, s) :: acc)
                                       else if str_eqb s (L "as") then match r1 with KId a :: r2 => p_import_names n' r2 ((false, a) :: acc) | _ => None end
                                       else None
             | KId s :: r1 => p_import_names n' r1 ((false, s) :: acc)
             | _ => None end
    | [] => None end end.

Definition opt_tparams (l : list tk) : option (list str * list tk) :=
  match l with
  | c :: r => if tk_is "<" c then p_idlist ">" (S (List.length r)) r [] else Some ([], l)
  | [] => Some ([], l) end.
Definition expect (s : string) (l : list tk) : option (list tk) :=
  match l with c :: r => if tk_is s c then Some r else None | [] => None end.
Definition skip_semi (l : list tk) : list tk := match l with c :: r => if tk_is ";" c then r else l | [] => l end.

Definition p_item (l : list tk) : RT item :=
  match l with
  | KId kw :: r =>
    if str_eqb kw (L "import") then
      match r with
      | KId t :: c :: r1 =>
          if str_eqb t (L "type") && tk_is "{" c then
            match p_import_names (S (List.length r1)) r1 [] with
            | Some (ns, KId f :: KStr _ m :: r2) => if str_eqb f (L "from") then Some (IImport true ns None m, skip_semi r2) else None
            | _ => None end
          else None
      | c :: r1 =>
          if tk_is "{" c then
            match p_import_names (S (List.length r1)) r1 [] with
            | Some (ns, KId f :: KStr _ m :: r2) => if str_eqb f (L "from") then Some (IImport false ns None m, skip_semi r2) else None
            | _ => None end
          else if tk_is "*" c then
            match r1 with
            | KId a :: KId n :: KId f :: KStr _ m :: r2 =>
                if str_eqb a (L "as") && str_eqb f (L "from") then Some (IImport false [] (Some n) m, skip_semi r2) else None
            | _ => None end
          else None
      | [] => None end
    else if str_eqb kw (L "export") then
      match r with
      | c :: r1 =>
        if tk_is "*" c then
          match r1 with KId f :: KStr _ m :: r2 => if str_eqb f (L "from") then Some (IExportStar m, skip_semi r2) else None | _ => None end
        else if tk_is "interface" c then
          match r1 with
          | KId name :: r2 =>
              match opt_tparams r2 with
              | Some (tps, r3) =>
                  let '(ext, r4) := match r3 with
                                    | KId e :: r' => if str_eqb e (L "extends") then
                                          match ptype r' with Some (t, r'') => (Some (Some t), r'') | None => (None, r') end
                                        else (Some None, r3)
                                    | _ => (Some None, r3) end in
                  match ext, expect "{" r4 with
                  | Some ext, Some r5 => match pmembers r5 with Some ((ms, ix), r6) => Some (IInterface name tps ext ms ix, r6) | None => None end
                  | _, _ => None end
              | None => None end
          | _ => None end
        else if tk_is "type" c then
          match r1 with
          | KId name :: r2 =>
              match opt_tparams r2 with
              | Some (tps, r3) => match expect "=" r3 with
                                  | Some r4 => match ptype r4 with
                                               | Some (t, r5) => match expect ";" r5 with Some r6 => Some (ITypeAlias name tps t, r6) | None => None end
                                               | None => None end
                                  | None => None end
              | None => None end
          | _ => None end
        else if tk_is "const" c then
          match r1 with
          | KId name :: r2 => match expect "=" r2 with
                              | Some r3 => match pexpr r3 with
                                           | Some (e, r4) => match expect ";" r4 with Some r5 => Some (IConst name e, r5) | None => None end
                                           | None => None end
                              | None => None end
          | _ => None end
        else
          let '(is_async, r2) := if tk_is "async" c then (true, r1) else (false, r) in
          match r2 with
          | KId fkw :: KId name :: r3 =>
              if str_eqb fkw (L "function") then
                match expect "(" r3 with
                | Some r4 => match pparams r4 with
                             | Some (ps, r5) =>
                                 let '(ret, r6) := match r5 with
                                                   | col :: r' => if tk_is ":" col then match ptype r' with Some (t, r'') => (Some (Some t), r'') | None => (None, r') end
                                                                  else (Some None, r5)
                                                   | [] => (Some None, r5) end in
                                 match ret, expect "{" r6 with
                                 | Some ret, Some r7 => match p_balanced (S (List.length r7)) 0 r7 [] with
                                                        | Some (body, r8) => Some (IFunction is_async name ps ret body, r8)
                                                        | None => None end
                                 | _, _ => None end
                             | None => None end
                | None => None end
              else None
          | _ => None end
      | [] => None end
    else None
  | _ => None
  end.

Fixpoint p_items (n : nat) (l : list tk) (acc : list item) : option (list item) :=
  match n with 0 => None | S n' =>
    match l with
    | [] => Some (rev acc)
    | _ => match p_item l with Some (it, r) => p_items n' r (it :: acc) | None => None end
    end end.
Definition parse_module (s : str) : option (list item) :=
  let l := lex_module s in if has_err l then None else p_items (S (List.length l)) l [].

