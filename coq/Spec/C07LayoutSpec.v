(* C07: specification over a project-with-layout. The files of the project are those the property text of
   C03 counts (Spec/C03Spec.v spec_accept: a name stem.rs with a non-empty stem, no directory component
   below the project path named exactly target or .git) whose text is a Rust source file; the serde types
   types.ts has to declare are those reachable from the commands / events of these files through
   definitions in these files. Definitions only. *)
From Coq Require Import String Ascii.
From Coq Require Import List Arith Bool.
Require Import TT.Model.Str TT.Model.C07Reach TT.Model.C07Layout TT.Spec.C07Spec.
Require TT.Spec.C03Spec.
Import ListNotations.
Local Open Scope list_scope.

Definition spec_file (f : lfile) : list (str * list item) :=
  match snd f with
  | LParsed its => if C03Spec.spec_accept (fst f) then [(rel_path (fst f), its)] else []
  | _ => []
  end.
Definition spec_project (lp : lproject) : project := flat_map spec_file lp.

Definition layout_reachable (lp : lproject) : list str := reachable_spec (spec_project lp).
Definition LayoutSpecReach (lp : lproject) (x : str) : Prop := SpecReach (spec_project lp) x.

(* the component test, as a proposition *)
Definition DirNamed (s : string) (d : str) : Prop := d = L s.
Definition AcceptedPath (comps : list str) : Prop :=
  C03Spec.rs_name (last comps []) = true /\
  forall d, In d (removelast comps) -> ~ DirNamed "target" d /\ ~ DirNamed ".git" d.
(* x is a serde type defined (at any nesting the specification looks at) in an accepted, parsable file *)
Definition DefinedInAccepted (lp : lproject) (x : str) : Prop :=
  exists comps its d, In (comps, LParsed its) lp /\ AcceptedPath comps /\
    In d (flat_map item_defs its) /\ serde_def d = true /\ d_name d = x.

(* the oracle of the layout stream: what types.ts has to declare for this walk *)
Definition c07_layout_ok (lp : lproject) (o : obs) : bool := c07_ok (layout_reachable lp) o.

(* a walked file that contributes nothing: rejected by the component test, or not a Rust source text *)
Definition ignored (f : lfile) : bool :=
  negb (C03Spec.spec_accept (fst f)) || match snd f with LParsed _ => false | _ => true end.

(* ---------------- a sample walk with near-miss directory names ---------------- *)
Require Import TT.Spec.C07Known.
Local Open Scope string_scope.
Definition comps_of (l : list string) : list str := map L l.
(* src/lib.rs holds the command; its return type reaches types defined below targets/, target_kinds/, .github/,
   in a FILE named target.rs and in a file .git.rs; Cache is defined only below target/, GitGhost and its event
   only below src/.git/, Deep only below src/targets/target/ (an exact name under a near-miss), Txt in a file that
   is not .rs; broken.rs does not parse, latin1.rs is not UTF-8 *)
Definition sample_walk : lproject :=
  [(comps_of ["src"; "lib.rs"],
      LParsed [cmd "plan" [("app", app_handle)] (Some (ty0 "BuildPlan"));
               sdef "BuildPlan" [ty1 "Vec" (ty0 "BuildTarget"); ty0 "Profile"; ty0 "Hook"; ty0 "Cache"; ty0 "Deep"; ty0 "Txt"]]);
   (comps_of ["src"; "targets"; "m.rs"], LParsed [sdef "BuildTarget" [ty0 "TargetKind"; ty0 "Dot"]]);
   (comps_of ["src"; "target_kinds"; "k.rs"], LParsed [edef "TargetKind"]);
   (comps_of [".github"; "p.rs"], LParsed [sdef "Profile" [ty0 "i32"]]);
   (comps_of ["src"; "target.rs"], LParsed [sdef "Hook" [ty0 "i32"]]);
   (comps_of ["src"; ".git.rs"], LParsed [sdef "Dot" [ty0 "i32"]]);
   (comps_of ["target"; "debug"; "ghost.rs"],
      LParsed [sdef "Cache" [ty0 "i32"]; sdef "Ghost" [ty0 "i32"]; cmd "ghost" [("arg0", ty0 "Ghost")] None]);
   (comps_of ["src"; ".git"; "h.rs"],
      LParsed [sdef "GitGhost" [ty0 "i32"];
               helper "notify" [("app", app_handle); ("payload0", CRef (ty0 "GitGhost"))] [PVar (L "payload0")]]);
   (comps_of ["src"; "targets"; "target"; "x.rs"], LParsed [sdef "Deep" [ty0 "i32"]]);
   (comps_of ["src"; "notes.txt"], LParsed [sdef "Txt" [ty0 "i32"]; cmd "txt" [("arg0", ty0 "Txt")] None]);
   (comps_of ["src"; "broken.rs"], LUnparsable);
   (comps_of ["src"; "latin1.rs"], LNotUtf8)].
Definition sample_root : str := L "/work/app/src-tauri".
