(* C10: the run-time entry points shared by the in-process (type level) and the project level
   correspondence checks: parse the implementation's texts with the specification parser, compare
   with the model's syntax trees, apply the oracle of C10Shape to the implementation's modules,
   and compute which findings the recorded classes allow for the case. Definitions only. *)
From Coq Require Import String Ascii.
From Coq Require Import List Arith Bool.
Require Import TT.Model.Str TT.Model.TypeParse TT.Spec.TsLex TT.Spec.TsModule TT.Spec.TsObs.
Require Import TT.Spec.C10Shape TT.Model.C10Zod.
Import ListNotations.
Local Open Scope list_scope.

Definition parse_ty (s : str) : option ty :=
  let l := lex_module s in
  if has_err l then None else match ptype l with Some (t, []) => Some t | _ => None end.
Definition parse_ex (s : str) : option ex :=
  let l := lex_module s in
  if has_err l then None else match pexpr l with Some (e, []) => Some e | _ => None end.

Fixpoint sx_eqb (a b : sx) : bool :=
  match a, b with
  | SA x, SA y => str_eqb x y
  | SL l, SL l' =>
      (fix go (l l' : list sx) : bool :=
         match l, l' with [], [] => true | x :: r, y :: r' => sx_eqb x y && go r r' | _, _ => false end) l l'
  | _, _ => false end.
Definition ty_eqb (a b : ty) : bool := sx_eqb (sx_ty a) (sx_ty b).
Definition ex_eqb (a b : ex) : bool := sx_eqb (sx_ex a) (sx_ex b).
Definition item_eqb (a b : item) : bool := sx_eqb (sx_item a) (sx_item b).
Definition is_import (it : item) : bool := match it with IImport _ _ _ _ => true | _ => false end.
Definition body (m : list item) : list item := filter (fun it => negb (is_import it)) m.
(* same items up to order (declaration order of types.ts depends on a hash order in each process) *)
Definition items_match (model impl : list item) : bool :=
  Nat.eqb (List.length model) (List.length impl) && forallb (fun it => existsb (item_eqb it) impl) model
  && forallb (fun it => existsb (item_eqb it) model) impl.

(* validator chains (.min/.max/.email/.url ...) are refinements owned by C11: removed from the
   implementation's schemas before they are compared with the model's (validator None) *)
Fixpoint strip_ref (e : ex) : ex :=
  match e with
  | ECall (EMember r name oc) targs args =>
      if negb (is_z r) && negb (is_z_coerce r) && is_one_of name refinement_links then strip_ref r
      else ECall (EMember (strip_ref r) name oc) targs (map strip_ref args)
  | ECall f targs args => ECall (strip_ref f) targs (map strip_ref args)
  | EArr l => EArr (map strip_ref l)
  | EObj ps => EObj (map (fun p => (fst p, strip_ref (snd p))) ps)
  | EMember r n oc => EMember (strip_ref r) n oc
  | _ => e
  end.
Definition strip_item (it : item) : item := match it with IConst n e => IConst n (strip_ref e) | _ => it end.

(* findings the recorded classes allow for a member of type t: z.set (shape and JSON clause),
   the Result union, T | null[], and .optional() refusing the explicit null *)
Definition allowed_for_type (t : tstruct) : list tag :=
  (if has_set_t t then [TgSet; TgNonJson] else []) ++ (if has_res_t t then [TgResult] else []) ++
  (if union_under_seq t then [TgPrecedence] else []) ++ (if has_opt_t t then [TgNull] else []).
Definition member_types (p : proj) : list tstruct :=
  flat_map (fun d => match d with DStruct s => map m_ty (s_fields s) | DEnum _ => [] end) (p_types p) ++
  flat_map (fun c => map m_ty (c_params c)) (p_cmds p).
Definition has_enum (p : proj) : bool := existsb (fun d => match d with DEnum _ => true | _ => false end) (p_types p).
(* the enum class (Zod-mode enums without a type alias) was repaired: TgEnumAlias is never allowed *)
Definition allowed_for_proj (p : proj) : list tag :=
  add_tags (flat_map allowed_for_type (member_types p)) [].
(* findings allowed per key (named Item.key as in v_keys), from the type written at that key *)
Definition allowed_keys (p : proj) : list (str * list tag) :=
  flat_map (fun d => match d with
                     | DStruct s => map (fun f => (s_name s ++ L "." ++ key_text (mk_key (m_key f)), allowed_for_type (m_ty f))) (s_fields s)
                     | DEnum _ => [] end) (p_types p) ++
  flat_map (fun c => map (fun f => (params_name c ++ L "." ++ key_text (mk_key (m_key f)), allowed_for_type (m_ty f))) (c_params c)) (p_cmds p).
Definition proj_dom (p : proj) : bool :=
  map_wide (p_map p) && forallb dom_w (member_types p) &&
  forallb (fun c => forallb (fun ch => dom_w (snd ch)) (c_chans c)) (p_cmds p).

Definition sx_tag (t : tag) : sx := SA (L (tag_name t)).
Definition sx_tags (l : list tag) : sx := SL (map sx_tag l).
Definition sx_verdict (v : verdict) : sx :=
  SL [sx_tags (v_tags v); SL (map (fun p => SL [SA (fst p); sx_tags (snd p)]) (v_detail v));
      SL (map (fun p => SL [SA (fst p); sx_tags (snd p)]) (v_keys v))].

(* project level: the model's items against the parsed implementation modules, and the oracle on
   the implementation's modules.
   result: (plain-parsed zod-parsed plain-items-equal zod-items-equal model-oracle-tags impl-verdict allowed in-domain) *)
Definition c10_project_sx (p : proj) (plain_text zod_text : str) : sx :=
  let pm := parse_module plain_text in
  let zm := parse_module zod_text in
  let mp := plain_items p in
  let mz := zod_items p in
  let mv := compare_modules mp mz in
  SL [sx_bool (match pm with Some _ => true | None => false end);
      sx_bool (match zm with Some _ => true | None => false end);
      sx_bool (match pm with Some m => items_match mp (body m) | None => false end);
      sx_bool (match zm with Some m => items_match mz (map strip_item (body m)) | None => false end);
      sx_tags (v_tags mv);
      (match pm, zm with
       | Some a, Some b => sx_verdict (compare_modules a b)
       | _, _ => sx_verdict {| v_tags := [TgParse]; v_detail := []; v_keys := [] |} end);
      sx_tags (allowed_for_proj p);
      sx_bool (proj_dom p);
      SL (map (fun a => SL [SA (fst a); sx_tags (snd a)]) (allowed_keys p))].

(* type level: one type t placed as field f of struct S, as parameter p of commands c (parameter
   only) and d (parameter and a channel), as the channel of command e; command u takes S (and the
   enum K and the member-less struct Z when requested) so that they are emitted. [ct] is the structure the implementation read
   from the channel's message type text. *)
Definition tcase_proj (m : mapping) (t : tstruct) (opt : bool) (with_enum with_unit : bool) (ct : tstruct)
    (fk pk ck lit : str) (extra : list cdef) : proj :=
  let mem := {| m_key := pk; m_opt := opt; m_ty := t |} in
  {| p_types := [DStruct {| s_name := L "S"; s_fields := [{| m_key := fk; m_opt := opt; m_ty := t |}] |}] ++
                (if with_enum then [DEnum {| e_name := L "K"; e_variants := [L "A"; lit] |}] else []) ++
                (if with_unit then [DStruct {| s_name := L "Z"; s_fields := [] |}] else []);
     p_cmds := [{| c_tname := L "C"; c_params := [mem]; c_chans := [] |};
                {| c_tname := L "D"; c_params := [mem]; c_chans := [(ck, ct)] |};
                {| c_tname := L "E"; c_params := []; c_chans := [(ck, ct)] |};
                {| c_tname := L "U"; c_params := {| m_key := L "s"; m_opt := false; m_ty := TCustom (L "S") |} ::
                                                  (if with_enum then [{| m_key := L "k"; m_opt := false; m_ty := TCustom (L "K") |}] else []) ++
                                                  (if with_unit then [{| m_key := L "z"; m_opt := false; m_ty := TCustom (L "Z") |}] else []);
                   c_chans := [] |}] ++ extra;
     p_map := m |}.

(* the five strings of the model with, for each, whether the specification parser reads the model's
   syntax tree from it (the denotation link the theorems take for granted) *)
Definition c10_strings_sx (m : mapping) (t : tstruct) : sx :=
  let den_ty (s : str) (a : ty) := match parse_ty s with Some b => ty_eqb a b | None => false end in
  let den_ex (s : str) (a : ex) := match parse_ex s with Some b => ex_eqb a b | None => false end in
  SL [SL [SA (plain m t); sx_bool (den_ty (plain m t) (ts_ty_of m t))];
      SL [SA (ziface m t); sx_bool (den_ty (ziface m t) (ts_ty_of m t))];
      SL [SA (zvisit m t); sx_bool (den_ex (zvisit m t) (zvisit_ex m t))];
      SL [SA (build_schema m t); sx_bool (den_ex (build_schema m t) (zex_of m t false))];
      SL [SA (build_param_schema m t); sx_bool (den_ex (build_param_schema m t) (zex_of m t false))]].

(* oracle on the implementation's five strings alone: interface rendering of the Zod visitor equals
   the plain rendering; builder output against the plain rendering (field position, key not optional) *)
Definition c10_string_oracle_sx (plain_s ziface_s zfield_s zparam_s : str) : sx :=
  match parse_ty plain_s, parse_ty ziface_s, parse_ex zfield_s, parse_ex zparam_s with
  | Some a, Some b, Some f, Some q =>
      SL [sx_bool (ty_eqb a b); sx_tags (compare_shapes false (zshape f) (tshape a));
          sx_tags (compare_shapes true (zshape q) (tshape a))]
  | _, _, _, _ => SL [sx_bool false; sx_tags [TgParse]; sx_tags [TgParse]]
  end.

Definition c10_dom (m : mapping) (t : tstruct) : bool := map_wide m && dom_w t.
(* oracle alone on two generated modules (configurations whose naming the model is not fed) *)
Definition c10_compare_sx (plain_text zod_text : str) : sx :=
  match parse_module plain_text, parse_module zod_text with
  | Some a, Some b => sx_verdict (compare_modules a b)
  | _, _ => sx_verdict {| v_tags := [TgParse]; v_detail := []; v_keys := [] |} end.
Definition c10_structure (r : rty) : option tstruct := Some (structure_of r).
