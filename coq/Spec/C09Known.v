(* C09: witness of the recorded class and an acyclic sample project. *)
From Coq Require Import String Ascii.
From Coq Require Import List Arith Bool.
Require Import TT.Model.Str TT.Model.C07TypeParse TT.Model.C07Harvest TT.Model.C07Reach TT.Spec.C07Spec TT.Spec.C07Known TT.Spec.C09Spec.
Import ListNotations.
Local Open Scope string_scope.

(* struct Order { x: Result<Item> } with the alias; both types are command parameters *)
Definition w_hidden : project :=
  [(L "src/lib.rs", [sdef "Order" [ty1 "Result" (ty0 "Item")];
                     cmd "save" [("arg0", ty0 "Order"); ("arg1", ty0 "Item")] None]);
   (L "src/m1.rs", [sdef "Item" [ty0 "i32"]])].
Definition o_bad : orders := o_obs [L "Order"; L "Item"].

(* the sample of C07 without the self reference of Node *)
Definition sample_dag : project :=
  [(L "src/lib.rs",
      [sdef "User" [ty1 "Option" (ty0 "Profile"); ty1 "Vec" (CTuple [ty0 "String"; ty0 "Item"]); ty0 "Plain"];
       cmd "get_user" [("app", app_handle); ("arg0", ty2 "HashMap" (ty0 "String") (ty0 "User"));
                       ("on_event", CPath [L "tauri"; L "ipc"] (L "Channel") true [ty1 "Vec" (ty0 "Status")])]
           (Some (ty2 "Result" (ty1 "Vec" (ty0 "Node")) (ty0 "AppError")));
       pdef "Plain" [ty0 "i32"]]);
   (L "src/m1.rs",
      [sdef "Profile" [ty2 "BTreeMap" (ty0 "String") (ty0 "Leaf")]; sdef "Item" [CRef (ty0 "Leaf"); ty1 "HashSet" (ty0 "u8")];
       sdef "Leaf" [ty0 "i32"]; edef "Status"; sdef "Hidden" [ty0 "Leaf"]; sdef "AppError" [ty0 "String"]]);
   (L "src/sub/deep/m2.rs",
      [sdef "Node" [ty1 "Option" (ty1 "Vec" (ty0 "Leaf")); ty0 "Meta"]; sdef "Meta" [ty0 "bool"]; sdef "Zone" [ty0 "f64"];
       helper "notify" [("app", app_handle); ("payload0", CRef (ty0 "Zone")); ("other", ty0 "Hidden")] [PVar (L "payload0")]])].
Fixpoint pos (x : str) (l : list str) : nat :=
  match l with [] => 0 | y :: r => if str_eqb x y then 0 else S (pos x r) end.
Definition sample_rank (x : str) : nat :=
  pos x (map L ["Plain"; "Leaf"; "Meta"; "Status"; "AppError"; "Zone"; "Profile"; "Item"; "Node"; "Hidden"; "User"]).
