(* C12, event names outside ASCII (round 7): the byte-level reading of identifiers.
   The shared lexer takes every byte above 127 as an identifier byte, so is_legal_binding_name accepts
   any UTF-8 garbage inside a listener identifier. ECMAScript allows only ID_Start / ID_Continue code
   points there. uni_ok12 (the walker and table of Spec/C01Wf.v plus four more letter ranges) is the explicit, conservative table: every non-ASCII code point
   outside the listed scripts and every malformed UTF-8 sequence is rejected; an identifier made of
   ASCII bytes only always passes (C12UniProofs.uni_ok12_ascii), so on every file the model prints
   (its identifiers are ASCII, whatever the event name) the extended oracle equals oracle_m.
   oracle_u is the run-time judge of the implementation's files. Definitions only. *)
From Coq Require Import String Ascii.
From Coq Require Import List Arith Bool NArith.
Require Import TT.Model.Str TT.Spec.TsLex TT.Spec.TsModule TT.Spec.TsObs TT.Spec.C01Wf TT.Model.Events TT.Spec.C12Spec.
Import ListNotations.
Local Open Scope list_scope.

(* letters of further scripts the unicode-names stream uses (all ID_Start): Hebrew U+05D0-05EA, Thai U+0E01-0E30,
   Georgian U+10D0-10FA, Latin ligatures U+FB00-FB06 *)
Definition c12_more_letters : list (N * N) := [(1488, 1514); (3585, 3632); (4304, 4346); (64256, 64262)]%N.
Definition c12_start (cp : N) : bool := id_start_cp cp || in_ranges cp c12_more_letters.
Definition c12_continue (cp : N) : bool := id_continue_cp cp || in_ranges cp c12_more_letters.
Definition uni_ok12 (s : str) : bool := uni_walk c12_start c12_continue true s.
Definition uni_name_of (l : lst) : str := match listener_event l with Some n => n | None => ls_name l end.
Definition uni_complaints (events_ts : option str) : list complaint :=
  match events_ts with
  | Some t =>
      match parse_module t with
      | Some m => flat_map (fun l => if uni_ok12 (ls_name l) then [] else [cmp "illegal-identifier" (uni_name_of l)]) (lsts m)
      | None => [] end
  | None => [] end.
Definition oracle_u (mp : list (str * str)) (ss : list site) (events_ts index_ts : option str) : list complaint :=
  oracle_m mp ss events_ts index_ts ++ uni_complaints events_ts.
Definition all_ascii (s : str) : bool := forallb (fun c => (bN c <? 128)%N) s.
