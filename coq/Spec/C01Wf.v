(* C01: well-formedness of a generated TypeScript module, beyond what parse_module already enforces.
   wf_module_b m toks: every declared function / type / parameter name is a legal binding identifier
   (identifier, not a reserved word, not eval/arguments); every property key is an identifier name, a
   quoted literal or a number; every string literal token is well formed for its quote (no raw line
   terminator, every backslash starts a legal escape); every number token is a decimal literal; type
   leaf names are identifiers (the head of a reference is not a reserved word other than the keyword
   types); expressions mention only identifier names; every function body is a statement list of the
   small statement grammar below (so keys and member names inside bodies are checked too).
   Definitions only. The oracle of the check is [c01_problems]: empty list = file accepted. *)
From Coq Require Import String Ascii.
From Coq Require Import List Arith Bool NArith.
Require Import TT.Model.Str TT.Spec.TsLex TT.Spec.TsModule TT.Spec.TsObs.
Import ListNotations.
Local Open Scope list_scope.

(* ---------------- identifiers ---------------- *)
(* The shared lexer (Spec/TsLex.v) takes every byte >= 128 as an identifier character. ECMAScript allows only
   ID_Start / ID_Continue code points. Explicit table for the scripts the generators use; EVERY OTHER non-ASCII
   code point (in particular category No: superscripts, subscripts, fractions, circled numbers; punctuation;
   symbols; emoji) and every malformed UTF-8 sequence is rejected.
   ID_Start:  U+00AA U+00B5 U+00BA U+00C0-00D6 U+00D8-00F6 U+00F8-02C1 (Latin-1, Latin Extended, IPA, modifiers)
              U+0370-0374 U+0376-0377 U+037B-037D U+037F U+0386 U+0388-038A U+038C U+038E-03A1 U+03A3-03F5 U+03F7-0481 (Greek, Cyrillic)
              U+048A-052F (Cyrillic) U+0620-064A (Arabic letters) U+0904-0939 (Devanagari letters)
              U+2160-2188 (Nl: Roman numerals) U+3041-3096 U+309D-309F (Hiragana) U+30A1-30FA U+30FC-30FF (Katakana) U+4E00-9FFF (CJK) U+AC00-D7A3 (Hangul)
   ID_Continue adds: U+00B7, U+0300-036F (combining marks), U+0660-0669, U+0966-096F, U+FF10-FF19 (Nd digits of other scripts),
                      U+093E-094C (Devanagari vowel signs) *)
Definition bN (c : ascii) : N := N_of_ascii c.
Definition in_ranges (cp : N) (l : list (N * N)) : bool := existsb (fun r => (fst r <=? cp)%N && (cp <=? snd r)%N) l.
Definition id_start_ranges : list (N * N) :=
  [(170, 170); (181, 181); (186, 186); (192, 214); (216, 246); (248, 705);
   (880, 884); (886, 887); (891, 893); (895, 895); (902, 902); (904, 906); (908, 908); (910, 929); (931, 1013); (1015, 1153);
   (1162, 1327); (1568, 1610); (2308, 2361); (8544, 8584); (12353, 12438); (12445, 12447); (12449, 12538); (12540, 12543); (19968, 40959); (44032, 55203)]%N.
Definition id_continue_extra : list (N * N) := [(183, 183); (768, 879); (1632, 1641); (2366, 2380); (2406, 2415); (65296, 65305)]%N.
Definition id_start_cp (cp : N) : bool := in_ranges cp id_start_ranges.
Definition id_continue_cp (cp : N) : bool := in_ranges cp id_start_ranges || in_ranges cp id_continue_extra.
Definition is_cont (c : ascii) : bool := ((128 <=? bN c) && (bN c <=? 191))%N.
(* walk a UTF-8 byte string: ASCII bytes are left to the caller's ASCII test; every non-ASCII code point must
   satisfy pstart (first position) / pcont (elsewhere) *)
Fixpoint uni_walk (pstart pcont : N -> bool) (first : bool) (s : str) : bool :=
  match s with
  | [] => true
  | a :: r =>
      let x := bN a in
      let ok := fun cp => if first then pstart cp else pcont cp in
      if (x <? 128)%N then uni_walk pstart pcont false r
      else if (x <? 194)%N then false
      else if (x <? 224)%N then
        match r with
        | b :: r' => is_cont b && ok ((x - 192) * 64 + (bN b - 128))%N && uni_walk pstart pcont false r'
        | _ => false end
      else if (x <? 240)%N then
        match r with
        | b :: c :: r' => is_cont b && is_cont c && ok ((x - 224) * 4096 + (bN b - 128) * 64 + (bN c - 128))%N && uni_walk pstart pcont false r'
        | _ => false end
      else
        match r with
        | b :: c :: d :: r' => is_cont b && is_cont c && is_cont d &&
                               ok ((x - 240) * 262144 + (bN b - 128) * 4096 + (bN c - 128) * 64 + (bN d - 128))%N && uni_walk pstart pcont false r'
        | _ => false end
  end.
Definition uni_ok (s : str) : bool := uni_walk id_start_cp id_continue_cp true s.
(* an ECMAScript IdentifierName *)
Definition is_ident_name (s : str) : bool := is_ts_identifier s && uni_ok s.
Definition is_binding_name (s : str) : bool :=
  is_ident_name s && negb (is_reserved s) && negb (str_eqb s (L "eval")) && negb (str_eqb s (L "arguments")).
(* reserved words that are nevertheless legal as the single name of a type reference / a primary expression *)
Definition type_keyword (s : str) : bool :=
  existsb (fun w => str_eqb s (L w)) ["void"; "null"; "this"; "true"; "false"]%string.
Definition is_ref_head (s : str) : bool := is_ident_name s && (negb (is_reserved s) || type_keyword s).
Definition path_ok (p : list str) : bool :=
  match p with
  | [] => false
  | h :: r => is_ref_head h && forallb is_ident_name r
  end.

(* ---------------- literals ---------------- *)
Definition is_hex (c : ascii) : bool :=
  let n := n_of c in (((48 <=? n) && (n <=? 57)) || ((65 <=? n) && (n <=? 70)) || ((97 <=? n) && (n <=? 102)))%nat.
Definition is_line_term (c : ascii) : bool := let n := n_of c in ((n =? 10) || (n =? 13))%nat.
(* body of a quoted literal (as the lexer cut it): q is the quote in force *)
Fixpoint str_body_ok (q : ascii) (s : str) : bool :=
  match s with
  | [] => true
  | c :: r =>
      if is_line_term c then false
      else if Ascii.eqb c q then false
      else if Ascii.eqb c "\"%char then
        match r with
        | [] => false
        | e :: r' =>
            if Ascii.eqb e "x"%char then
              match r' with h1 :: h2 :: r'' => is_hex h1 && is_hex h2 && str_body_ok q r'' | _ => false end
            else if Ascii.eqb e "u"%char then
              match r' with
              | h1 :: h2 :: h3 :: h4 :: r'' =>
                  if Ascii.eqb h1 "{"%char then str_body_ok q r'   (* \u{...}: digits checked loosely *)
                  else is_hex h1 && is_hex h2 && is_hex h3 && is_hex h4 && str_body_ok q r''
              | _ => false end
            else if is_digit e then
              (* strict mode: only \0 not followed by a digit *)
              (n_of e =? 48)%nat && (match r' with d :: _ => negb (is_digit d) | [] => true end) && str_body_ok q r'
            else if is_line_term e then false       (* line continuation: never intended by the templates *)
            else str_body_ok q r'
        end
      else str_body_ok q r
  end.
(* decimal literal: digits [. digits] [e digits]; the integer part is 0 or starts with a non-zero digit: module code
   is strict, so a leading zero (legacy octal 01, 007 and the non-octal forms 08, 09, 00) is a syntax error.
   Hex / octal / binary prefixes, numeric separators and signs are not produced by the templates and are rejected
   (a sign is a separate token anyway) *)
Fixpoint all_digits (s : str) : bool := match s with [] => true | c :: r => is_digit c && all_digits r end.
Definition num_ok (s : str) : bool :=
  let '(ip, r) := span is_digit s in
  match ip with
  | [] => false
  | d :: (_ :: _) => if Ascii.eqb d "0"%char then false else
    let r1 := match r with
              | c :: r' => if Ascii.eqb c "."%char then let '(fp, r'') := span is_digit r' in (match fp with [] => None | _ => Some r'' end) else Some r
              | [] => Some r end in
    match r1 with
    | None => false
    | Some [] => true
    | Some (e :: ex) => (Ascii.eqb e "e"%char || Ascii.eqb e "E"%char) && (match ex with [] => false | _ => all_digits ex end)
    end
  | _ =>
    let r1 := match r with
              | c :: r' => if Ascii.eqb c "."%char then let '(fp, r'') := span is_digit r' in (match fp with [] => None | _ => Some r'' end) else Some r
              | [] => Some r end in
    match r1 with
    | None => false
    | Some [] => true
    | Some (e :: ex) => (Ascii.eqb e "e"%char || Ascii.eqb e "E"%char) && (match ex with [] => false | _ => all_digits ex end)
    end
  end.
Definition tok_ok (t : tk) : bool :=
  match t with
  | KStr q b => str_body_ok q b
  | KNum s => num_ok s
  | KErr _ => false
  | _ => true
  end.

(* ---------------- types ---------------- *)
Definition key_ok (k : key) : bool :=
  match k with KeyId s => is_ident_name s | KeyStr _ => true | KeyNum s => num_ok s end.

Fixpoint ty_ok (t : ty) : bool :=
  match t with
  | TyRef p args => path_ok p && forallb ty_ok args
  | TyArr t => ty_ok t
  | TyTuple ts | TyUnion ts => forallb ty_ok ts
  | TyLit _ => true
  | TyTypeof p => path_ok p
  | TyFun ps r => forallb (fun p => is_binding_name (fst (fst p)) && ty_ok (snd p)) ps && ty_ok r
  | TyObj ms ix => forallb (fun m => key_ok (fst (fst m)) && ty_ok (snd m)) ms &&
                   forallb (fun i => is_binding_name (fst (fst i)) && ty_ok (snd (fst i)) && ty_ok (snd i)) ix
  end.

(* ---------------- expressions ---------------- *)
Fixpoint ex_ok (e : ex) : bool :=
  match e with
  | EId s => is_ref_head s
  | EStr _ _ | ENum _ | ETpl _ => true
  | EArr l => forallb ex_ok l
  | EObj ps => forallb (fun p => (match fst p with Some k => key_ok k | None => true end) && ex_ok (snd p)) ps
  | EMember e n _ => ex_ok e && is_ident_name n
  | ECall f targs args => ex_ok f && forallb ty_ok targs && forallb ex_ok args
  | EIndex e i => ex_ok e && ex_ok i
  | EArrow ps b => forallb is_binding_name ps && ex_ok b
  | EUnary _ e => ex_ok e
  | ESpread e => ex_ok e
  end.

(* ---------------- function bodies: a small statement grammar ----------------
   stmt  ::= return [expr] ; | throw expr ; | const id = expr ; | if ( expr ) block [else block]
           | try block [catch ( id ) block] [finally block] | expr ;
   block ::= { stmt* }
   expr  ::= the expression grammar of TsModule extended with  a instanceof b , a === b  and arrow
             functions whose body is a block.
   One fuel-indexed function; mode true = statement list up to the closing brace (the opening one is
   consumed by the caller), mode false = expression. Blocks inside expressions are represented by the
   placeholder [EObj []] after their contents have been checked by [ex_ok]-style tests on the spot. *)
Definition binops : list string := ["instanceof"; "==="; "!=="; "&&"; "||"; "??"; "=="; "!="]%string.
Definition is_binop (t : tk) : bool := existsb (fun o => tk_is o t) binops.

Fixpoint pse (fuel : nat) (stmts : bool) (l : list tk) : RT ex :=
  match fuel with 0 => None | S f =>
    if stmts then
      (* statement list: returns after the closing brace *)
      match l with
      | [] => None
      | c :: r =>
          if tk_is "}" c then Some (EObj [], r)
          else if tk_is ";" c then pse f true r
          else if tk_is "return" c then
            match r with
            | c2 :: r2 => if tk_is ";" c2 then pse f true r2
                          else match pse f false r with
                               | Some (e, c3 :: r3) => if tk_is ";" c3 && ex_ok e then pse f true r3 else None
                               | _ => None end
            | [] => None end
          else if tk_is "throw" c then
            match pse f false r with
            | Some (e, c3 :: r3) => if tk_is ";" c3 && ex_ok e then pse f true r3 else None
            | _ => None end
          else if tk_is "const" c || tk_is "let" c then
            match r with
            | KId n :: eq :: r2 =>
                if tk_is "=" eq && is_binding_name n then
                  match pse f false r2 with
                  | Some (e, c3 :: r3) => if tk_is ";" c3 && ex_ok e then pse f true r3 else None
                  | _ => None end
                else None
            | _ => None end
          else if tk_is "if" c then
            match r with
            | lp :: r1 =>
                if tk_is "(" lp then
                  match pse f false r1 with
                  | Some (e, rp :: lb :: r2) =>
                      if tk_is ")" rp && tk_is "{" lb && ex_ok e then
                        match pse f true r2 with
                        | Some (_, el :: lb2 :: r3) =>
                            if tk_is "else" el && tk_is "{" lb2 then
                              match pse f true r3 with Some (_, r4) => pse f true r4 | None => None end
                            else pse f true (el :: lb2 :: r3)
                        | Some (_, r3) => pse f true r3
                        | None => None end
                      else None
                  | _ => None end
                else None
            | [] => None end
          else if tk_is "try" c then
            match r with
            | lb :: r1 =>
                if tk_is "{" lb then
                  match pse f true r1 with
                  | Some (_, r2) =>
                      let after_catch :=
                        match r2 with
                        | ca :: lp :: KId en :: rp :: lb2 :: r3 =>
                            if tk_is "catch" ca then
                              if tk_is "(" lp && tk_is ")" rp && tk_is "{" lb2 && is_binding_name en then
                                match pse f true r3 with Some (_, r4) => Some (true, r4) | None => None end
                              else None
                            else Some (false, r2)
                        | _ => Some (false, r2) end in
                      match after_catch with
                      | None => None
                      | Some (had_catch, r4) =>
                          match r4 with
                          | fi :: lb3 :: r5 =>
                              if tk_is "finally" fi then
                                if tk_is "{" lb3 then match pse f true r5 with Some (_, r6) => pse f true r6 | None => None end else None
                              else if had_catch then pse f true r4 else None
                          | _ => if had_catch then pse f true r4 else None end
                      end
                  | None => None end
                else None
            | [] => None end
          else
            match pse f false l with
            | Some (e, c3 :: r3) => if tk_is ";" c3 && ex_ok e then pse f true r3 else None
            | _ => None end
      end
    else
      (* expression, with arrow-block bodies and binary operators *)
      let rec_ := fun l' =>
        match l' with
        | c :: r => if tk_is "{" c then
                      match p_expr_body (pse f false) l' with
                      | Some res => Some res
                      | None => pse f true r            (* a block: arrow function body *)
                      end
                    else pse f false l'
        | [] => None end in
      match p_expr_body rec_ l with
      | Some (e, c :: r) =>
          if is_binop c then
            match pse f false r with Some (e2, r2) => Some (ECall (EId (L "binop")) [] [e; e2], r2) | None => None end
          else Some (e, c :: r)
      | other => other end
  end.

Definition body_ok (body : list tk) : bool :=
  match pse (4 * S (List.length body)) true (body ++ [P "}"]) with
  | Some (_, []) => true
  | _ => false end.

(* ---------------- items ---------------- *)
Definition member_ok (m : key * bool * ty) : bool := key_ok (fst (fst m)) && ty_ok (snd m).
Definition index_ok (i : str * ty * ty) : bool := is_binding_name (fst (fst i)) && ty_ok (snd (fst i)) && ty_ok (snd i).
Definition param_ok (p : str * bool * ty) : bool := is_binding_name (fst (fst p)) && ty_ok (snd p).

Definition item_ok (it : item) : bool :=
  match it with
  | IImport _ names star _ => forallb (fun n => is_binding_name (snd n)) names && (match star with Some a => is_binding_name a | None => true end)
  | IExportStar _ => true
  | IInterface n tps ext ms ix =>
      is_binding_name n && forallb is_binding_name tps && (match ext with Some t => ty_ok t | None => true end) &&
      forallb member_ok ms && forallb index_ok ix
  | ITypeAlias n tps t => is_binding_name n && forallb is_binding_name tps && ty_ok t
  | IConst n e => is_binding_name n && ex_ok e
  | IFunction _ n ps r body => is_binding_name n && forallb param_ok ps && (match r with Some t => ty_ok t | None => true end) && body_ok body
  end.

Definition wf_module_b (m : list item) (toks : list tk) : bool := forallb tok_ok toks && forallb item_ok m.

(* ---------------- diagnostics: why a file is rejected ---------------- *)
Definition item_label (it : item) : str :=
  match it with
  | IImport _ _ _ f => L "import from " ++ f
  | IExportStar f => L "export * from " ++ f
  | IInterface n _ _ _ _ => L "interface " ++ n
  | ITypeAlias n _ _ => L "type " ++ n
  | IConst n _ => L "const " ++ n
  | IFunction _ n _ _ _ => L "function " ++ n
  end.
Definition item_problems (it : item) : list str :=
  if item_ok it then [] else
  match it with
  | IInterface n tps ext ms ix =>
      (if is_binding_name n then [] else [L "declared type name is not a legal identifier: " ++ n]) ++
      flat_map (fun m => (if key_ok (fst (fst m)) then [] else [L "property key is neither identifier nor quoted: " ++ key_text (fst (fst m))]) ++
                         (if ty_ok (snd m) then [] else [L "type with a non-identifier leaf in member " ++ key_text (fst (fst m))])) ms ++
      (if (match ext with Some t => ty_ok t | None => true end) && forallb index_ok ix && forallb is_binding_name tps then [] else [L "bad extends/index/type parameter in " ++ n])
  | ITypeAlias n _ t => (if is_binding_name n then [] else [L "declared type name is not a legal identifier: " ++ n]) ++
                        (if ty_ok t then [] else [L "type with a non-identifier leaf in alias " ++ n])
  | IConst n e => (if is_binding_name n then [] else [L "declared constant name is not a legal identifier: " ++ n]) ++
                  (if ex_ok e then [] else [L "expression with a non-identifier name or key in const " ++ n])
  | IFunction _ n ps r body =>
      (if is_binding_name n then [] else [L "declared function name is not a legal identifier: " ++ n]) ++
      (if forallb param_ok ps then [] else [L "bad parameter name or type in function " ++ n]) ++
      (if (match r with Some t => ty_ok t | None => true end) then [] else [L "return type with a non-identifier leaf in function " ++ n]) ++
      (if body_ok body then [] else [L "body is not a statement list in function " ++ n])
  | _ => [L "bad import: " ++ item_label it]
  end.

(* first item that fails to parse: label of the last good item and the next few tokens *)
Fixpoint first_bad (n : nat) (l : list tk) (last : str) : option (str * list tk) :=
  match n with 0 => None | S n' =>
    match l with
    | [] => None
    | _ => match p_item l with
           | Some (it, r) => first_bad n' r (item_label it)
           | None => Some (last, firstn 12 l) end
    end end.

Definition c01_problems (s : str) : list str :=
  let toks := lex_module s in
  let tp := flat_map (fun t => match t with
                               | KErr w => [L "lexical error: " ++ w]
                               | KStr q b => if str_body_ok q b then [] else [L "string literal not well formed: " ++ b]
                               | KNum n => if num_ok n then [] else [L "number literal not well formed: " ++ n]
                               | _ => [] end) toks in
  match parse_module s with
  | Some m => tp ++ flat_map item_problems m
  | None => tp ++ [L "module does not parse"]
  end.
Definition c01_ok (s : str) : bool :=
  match parse_module s with Some m => wf_module_b m (lex_module s) | None => false end.
