From Coq Require Import String Ascii.
Require Import TT.Model.Str.
From Coq Require Import List Arith Lia Bool.
Import ListNotations.
Local Open Scope list_scope.

Inductive tok := TId (s : str) | TBar | TLBr | TRBr | TLt | TGt | TComma | TLPar | TRPar | TDot.

Inductive tsty :=
| TsName (hd : str) (tl : list str)
| TsApp (hd : str) (tl : list str) (a : tsty) (args : list tsty)
| TsArray (t : tsty)
| TsTuple (ts : list tsty)
| TsUnion (a b : tsty) (more : list tsty).

Definition R := option (tsty * list tok).

(* -------- parser, open recursion on the union level -------- *)
Fixpoint parse_path (acc : list str) (l : list tok) : list str * list tok :=
  match l with
  | TDot :: TId s :: r => parse_path (s :: acc) r
  | _ => (rev acc, l)
  end.

Fixpoint parse_suffix (t : tsty) (l : list tok) : tsty * list tok :=
  match l with
  | TLBr :: TRBr :: r => parse_suffix (TsArray t) r
  | _ => (t, l)
  end.

Section Open.
  Variable rec : list tok -> R.

  (* comma-separated list up to a closing token; n is fuel (token count) *)
  Fixpoint parse_list (close : tok -> bool) (n : nat) (l : list tok) (acc : list tsty)
    : option (list tsty * list tok) :=
    match n with 0 => None | S n' =>
      match rec l with
      | Some (a, TComma :: r) => parse_list close n' r (a :: acc)
      | Some (a, c :: r) => if close c then Some (rev (a :: acc), r) else None
      | _ => None
      end
    end.

  Definition is_gt (t : tok) := match t with TGt => true | _ => false end.
  Definition is_rbr (t : tok) := match t with TRBr => true | _ => false end.

  Definition parse_primary (l : list tok) : R :=
    match l with
    | TId s :: r =>
        let '(p, r1) := parse_path [] r in
        match r1 with
        | TLt :: r2 =>
            match parse_list is_gt (S (List.length r2)) r2 [] with
            | Some (a :: args, r3) => Some (TsApp s p a args, r3)
            | _ => None
            end
        | _ => Some (TsName s p, r1)
        end
    | TLPar :: r =>
        match rec r with
        | Some (t, TRPar :: r') => Some (t, r')
        | _ => None
        end
    | TLBr :: TRBr :: r => Some (TsTuple [], r)
    | TLBr :: r =>
        match parse_list is_rbr (S (List.length r)) r [] with
        | Some (ts, r3) => Some (TsTuple ts, r3)
        | None => None
        end
    | _ => None
    end.

  Definition parse_postfix (l : list tok) : R :=
    match parse_primary l with
    | Some (t, r) => Some (parse_suffix t r)
    | None => None
    end.

  Fixpoint parse_alts (n : nat) (l : list tok) (acc : list tsty) : option (list tsty * list tok) :=
    match n with 0 => None | S n' =>
      match l with
      | TBar :: r1 =>
          match parse_postfix r1 with
          | Some (t', r2) => parse_alts n' r2 (t' :: acc)
          | None => None
          end
      | _ => Some (rev acc, l)
      end
    end.

  Definition parse_union_body (l : list tok) : R :=
    match parse_postfix l with
    | None => None
    | Some (t, r) =>
        match parse_alts (S (List.length r)) r [] with
        | Some ([], r') => Some (t, r')
        | Some (b :: more, r') => Some (TsUnion t b more, r')
        | None => None
        end
    end.
End Open.

Fixpoint parse_union (fuel : nat) (l : list tok) : R :=
  match fuel with 0 => None | S f => parse_union_body (parse_union f) l end.

Definition ts_parse (l : list tok) : option tsty :=
  match parse_union (S (List.length l)) l with Some (t, []) => Some t | _ => None end.

(* -------- canonical printer -------- *)
Fixpoint sep_by {A} (s : A) (l : list (list A)) : list A :=
  match l with [] => [] | [x] => x | x :: l' => x ++ s :: sep_by s l' end.

Definition pr_path (hd : str) (tl : list str) : list tok :=
  TId hd :: flat_map (fun s => [TDot; TId s]) tl.

Definition is_union (t : tsty) := match t with TsUnion _ _ _ => true | _ => false end.

Fixpoint pr (t : tsty) : list tok :=
  match t with
  | TsName hd tl => pr_path hd tl
  | TsApp hd tl a args => pr_path hd tl ++ TLt :: sep_by TComma (map pr (a :: args)) ++ [TGt]
  | TsArray u => (if is_union u then TLPar :: pr u ++ [TRPar] else pr u) ++ [TLBr; TRBr]
  | TsTuple ts => TLBr :: sep_by TComma (map pr ts) ++ [TRBr]
  | TsUnion a b more => sep_by TBar (map pr (a :: b :: more))
  end.

(* normal form: union alternatives are not unions *)
Fixpoint nf (t : tsty) : Prop :=
  match t with
  | TsName _ _ => True
  | TsApp _ _ a args => nf a /\ (fix go l := match l with [] => True | x :: l' => nf x /\ go l' end) args
  | TsArray u => nf u
  | TsTuple ts => (fix go l := match l with [] => True | x :: l' => nf x /\ go l' end) ts
  | TsUnion a b more => (nf a /\ is_union a = false) /\ (nf b /\ is_union b = false) /\
       (fix go l := match l with [] => True | x :: l' => (nf x /\ is_union x = false) /\ go l' end) more
  end.

Definition ex := TsUnion (TsArray (TsUnion (TsName (L "number") []) (TsName (L "null") []) [])) (TsName (L "null") []) [].

(* ====================== print / parse round trip ====================== *)
Local Open Scope list_scope.

Fixpoint size (t : tsty) : nat :=
  match t with
  | TsName _ _ => 1
  | TsApp _ _ a args => S (size a + list_sum (map size args))
  | TsArray u => S (size u)
  | TsTuple ts => S (list_sum (map size ts))
  | TsUnion a b more => S (size a + size b + list_sum (map size more))
  end.

Definition stop (rest : list tok) : Prop :=
  match rest with [] | TComma :: _ | TGt :: _ | TRBr :: _ | TRPar :: _ => True | _ => False end.
Definition stop_post (rest : list tok) : Prop := stop rest \/ exists r, rest = TBar :: r.
Definition no_dot_lt (rest : list tok) : Prop :=
  match rest with TDot :: _ | TLt :: _ => False | _ => True end.
Definition no_arr (rest : list tok) : Prop :=
  match rest with TLBr :: _ => False | _ => True end.

