(* C06: reading property keys and enum literals back from a generated types.ts through the
   specification parser of the emitted module subset (Spec/TsModule.v). Quoted keys and string
   literals are decoded (js_unescape), so a key printed bare and the same key printed as a
   double-quoted escaped literal read the same. *)
From Coq Require Import String Ascii.
From Coq Require Import List Arith Bool.
Local Open Scope char_scope.
Require Import TT.Model.Str TT.Spec.TsLex TT.Spec.TsModule.
Import ListNotations.
Local Open Scope list_scope.

(* value of a JavaScript string literal body: backslash n r t denote control characters, a backslash
   before any other character denotes that character (the escapes the generators print) *)
Fixpoint js_unescape (s : str) : str :=
  match s with
  | [] => []
  | a :: r =>
      if Ascii.eqb a "\" then
        match r with
        | c :: r' =>
            (if Ascii.eqb c "n" then ascii_of_nat 10 else if Ascii.eqb c "r" then ascii_of_nat 13
             else if Ascii.eqb c "t" then ascii_of_nat 9 else c) :: js_unescape r'
        | [] => [a]
        end
      else a :: js_unescape r
  end.
Definition key_text (k : key) : str := match k with KeyId s => s | KeyStr s => js_unescape s | KeyNum s => s end.
Definition lits_of_ty (t : ty) : option (list str) :=
  match t with
  | TyLit s => Some [js_unescape s]
  | TyRef [n] [] => if str_eqb n (L "never") then Some [] else None      (* export type N = never; no literal *)
  | TyUnion ts => mapM (fun t => match t with TyLit s => Some (js_unescape s) | _ => None end) ts
  | _ => None
  end.
Definition is_z_call (m : string) (e : ex) : option (list ex) :=
  match e with
  | ECall (EMember (EId z) name _) _ args => if str_eqb z (L "z") && str_eqb name (L m) then Some args else None
  | _ => None
  end.

(* what one declaration of the module says about keys or literals *)
Inductive decl_obs :=
| DInterface (keys : list str)        (* export interface N { k: T; ... } *)
| DLiterals (lits : list str)         (* export type N = <lit> | <lit>; *)
| DZObject (keys : list str)          (* export const NSchema = z.object({ k: e, ... }); *)
| DZEnum (lits : list str).           (* export const NSchema = z.enum([<lit>, <lit>]); *)

Definition schema_name (n : str) : str := n ++ L "Schema".
Definition decl_of (n : str) (it : item) : option decl_obs :=
  match it with
  | IInterface name _ _ members _ => if str_eqb name n then Some (DInterface (map (fun m => key_text (fst (fst m))) members)) else None
  | ITypeAlias name _ t => if str_eqb name n then option_map DLiterals (lits_of_ty t) else None
  | IConst name e =>
      if str_eqb name (schema_name n) then
        match is_z_call "object" e with
        | Some [EObj props] =>
            option_map DZObject (mapM (fun p => match fst p with Some k => Some (key_text k) | None => None end) props)
        | _ => match is_z_call "enum" e with
               (* an empty z.enum([]) is the old, invalid way of saying no literal: a distinct observation *)
               | Some [EArr []] => Some (DZEnum [L "<empty z.enum>"])
               | Some [EArr l] => option_map DZEnum (mapM (fun x => match x with EStr _ s => Some (js_unescape s) | _ => None end) l)
               | _ => match is_z_call "never" e with Some [] => Some (DZEnum []) | _ => None end   (* z.never() *)
               end
        end
      else None
  | _ => None
  end.
(* None: the file is not in the module grammar; Some l: the declarations found for type n *)
Definition read_keys (n : str) (file : str) : option (list decl_obs) :=
  match parse_module file with
  | Some items => Some (flat_map (fun it => match decl_of n it with Some d => [d] | None => [] end) items)
  | None => None
  end.
