(* C12 specification: which emit calls count (documented placements and receivers), what the
   evident type of a payload is, what the events module must then contain (boolean oracle on
   the parsed module), the domain predicate, and the recorded defect classes. Definitions only. *)
From Coq Require Import String Ascii.
From Coq Require Import List Arith Bool.
Require Import TT.Model.Str TT.Model.TypeParse TT.Spec.TsLex TT.Spec.TsModule TT.Spec.TsObs TT.Model.Pipeline TT.Model.Events.
Import ListNotations.
Local Open Scope list_scope.

(* ---------------- documented receivers and call shape ---------------- *)
Local Open Scope string_scope.
Definition handle_name (n : str) : bool := named n ["app"; "window"; "webview"].
Local Close Scope string_scope.
(* a variable or field named app / window / webview, or the result of a method call *)
Definition doc_receiver (r : expr) : bool :=
  match r with
  | XPath [n] => handle_name n
  | XField _ n => handle_name n
  | XMethod _ _ _ => true
  | _ => false end.
(* emit("name", payload) / emit_to(target, "name", payload) with a string-literal name *)
Definition emit_call (m : str) (args : list expr) : option (str * expr) :=
  if str_eqb m (L "emit") then
    match args with XLit (LStr n) :: p :: _ => Some (n, p) | _ => None end
  else if str_eqb m (L "emit_to") then
    match args with _ :: XLit (LStr n) :: p :: _ => Some (n, p) | _ => None end
  else None.

(* ---------------- EmitsAt: the documented placements, as an inductive relation ---------------- *)
Inductive EmitsAt : expr -> str -> expr -> Prop :=
| EA_here : forall r m args n p, doc_receiver r = true -> emit_call m args = Some (n, p) -> EmitsAt (XMethod r m args) n p
| EA_recv : forall r m args n p, EmitsAt r n p -> EmitsAt (XMethod r m args) n p     (* receiver of .unwrap() / .ok() / any method *)
| EA_block : forall ss n p, EmitsIn ss n p -> EmitsAt (XBlock ss) n p
| EA_loop : forall ss n p, EmitsIn ss n p -> EmitsAt (XLoop ss) n p
| EA_while : forall ss n p, EmitsIn ss n p -> EmitsAt (XWhile ss) n p
| EA_for : forall ss n p, EmitsIn ss n p -> EmitsAt (XFor ss) n p
| EA_then : forall th el n p, EmitsIn th n p -> EmitsAt (XIf th el) n p
| EA_else : forall th x n p, EmitsAt x n p -> EmitsAt (XIf th (Some x)) n p
| EA_arm : forall arms a n p, In a arms -> EmitsAt a n p -> EmitsAt (XMatch arms) n p
| EA_await : forall x n p, EmitsAt x n p -> EmitsAt (XAwait x) n p
| EA_try : forall x n p, EmitsAt x n p -> EmitsAt (XTry x) n p
with EmitsIn : list stmt -> str -> expr -> Prop :=
| EI_expr : forall ss e n p, In (SExpr e) ss -> EmitsAt e n p -> EmitsIn ss n p          (* expression statement *)
| EI_let : forall ss pt i n p, In (SLet pt (Some i)) ss -> EmitsAt i n p -> EmitsIn ss n p. (* let initialiser *)

(* ---------------- evident types ---------------- *)
(* what is known about a variable: its declared / evident type, a constructor-like call
   (Type::new()), or nothing *)
Inductive known := KEv (t : qty) | KCtor | KOpaque.
Definition renv := list (str * known).
Fixpoint rlookup (k : str) (s : renv) : option known :=
  match s with [] => None | (k', v) :: r => if str_eqb k k' then Some v else rlookup k r end.
Definition qname (n : string) : qty := QPath [] (L n) false [].
Fixpoint evident_type (e : expr) (env : renv) : option qty :=
  match e with
  | XLit (LStr _) => Some (qname "String") | XLit LInt => Some (qname "i32")
  | XLit LFloat => Some (qname "f64") | XLit LBool => Some (qname "bool")
  | XTuple [] => Some (QTuple [])                       (* the unit value *)
  | XStruct p => match p with [] => None | _ => Some (QPath [] (last_seg p) false []) end
  | XRef u => evident_type u env
  | XMethod r m _ => if str_eqb m (L "clone") then evident_type r env else None
  | XPath [x] => match rlookup x env with Some (KEv t) => Some t | _ => None end
  | _ => None
  end.
Definition known_of_init (i : expr) (env : renv) : known :=
  match evident_type i env with
  | Some t => KEv t
  | None => match i with XCall (XPath (_ :: _ :: _)) _ => KCtor | _ => KOpaque end
  end.
Definition bind_spec (p : pat) (init : option expr) (env : renv) : renv :=
  match p, init with
  | PIdent v, Some i => (v, known_of_init i env) :: env
  | PIdent v, None => (v, KOpaque) :: env
  | PTyped v t, _ => (v, KEv t) :: env
  | POther, _ => env end.

(* ---------------- expected TypeScript payload type (README table, on the syntax) ---------------- *)
Definition tref (p : list string) : ty := TyRef (map L p) [].
Local Open Scope string_scope.
Definition prim_ts (n : str) : option ty :=
  if named n ["String"; "str"] then Some (tref ["string"])
  else if named n ["i8"; "i16"; "i32"; "i64"; "i128"; "isize"; "u8"; "u16"; "u32"; "u64"; "u128"; "usize"; "f32"; "f64"] then Some (tref ["number"])
  else if named n ["bool"] then Some (tref ["boolean"])
  else None.
Definition null_ty : ty := tref ["null"].
Definition flat_union (a : ty) (b : ty) : ty := match a with TyUnion l => TyUnion (l ++ [b]) | _ => TyUnion [a; b] end.
Fixpoint expect_ty (t : qty) : ty :=
  match t with
  | QRef u => expect_ty u
  | QTuple [] => tref ["void"]
  | QTuple ts => TyTuple (map expect_ty ts)
  | QPath _ n _ args =>
      match prim_ts n with
      | Some p => p
      | None =>
        if named n ["Vec"; "HashSet"; "BTreeSet"] then match args with [a] => TyArr (expect_ty a) | _ => tref ["unknown"] end
        else if named n ["Option"] then match args with [a] => flat_union (expect_ty a) null_ty | _ => tref ["unknown"] end
        else if named n ["HashMap"; "BTreeMap"] then match args with [k; v] => TyRef [L "Record"] [expect_ty k; expect_ty v] | _ => tref ["unknown"] end
        else if named n ["Result"] then match args with a :: _ => expect_ty a | _ => tref ["unknown"] end
        else TyRef [L "types"; n] []
      end
  end.
Local Close Scope string_scope.
Definition unknown_ty : ty := TyRef [L "unknown"] [].
(* the translation includes the configured type mappings (C18): a mapped custom name, at any depth,
   denotes its target (a bare name for the three primitive targets, types.T otherwise) *)
Definition target_ty (t : str) : ty :=
  if named t ["string"; "number"; "boolean"]%string then TyRef [t] [] else TyRef [L "types"; t] [].
Fixpoint expect_ty_m (m : list (str * str)) (t : qty) : ty :=
  match t with
  | QRef u => expect_ty_m m u
  | QTuple [] => tref ["void"]%string
  | QTuple ts => TyTuple (map (expect_ty_m m) ts)
  | QPath _ n _ args =>
      match prim_ts n with
      | Some p => p
      | None =>
        if named n ["Vec"; "HashSet"; "BTreeSet"]%string then match args with [a] => TyArr (expect_ty_m m a) | _ => tref ["unknown"]%string end
        else if named n ["Option"]%string then match args with [a] => flat_union (expect_ty_m m a) null_ty | _ => tref ["unknown"]%string end
        else if named n ["HashMap"; "BTreeMap"]%string then match args with [k; v] => TyRef [L "Record"] [expect_ty_m m k; expect_ty_m m v] | _ => tref ["unknown"]%string end
        else if named n ["Result"]%string then match args with a :: _ => expect_ty_m m a | _ => tref ["unknown"]%string end
        else match lookup n m with Some t => target_ty t | None => TyRef [L "types"; n] [] end
      end
  end.
Definition expected_payload_m (m : list (str * str)) (p : expr) (env : renv) : ty :=
  match evident_type p env with Some t => expect_ty_m m t | None => unknown_ty end.
Definition expected_payload (p : expr) (env : renv) : ty := expected_payload_m [] p env.

(* ---------------- the documented emit sites of a body, with the two environments ----------------
   env: lexically scoped evident types (specification); sy: the tool's function-wide table, carried
   along only so that the defect classes can speak about it (it is threaded exactly as the walker
   threads it through the documented positions). *)
Record site := { s_name : str; s_payload : expr; s_env : renv; s_sy : symtab }.
Section Sites.
  Variable SX : expr -> renv -> symtab -> list site * symtab.
  Definition sites_stmt (s : stmt) (env : renv) (sy : symtab) : list site * renv * symtab :=
    match s with
    | SExpr e => let '(a, s1) := SX e env sy in (a, env, s1)
    | SLet p init =>
        let sy' := bind_local p init sy in
        match init with
        | Some i => let '(a, s1) := SX i env sy' in (a, bind_spec p init env, s1)     (* the initialiser sees the OLD scope *)
        | None => ([], bind_spec p init env, sy') end
    | SOther => ([], env, sy) end.
  Fixpoint sites_stmts (ss : list stmt) (env : renv) (sy : symtab) : list site * symtab :=
    match ss with
    | [] => ([], sy)
    | s :: r => let '(a, env1, s1) := sites_stmt s env sy in let '(b, s2) := sites_stmts r env1 s1 in (a ++ b, s2)
    end.
  Fixpoint sites_list (es : list expr) (env : renv) (sy : symtab) : list site * symtab :=
    match es with
    | [] => ([], sy)
    | x :: r => let '(a, s1) := SX x env sy in let '(b, s2) := sites_list r env s1 in (a ++ b, s2)
    end.
End Sites.
Fixpoint sites_expr (e : expr) (env : renv) (sy : symtab) {struct e} : list site * symtab :=
  match e with
  | XMethod recv m args =>
      let here := if doc_receiver recv then
                    match emit_call m args with
                    | Some (n, p) => [{| s_name := n; s_payload := p; s_env := env; s_sy := sy |}]
                    | None => [] end
                  else [] in
      let '(a, s1) := sites_expr recv env sy in (here ++ a, s1)
  | XBlock ss | XLoop ss | XWhile ss | XFor ss => sites_stmts sites_expr ss env sy
  | XIf th el => let '(a, s1) := sites_stmts sites_expr th env sy in
                 match el with Some x => let '(b, s2) := sites_expr x env s1 in (a ++ b, s2) | None => (a, s1) end
  | XMatch arms => sites_list sites_expr arms env sy
  | XAwait x | XTry x => sites_expr x env sy
  | _ => ([], sy)
  end.
Definition param_env (params : list param) : renv :=
  fold_left (fun s p => match fst p with Some n => (n, KEv (snd p)) :: s | None => s end) params [].
Definition fn_sites (d : fndef) : list site :=
  fst (sites_expr (XBlock (fd_body d)) (param_env (fd_params d)) (param_symbols (fd_params d))).
Definition project_sites (p : project) : list site := flat_map (flat_map fn_sites) (p_files p).

(* ---------------- domain: nothing the walker could see sits at an undocumented position ---------- *)
Section Inert.
  Variable IE : expr -> bool.
  Definition inert_stmt (s : stmt) : bool :=
    match s with SExpr e => IE e | SLet _ _ => false | SOther => true end.
End Inert.
(* no emit / emit_to method call and no let statement anywhere inside *)
Fixpoint inert (e : expr) : bool :=
  match e with
  | XMethod r m args => negb (is_emit_name m) && inert r && forallb inert args
  | XPath _ | XLit _ | XStruct _ | XOther => true
  | XField b _ => inert b
  | XRef u | XAwait u | XTry u => inert u
  | XCall f args => inert f && forallb inert args
  | XTuple es | XMatch es => forallb inert es
  | XBlock ss | XLoop ss | XWhile ss | XFor ss => forallb (inert_stmt inert) ss
  | XIf th el => forallb (inert_stmt inert) th && match el with Some x => inert x | None => true end
  end.
Definition name_char (c : ascii) : bool :=
  is_digit c || lowerp c || upperp c || Ascii.eqb c "_"%char || Ascii.eqb c "-"%char || Ascii.eqb c "/"%char || Ascii.eqb c ":"%char.
Definition legal_event_name (n : str) : bool := negb (is_nil n) && forallb name_char n.
(* receivers the property speaks about: documented ones, and plain variables / fields / call
   results (which must not count); qualified paths are heuristics outside the documented set *)
Definition clear_receiver (r : expr) : bool :=
  match r with XPath [_] | XField _ _ | XMethod _ _ _ | XCall _ _ => true | _ => false end.
Section Dom.
  Variable DE : expr -> bool.
  Definition dom_stmt (s : stmt) : bool :=
    match s with SExpr e => DE e | SLet _ (Some i) => DE i | SLet _ None => true | SOther => true end.
End Dom.
Fixpoint dom_expr (e : expr) : bool :=
  match e with
  | XMethod r m args =>
      (if is_emit_name m then
         clear_receiver r &&
         match emit_args m args with
         | Some (XLit (LStr n), _) => legal_event_name n
         | _ => true end
       else true) && dom_expr r && forallb inert args
  | XBlock ss | XLoop ss | XWhile ss | XFor ss => forallb (dom_stmt dom_expr) ss
  | XIf th el => forallb (dom_stmt dom_expr) th && match el with Some x => dom_expr x | None => true end
  | XMatch arms => forallb dom_expr arms
  | XAwait x | XTry x => dom_expr x
  | other => inert other
  end.
Definition in_domain (p : project) : bool :=
  forallb (forallb (fun d => forallb (dom_stmt dom_expr) (fd_body d))) (p_files p).

(* ---------------- recorded defect classes (each as narrow as the defect) ---------------- *)
Fixpoint core (fuel : nat) (e : expr) : expr :=        (* strip & and .clone() as infer_payload_type does *)
  match fuel with 0 => e | S f =>
  match e with
  | XRef u => core f u
  | XMethod r m _ => if str_eqb m (L "clone") then core f r else e
  | _ => e end end.
Fixpoint xdepth (e : expr) : nat :=
  match e with XRef u => S (xdepth u) | XMethod r _ _ => S (xdepth r) | _ => 0 end.
Definition pcore (s : site) : expr := core (S (xdepth (s_payload s))) (s_payload s).
Fixpoint strip_ref (t : qty) : qty := match t with QRef u => strip_ref u | _ => t end.
Definition simple_type (t : qty) : bool :=
  match strip_ref t with QPath _ _ false [] => true | _ => false end.

(* C12-name: a variable without symbol-table entry becomes its own name *)
Definition kf_name_fallback (s : site) : bool :=
  match pcore s with XPath [x] => match lookup x (s_sy s) with None => true | Some _ => false end | _ => false end.
(* C12-lastseg: the table keeps only the last path segment of a declared type (generic arguments,
   tuples and unit are lost) *)
Definition kf_last_segment (s : site) : bool :=
  match pcore s with
  | XPath [x] => match rlookup x (s_env s), lookup x (s_sy s) with
                 | Some (KEv t), Some u => negb (simple_type t) && str_eqb u (type_name t)
                 | _, _ => false end
  | _ => false end.
(* C12-ctor: let x = A::b(..) records the FIRST path segment as the type of x *)
Definition kf_ctor_guess (s : site) : bool :=
  match pcore s with
  | XPath [x] => match rlookup x (s_env s), lookup x (s_sy s) with Some KCtor, Some _ => true | _, _ => false end
  | _ => false end.
(* C12-scope: the table is function-wide and insert-only: a shadowing or block-local binding
   leaves / leaks an entry that is not the type of the variable in scope *)
Definition kf_scope (s : site) : bool :=
  match pcore s with
  | XPath [x] => match rlookup x (s_env s), lookup x (s_sy s) with
                 | Some (KEv t), Some u => negb (str_eqb u (type_name t))
                 | Some KOpaque, Some _ => true
                 | None, Some _ => true
                 | _, _ => false end
  | _ => false end.
Definition kf_payload (s : site) : bool :=
  kf_name_fallback s || kf_last_segment s || kf_ctor_guess s || kf_scope s.

Fixpoint count_name (n : str) (l : list str) : nat :=
  match l with [] => 0 | x :: r => (if str_eqb n x then 1 else 0) + count_name n r end.
Fixpoint dedup (l : list str) : list str :=
  match l with [] => [] | x :: r => if existsb (str_eqb x) r then dedup r else x :: dedup r end.
Definition site_names (ss : list site) : list str := map s_name ss.
(* C12-collide: two distinct names with the same function identifier: names that differ only in their
   non-alphanumeric characters (a-b, a_b, a:b, a/b, a__b) or in the case of a letter that follows one
   (a-b, a-B) or that starts the name (ab, Ab) *)
Definition kf_collision (names : list str) (n : str) : bool :=
  existsb (fun m => negb (str_eqb m n) && str_eqb (listener_name m) (listener_name n)) names.
(* C12-nocmd: a project with events but without any #[tauri::command] generates nothing *)
Definition kf_no_command (p : project) : bool := negb (p_has_command p) && negb (is_nil (project_sites p)).

(* ---------------- the oracle: C12 on what a generation run left behind ---------------- *)
(* a complaint: kind and the event name it concerns ([] when it concerns the whole module) *)
Definition complaint := (str * str)%type.
Definition cmp (k : string) (n : str) : complaint := (L k, n).
Fixpoint ty_eqb (a b : ty) {struct a} : bool :=
  match a, b with
  | TyRef p xs, TyRef q ys => (if list_eq_dec (list_eq_dec ascii_dec) p q then true else false) &&
      (fix go (l1 l2 : list ty) := match l1, l2 with [], [] => true | x :: r1, y :: r2 => ty_eqb x y && go r1 r2 | _, _ => false end) xs ys
  | TyArr x, TyArr y => ty_eqb x y
  | TyTuple xs, TyTuple ys | TyUnion xs, TyUnion ys =>
      (fix go (l1 l2 : list ty) := match l1, l2 with [], [] => true | x :: r1, y :: r2 => ty_eqb x y && go r1 r2 | _, _ => false end) xs ys
  | TyLit s, TyLit t => str_eqb s t
  | _, _ => false
  end.
(* the first call  listen [<T,..>] ( 'name' ,   in a function body (the handler argument, an arrow
   function with a block body, is not parsed) *)
Fixpoint find_listen (n : nat) (l : list tk) : option (list ty * str) :=
  match n with 0 => None | S n' =>
    match l with
    | KId f :: r =>
        if str_eqb f (L "listen") then
          let '(targs, r1) := match r with
                              | c :: r' => if tk_is "<" c then
                                             match ptylist ">" r' with Some (ts, r'') => (ts, r'') | None => ([], r) end
                                           else ([], r)
                              | [] => ([], r) end in
          match r1 with
          | c :: KStr _ name :: d :: _ => if tk_is "(" c && tk_is "," d then Some (targs, name) else find_listen n' r
          | _ => find_listen n' r end
        else find_listen n' r
    | _ :: r => find_listen n' r
    | [] => None end end.
Record lst := { ls_name : str; ls_params : list (str * bool * ty); ls_listens : nat; ls_call : option (list ty * str) }.
Definition lsts (m : list item) : list lst :=
  flat_map (fun it => match it with
    | IFunction _ n ps _ body =>
        if Nat.eqb (count_id "listen" body) 0 then [] else
        [{| ls_name := n; ls_params := ps; ls_listens := count_id "listen" body;
            ls_call := find_listen (S (List.length body)) body |}]
    | _ => [] end) m.
(* handler: (payload: T) => void   and   listen<T>( 'name', ... ) : both T *)
Definition listener_payloads (l : lst) : option (ty * ty) :=
  match ls_params l, ls_call l with
  | [(_, false, TyFun [(_, false, t)] _)], Some ([t'], _) => Some (t, t')
  | _, _ => None end.
Definition listener_event (l : lst) : option str := match ls_call l with Some (_, n) => Some n | None => None end.
Definition subscribed_to (n : str) (l : lst) : bool :=
  match listener_event l with Some m => str_eqb m n | None => false end.
Definition check_name (m : list (str * str)) (ss : list site) (ls : list lst) (n : str) : list complaint :=
  let mine := filter (subscribed_to n) ls in
  let wanted := map (fun s => expected_payload_m m (s_payload s) (s_env s)) (filter (fun s => str_eqb (s_name s) n) ss) in
  match mine with
  | [] => [cmp "missing-listener" n]
  | [l] =>
      (if Nat.eqb (ls_listens l) 1 then [] else [cmp "several-subscriptions" n]) ++
      (if is_legal_binding_name (ls_name l) then [] else [cmp "illegal-identifier" n]) ++
      (match listener_payloads l with
       | Some (t, t') => if existsb (fun w => ty_eqb w t && ty_eqb w t') wanted then [] else [cmp "payload-type" n]
       | None => [cmp "listener-shape" n] end) ++
      (if existsb (fun l' => str_eqb (ls_name l') (ls_name l) && negb (subscribed_to n l')) ls then [cmp "identifier-collision" n] else [])
  | _ => [cmp "duplicate-listener" n]
  end.
Definition reexports_events (index_ts : option str) : option bool :=
  match index_ts with
  | None => Some false
  | Some t => match parse_module t with Some m => Some (existsb (fun f => str_eqb f (L "./events")) (reexports m)) | None => None end
  end.
Definition oracle_m (mp : list (str * str)) (ss : list site) (events_ts index_ts : option str) : list complaint :=
  let names := dedup (site_names ss) in
  match names with
  | [] =>
      (match events_ts with Some _ => [cmp "events-module-without-events" []] | None => [] end) ++
      (match reexports_events index_ts with Some false => [] | _ => [cmp "re-export-without-events" []] end)
  | _ =>
      match events_ts with
      | None => [cmp "no-events-module" []]
      | Some t =>
          match parse_module t with
          | None => [cmp "unparseable-events-module" []]
          | Some m =>
              let ls := lsts m in
              flat_map (check_name mp ss ls) names ++
              flat_map (fun l => match listener_event l with
                                 | Some n => if existsb (str_eqb n) names then [] else [cmp "listener-without-emit" n]
                                 | None => [cmp "listener-shape" (ls_name l)] end) ls ++
              (if has_dup (exports m) then [cmp "duplicate-export" []] else [])
          end
      end
  end.

Definition oracle := oracle_m [].

(* which complaints the recorded classes account for on a given project *)
Local Open Scope string_scope.
Definition explained (p : project) (c : complaint) : bool :=
  let ss := project_sites p in
  let names := site_names ss in
  let k := fst c in let n := snd c in
  let is (s : string) := str_eqb k (L s) in
  if is "no-events-module" then kf_no_command p
  else if is "duplicate-export" then existsb (kf_collision names) names
  else if is "identifier-collision" then kf_collision names n
  else if is "payload-type" then existsb (fun s => str_eqb (s_name s) n && kf_payload s) ss
  else false.
Definition kf_project (p : project) : bool :=
  let ss := project_sites p in
  let names := site_names ss in
  kf_no_command p || existsb kf_payload ss || existsb (kf_collision names) names.
(* names of the classes a project lies in, for the run-time matcher *)
Definition classes_of (p : project) : list str :=
  let ss := project_sites p in
  let names := site_names ss in
  let add (b : bool) (s : string) := if b then [L s] else [] in
  add (kf_no_command p) "kf_no_command" ++ add (existsb (kf_collision names) names) "kf_collision" ++
  add (existsb kf_name_fallback ss) "kf_name_fallback" ++ add (existsb kf_last_segment ss) "kf_last_segment" ++
  add (existsb kf_ctor_guess ss) "kf_ctor_guess" ++ add (existsb kf_scope ss) "kf_scope".
Local Close Scope string_scope.
