(* C18 specification: a type mapping replaces the mapped name everywhere and nothing else.
   Relational oracle on the two texts of one site (with and without the table), at token level:
     - no mapped name occurs in the Rust type: the two texts are equal byte for byte (frame);
     - otherwise the tokens with the table are the tokens without it in which every occurrence of a
       mapped name N (qualified types.N or bare) is replaced by its target M - at Zod schema sites the
       reference NSchema by the schema z.M() - so N is not referred to any more and nothing else moved.
   Definitions only. *)
From Coq Require Import String Ascii.
From Coq Require Import List Arith Bool.
Require Import TT.Model.Str TT.Model.TypeParse TT.Model.C05Emit TT.Spec.TsLex.
Import ListNotations.
Local Open Scope list_scope.

Definition tk_eqb (a b : tk) : bool :=
  match a, b with
  | KId x, KId y | KNum x, KNum y | KTpl x, KTpl y | KP x, KP y | KErr x, KErr y => str_eqb x y
  | KStr q x, KStr r y => Ascii.eqb q r && str_eqb x y
  | _, _ => false
  end.
Fixpoint tks_eqb (a b : list tk) : bool :=
  match a, b with
  | [], [] => true
  | x :: a', y :: b' => tk_eqb x y && tks_eqb a' b'
  | _, _ => false
  end.
Fixpoint tk_starts (p l : list tk) : bool :=
  match p, l with
  | [], _ => true
  | x :: p', y :: l' => tk_eqb x y && tk_starts p' l'
  | _, _ => false
  end.
(* replace every occurrence of the non-empty pattern, left to right. guard: an occurrence directly
   followed by < is the head of a generic name (DateTime in DateTime<Utc>), a different type name,
   and is left alone *)
Definition next_is_lt (l : list tk) : bool :=
  match l with KP p :: _ => str_eqb p (L "<") | _ => false end.
Definition is_colon (t : tk) : bool := match t with KP p => str_eqb p (L ":") | _ => false end.
(* after_colon: the previous token is a colon, i.e. the occurrence is the tail of a qualified path
   (PathBuf in std::path::PathBuf), which is a different printed name and is left alone *)
Fixpoint replace_all (guard : bool) (pat rep : list tk) (l : list tk) (after_colon : bool) (fuel : nat) : list tk :=
  match fuel with 0 => l | S f =>
    match l with
    | [] => []
    | x :: l' =>
        if tk_starts pat l && negb (after_colon || (guard && next_is_lt (skipn (List.length pat) l)))
        then rep ++ replace_all guard pat rep (skipn (List.length pat) l) false f
        else x :: replace_all guard pat rep l' (is_colon x) f
    end
  end.
Definition replace_tokens (guard : bool) (pat rep l : list tk) : list tk :=
  match pat with [] => l | _ => replace_all guard pat rep l false (S (List.length l)) end.

(* names occurring in a Rust type, as type_to_string prints them (every path, with its arguments) *)
Fixpoint names_of (t : rty) : list str :=
  match t with
  | RPath n args => tts t :: flat_map names_of args
  | RRef u => names_of u
  | RTuple l => flat_map names_of l
  end.
Definition mentions (m : mapping) (t : rty) : bool :=
  existsb (fun n => match lookup m n with Some _ => true | None => false end) (names_of t).

Local Open Scope string_scope.
Definition subst_one (is_type : bool) (n target : str) (toks : list tk) : list tk :=
  if is_type then
    let rep := lex_module target in
    replace_tokens true (lex_module n) rep (replace_tokens true (lex_module (L "types." ++ n)%list) rep toks)
  else
    replace_tokens false (lex_module (n ++ L "Schema")%list) (lex_module (L "z." ++ target ++ L "()")%list) toks.
Definition subst_tokens (is_type : bool) (m : mapping) (toks : list tk) : list tk :=
  fold_left (fun acc kv => subst_one is_type (fst kv) (snd kv) acc) m toks.

(* an identifier N or NSchema that is not the tail of a qualified path *)
Fixpoint occurs_bare (hd : str) (toks : list tk) (after_colon : bool) : bool :=
  match toks with
  | [] => false
  | x :: r =>
      (negb after_colon &&
       match x with KId y => str_eqb y hd || str_eqb y (hd ++ L "Schema")%list | _ => false end)
      || occurs_bare hd r (is_colon x)
  end.
Definition refers_to (n : str) (toks : list tk) : bool :=
  match lex_module n with
  | KId hd :: _ => occurs_bare hd toks false
  | _ => false
  end.

(* with_text / without_text: what one site prints with and without the table *)
Definition c18_ok (is_type : bool) (m : mapping) (t : rty) (with_text without_text : str) : bool :=
  if mentions m t then
    let w := lex_module with_text in
    negb (has_err w) &&
    tks_eqb w (subst_tokens is_type m (lex_module without_text)) &&
    negb (existsb (fun kv => match lookup m (fst kv) with Some _ => existsb (str_eqb (fst kv)) (names_of t) && refers_to (fst kv) w | None => false end) m)
  else str_eqb with_text without_text.
