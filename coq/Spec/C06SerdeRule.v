(* C06 specification: the names serde puts on the wire.
   Transcribed from serde_derive 1.0.228 src/internals/case.rs (apply_to_field, apply_to_variant; the
   file is identical in 1.0.219 and 1.0.229) and src/internals/attr.rs (Name: an item-level rename
   wins, otherwise the container rule is applied to the Rust identifier; skip removes the item).
   Stated on UTF-8 bytes; exact for ASCII identifiers, and for non-ASCII ones under the rules admitted by
   uni_rule_ok below. Also: the domain predicate, the known-finding classes and the
   boolean oracle used at run time. No proofs here. *)
From Coq Require Import String Ascii.
From Coq Require Import List Arith Bool NArith.
Require Import TT.Model.Str TT.Model.C06Serde.
Import ListNotations.
Local Open Scope char_scope.
Local Open Scope list_scope.

(* ------------------------------------------------------------------ case.rs *)
(* apply_to_field *)
Definition lower_first (s : str) : str := match s with [] => [] | c :: r => lower c :: r end.
Definition field_rule (r : rule) (s : str) : str :=
  match r with
  | RLower | RSnake => s
  | RUpper => map upper s
  | RPascal => pascal true s
  | RCamel => lower_first (pascal true s)
  | RScreamingSnake => map upper s
  | RKebab => us_to_dash s
  | RScreamingKebab => us_to_dash (map upper s)
  end.
(* apply_to_variant (snake: Model/C06Serde.v, an underscore before every upper-case letter but the
   first character, everything lower-cased) *)
Definition variant_rule (r : rule) (s : str) : str :=
  match r with
  | RPascal => s
  | RLower => map lower s
  | RUpper => map upper s
  | RCamel => lower_first s
  | RSnake => snake s
  | RScreamingSnake => map upper (snake s)
  | RKebab => us_to_dash (snake s)
  | RScreamingKebab => us_to_dash (map upper (snake s))
  end.

(* ------------------------------------------------------------------ attributes as serde reads them *)
Definition is_mskip (m : meta) : bool := match m with MSkip => true | _ => false end.
Definition has_skip (it : item) : bool := existsb (existsb is_mskip) (it_attrs it).
(* the serialize side of the parenthesised form; serde names what it SERIALISES by it *)
Fixpoint ser_of (l : list (bool * str)) : option str :=
  match l with [] => None | (true, v) :: _ => Some v | (false, _) :: r => ser_of r end.
Fixpoint first_rename (ms : list meta) : option str :=
  match ms with
  | [] => None
  | MRename v :: _ => Some v
  | MRenameP l :: r => match ser_of l with Some v => Some v | None => first_rename r end
  | _ :: r => first_rename r
  end.
Definition rename_of (it : item) : option str := first_rename (concat (it_attrs it)).
Fixpoint first_rename_all (ms : list cmeta) : option str :=
  match ms with
  | [] => None
  | CRenameAll v :: _ => Some v
  | CRenameAllP l :: r => match ser_of l with Some v => Some v | None => first_rename_all r end
  | _ :: r => first_rename_all r
  end.
Definition container_rule (c : container) : option rule :=
  match first_rename_all (concat (c_attrs c)) with Some v => rule_of_str v | None => None end.

(* serde_derive names an item by its unraw identifier (r#type is the field type) *)
Definition wire_name (k : kind) (ra : option rule) (it : item) : str :=
  match rename_of it with
  | Some v => v
  | None => match ra with
            | None => unraw (it_ident it)
            | Some r => if is_struct k then field_rule r (unraw (it_ident it)) else variant_rule r (unraw (it_ident it))
            end
  end.
(* names that can appear on the wire, in declaration order: skipped items never do *)
Definition serde_wire_names (c : container) : list str :=
  map (wire_name (c_kind c) (container_rule c)) (filter (fun it => negb (has_skip it)) (c_items c)).

(* ------------------------------------------------------------------ boolean oracle *)
Fixpoint strs_eqb (a b : list str) : bool :=
  match a, b with
  | [], [] => true
  | x :: a', y :: b' => str_eqb x y && strs_eqb a' b'
  | _, _ => false
  end.
Definition c06_ok (c : container) (observed : list str) : bool := strs_eqb observed (serde_wire_names c).

(* ------------------------------------------------------------------ domain *)
Definition is_digit (c : ascii) : bool := (48 <=? nb c)%N && (nb c <=? 57)%N.
Definition ident_start (c : ascii) : bool := is_lower c || is_upper c || is_us c.
Definition ident_char (c : ascii) : bool := ident_start c || is_digit c.
(* a Rust identifier over ASCII with at least one character that is not an underscore; an item
   identifier may carry the raw prefix (item_ok tests the unraw form) *)
Definition ident_ok (s : str) : bool :=
  match s with [] => false | c :: _ => ident_start c end && forallb ident_char s && existsb (fun c => negb (is_us c)) s.
Definition is_rename (m : meta) : bool := match m with MRename _ | MRenameP _ => true | _ => false end.
Definition count_renames (ms : list meta) : nat := List.length (filter is_rename ms).
(* one or two entries, at most one per side *)
Definition sd_ok (l : list (bool * str)) : bool :=
  match l with
  | [_] => true
  | [(a, _); (b, _)] => negb (Bool.eqb a b)
  | _ => false
  end.
Definition other_ok (m : meta) : bool :=
  match m with
  | MOther n _ => ident_ok n && negb (str_eqb n (L "skip")) && negb (str_eqb n (L "rename"))
  | MRenameP l => sd_ok l
  | _ => true
  end.
(* deepening round 7: item identifiers may be UTF-8 (any byte above 127 counts as an identifier byte:
   the bytes of the non-ASCII XID characters rustc accepts); attribute names stay ASCII *)
Definition is_hi (c : ascii) : bool := (128 <=? nb c)%N.
Definition uident_start (c : ascii) : bool := ident_start c || is_hi c.
Definition uident_char (c : ascii) : bool := ident_char c || is_hi c.
Definition uident_ok (s : str) : bool :=
  match s with [] => false | c :: _ => uident_start c end && forallb uident_char s && existsb (fun c => negb (is_us c)) s.
Definition is_ascii_str (s : str) : bool := forallb (fun c => negb (is_hi c)) s.
Definition head_ascii (s : str) : bool := match s with c :: _ => negb (is_hi c) | [] => true end.
(* where case.rs uses ASCII operations only, so that the byte-level rules above are serde's on a
   non-ASCII identifier: every field rule and the PascalCase / lowercase / UPPERCASE variant rules;
   camelCase (both kinds) slices off the first BYTE of the PascalCase form / of the variant name and
   panics inside the derive macro when that is not a character boundary, so it is in the domain only
   when that first character is ASCII; the four SnakeCase-based variant rules call char::is_uppercase
   (a Unicode table) and stay ASCII-only *)
Definition uni_rule_ok (k : kind) (ra : option rule) (s : str) : bool :=
  is_ascii_str s ||
  match ra with
  | None => true
  | Some RCamel => head_ascii (if is_struct k then pascal true s else s)
  | Some RPascal | Some RLower | Some RUpper => true
  | Some _ => is_struct k
  end.
Definition item_ok (it : item) : bool :=
  uident_ok (unraw (it_ident it)) && forallb other_ok (concat (it_attrs it)) && Nat.leb (count_renames (concat (it_attrs it))) 1.
Definition is_ra (m : cmeta) : bool := match m with CRenameAll _ | CRenameAllP _ => true | _ => false end.
Definition valid_rule (v : str) : bool := match rule_of_str v with Some _ => true | None => false end.
Definition cmeta_ok (m : cmeta) : bool :=
  match m with
  | CRenameAll v => valid_rule v
  | CRenameAllP l => sd_ok l && forallb (fun p => valid_rule (snd p)) l
  | CFlag n => ident_ok n && negb (str_eqb n (L "rename_all"))
  | CKV n _ => ident_ok n && negb (str_eqb n (L "rename_all"))
  end.
Definition count_rename_all (ms : list cmeta) : nat := List.length (filter is_ra ms).
Definition in_domain0 (c : container) : bool :=
  forallb item_ok (c_items c) && forallb cmeta_ok (concat (c_attrs c)) && Nat.leb (count_rename_all (concat (c_attrs c))) 1
  && (is_struct (c_kind c) || negb (Nat.eqb (List.length (c_items c)) 0)).
(* non-ASCII identifiers only under the rules that serde computes with ASCII operations *)
Definition in_domain (c : container) : bool :=
  in_domain0 c && forallb (fun it => uni_rule_ok (c_kind c) (container_rule c) (unraw (it_ident it))) (c_items c).

(* ------------------------------------------------------------------ known-finding classes *)
Definition meta_text (m : meta) : str := tok_string (meta_tokens m).
Definition has_upper (s : str) : bool := existsb is_upper s.
Definition has_us (s : str) : bool := existsb is_us s.

(* C06-1 (repaired by C06-1-variant-rule): enum variants used to be renamed with the FIELD rule.
   rules_differ: the (rule, identifier) pairs on which the two rules of case.rs differ - kept as the
   description of where the old behaviour was visible; no longer a class. *)
Definition rules_differ (r : rule) (s : str) : bool :=
  match r with
  | RLower | RSnake | RKebab => has_upper s
  | RUpper => false
  | RPascal => has_us s || match s with c :: _ => is_lower c | [] => false end
  | RCamel => has_us s
  | RScreamingSnake | RScreamingKebab => has_upper (tl s)
  end.

(* C06-2: a struct field or (since parse_enum filters with the same flag) enum variant without skip, one of whose attributes prints text containing the letters
   skip (skip_deserializing, default = <skip_me>, rename = <skipper> ...) and no skip_serializing:
   the item is dropped *)
Definition group_skip_text (g : group) : bool :=
  negb (existsb is_mskip g) && existsb (fun m => contains (L "skip") (meta_text m)) g
  && negb (existsb (fun m => contains (L "skip_serializing") (meta_text m)) g).
Definition kf_skip_text (c : container) : bool :=
  existsb (fun it => negb (has_skip it) && existsb group_skip_text (it_attrs it)) (c_items c).

(* C06-3: a field or variant whose every skip shares its attribute with text containing skip_serializing
   (skip_serializing_if ...): the item is kept *)
Definition group_skip_seen (g : group) : bool :=
  existsb is_mskip g && negb (existsb (fun m => contains (L "skip_serializing") (meta_text m)) g).
Definition kf_skip_beside (c : container) : bool :=
  existsb (fun it => has_skip it && negb (existsb group_skip_seen (it_attrs it))) (c_items c).

(* C06-4: a rename value whose literal needs an escape (a quote or a backslash): the scanner stops
   at the first quote of the source text and never unescapes *)
Definition needs_escape (v : str) : bool := existsb (fun c => Ascii.eqb c """" || Ascii.eqb c "\") v.
Definition kf_rename_escape (c : container) : bool :=
  existsb (fun it => match rename_of it with Some v => needs_escape v | None => false end) (c_items c).

(* C06-5 (narrowed by the repair C06-8-9-serde-attr-spellings): text shaped like a key inside a VALUE.
   find_key accepts an occurrence of the key that is not preceded by an identifier character and is
   followed by = or (, so names such as rename_all_fields, prerename or deserialize and values such
   as <rename> no longer count; what remains is
   - an item attribute other than rename whose text holds such an occurrence of rename
     (default = <a rename = b>),
   - a container attribute other than rename_all whose text holds such an occurrence of rename_all,
   - in the parenthesised form: a value containing a closing parenthesis (the group is cut at the first
     one) or a deserialize value holding such an occurrence of serialize. *)
Definition key_occurs (key text : str) : bool := match find_key key text with Some _ => true | None => false end.
Definition cmeta_text (m : cmeta) : str := tok_string (cmeta_tokens m).
Definition has_paren (v : str) : bool := existsb (fun c => Ascii.eqb c ")") v.
Definition p_bad (l : list (bool * str)) : bool :=
  existsb (fun p => has_paren (snd p) || negb (fst p) && key_occurs (L "serialize") (lit (snd p))) l.
Definition kf_rename_text (c : container) : bool :=
  existsb (fun it => existsb (fun m => match m with
                                       | MRename _ => false
                                       | MRenameP l => p_bad l
                                       | _ => key_occurs (L "rename") (meta_text m) end)
                             (concat (it_attrs it))) (c_items c) ||
  existsb (fun m => negb (is_ra m) && key_occurs (L "rename_all") (cmeta_text m)) (concat (c_attrs c)).

(* C06-6 (repaired by C06-6-variant-skip): an enum variant carrying skip used to be listed.
   C06-8 (repaired by C06-8-9-serde-attr-spellings): the parenthesised form used to yield its first value
   even when that was the deserialize one; now the serialize entry is taken.
   C06-9 (same repair): rename_all_fields used to be read as rename_all. *)

Definition kf_C06 (c : container) : bool :=
  kf_skip_text c || kf_skip_beside c || kf_rename_escape c || kf_rename_text c.

(* C06-7 (configuration): a struct without rename_all whose unrenamed, unskipped field is changed by
   the configured default_field_case (anything but snake_case / lowercase; an unknown setting counts as
   camelCase). serde does not know the setting: unattributed items keep their Rust name on the wire.
   Enum variants are not affected (compute_variant_name has no default case). Empty under the
   default configuration. *)
Definition cfg_differs (dfc : str) (it : item) : bool :=
  negb (has_skip it) &&
  match rename_of it with
  | Some _ => false
  | None => negb (str_eqb (apply_naming_convention (default_case dfc) (unraw (it_ident it))) (unraw (it_ident it)))
  end.
Definition kf_config_case (dfc : str) (c : container) : bool :=
  is_struct (c_kind c) && match container_rule c with None => existsb (cfg_differs dfc) (c_items c) | Some _ => false end.

(* ------------------------------------------------------------------ other attributes *)
(* what serde reads of an item when every attribute other than rename and skip is erased *)
Definition is_other (m : meta) : bool := match m with MOther _ _ => true | _ => false end.
Definition core_item (it : item) : str * list meta := (it_ident it, filter (fun m => negb (is_other m)) (concat (it_attrs it))).
Definition same_modulo_others (c c' : container) : Prop :=
  c_kind c = c_kind c' /\ container_rule c = container_rule c' /\ map core_item (c_items c) = map core_item (c_items c').
