(* C13: relations between outputs of the order skeleton, noise, and the noise-free normal form. *)
From Coq Require Import List Arith Bool Permutation.
Require Import TT.Model.Base TT.Model.C13Order.
Import ListNotations.

Definition opt_perm {A} (a b : option (list A)) : Prop :=
  match a, b with Some x, Some y => Permutation x y | None, None => True | _, _ => False end.
(* same files, and in every file the same multiset of declarations *)
Definition out_perm (a b : option output) : Prop :=
  match a, b with
  | Some o, Some o' => Permutation (o_types o) (o_types o') /\ Permutation (o_commands o) (o_commands o') /\
                       opt_perm (o_events o) (o_events o') /\ o_index o = o_index o'
  | None, None => True
  | _, _ => False end.

(* items that are neither commands, nor functions with emit calls, nor serde types *)
Definition is_noise (it : item) : bool :=
  match it with INoise => true | IFn [] => true | _ => false end.
Definition denoise_file (f : file) : file := (fst f, filter (fun it => negb (is_noise it)) (snd f)).
Definition denoise (p : project) : project := map denoise_file p.
Definition noise_file (f : file) : bool := forallb is_noise (snd f).

(* ---------- the source transformations of the property's last sentence ---------- *)
(* one step: reorder the items of a file, move an item to another file, split a file in two, merge two
   files, list the files in another order, rename a file *)
Inductive tstep : project -> project -> Prop :=
| t_reorder pre k l l' post : Permutation l l' ->
    tstep (pre ++ (k, l) :: post) (pre ++ (k, l') :: post)
| t_move pre k l1 x l2 mid k' m1 m2 post :
    tstep (pre ++ (k, l1 ++ x :: l2) :: mid ++ (k', m1 ++ m2) :: post)
          (pre ++ (k, l1 ++ l2) :: mid ++ (k', m1 ++ x :: m2) :: post)
| t_move_back pre k l1 x l2 mid k' m1 m2 post :
    tstep (pre ++ (k', m1 ++ m2) :: mid ++ (k, l1 ++ x :: l2) :: post)
          (pre ++ (k', m1 ++ x :: m2) :: mid ++ (k, l1 ++ l2) :: post)
| t_split pre k k' l1 l2 post :
    tstep (pre ++ (k, l1 ++ l2) :: post) (pre ++ (k, l1) :: (k', l2) :: post)
| t_merge pre k k' l1 l2 post :
    tstep (pre ++ (k, l1) :: (k', l2) :: post) (pre ++ (k, l1 ++ l2) :: post)
| t_files p p' : Permutation p p' -> tstep p p'
| t_rename pre k k' l post :
    tstep (pre ++ (k, l) :: post) (pre ++ (k', l) :: post).
(* any sequence of steps *)
Inductive tsteps : project -> project -> Prop :=
| ts_refl p : tsteps p p
| ts_step p q r : tstep p q -> tsteps q r -> tsteps p r.
