(* C13: relations between outputs of the order skeleton, noise, and the noise-free normal form. *)
From Coq Require Import List Arith Bool Permutation.
Require Import TT.Model.Base TT.Model.C13Order.
Import ListNotations.

Definition opt_perm {A} (a b : option (list A)) : Prop :=
  match a, b with Some x, Some y => Permutation x y | None, None => True | _, _ => False end.
(* same files, and in every file the same multiset of declarations *)
Definition out_perm (a b : option output) : Prop :=
  match a, b with
  | Some o, Some o' => Permutation (o_types o) (o_types o') /\ Permutation (o_commands o) (o_commands o') /\
                       opt_perm (o_events o) (o_events o') /\ o_index o = o_index o'
  | None, None => True
  | _, _ => False end.

(* items that are neither commands, nor functions with emit calls, nor serde types *)
Definition is_noise (it : item) : bool :=
  match it with INoise => true | IFn [] => true | _ => false end.
Definition denoise_file (f : file) : file := (fst f, filter (fun it => negb (is_noise it)) (snd f)).
Definition denoise (p : project) : project := map denoise_file p.
Definition noise_file (f : file) : bool := forallb is_noise (snd f).
