(* C07 - types.ts declares exactly the serde types reachable from the public surface.
   Only statements, [exact], examples and [Print Assumptions] live here. *)
From Coq Require Import String Ascii.
From Coq Require Import List Arith Bool Permutation.
Require Import TT.Model.Str TT.Model.C07TypeParse TT.Model.C07Harvest TT.Model.C07Worklist TT.Model.C07Reach.
Require Import TT.Spec.C07Spec TT.Spec.C07Known.
Require Import TT.Proofs.C07TypeParseProofs TT.Proofs.C07HarvestProofs TT.Proofs.WorklistSpike TT.Proofs.C07Proofs TT.Proofs.C07Concrete TT.Proofs.C07Agree TT.Proofs.C07Lift TT.Proofs.C07Full TT.Proofs.C07Total TT.Proofs.C09Oracle TT.Proofs.C07Witness.
Require Import TT.Model.C07Layout TT.Spec.C07LayoutSpec TT.Proofs.C07LayoutProofs.
Require TT.Model.C03Discover TT.Spec.C03Spec.
Import ListNotations.

(* For every iteration order of every hash collection (root set, dependency sets, used set, field name
   sets, struct map, event name sets) and every project of the documented feature set outside the four
   remaining classes C07-5, C07-6, C07-7, C07-8 (comma splitting, the one-argument Result alias and the event payload
   dependencies were repaired): the list of types declared in types.ts has no duplicate, contains exactly the
   types of the specification (least set closed under field types from parameters, success arms of
   returns, channel messages and event payloads, restricted to project-defined serde types), and is a
   permutation of the list the run-time oracle computes. *)
Theorem C07_exact : forall (o : orders) (p : project) (decl : list str),
  ord_ok o -> in_domain p = true ->
  kf_c07_field_result p = false -> kf_c07_odd_name p = false -> kf_c07_inline_mod p = false ->
  kf_c07_payload_expr p = false ->
  C07Reach.declared o p = Some decl ->
  NoDup decl /\ (forall x, In x decl <-> SpecReach p x) /\ Permutation decl (reachable_spec p).
Proof. exact declared_exact_full. Qed.

(* reflection of the run-time oracle: c07_ok accepts what was read from a types.ts exactly when the file declares,
   once each, precisely the expected names (aliases: duplicate free, of declared types) *)
Theorem C07_oracle_exact : forall expected o, c07_ok expected o = true <-> DeclaredExactly expected o.
Proof. exact c07_oracle_exact. Qed.
(* with the specification's list: exactly once each, precisely the reachable serde types of the property text *)
Theorem C07_oracle_spec : forall p o, in_domain p = true -> c07_ok (reachable_spec p) o = true ->
  NoDup (ob_types o) /\ (forall x, In x (ob_types o) <-> SpecReach p x) /\ Permutation (ob_types o) (reachable_spec p).
Proof. exact c07_oracle_spec. Qed.

(* the same from decidable premises only (evaluated on every generated case by the extracted code):
   the three readers of type strings agree on the defined names, no type is reachable through the
   fields of an event payload only *)
Theorem C07_exact_decidable_premises : forall (o : orders) (p : project) (decl : list str),
  ord_ok o -> agree_b p = true ->
  C07Reach.declared o p = Some decl ->
  NoDup decl /\ forall x, In x decl <-> SpecReach p x.
Proof. intros o p decl Ho Ha Hd. exact (declared_exact o Ho p Ha decl Hd). Qed.

(* the list the run-time oracle compares with is that specification *)
Theorem C07_spec_oracle_exact : forall p l, reach_from_opt p (command_roots p ++ event_roots p) = Some l ->
  NoDup l /\ forall x, In x l <-> SpecReach p x.
Proof. exact reachable_spec_exact. Qed.

Theorem C07_exact_permutation : forall o p decl l,
  ord_ok o -> agree_b p = true ->
  C07Reach.declared o p = Some decl -> reach_from_opt p (command_roots p ++ event_roots p) = Some l ->
  Permutation decl l.
Proof. exact declared_permutation. Qed.

(* the worklist of resolve_types_lazily: exactly the resolvable names reachable from the roots, once
   each, for every order of the root set and of every dependency set; fuel bound *)
Theorem C07_worklist_exact : forall (succ : str -> list str) (defined pushok : str -> bool),
  (forall n, defined n = true -> pushok n = true) ->
  forall roots fuel out, work str_dec succ defined pushok fuel roots [] = Some out ->
  NoDup out /\ forall x, In x out <-> target succ defined roots x.
Proof. exact (work_exact str str_dec). Qed.

(* discover_nested_dependencies *)
Theorem C07_nested_exact : forall (fields : str -> list (list str)) (known : str -> bool) init fuel out,
  nested str_dec fields known fuel init [] init = Some out ->
  (forall x, In x init -> In x out) /\
  forall x, known x = true -> (In x out <-> target (fun n => concat (fields n)) known init x).
Proof. exact (nested_exact str str_dec). Qed.

(* outside the syntactic classes the decidable agreement premise holds *)
Theorem C07_agree_from_classes : forall p, in_domain p = true ->
  kf_c07_field_result p = false -> kf_c07_odd_name p = false -> kf_c07_inline_mod p = false ->
  kf_c07_payload_expr p = false -> agree_b p = true.
Proof. exact agree_from_classes. Qed.

(* type level: on the printed form of a type of the documented language, for names that pass the
   harvester's final test and are not container heads, the harvester finds exactly the names of the
   syntax tree (outside its three classes) and parse_type_structure followed by
   collect_referenced_types_from_structure finds exactly the success-arm names (outside its two) *)
Theorem C07_readers_agree : forall q y, ty_ok q = true -> good y ->
  (In y (extract_type_names (tstr q)) <-> In y (leaf_names q)) /\
  (In y (ts_of (tstr q)) <-> In y (ok_names q)).
Proof. exact readers_agree. Qed.

(* the name harvester returns exactly the named types (both arms of a Result), string level *)
Theorem C07_harvest_names : forall fuel t, height t < fuel -> wf t -> heads_known t ->
  same_set (harvest fuel (tts t)) (names t).
Proof. exact harvest_names. Qed.

(* the specification worklist never runs out of fuel *)
Theorem C07_spec_total : forall p roots, in_domain p = true -> exists l, reach_from_opt p roots = Some l.
Proof. exact spec_total. Qed.

(* the model never runs out of fuel: the premise declared o p = Some decl of C07_exact is always met *)
Theorem C07_model_total : forall o p, ord_ok o -> in_domain p = true -> exists decl, C07Reach.declared o p = Some decl.
Proof. intros o p Ho Hd. exact (declared_total o Ho p (domain_nodup p Hd)). Qed.

(* inside each recorded class the faithful model declares a different set: computed witnesses *)
(* repaired (fix: resolver and harvester share the depth-aware comma splitter): the former witnesses of
   C07-1 and C07-2 now declare exactly the specification's set *)
Theorem C07_result_map_repaired : repaired w_result_map.
Proof. exact result_map_repaired. Qed.
Theorem C07_tuple_generic_repaired : repaired w_tuple_generic.
Proof. exact tuple_generic_repaired. Qed.

(* the resolver on the printed form of every well-formed type of the documented language, with no class left *)
Theorem C07_parse_faithful : forall t, wf t -> forall fuel, height t < fuel -> parse fuel (tts t) = Some (sem t).
Proof. exact parse_tts_faithful. Qed.
(* repaired (fix: harvester descends into Result<T>; event payload types bring their nested dependencies):
   the former witnesses now declare exactly the specification's set *)
Theorem C07_result_alias_repaired : repaired w_result_alias.
Proof. exact result_alias_repaired. Qed.
Theorem C07_event_nested_repaired : repaired w_event_nested.
Proof. exact event_nested_repaired. Qed.
Theorem C07_field_result_refuted : kf_c07_field_result w_field_result = true /\ refutes w_field_result.
Proof. exact field_result_refuted. Qed.
Theorem C07_inline_mod_refuted : kf_c07_inline_mod w_inline_mod = true /\ refutes w_inline_mod.
Proof. exact inline_mod_refuted. Qed.
Theorem C07_payload_expr_refuted : kf_c07_payload_expr w_payload_expr = true /\ refutes w_payload_expr.
Proof. exact payload_expr_refuted. Qed.
Theorem C07_odd_name_refuted : kf_c07_odd_name w_odd_name = true /\ refutes w_odd_name.
Proof. exact odd_name_refuted. Qed.

(* ---------------- which files are scanned at all: composition with the discovery model of C03 ----------------
   A project-with-layout is the walk of the source tree (Model/C07Layout.v: every regular file with its components
   below the project path and what read_to_string + syn::parse_file make of it). The project the C07 model runs on
   is the list of files C03Discover.accepted keeps and the parser accepts; by C03_accepted_by_components it is the
   project of the property text (stem.rs, no directory component named exactly target or .git), for every
   spelling of the project path. *)
Theorem C07_layout_scanned_is_spec : forall (root : str) (lp : lproject), scanned root lp = spec_project lp.
Proof. exact scanned_spec. Qed.

(* C07_exact over layouts: for every iteration order and every project path, types.ts declares, once each, exactly
   the serde types reachable from the commands / events of accepted parsable files through definitions in
   accepted parsable files; the premises are those of C07_exact on the accepted part of the walk *)
Theorem C07_layout_exact : forall (o : orders) (root : str) (lp : lproject) (decl : list str),
  ord_ok o -> in_domain (spec_project lp) = true ->
  kf_c07_field_result (spec_project lp) = false -> kf_c07_odd_name (spec_project lp) = false ->
  kf_c07_inline_mod (spec_project lp) = false -> kf_c07_payload_expr (spec_project lp) = false ->
  layout_declared o root lp = Some decl ->
  NoDup decl /\ (forall x, In x decl <-> LayoutSpecReach lp x) /\ Permutation decl (layout_reachable lp).
Proof. exact layout_exact. Qed.

(* the run-time oracle of the layout stream (the extracted c07_layout_eval computes layout_reachable from the
   walk the generator wrote to disk, excluded files included) *)
Theorem C07_layout_oracle_spec : forall lp ob, in_domain (spec_project lp) = true -> c07_layout_ok lp ob = true ->
  NoDup (ob_types ob) /\ (forall x, In x (ob_types ob) <-> LayoutSpecReach lp x)
  /\ Permutation (ob_types ob) (layout_reachable lp).
Proof. exact layout_oracle_spec. Qed.

(* the component test, as a proposition: the file name is stem.rs and NO directory component below the project
   path EQUALS target or .git (targets, target_kinds, .github, a file target.rs pass: see C07_layout_ex) *)
Theorem C07_layout_accept_reflect : forall comps, C03Spec.spec_accept comps = true <-> AcceptedPath comps.
Proof. exact accept_reflect. Qed.

(* every type of the specification's set is a serde type defined in an accepted, parsable file ... *)
Theorem C07_layout_declared_defined_in_accepted : forall lp x, LayoutSpecReach lp x -> DefinedInAccepted lp x.
Proof. exact reach_defined_in_accepted. Qed.
(* ... so a name all of whose definitions lie below a directory component named exactly target / .git (or in a
   file that is not stem.rs) is not in it, whatever mentions it *)
Theorem C07_layout_only_excluded_not_declared : forall lp x,
  (forall comps its d, In (comps, LParsed its) lp -> In d (flat_map item_defs its) -> d_name d = x ->
     C03Spec.rs_name (last comps []) = false \/
     exists c, In c (removelast comps) /\ (DirNamed "target" c \/ DirNamed ".git" c)) ->
  ~ LayoutSpecReach lp x.
Proof. exact only_excluded_not_reached. Qed.

(* frame: a walked file that is rejected by the component test, does not parse or is not UTF-8 changes nothing,
   wherever it stands in the iteration order (its commands, events and definitions are all gone: the C07 side of
   C03_unparsable_isolated) *)
Theorem C07_layout_ignored_frame : forall o root pre f post, ignored f = true ->
  scanned root (pre ++ f :: post) = scanned root (pre ++ post) /\
  layout_declared o root (pre ++ f :: post) = layout_declared o root (pre ++ post) /\
  layout_reachable (pre ++ f :: post) = layout_reachable (pre ++ post).
Proof. exact ignored_frame. Qed.

(* non-vacuity, with near-miss names: src/targets/m.rs, src/target_kinds/k.rs, .github/p.rs, src/target.rs and
   src/.git.rs are scanned and their types declared; target/debug/ghost.rs, src/.git/h.rs, src/targets/target/x.rs,
   src/notes.txt, an unparsable and a non-UTF-8 file are ignored: Cache, Deep and Txt stay undeclared although
   BuildPlan mentions them, the ghost command and the ghost event bring nothing *)
Example C07_layout_ex :
  in_domain (spec_project sample_walk) = true /\
  kf_c07_field_result (spec_project sample_walk) = false /\ kf_c07_odd_name (spec_project sample_walk) = false /\
  kf_c07_inline_mod (spec_project sample_walk) = false /\ kf_c07_payload_expr (spec_project sample_walk) = false /\
  map fst (scanned sample_root sample_walk)
    = map L ["src/lib.rs"; "src/targets/m.rs"; "src/target_kinds/k.rs"; ".github/p.rs"; "src/target.rs"; "src/.git.rs"]%string /\
  map ignored sample_walk = [false; false; false; false; false; false; true; true; true; true; true; true] /\
  layout_declared o_default sample_root sample_walk
    = Some (map L ["Hook"; "Profile"; "Dot"; "TargetKind"; "BuildTarget"; "BuildPlan"]%string) /\
  layout_reachable sample_walk = map L ["Hook"; "Profile"; "Dot"; "TargetKind"; "BuildTarget"; "BuildPlan"]%string /\
  (C03Spec.spec_accept (comps_of ["src"; "targets"; "m.rs"]%string) = true /\
   C03Spec.spec_accept (comps_of ["src"; "target"; "m.rs"]%string) = false /\
   C03Spec.spec_accept (comps_of [".github"; "m.rs"]%string) = true /\
   C03Spec.spec_accept (comps_of [".git"; "m.rs"]%string) = false /\
   C03Spec.spec_accept (comps_of ["target-tauri"; "Target"; ".gitx"; "target.rs"]%string) = true).
Proof. vm_compute. repeat split; reflexivity. Qed.
Example C07_layout_ex_not_declared : ~ LayoutSpecReach sample_walk (L "Cache") /\ ~ LayoutSpecReach sample_walk (L "Deep").
Proof. exact sample_not_reached. Qed.

(* non-vacuity: the sample project (diamond, cycle, enum, decoys, channel, helper event) meets every
   premise of C07_exact and declares eight types *)
Example C07_ex_premises :
  in_domain sample = true /\ agree_b sample = true /\
  kf_c07_field_result sample = false /\ kf_c07_odd_name sample = false /\
  kf_c07_inline_mod sample = false /\ kf_c07_payload_expr sample = false /\
  ord_ok o_default /\
  exists d, C07Reach.declared o_default sample = Some d /\ List.length d = 8.
Proof. do 6 (split; [vm_compute; reflexivity|]).
  split; [exact ord_ok_default|]. eexists. split; [vm_compute; reflexivity|]. reflexivity. Qed.
Example C07_ex_worklist : work str_dec (fun n => if str_eqb n (L "A") then [L "B"; L "X"] else if str_eqb n (L "B") then [L "A"] else [])
    (fun n => str_eqb n (L "A") || str_eqb n (L "B")) (fun _ => true) 9 [L "A"; L "Z"] [] = Some [L "B"; L "A"].
Proof. vm_compute. reflexivity. Qed.
Example C07_ex_harvest : extract_type_names (tts ex2) = [L "A"; L "B"] /\ extract_type_names (tts ex3) = [L "User"].
Proof. split; vm_compute; reflexivity. Qed.

Print Assumptions C07_exact.
Print Assumptions C07_oracle_exact.
Print Assumptions C07_oracle_spec.
Print Assumptions C07_exact_decidable_premises.
Print Assumptions C07_spec_oracle_exact.
Print Assumptions C07_exact_permutation.
Print Assumptions C07_worklist_exact.
Print Assumptions C07_nested_exact.
Print Assumptions C07_agree_from_classes.
Print Assumptions C07_readers_agree.
Print Assumptions C07_harvest_names.
Print Assumptions C07_spec_total.
Print Assumptions C07_model_total.
Print Assumptions C07_result_map_repaired.
Print Assumptions C07_tuple_generic_repaired.
Print Assumptions C07_parse_faithful.
Print Assumptions C07_result_alias_repaired.
Print Assumptions C07_event_nested_repaired.
Print Assumptions C07_field_result_refuted.
Print Assumptions C07_inline_mod_refuted.
Print Assumptions C07_payload_expr_refuted.
Print Assumptions C07_odd_name_refuted.
Print Assumptions C07_layout_scanned_is_spec.
Print Assumptions C07_layout_exact.
Print Assumptions C07_layout_oracle_spec.
Print Assumptions C07_layout_accept_reflect.
Print Assumptions C07_layout_declared_defined_in_accepted.
Print Assumptions C07_layout_only_excluded_not_declared.
Print Assumptions C07_layout_ignored_frame.
