(* C14 - re-running with nothing changed rewrites nothing; --force always regenerates.
   Only statements, [exact], Examples and [Print Assumptions] live here. *)
From Coq Require Import String List Arith Bool Permutation.
Require Import TT.Model.Str TT.Model.C08Fingerprint TT.Model.C08Run.
Require Import TT.Proofs.C08RunProofs TT.Proofs.C08FpProofs TT.Proofs.C08Examples TT.Proofs.SortInvSpike.
Import ListNotations.

Notation up_to_date_c := (up_to_date project config sched fname tree tree files).

(* Faithful model. A non-forced run (discovery order w2, a fresh process) after a run (order w1) that
   reported success or up to date answers up to date and leaves the whole state - every output file and
   the record - untouched, for every state and every pair of orders outside the recorded class
   kf_C14_order (the two orders give different fingerprints). *)
Theorem C14_idempotent : forall (w1 w2 : sched) (st : cstate) r st1,
  run_c false w1 false None st = (r, st1) -> r = Success \/ r = UpToDate ->
  g_force (s_cfg st) = false ->
  kf_C14_order w1 w2 (s_src st) (s_cfg st) = false ->
  run_c false w2 false None st1 = (UpToDate, st1).
Proof. intros w1 w2 st r st1 Hrun Hr Hf Hk.
  apply (idempotent_sched project config sched fname tree tree fname_eqb tree_eqb files fp has_commands g_force false
           tree_eqb_spec eq_refl w1 w2 st r st1 Hrun Hr Hf).
  unfold kf_C14_order in Hk. apply negb_false_iff in Hk. apply tree_eqb_spec in Hk. symmetry. exact Hk. Qed.

(* the class is inhabited on the faithful model: two source files visited in two orders, and two type
   mappings serialised in two orders, make the second run regenerate *)
Theorem C14_refuted_file_order :
  valid_sched w01 p2 c0 = true /\ valid_sched w10 p2 c0 = true /\ kf_C14_order w01 w10 p2 c0 = true /\
  let st1 := snd (run_c false w01 false None (init_state p2 c0)) in
  fst (run_c false w10 false None st1) = Success.
Proof. exact c14_refuted_files. Qed.
Theorem C14_refuted_mapping_order :
  valid_sched wm01 p0 cmaps = true /\ valid_sched wm10 p0 cmaps = true /\ kf_C14_order wm01 wm10 p0 cmaps = true /\
  let st1 := snd (run_c false wm01 false None (init_state p0 cmaps)) in
  fst (run_c false wm10 false None st1) = Success.
Proof. exact c14_refuted_maps. Qed.

(* projects with one source file and at most one type mapping are outside the class under every
   pair of valid orders *)
Theorem C14_single_file_outside_class : forall p c wa wb,
  length p = 1 -> (match g_maps c with None => True | Some l => length l <= 1 end) ->
  valid_sched wa p c = true -> valid_sched wb p c = true -> kf_C14_order wa wb p c = false.
Proof. exact single_file_outside_class. Qed.

(* forcing: with the flag or force:true every run on a project with commands succeeds, writes every file of
   the plan and the record, from every state (every cache state included), touching no other file *)
Theorem C14_force : forall (w : sched) (flag : bool) (st : cstate),
  has_commands (s_src st) = true -> flag || g_force (s_cfg st) = true ->
  exists st', run_c false w flag None st = (Success, st') /\ up_to_date_c w st' /\
    s_cache st' = Some (fp w (s_src st) (s_cfg st)) /\
    (forall f, ~ In f (map fst (files w (s_src st) (s_cfg st))) -> s_out st' f = s_out st f).
Proof. exact (force_regenerates project config sched fname tree tree fname_eqb tree_eqb files fp has_commands g_force false
                fname_eqb_spec files_nodup). Qed.

(* flag > file: the flag forces whatever the file says; without the flag the file decides *)
Theorem C14_flag_prevails : forall c : config,
  effective_force config g_force true c = true /\ effective_force config g_force false c = g_force c.
Proof. intros c. split; reflexivity. Qed.

(* invocation spellings: whatever flags, files or path spellings produced the current effective inputs, a
   non-forced run over a record equal to their fingerprint is a no-op (verbose, --force of an earlier run,
   -o spellings, flag-versus-file never enter the fingerprint) *)
Theorem C14_matching_record_noop : forall (w : sched) (st : cstate),
  has_commands (s_src st) = true -> g_force (s_cfg st) = false ->
  s_cache st = Some (fp w (s_src st) (s_cfg st)) -> run_c false w false None st = (UpToDate, st).
Proof. exact (matching_record_noop project config sched fname tree tree fname_eqb tree_eqb files fp has_commands g_force false
                tree_eqb_spec eq_refl). Qed.

(* ... but the spelling of the project path does: file_path follows it and is hashed (class kf_C14_path) *)
Theorem C14_refuted_path_spelling :
  kf_C14_path w1 [mk_file_at "./src-tauri"] [mk_file_at "src-tauri"] c0 = true /\
  let st1 := snd (run_c false w1 false None (init_state [mk_file_at "./src-tauri"] c0)) in
  fst (run_c false w1 false None (step_c false st1 (SetSrc _ _ _ _ [mk_file_at "src-tauri"]))) = Success.
Proof. exact c14_refuted_path. Qed.

(* the repair: hashing the commands sorted by (file, name) makes the command part of the fingerprint
   independent of the discovery order (any two enumerations of the same commands, unique (file, name)) *)
Theorem C14_repair_sorted_commands_order_independent : forall a a' : analysis,
  NoDup (map cmd_key (a_cmds a)) -> Permutation (a_cmds a) (a_cmds a') -> fp_cmds_sorted a = fp_cmds_sorted a'.
Proof. exact fp_cmds_sorted_order_independent. Qed.

Example C14_ex_premises :
  kf_C14_order w01 w01 p2 c0 = false /\ fst (run_c false w01 false None (init_state p2 c0)) = Success /\
  has_commands p2 = true.
Proof. exact c14_ex_same_order. Qed.

Print Assumptions C14_idempotent.
Print Assumptions C14_refuted_file_order.
Print Assumptions C14_refuted_mapping_order.
Print Assumptions C14_single_file_outside_class.
Print Assumptions C14_force.
Print Assumptions C14_flag_prevails.
Print Assumptions C14_repair_sorted_commands_order_independent.
Print Assumptions C14_matching_record_noop.
Print Assumptions C14_refuted_path_spelling.
