(* C14 - re-running with nothing changed rewrites nothing; --force always regenerates.
   Only statements, [exact], Examples and [Print Assumptions] live here. *)
From Coq Require Import String List Arith Bool Permutation.
Require Import TT.Model.Str TT.Model.C08Fingerprint TT.Model.C08Run.
Require Import TT.Proofs.C08RunProofs TT.Proofs.C08FpProofs TT.Proofs.C08Examples TT.Proofs.SortInvSpike TT.Proofs.C14MapOrder TT.Proofs.C14PerFile.
Import ListNotations.

Notation up_to_date_c := (up_to_date project config sched fname tree tree files).

(* Model of the patched code (commands sorted by (file, name) before hashing, type mappings through a BTreeMap,
   files analysed in sorted path order). The fingerprint is the same under every valid discovery order - file
   map order and mapping order - for projects whose commands of each single file are discovered in the same (source) order under both
   orders (the hash sorts stably by file: C08-10), whose discovered
   structs have unique names (what Rust and the HashMap of structs guarantee) and whose events are discovered in
   the same order (they are hashed in discovery order; since C13-sort-before-use that order is unique). *)
Theorem C14_fp_order_independent : forall (p : project) (c : config) (wa wb : sched),
  valid_sched wa p c = true -> valid_sched wb p c = true ->
  (forall x, filter (same_file (g_ppath c) x) (a_cmds (analyse wa p)) = filter (same_file (g_ppath c) x) (a_cmds (analyse wb p))) ->
  NoDup (map s_name (a_structs (analyse wa p))) ->
  u_events (analyse wa p) = u_events (analyse wb p) ->
  fp wa p c = fp wb p c.
Proof. exact fp_order_independent. Qed.

(* A non-forced run (discovery order w2, a fresh process) after a run (order w1) that reported success or
   up to date answers up to date and leaves the whole state - every output file and the record -
   untouched: for every state and every pair of valid orders; no order class is left. *)
Theorem C14_idempotent : forall (w1 w2 : sched) (st : cstate) r st1,
  run_c true w1 false None st = (r, st1) -> r = Success \/ r = UpToDate ->
  g_force (s_cfg st) = false ->
  valid_sched w1 (s_src st) (s_cfg st) = true -> valid_sched w2 (s_src st) (s_cfg st) = true ->
  (forall x, filter (same_file (g_ppath (s_cfg st)) x) (a_cmds (analyse w1 (s_src st))) =
             filter (same_file (g_ppath (s_cfg st)) x) (a_cmds (analyse w2 (s_src st)))) ->
  NoDup (map s_name (a_structs (analyse w1 (s_src st)))) ->
  u_events (analyse w1 (s_src st)) = u_events (analyse w2 (s_src st)) ->
  run_c true w2 false None st1 = (UpToDate, st1).
Proof. intros w1 w2 st r st1 Hrun Hr Hf V1 V2 Hk Hs He.
  apply (idempotent_sched project config sched fname tree tree fname_eqb tree_eqb files fp has_commands g_force true
           fname_eqb_spec tree_eqb_spec files_nodup w1 w2 st r st1 Hrun Hr Hf).
  - symmetry. apply fp_order_independent; assumption.
  - apply files_names. exact He. Qed.

(* the former witnesses of C14-1 (two files, two orders) and C14-2 (two mappings, two map orders):
   the second run is a no-op now *)
Theorem C14_repaired_file_order :
  valid_sched w01 p2 c0 = true /\ valid_sched w10 p2 c0 = true /\
  let st1 := snd (run_c true w01 false None (init_state p2 c0)) in
  run_c true w10 false None st1 = (UpToDate, st1) /\ fst (run_c true w01 false None (init_state p2 c0)) = Success.
Proof. exact c14_fixed_files. Qed.
Theorem C14_repaired_mapping_order :
  valid_sched wm01 p0 cmaps = true /\ valid_sched wm10 p0 cmaps = true /\
  let st1 := snd (run_c true wm01 false None (init_state p0 cmaps)) in
  fst (run_c true wm10 false None st1) = UpToDate.
Proof. exact c14_fixed_maps. Qed.

(* forcing: with the flag or force:true every run on a project with commands succeeds, writes every file of
   the plan and the record, from every state (every cache state included), touching no other file *)
Theorem C14_force : forall (w : sched) (flag : bool) (st : cstate),
  has_commands (s_src st) = true -> flag || g_force (s_cfg st) = true ->
  exists st', run_c true w flag None st = (Success, st') /\ up_to_date_c w st' /\
    s_cache st' = Some (fp w (s_src st) (s_cfg st)) /\
    (forall f, ~ In f (map fst (files w (s_src st) (s_cfg st))) -> s_out st' f = s_out st f).
Proof. exact (force_regenerates project config sched fname tree tree fname_eqb tree_eqb files fp has_commands g_force true
                fname_eqb_spec files_nodup). Qed.

(* flag > file: the flag forces whatever the file says; without the flag the file decides *)
Theorem C14_flag_prevails : forall c : config,
  effective_force config g_force true c = true /\ effective_force config g_force false c = g_force c.
Proof. intros c. split; reflexivity. Qed.

(* invocation spellings: whatever flags, files or path spellings produced the current effective inputs, a
   non-forced run over a record equal to their fingerprint, with the files of the plan present, is a no-op
   (verbose, --force of an earlier run, -o spellings, flag-versus-file never enter the fingerprint) *)
Theorem C14_matching_record_noop : forall (w : sched) (st : cstate),
  has_commands (s_src st) = true -> g_force (s_cfg st) = false ->
  s_cache st = Some (fp w (s_src st) (s_cfg st)) ->
  present fname tree (s_out st) (files w (s_src st) (s_cfg st)) = true ->
  run_c true w false None st = (UpToDate, st).
Proof. exact (matching_record_noop project config sched fname tree tree fname_eqb tree_eqb files fp has_commands g_force true
                tree_eqb_spec). Qed.

(* the former witness of C14-3: the project path spelled ./src-tauri, then src-tauri - same fingerprint (file
   paths are hashed relative to the project path), the second run is a no-op; with visualize_deps on the
   spelling is printed into dependency-graph.txt, is hashed, and the run regenerates *)
Theorem C14_repaired_path_spelling :
  fp w1 [mk_file_at "./src-tauri"] (cfg_at "./src-tauri" false) = fp w1 [mk_file_at "src-tauri"] (cfg_at "src-tauri" false) /\
  let st1 := snd (run_c true w1 false None (init_state [mk_file_at "./src-tauri"] (cfg_at "./src-tauri" false))) in
  let st2 := step_c true (step_c true st1 (SetSrc _ _ _ _ [mk_file_at "src-tauri"])) (SetCfg _ _ _ _ (cfg_at "src-tauri" false)) in
  run_c true w1 false None st2 = (UpToDate, st2).
Proof. exact c14_fixed_path. Qed.
Theorem C14_path_spelling_under_visualize :
  let st1 := snd (run_c true w1 false None (init_state [mk_file_at "./src-tauri"] (cfg_at "./src-tauri" true))) in
  let st2 := step_c true (step_c true st1 (SetSrc _ _ _ _ [mk_file_at "src-tauri"])) (SetCfg _ _ _ _ (cfg_at "src-tauri" true)) in
  fst (run_c true w1 false None st2) = Success.
Proof. exact c14_path_under_viz. Qed.
(* a file below the project path is hashed by its relative path, whatever the spelling of the project path *)
Theorem C14_relative_path : forall root r : str, rel_path root (root ++ L "/" ++ r)%list = r.
Proof. exact rel_path_app. Qed.

(* round 7. The iteration order of the type_mappings map (w_maps) reaches nothing: two schedules that agree on the file
   order give the same fingerprint, the same write plan and the same unhashed component; every run and every history
   of the machine is the same whatever map orders its runs drew. In particular the order fed to the model on the
   build-script path (where it is not observable) is immaterial. *)
Theorem C14_map_order_irrelevant : forall (w w' : sched) (p : project) (c : config), w_files w = w_files w' ->
  fp w p c = fp w' p c /\ files w p c = files w' p c /\ unhashed w p c = unhashed w' p c.
Proof. exact map_order_irrelevant. Qed.
Theorem C14_run_map_order_irrelevant : forall (presence : bool) (w w' : sched) (flag : bool) (fault : option nat) (st : cstate),
  w_files w = w_files w' -> run_c presence w flag fault st = run_c presence w' flag fault st.
Proof. exact run_files_only. Qed.
Theorem C14_history_map_order_irrelevant : forall (presence : bool) (ops ops' : list cop) (st : cstate),
  Forall2 same_files_op ops ops' -> fold_left (step_c presence) ops st = fold_left (step_c presence) ops' st.
Proof. exact history_files_only. Qed.
Example C14_ex_map_orders :
  w_files wm01 = w_files wm10 /\ w_maps wm01 <> w_maps wm10 /\ valid_sched wm01 p0 cmaps = true /\ valid_sched wm10 p0 cmaps = true /\
  Forall2 same_files_op [Run _ _ _ _ wm01 false; SetCfg _ _ _ _ cmaps; Run _ _ _ _ wm10 true] [Run _ _ _ _ wm10 false; SetCfg _ _ _ _ cmaps; Run _ _ _ _ wm01 true].
Proof. split; [reflexivity|]. split; [discriminate|]. split; [reflexivity|]. split; [reflexivity|].
  repeat constructor. Qed.

(* round 7. The per-file order premise of C14_fp_order_independent follows from the structure of the project: files (as one
   valid order enumerates them) with pairwise distinct relative paths, every command carrying the path of its file. Then
   every valid order lists the commands of each single file in the same order, and the fingerprint is order independent
   with no premise about command orders (struct names unique, events discovered in the same order, as before). *)
Theorem C14_per_file_order_from_structure : forall (root : str) (p : project) (wa wb : sched),
  is_perm_of_seq (w_files wa) (length p) = true -> is_perm_of_seq (w_files wb) (length p) = true ->
  NoDup (map (fun f => rel_path root (sf_path f)) (pick empty_file p (w_files wa))) ->
  (forall f k, In f (pick empty_file p (w_files wa)) -> In k (sf_cmds f) -> c_file k = sf_path f) ->
  forall x, filter (same_file root x) (a_cmds (analyse wa p)) = filter (same_file root x) (a_cmds (analyse wb p)).
Proof. exact per_file_order_from_structure. Qed.
Theorem C14_fp_order_independent_structural : forall (p : project) (c : config) (wa wb : sched),
  valid_sched wa p c = true -> valid_sched wb p c = true ->
  NoDup (map (fun f => rel_path (g_ppath c) (sf_path f)) (pick empty_file p (w_files wa))) ->
  (forall f k, In f (pick empty_file p (w_files wa)) -> In k (sf_cmds f) -> c_file k = sf_path f) ->
  NoDup (map s_name (a_structs (analyse wa p))) ->
  u_events (analyse wa p) = u_events (analyse wb p) ->
  fp wa p c = fp wb p c.
Proof. exact fp_order_independent_structural. Qed.
Example C14_ex_structure :
  valid_sched w01 p2 c0 = true /\ valid_sched w10 p2 c0 = true /\
  NoDup (map (fun f => rel_path (g_ppath c0) (sf_path f)) (pick empty_file p2 (w_files w01))) /\
  (forall f k, In f (pick empty_file p2 (w_files w01)) -> In k (sf_cmds f) -> c_file k = sf_path f).
Proof. exact ex_structure. Qed.

Example C14_ex_premises :
  fp w01 p2 c0 = fp w10 p2 c0 /\ NoDup (map s_name (a_structs (analyse w01 p2))) /\ has_commands p2 = true /\
  u_events (analyse w01 p2) = u_events (analyse w10 p2).
Proof. exact c14_ex_keys. Qed.

Print Assumptions C14_idempotent.
Print Assumptions C14_fp_order_independent.
Print Assumptions C14_repaired_file_order.
Print Assumptions C14_repaired_mapping_order.
Print Assumptions C14_force.
Print Assumptions C14_flag_prevails.
Print Assumptions C14_matching_record_noop.
Print Assumptions C14_repaired_path_spelling.
Print Assumptions C14_path_spelling_under_visualize.
Print Assumptions C14_relative_path.
Print Assumptions C14_map_order_irrelevant.
Print Assumptions C14_run_map_order_irrelevant.
Print Assumptions C14_history_map_order_irrelevant.
Print Assumptions C14_per_file_order_from_structure.
Print Assumptions C14_fp_order_independent_structural.
