(* C14 - re-running with nothing changed rewrites nothing; --force always regenerates.
   Only statements, [exact], Examples and [Print Assumptions] live here. *)
From Coq Require Import String List Arith Bool Permutation.
Require Import TT.Model.Str TT.Model.C08Fingerprint TT.Model.C08Run.
Require Import TT.Proofs.C08RunProofs TT.Proofs.C08FpProofs TT.Proofs.C08Examples TT.Proofs.SortInvSpike.
Import ListNotations.

Notation up_to_date_c := (up_to_date project config sched fname tree tree files).

(* Model of the patched code (commands sorted by (file, name) before hashing, type mappings through a BTreeMap,
   files analysed in sorted path order). The fingerprint is the same under every valid discovery order - file
   map order and mapping order - for projects whose commands have unique (file, name) and whose discovered
   structs have unique names (what Rust and the HashMap of structs guarantee). *)
Theorem C14_fp_order_independent : forall (p : project) (c : config) (wa wb : sched),
  valid_sched wa p c = true -> valid_sched wb p c = true ->
  NoDup (map cmd_key (a_cmds (analyse wa p))) -> NoDup (map s_name (a_structs (analyse wa p))) ->
  fp wa p c = fp wb p c.
Proof. exact fp_order_independent. Qed.

(* A non-forced run (discovery order w2, a fresh process) after a run (order w1) that reported success or
   up to date answers up to date and leaves the whole state - every output file and the record -
   untouched: for every state and every pair of valid orders; no order class is left. *)
Theorem C14_idempotent : forall (w1 w2 : sched) (st : cstate) r st1,
  run_c false w1 false None st = (r, st1) -> r = Success \/ r = UpToDate ->
  g_force (s_cfg st) = false ->
  valid_sched w1 (s_src st) (s_cfg st) = true -> valid_sched w2 (s_src st) (s_cfg st) = true ->
  NoDup (map cmd_key (a_cmds (analyse w1 (s_src st)))) -> NoDup (map s_name (a_structs (analyse w1 (s_src st)))) ->
  run_c false w2 false None st1 = (UpToDate, st1).
Proof. intros w1 w2 st r st1 Hrun Hr Hf V1 V2 Hk Hs.
  apply (idempotent_sched project config sched fname tree tree fname_eqb tree_eqb files fp has_commands g_force false
           tree_eqb_spec eq_refl w1 w2 st r st1 Hrun Hr Hf).
  symmetry. apply fp_order_independent; assumption. Qed.

(* the former witnesses of C14-1 (two files, two orders) and C14-2 (two mappings, two map orders):
   the second run is a no-op now *)
Theorem C14_repaired_file_order :
  valid_sched w01 p2 c0 = true /\ valid_sched w10 p2 c0 = true /\
  let st1 := snd (run_c false w01 false None (init_state p2 c0)) in
  run_c false w10 false None st1 = (UpToDate, st1) /\ fst (run_c false w01 false None (init_state p2 c0)) = Success.
Proof. exact c14_fixed_files. Qed.
Theorem C14_repaired_mapping_order :
  valid_sched wm01 p0 cmaps = true /\ valid_sched wm10 p0 cmaps = true /\
  let st1 := snd (run_c false wm01 false None (init_state p0 cmaps)) in
  fst (run_c false wm10 false None st1) = UpToDate.
Proof. exact c14_fixed_maps. Qed.

(* forcing: with the flag or force:true every run on a project with commands succeeds, writes every file of
   the plan and the record, from every state (every cache state included), touching no other file *)
Theorem C14_force : forall (w : sched) (flag : bool) (st : cstate),
  has_commands (s_src st) = true -> flag || g_force (s_cfg st) = true ->
  exists st', run_c false w flag None st = (Success, st') /\ up_to_date_c w st' /\
    s_cache st' = Some (fp w (s_src st) (s_cfg st)) /\
    (forall f, ~ In f (map fst (files w (s_src st) (s_cfg st))) -> s_out st' f = s_out st f).
Proof. exact (force_regenerates project config sched fname tree tree fname_eqb tree_eqb files fp has_commands g_force false
                fname_eqb_spec files_nodup). Qed.

(* flag > file: the flag forces whatever the file says; without the flag the file decides *)
Theorem C14_flag_prevails : forall c : config,
  effective_force config g_force true c = true /\ effective_force config g_force false c = g_force c.
Proof. intros c. split; reflexivity. Qed.

(* invocation spellings: whatever flags, files or path spellings produced the current effective inputs, a
   non-forced run over a record equal to their fingerprint is a no-op (verbose, --force of an earlier run,
   -o spellings, flag-versus-file never enter the fingerprint) *)
Theorem C14_matching_record_noop : forall (w : sched) (st : cstate),
  has_commands (s_src st) = true -> g_force (s_cfg st) = false ->
  s_cache st = Some (fp w (s_src st) (s_cfg st)) -> run_c false w false None st = (UpToDate, st).
Proof. exact (matching_record_noop project config sched fname tree tree fname_eqb tree_eqb files fp has_commands g_force false
                tree_eqb_spec eq_refl). Qed.

(* ... but the spelling of the project path does: file_path follows it and is hashed (class kf_C14_path) *)
Theorem C14_refuted_path_spelling :
  kf_C14_path w1 [mk_file_at "./src-tauri"] [mk_file_at "src-tauri"] c0 = true /\
  let st1 := snd (run_c false w1 false None (init_state [mk_file_at "./src-tauri"] c0)) in
  fst (run_c false w1 false None (step_c false st1 (SetSrc _ _ _ _ [mk_file_at "src-tauri"]))) = Success.
Proof. exact c14_refuted_path. Qed.

Example C14_ex_premises :
  NoDup (map cmd_key (a_cmds (analyse w01 p2))) /\ NoDup (map s_name (a_structs (analyse w01 p2))) /\ has_commands p2 = true.
Proof. exact c14_ex_keys. Qed.

Print Assumptions C14_idempotent.
Print Assumptions C14_fp_order_independent.
Print Assumptions C14_repaired_file_order.
Print Assumptions C14_repaired_mapping_order.
Print Assumptions C14_force.
Print Assumptions C14_flag_prevails.
Print Assumptions C14_matching_record_noop.
Print Assumptions C14_refuted_path_spelling.
