(* C13 - output is a deterministic function of sources and configuration.
   Statements about the order skeleton Model/C13Order.v, which follows the code with the repairs
   C13-sort-before-use, C12-fix-dedup, C07-4, C10-5: gen zod w p is the list of declarations of every
   generated file, w the iteration orders of all hash-based collections (sorted before use).
   Only statements, [exact], Examples and [Print Assumptions] live here. *)
From Coq Require Import List Arith Bool Permutation.
Require Import TT.Model.Base TT.Model.Topo TT.Model.C13Order TT.Spec.C13Rel.
Require Import TT.Model.Str TT.Spec.C13Spec.
Require Import TT.Proofs.C13SortInv TT.Proofs.C13Proofs TT.Proofs.C13Extra TT.Proofs.C13Trans TT.Proofs.C13Oracle.
Import ListNotations.

(* Whatever the hash orders, the generated declarations are the same lists (was refuted before the
   repair; uses isort_perm_invariant). Also the two visualisation files. *)
Theorem C13_order_independent : forall p zod w w', gen zod w p = gen zod w' p.
Proof. exact order_independent. Qed.
Theorem C13_viz_independent : forall p w w', viz w p = viz w' p.
Proof. exact viz_independent. Qed.

(* --verbose and --visualize-deps: the bindings are the same for all flags, the two graph files are
   written exactly with --visualize-deps, and the whole outcome is independent of the hash orders. *)
Theorem C13_flags : forall p zod fl fl' w w',
  option_map fst (run_files fl zod w p) = option_map fst (run_files fl' zod w' p) /\
  (forall o v, run_files fl zod w p = Some (o, v) -> (v <> None <-> f_visualize fl = true)) /\
  run_files fl zod w p = run_files fl zod w' p.
Proof. exact flags_thm. Qed.

(* The files a run writes do not depend on what the output directory held before (stale, longer,
   truncated or foreign copies of the same names): every generated name reads back the same. *)
Theorem C13_prior_state : forall (prior prior' : dir (list decl)) o k, In k (map fst (out_files o)) ->
  read (write_all prior (out_files o)) k = read (write_all prior' (out_files o)) k.
Proof. intros prior prior' o k. apply prior_state. Qed.

(* Moving items between files, reordering them, splitting and merging files (any project with the
   same items) changes at most the order of declarations - unless a type name is defined twice or an
   event name is emitted with two different payload types. *)
Theorem C13_move : forall p p', Permutation (all_items p) (all_items p') ->
  kf_dupdef p = false -> kf_dupevent p = false ->
  forall zod w w', out_perm (gen zod w p) (gen zod w' p').
Proof. exact move_perm. Qed.

(* The property's last sentence as one statement: any sequence of source transformations - reordering the
   items of a file, moving an item to another file, splitting a file, merging two files, listing the files
   in another order, renaming a file (Spec/C13Rel.v tstep) - changes at most the order of declarations;
   declarations carry their members (field / variant / parameter names in order), body and payload ids. *)
Theorem C13_transformations : forall p p', tsteps p p' -> kf_dupdef p = false -> kf_dupevent p = false ->
  forall zod w w', out_perm (gen zod w p) (gen zod w' p').
Proof. exact transformations. Qed.

(* The run-time oracle on two versions of a generated file decides exactly: same item list / same
   multiset of items in another order / different multisets / a version does not parse. *)
Theorem C13_oracle_exact : forall a b v, rel a b = v <-> rel_spec a b v.
Proof. exact rel_exact. Qed.

(* Added non-command functions without emit calls and non-serde items change nothing; an added
   file holding only such items changes at most the order. *)
Theorem C13_noise : forall p p' zod w, denoise p = denoise p' -> gen zod w p = gen zod w p'.
Proof. exact noise_equiv. Qed.
Theorem C13_noise_file : forall f p zod w w', noise_file f = true -> kf_dupdef p = false -> kf_dupevent p = false ->
  out_perm (gen zod w p) (gen zod w' (f :: p)).
Proof. exact noise_file_thm. Qed.

(* The two classes are not vacuous: exchanging two same-named definitions between two files changes
   the emitted body (the last path in sorted order wins) ... *)
Theorem C13_move_dupdef_refuted :
  exists p p' w o o', Permutation (all_items p) (all_items p') /\ kf_dupdef p = true /\ kf_dupevent p = false /\
    gen false w p = Some o /\ gen false w p' = Some o' /\
    In (DType 1 0 [200; 300]) (o_types o') /\ ~ In (DType 1 0 [200; 300]) (o_types o).
Proof. exact move_dupdef_refuted. Qed.
(* ... and exchanging two functions that emit one event name with different payload types changes the
   listener (the first emit site wins). *)
Theorem C13_move_dupevent_refuted :
  exists p p' w o o', Permutation (all_items p) (all_items p') /\ kf_dupdef p = false /\ kf_dupevent p = true /\
    gen false w p = Some o /\ gen false w p' = Some o' /\
    o_events o = Some [DListener 1 0] /\ o_events o' = Some [DListener 1 1].
Proof. exact move_dupevent_refuted. Qed.

(* ---- the former refutation witness of order independence now satisfies it ---- *)
Example C13_ex_two_cmds : gen false (w_of [2; 1]) p_two_cmds = gen false (w_of [1; 2]) p_two_cmds
  /\ option_map o_commands (gen false (w_of [2; 1]) p_two_cmds) = Some [DWrapper 1; DWrapper 2].
Proof. vm_compute. auto. Qed.
(* the former content witness: identical sources now give one content for every order *)
Example C13_ex_dupdef_deterministic : gen false (w_of [1; 2]) p_dupdef = gen false (w_of [2; 1]) p_dupdef
  /\ option_map o_types (gen false (w_of [1; 2]) p_dupdef) = Some [DType 1 1 [201; 300]; DParams 1 [101] []].
Proof. vm_compute. auto. Qed.

(* ---- non-vacuity: a three-file project with commands, events, types, noise ---- *)
Definition ex_p : project :=
  [(1, [mk_cmd 1 [1]; INoise; mk_type 2 [3] 0]);
   (2, [mk_type 1 [2; 3] 1; IFn [mk_ev 1 [4] 7]; mk_cmd 2 []; IFn [mk_ev 1 [4] 7]]);
   (3, [mk_type 3 [] 2; IFn []; mk_type 4 [5] 3; mk_type 5 [] 4])].
Definition ex_w : omega := {| w_files := [3; 1; 2]; w_used := [2; 3; 1]; w_req := [3; 1; 2]; w_deps := [(1, [3; 2])];
                              w_res := []; w_dmap := [] |}.
Example C13_ex_premises : kf_dupdef ex_p = false /\ kf_dupevent ex_p = false.
Proof. vm_compute. auto. Qed.
Example C13_ex_gen_plain : option_map o_types (gen false ex_w ex_p) = Some [DType 1 1 [201; 300]; DType 2 0 [200; 300]; DType 3 2 [202; 300]; DType 4 3 [203; 300]; DType 5 4 [204; 300]; DParams 1 [101] []]
  /\ option_map o_commands (gen false ex_w ex_p) = Some [DWrapper 1; DWrapper 2]
  /\ option_map o_events (gen false ex_w ex_p) = Some (Some [DListener 1 7]).
Proof. vm_compute. auto. Qed.
Example C13_ex_gen_zod : option_map o_types (gen true ex_w ex_p)
  = Some [DSchema 3 2 [202; 300]; DInfer 3; DSchema 2 0 [200; 300]; DInfer 2; DSchema 1 1 [201; 300]; DInfer 1;
          DSchema 5 4 [204; 300]; DInfer 5; DSchema 4 3 [203; 300]; DInfer 4; DPSchema 1 [101]; DParams 1 [101] []].
Proof. vm_compute. reflexivity. Qed.
Example C13_ex_noise : denoise ex_p <> ex_p /\ noise_file (4, [INoise; IFn []]) = true.
Proof. split; [vm_compute; intros H; discriminate H|reflexivity]. Qed.
Example C13_ex_tsteps : tsteps [(1, [mk_cmd 1 [1]; mk_type 1 [] 0; mk_cmd 2 []])]
                              [(3, [mk_cmd 2 []]); (1, [mk_type 1 [] 0; mk_cmd 1 [1]])].
Proof.
  eapply ts_step. { apply (t_reorder [] 1 _ [mk_type 1 [] 0; mk_cmd 1 [1]; mk_cmd 2 []] []). apply perm_swap. }
  eapply ts_step. { apply (t_split [] 1 3 [mk_type 1 [] 0; mk_cmd 1 [1]] [mk_cmd 2 []] []). }
  eapply ts_step. { apply t_files. apply perm_swap. }
  apply ts_refl. Qed.
Example C13_ex_move : Permutation (all_items p_dupevent) (all_items p_dupevent_swapped)
  /\ Permutation (all_items [(1, [mk_cmd 1 [1]; mk_type 1 [] 0]); (2, [mk_cmd 2 []])])
                 (all_items [(1, [mk_cmd 2 []]); (2, [mk_type 1 [] 0]); (3, [mk_cmd 1 [1]])]).
Proof. split; cbn.
  - apply perm_skip. apply perm_swap.
  - apply perm_trans with (l' := [mk_cmd 1 [1]; mk_cmd 2 []; mk_type 1 [] 0]); [apply perm_skip, perm_swap|].
    apply perm_trans with (l' := [mk_cmd 2 []; mk_cmd 1 [1]; mk_type 1 [] 0]); [apply perm_swap|].
    apply perm_skip. apply perm_swap. Qed.

Print Assumptions C13_order_independent.
Print Assumptions C13_viz_independent.
Print Assumptions C13_flags.
Print Assumptions C13_prior_state.
Print Assumptions C13_move.
Print Assumptions C13_transformations.
Print Assumptions C13_oracle_exact.
Print Assumptions C13_noise.
Print Assumptions C13_noise_file.
Print Assumptions C13_move_dupdef_refuted.
Print Assumptions C13_move_dupevent_refuted.
