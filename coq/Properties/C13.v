(* C13 - output is a deterministic function of sources and configuration.
   Statements about the order skeleton Model/C13Order.v, which follows the code with the repairs
   C13-sort-before-use, C12-fix-dedup, C07-4, C10-5: gen zod w p is the list of declarations of every
   generated file, w the iteration orders of all hash-based collections (sorted before use).
   Only statements, [exact], Examples and [Print Assumptions] live here. *)
From Coq Require Import List Arith Bool Permutation.
Require Import TT.Model.Base TT.Model.Topo TT.Model.C13Order TT.Spec.C13Rel.
Require Import TT.Model.Str TT.Spec.C13Spec.
Require Import TT.Proofs.C13SortInv TT.Proofs.C13Proofs TT.Proofs.C13Extra TT.Proofs.C13Trans TT.Proofs.C13Oracle.
Require Import TT.Spec.TsLex TT.Spec.TsModule TT.Spec.TsObs TT.Model.C13Text TT.Proofs.C13Rank TT.Proofs.C13TextProofs.
Import ListNotations.

(* Whatever the hash orders, the generated declarations are the same lists (was refuted before the
   repair; uses isort_perm_invariant). Also the two visualisation files. *)
Theorem C13_order_independent : forall p zod w w', gen zod w p = gen zod w' p.
Proof. exact order_independent. Qed.
Theorem C13_viz_independent : forall p w w', viz w p = viz w' p.
Proof. exact viz_independent. Qed.

(* --verbose and --visualize-deps: the bindings are the same for all flags, the two graph files are
   written exactly with --visualize-deps, and the whole outcome is independent of the hash orders. *)
Theorem C13_flags : forall p zod fl fl' w w',
  option_map fst (run_files fl zod w p) = option_map fst (run_files fl' zod w' p) /\
  (forall o v, run_files fl zod w p = Some (o, v) -> (v <> None <-> f_visualize fl = true)) /\
  run_files fl zod w p = run_files fl zod w' p.
Proof. exact flags_thm. Qed.

(* The files a run writes do not depend on what the output directory held before (stale, longer,
   truncated or foreign copies of the same names): every generated name reads back the same. *)
Theorem C13_prior_state : forall (prior prior' : dir (list decl)) o k, In k (map fst (out_files o)) ->
  read (write_all prior (out_files o)) k = read (write_all prior' (out_files o)) k.
Proof. intros prior prior' o k. apply prior_state. Qed.

(* Moving items between files, reordering them, splitting and merging files (any project with the
   same items) changes at most the order of declarations - unless a type name is defined twice or an
   event name is emitted with two different payload types. *)
Theorem C13_move : forall p p', Permutation (all_items p) (all_items p') ->
  kf_dupdef p = false -> kf_dupevent p = false ->
  forall zod w w', out_perm (gen zod w p) (gen zod w' p').
Proof. exact move_perm. Qed.

(* The property's last sentence as one statement: any sequence of source transformations - reordering the
   items of a file, moving an item to another file, splitting a file, merging two files, listing the files
   in another order, renaming a file (Spec/C13Rel.v tstep) - changes at most the order of declarations;
   declarations carry their members (field / variant / parameter names in order), body and payload ids. *)
Theorem C13_transformations : forall p p', tsteps p p' -> kf_dupdef p = false -> kf_dupevent p = false ->
  forall zod w w', out_perm (gen zod w p) (gen zod w' p').
Proof. exact transformations. Qed.

(* The run-time oracle on two versions of a generated file decides exactly: same item list / same
   multiset of items in another order / different multisets / a version does not parse. *)
Theorem C13_oracle_exact : forall a b v, rel a b = v <-> rel_spec a b v.
Proof. exact rel_exact. Qed.

(* Added non-command functions without emit calls and non-serde items change nothing; an added
   file holding only such items changes at most the order. *)
Theorem C13_noise : forall p p' zod w, denoise p = denoise p' -> gen zod w p = gen zod w p'.
Proof. exact noise_equiv. Qed.
(* Round 7: equality, without premises, for the output and for both graph files (was: same multiset
   under the two class premises). Ranks in the sorted path list are monotone in the path. *)
Theorem C13_noise_file : forall f p zod w w', noise_file f = true ->
  gen zod w p = gen zod w' (f :: p) /\ viz w p = viz w' (f :: p).
Proof. intros f p zod w w' H. split; [apply noise_file_eq|apply noise_file_viz_eq]; exact H. Qed.
(* any number of noise-only files at any position: two projects with the same other files, in the same
   relative order, have equal outputs *)
Theorem C13_noise_files : forall p p' zod w w', strip_noise_files p = strip_noise_files p' -> gen zod w p = gen zod w' p'.
Proof. exact noise_files_equiv. Qed.

(* Round 7: what the sorted orders are. The file loop of the repaired pipeline is the stable sort of the
   files by path, whatever hash order arrived; plain types.ts is the used types by name followed by the
   Params declarations of the commands in path order; commands.ts is the wrappers in path order. *)
Theorem C13_canonical_order : forall w p,
  files_in_order (repaired w p) p = files_sorted p /\
  option_map o_types (gen false w p) =
    match commands_sorted p with
    | [] => None
    | _ => Some (type_decls_plain (index_sorted p) (sort_names (used (index_sorted p) p)) ++
                 flat_map param_decl (commands_sorted p))
    end /\
  forall zod, option_map o_commands (gen zod w p) =
    match commands_sorted p with
    | [] => None
    | cs => Some ((if zod then [DHooks] else []) ++ map (fun c => DWrapper (c_name c)) cs)
    end.
Proof. intros w p. split; [apply files_repaired|]. split; [apply types_plain_closed_form|]. intros zod. apply commands_closed_form. Qed.

(* Round 7, text level (Model/C13Text.v): the ids of the skeleton resolved by a content table k to the items
   as written, the files rendered by the text-level generator models (Pipeline.v tokens in plain mode,
   PipelineZod.v and Events.v text). The file TEXT is the same for all hash orders ... *)
Theorem C13_text_order_independent : forall k p zod w w', text_files k zod w p = text_files k zod w' p.
Proof. exact text_order_independent. Qed.
Theorem C13_viz_text_independent : forall k p w w', viz_text_of k w p = viz_text_of k w' p.
Proof. exact viz_text_independent. Qed.
(* ... unchanged by noise items and noise-only files ... *)
Theorem C13_text_noise : forall k p p' zod w, denoise p = denoise p' -> text_files k zod w p = text_files k zod w p'.
Proof. exact text_noise. Qed.
Theorem C13_text_noise_file : forall k f p zod w w', noise_file f = true ->
  text_files k zod w p = text_files k zod w' (f :: p) /\ viz_text_of k w p = viz_text_of k w' (f :: p).
Proof. exact text_noise_file. Qed.
(* ... and plain types.ts is its import line followed by one block of tokens per declaration; source
   transformations permute the blocks of types.ts and commands.ts and change no block. *)
Theorem C13_types_plain_blocks : forall k o,
  x_types_plain (render_out k false o) = chan_import (o_cmds k o) ++ concat (types_blocks k o).
Proof. exact types_plain_blocks. Qed.
Theorem C13_text_transformations : forall k p p', tsteps p p' -> kf_dupdef p = false -> kf_dupevent p = false ->
  forall zod w w', text_perm k (gen zod w p) (gen zod w' p').
Proof. exact text_transformations. Qed.

(* Round 7: the canonical printer of the oracle is injective (a prefix code; the round-6 printer was not), so
   the verdict same-items means that the two versions parse to item lists with equal s-expressions. *)
Theorem C13_oracle_printer_injective : forall s s', sx_show s = sx_show s' -> s = s'.
Proof. exact sx_show_inj. Qed.
Theorem C13_oracle_same_items : forall a b, rel a b = SameItems <->
  exists ma mb, parse_module a = Some ma /\ parse_module b = Some mb /\ map sx_item ma = map sx_item mb.
Proof. exact rel_same_items_sx. Qed.

(* The two classes are not vacuous: exchanging two same-named definitions between two files changes
   the emitted body (the last path in sorted order wins) ... *)
Theorem C13_move_dupdef_refuted :
  exists p p' w o o', Permutation (all_items p) (all_items p') /\ kf_dupdef p = true /\ kf_dupevent p = false /\
    gen false w p = Some o /\ gen false w p' = Some o' /\
    In (DType 1 0 [200; 300]) (o_types o') /\ ~ In (DType 1 0 [200; 300]) (o_types o).
Proof. exact move_dupdef_refuted. Qed.
(* ... and exchanging two functions that emit one event name with different payload types changes the
   listener (the first emit site wins). *)
Theorem C13_move_dupevent_refuted :
  exists p p' w o o', Permutation (all_items p) (all_items p') /\ kf_dupdef p = false /\ kf_dupevent p = true /\
    gen false w p = Some o /\ gen false w p' = Some o' /\
    o_events o = Some [DListener 1 0] /\ o_events o' = Some [DListener 1 1].
Proof. exact move_dupevent_refuted. Qed.

(* Round 7: the two class predicates of the run-time matcher decide exactly what they are named after. *)
Theorem C13_classes_exact : forall p,
  (kf_dupdef p = false <-> NoDup (map t_name (all_types p))) /\
  (kf_dupevent p = false <->
   forall a b, In a (all_events p) -> In b (all_events p) -> e_name a = e_name b -> e_pay a = e_pay b).
Proof. exact (fun p => conj (kf_dupdef_spec p) (kf_dupevent_spec p)). Qed.

(* stated, not asserted: the s-expression encoder of parsed items is injective, which would turn the
   right-hand side of C13_oracle_same_items into ma = mb (a nested induction over ty / ex / tk, not done) *)
Definition C13_sx_item_injective_full_statement : Prop := forall a b : item, sx_item a = sx_item b -> a = b.

(* ---- the former refutation witness of order independence now satisfies it ---- *)
Example C13_ex_two_cmds : gen false (w_of [2; 1]) p_two_cmds = gen false (w_of [1; 2]) p_two_cmds
  /\ option_map o_commands (gen false (w_of [2; 1]) p_two_cmds) = Some [DWrapper 1; DWrapper 2].
Proof. vm_compute. auto. Qed.
(* the former content witness: identical sources now give one content for every order *)
Example C13_ex_dupdef_deterministic : gen false (w_of [1; 2]) p_dupdef = gen false (w_of [2; 1]) p_dupdef
  /\ option_map o_types (gen false (w_of [1; 2]) p_dupdef) = Some [DType 1 1 [201; 300]; DParams 1 [101] []].
Proof. vm_compute. auto. Qed.

(* ---- non-vacuity: a three-file project with commands, events, types, noise ---- *)
Definition ex_p : project :=
  [(1, [mk_cmd 1 [1]; INoise; mk_type 2 [3] 0]);
   (2, [mk_type 1 [2; 3] 1; IFn [mk_ev 1 [4] 7]; mk_cmd 2 []; IFn [mk_ev 1 [4] 7]]);
   (3, [mk_type 3 [] 2; IFn []; mk_type 4 [5] 3; mk_type 5 [] 4])].
Definition ex_w : omega := {| w_files := [3; 1; 2]; w_used := [2; 3; 1]; w_req := [3; 1; 2]; w_deps := [(1, [3; 2])];
                              w_res := []; w_dmap := [] |}.
Example C13_ex_premises : kf_dupdef ex_p = false /\ kf_dupevent ex_p = false.
Proof. vm_compute. auto. Qed.
Example C13_ex_gen_plain : option_map o_types (gen false ex_w ex_p) = Some [DType 1 1 [201; 300]; DType 2 0 [200; 300]; DType 3 2 [202; 300]; DType 4 3 [203; 300]; DType 5 4 [204; 300]; DParams 1 [101] []]
  /\ option_map o_commands (gen false ex_w ex_p) = Some [DWrapper 1; DWrapper 2]
  /\ option_map o_events (gen false ex_w ex_p) = Some (Some [DListener 1 7]).
Proof. vm_compute. auto. Qed.
Example C13_ex_gen_zod : option_map o_types (gen true ex_w ex_p)
  = Some [DSchema 3 2 [202; 300]; DInfer 3; DSchema 2 0 [200; 300]; DInfer 2; DSchema 1 1 [201; 300]; DInfer 1;
          DSchema 5 4 [204; 300]; DInfer 5; DSchema 4 3 [203; 300]; DInfer 4; DPSchema 1 [101]; DParams 1 [101] []].
Proof. vm_compute. reflexivity. Qed.
Example C13_ex_noise : denoise ex_p <> ex_p /\ noise_file (4, [INoise; IFn []]) = true.
Proof. split; [vm_compute; intros H; discriminate H|reflexivity]. Qed.
Example C13_ex_tsteps : tsteps [(1, [mk_cmd 1 [1]; mk_type 1 [] 0; mk_cmd 2 []])]
                              [(3, [mk_cmd 2 []]); (1, [mk_type 1 [] 0; mk_cmd 1 [1]])].
Proof.
  eapply ts_step. { apply (t_reorder [] 1 _ [mk_type 1 [] 0; mk_cmd 1 [1]; mk_cmd 2 []] []). apply perm_swap. }
  eapply ts_step. { apply (t_split [] 1 3 [mk_type 1 [] 0; mk_cmd 1 [1]] [mk_cmd 2 []] []). }
  eapply ts_step. { apply t_files. apply perm_swap. }
  apply ts_refl. Qed.
Example C13_ex_move : Permutation (all_items p_dupevent) (all_items p_dupevent_swapped)
  /\ Permutation (all_items [(1, [mk_cmd 1 [1]; mk_type 1 [] 0]); (2, [mk_cmd 2 []])])
                 (all_items [(1, [mk_cmd 2 []]); (2, [mk_type 1 [] 0]); (3, [mk_cmd 1 [1]])]).
Proof. split; cbn.
  - apply perm_skip. apply perm_swap.
  - apply perm_trans with (l' := [mk_cmd 1 [1]; mk_cmd 2 []; mk_type 1 [] 0]); [apply perm_skip, perm_swap|].
    apply perm_trans with (l' := [mk_cmd 2 []; mk_cmd 1 [1]; mk_type 1 [] 0]); [apply perm_swap|].
    apply perm_skip. apply perm_swap. Qed.

(* ---- round 7 examples ---- *)
Example C13_ex_classes : NoDup (map t_name (all_types ex_p)) /\ kf_dupdef p_dupdef = true /\ kf_dupevent p_dupevent = true.
Proof. split; [apply (proj1 (C13_classes_exact ex_p)); reflexivity|split; reflexivity]. Qed.
From Coq Require Import String.
Local Open Scope string_scope.
Local Open Scope list_scope.
Example C13_ex_noise_files : strip_noise_files ((4, [INoise; IFn []]) :: ex_p) = strip_noise_files (ex_p ++ [(0, [INoise])])
  /\ strip_noise_files ex_p = ex_p.
Proof. vm_compute. auto. Qed.
Example C13_ex_canonical : files_sorted [(3, [INoise]); (1, [mk_cmd 1 []]); (2, [IFn []]); (1, [mk_cmd 2 []])]
  = [(1, [mk_cmd 1 []]); (1, [mk_cmd 2 []]); (2, [IFn []]); (3, [INoise])] /\ map c_name (commands_sorted ex_p) = [1; 2].
Proof. vm_compute. auto. Qed.
Definition ex_struct (b : nat) : Pipeline.struct_def :=
  if Nat.eqb b 1 then Pipeline.user
  else {| Pipeline.s_name := L "T" ++ [Ascii.ascii_of_nat (48 + b)]; Pipeline.s_serde := [];
          Pipeline.s_fields := [ {| Pipeline.f_name := L "inner"; Pipeline.f_ty := Pipeline.T1 "Vec" (Pipeline.T0 "User"); Pipeline.f_serde := [] |} ] |}.
Definition ex_fn : Pipeline.fn_def := {| Pipeline.fn_name := L "nothing"; Pipeline.fn_attrs := Pipeline.tc; Pipeline.fn_async := false; Pipeline.fn_params := []; Pipeline.fn_ret := None |}.
Definition ex_k : content :=
  {| k_struct := ex_struct; k_cmd := fun c => nth (c - 1) Pipeline.fns ex_fn; k_event := fun _ => L "tick";
     k_pay := fun _ => L "User"; k_type := fun n => L "T" ++ [Ascii.ascii_of_nat (48 + n)] |}.
Example C13_ex_text :
  match text_files ex_k false ex_w ex_p with
  | Some t => Nat.ltb 100 (List.length (x_types_plain t)) && Nat.ltb 40 (List.length (x_commands_plain t)) &&
              match x_events t with Some e => Nat.ltb 100 (List.length e) | None => false end
  | None => false end = true
  /\ match text_files ex_k true ex_w ex_p with
     | Some t => Nat.ltb 200 (List.length (x_types_zod t)) && Nat.ltb 200 (List.length (x_commands_zod t))
     | None => false end = true
  /\ match gen false ex_w ex_p with Some o => List.length (types_blocks ex_k o) | None => 0 end = 7.
Proof. vm_compute. auto. Qed.
Example C13_ex_viz_text : vt_edges (viz_text_of ex_k ex_w ex_p) <> [] /\ vt_chains (viz_text_of ex_k ex_w ex_p) <> [].
Proof. vm_compute. split; intros H; discriminate H. Qed.
Example C13_ex_printer : sx_show (SL [SA (L "a"); SA (L "b")]) <> sx_show (SL [SA (L "a> <b")]).
Proof. vm_compute. intros H; discriminate H. Qed.

Print Assumptions C13_order_independent.
Print Assumptions C13_viz_independent.
Print Assumptions C13_flags.
Print Assumptions C13_prior_state.
Print Assumptions C13_move.
Print Assumptions C13_transformations.
Print Assumptions C13_oracle_exact.
Print Assumptions C13_noise.
Print Assumptions C13_noise_file.
Print Assumptions C13_noise_files.
Print Assumptions C13_canonical_order.
Print Assumptions C13_text_order_independent.
Print Assumptions C13_viz_text_independent.
Print Assumptions C13_text_noise.
Print Assumptions C13_text_noise_file.
Print Assumptions C13_types_plain_blocks.
Print Assumptions C13_text_transformations.
Print Assumptions C13_oracle_printer_injective.
Print Assumptions C13_oracle_same_items.
Print Assumptions C13_move_dupdef_refuted.
Print Assumptions C13_move_dupevent_refuted.
Print Assumptions C13_classes_exact.
