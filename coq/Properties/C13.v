(* C13 - output is a deterministic function of sources and configuration.
   Statements about the order skeleton Model/C13Order.v: gen zod w p is the list of declarations of
   every generated file, w the iteration orders of all hash-based collections.
   Only statements, [exact], Examples and [Print Assumptions] live here. *)
From Coq Require Import List Arith Bool Permutation.
Require Import TT.Model.Base TT.Model.Topo TT.Model.C13Order TT.Spec.C13Rel.
Require Import TT.Proofs.C13SortInv TT.Proofs.C13Proofs TT.Proofs.C13Extra.
Import ListNotations.

(* The part of the property that holds: whatever the hash orders, the same files are written and
   every file holds the same multiset of declarations - unless one type name is defined twice. *)
Theorem C13_set_independent : forall p, kf_dupdef p = false ->
  forall zod w w', out_perm (gen zod w p) (gen zod w' p).
Proof. exact set_independent. Qed.

(* Moving items between files, reordering them, splitting and merging files (any project with the
   same items) changes at most the order of declarations - also across different hash orders. *)
Theorem C13_move : forall p p', Permutation (all_items p) (all_items p') -> kf_dupdef p = false ->
  forall zod w w', out_perm (gen zod w p) (gen zod w' p').
Proof. exact move_perm. Qed.

(* Added non-command functions without emit calls and non-serde items change nothing. *)
Theorem C13_noise : forall p p' zod w, denoise p = denoise p' -> gen zod w p = gen zod w p'.
Proof. exact noise_equiv. Qed.
Theorem C13_noise_file : forall f p zod w, noise_file f = true -> gen zod w (f :: p) = gen zod w p.
Proof. exact noise_file_thm. Qed.

(* Full order independence is false of the code today: two files with one command each. *)
Theorem C13_order_independent_refuted :
  exists p w w', kf_dupdef p = false /\ kf_order false p = true /\ gen false w p <> gen false w' p.
Proof. exact order_independent_refuted. Qed.
(* With one type name defined in two files even the content depends on the order. *)
Theorem C13_content_refuted :
  exists p w w' o o', kf_dupdef p = true /\ gen false w p = Some o /\ gen false w' p = Some o' /\
    In (DType 1 0) (o_types o') /\ ~ In (DType 1 0) (o_types o).
Proof. exact content_refuted. Qed.

(* Outside the classes each file is the same list for every hash order. *)
Theorem C13_deterministic_commands : forall p zod w w', kf_cmd_files p = false ->
  commands_file zod w p = commands_file zod w' p.
Proof. exact deterministic_commands. Qed.
Theorem C13_deterministic_events : forall p w w', kf_ev_files p = false ->
  events_file w p = events_file w' p /\ index_file w p = index_file w' p.
Proof. exact deterministic_events. Qed.
Theorem C13_deterministic_types_partial : forall p zod w w', kf_dupdef p = false -> kf_types_thm zod p = false ->
  types_file zod w p = types_file zod w' p.
Proof. exact deterministic_types. Qed.
Theorem C13_deterministic_partial : forall p zod w w', kf_dupdef p = false ->
  kf_cmd_files p = false -> kf_ev_files p = false -> kf_types_thm zod p = false ->
  gen zod w p = gen zod w' p.
Proof. exact deterministic. Qed.
(* For plain mode kf_types_thm is the run-time class kf_types; for Zod mode the run-time class is
   narrower (two used types not strictly ordered by reachability). The statement under that class is
   not proved (it needs uniqueness of the DFS order on totally ordered acyclic graphs): *)
Definition C13_zod_types_full_statement : Prop :=
  forall p w w', kf_dupdef p = false -> kf_types true p = false -> types_file true w p = types_file true w' p.
Example C13_ex_classes_agree_plain : forall p, kf_types false p = kf_types_thm false p.
Proof. intros p. reflexivity. Qed.

(* The repair: sorting the discovered files / type names before use makes generation a function of
   the project alone (uses isort_perm_invariant). *)
Theorem C13_sorted_fix : forall p zod w w', gen_fixed zod w p = gen_fixed zod w' p.
Proof. exact sorted_fix. Qed.

(* ---- non-vacuity: a three-file project with commands, an event, types, noise ---- *)
Definition ex_p : project :=
  [(1, [mk_cmd 1 [1]; INoise; mk_type 2 [3] 0]);
   (2, [mk_type 1 [2; 3] 1; IFn [{| e_name := 1; e_roots := [3] |}]; mk_cmd 2 []]);
   (3, [mk_type 3 [] 2; IFn []])].
Definition ex_w : omega := {| w_files := [3; 1; 2]; w_used := [2; 3; 1]; w_req := [3; 1; 2]; w_deps := [(1, [3; 2])];
                              w_res := []; w_dmap := [] |}.
Example C13_ex_premises : kf_dupdef ex_p = false /\ kf_order false ex_p = true /\ kf_order true ex_p = true.
Proof. vm_compute. auto. Qed.
Example C13_ex_gen_plain : option_map o_types (gen false ex_w ex_p) = Some [DType 2 0; DType 3 2; DType 1 1; DParams 1]
  /\ option_map o_commands (gen false ex_w ex_p) = Some [DWrapper 1; DWrapper 2]
  /\ option_map o_commands (gen false (w_of [2; 1]) ex_p) = Some [DWrapper 2; DWrapper 1].
Proof. vm_compute. auto. Qed.
Example C13_ex_gen_zod : option_map o_types (gen true ex_w ex_p)
  = Some [DSchema 3 2; DInfer 3; DSchema 2 0; DInfer 2; DSchema 1 1; DInfer 1; DPSchema 1; DParams 1].
Proof. vm_compute. reflexivity. Qed.
Example C13_ex_noise : denoise ex_p <> ex_p /\ noise_file (4, [INoise; IFn []]) = true.
Proof. split; [vm_compute; intros H; discriminate H|reflexivity]. Qed.
Example C13_ex_move : Permutation (all_items ex_p)
    (all_items [(1, [mk_type 3 [] 2; mk_cmd 2 []; mk_cmd 1 [1]; INoise; mk_type 2 [3] 0; mk_type 1 [2; 3] 1;
                     IFn [{| e_name := 1; e_roots := [3] |}]; IFn []])]).
Proof. vm_compute. apply Permutation_cons_app with (l1 := [mk_type 3 [] 2; mk_cmd 2 []]) (l2 := [INoise; mk_type 2 [3] 0; mk_type 1 [2; 3] 1;
                     IFn [{| e_name := 1; e_roots := [3] |}]; IFn []]).
  cbn [app]. apply Permutation_cons_app with (l1 := [mk_type 3 [] 2; mk_cmd 2 []]) (l2 := [mk_type 2 [3] 0; mk_type 1 [2; 3] 1;
                     IFn [{| e_name := 1; e_roots := [3] |}]; IFn []]).
  cbn [app]. apply Permutation_cons_app with (l1 := [mk_type 3 [] 2; mk_cmd 2 []]) (l2 := [mk_type 1 [2; 3] 1;
                     IFn [{| e_name := 1; e_roots := [3] |}]; IFn []]).
  cbn [app]. apply Permutation_cons_app with (l1 := [mk_type 3 [] 2; mk_cmd 2 []]) (l2 := [IFn [{| e_name := 1; e_roots := [3] |}]; IFn []]).
  cbn [app]. apply Permutation_cons_app with (l1 := [mk_type 3 [] 2; mk_cmd 2 []]) (l2 := [IFn []]).
  cbn [app]. apply Permutation_cons_app with (l1 := [mk_type 3 [] 2]) (l2 := [IFn []]).
  cbn [app]. apply Permutation_refl. Qed.
Example C13_ex_deterministic : kf_dupdef [(1, [mk_cmd 1 [1]; mk_cmd 2 []]); (2, [mk_type 1 [] 0])] = false
  /\ kf_order false [(1, [mk_cmd 1 [1]; mk_cmd 2 []]); (2, [mk_type 1 [] 0])] = false
  /\ kf_order true [(1, [mk_cmd 1 [1]; mk_cmd 2 []]); (2, [mk_type 1 [] 0])] = false.
Proof. vm_compute. auto. Qed.
Example C13_ex_fixed : gen_fixed false (w_of [2; 1]) p_two_cmds = gen_fixed false (w_of [1; 2]) p_two_cmds
  /\ option_map o_commands (gen_fixed false (w_of [2; 1]) p_two_cmds) = Some [DWrapper 1; DWrapper 2].
Proof. vm_compute. auto. Qed.

Print Assumptions C13_set_independent.
Print Assumptions C13_move.
Print Assumptions C13_noise.
Print Assumptions C13_noise_file.
Print Assumptions C13_order_independent_refuted.
Print Assumptions C13_content_refuted.
Print Assumptions C13_deterministic_commands.
Print Assumptions C13_deterministic_events.
Print Assumptions C13_deterministic_types_partial.
Print Assumptions C13_deterministic_partial.
Print Assumptions C13_sorted_fix.
