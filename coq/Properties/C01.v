(* C01 - every generated file is syntactically valid TypeScript.
   Only statements, [exact], examples and [Print Assumptions] live here.
   Model: Model/C01Emit.v (template text with typed holes); spec: Spec/TsLex.v, Spec/TsModule.v,
   Spec/C01Wf.v; proofs: Proofs/C01Holes.v, Proofs/C01Skeleton.v. *)
From Coq Require Import String Ascii List Bool.
Require Import TT.Model.Str TT.Model.Pipeline TT.Spec.TsLex TT.Spec.TsModule TT.Spec.TsObs TT.Spec.C01Wf TT.Model.C01Emit.
Require Import TT.Proofs.C01Holes TT.Proofs.C01Skeleton.
Import ListNotations.

(* ---- hole lemmas (C01_holes, per class, on the complement of the recorded classes) ---- *)

(* property keys: the templates never quote, so a key hole is good exactly when the serialized name is
   an identifier name (or a number): the class kf_bare_key is precisely the complement *)
Theorem C01_key_hole_iff : forall name rename rename_all dflt,
  hole_ok HKey (serialized name rename rename_all dflt) = negb (kf_bare_key name rename rename_all dflt).
Proof. exact key_hole_iff. Qed.

(* no explicit rename, effective convention not kebab: identifiers stay identifiers *)
Theorem C01_key_hole_no_rename : forall name rename_all dflt,
  plain_ident name = true -> kebab_rule (eff_rule rename_all dflt) = false ->
  hole_ok HKey (serialized name None rename_all dflt) = true.
Proof. exact key_hole_no_rename. Qed.

Theorem C01_key_hole_refuted :
  hole_ok HKey (serialized (L "full_name") (Some (scanned (L "full-name"))) None (L "snake_case")) = false /\
  hole_ok HKey (serialized (L "first_name") None (Some RKebab) (L "snake_case")) = false /\
  hole_ok HKey (serialized (L "r#type") None None (L "camelCase")) = false.
Proof. exact key_hole_refuted. Qed.

(* declared function names of command wrappers *)
Theorem C01_fn_hole : forall name,
  plain_ident name = true -> kf_reserved_fn name = false -> hole_ok HFn (camel2 name) = true.
Proof. exact fn_hole. Qed.

Theorem C01_fn_hole_refuted :
  hole_ok HFn (camel2 (L "delete")) = false /\ hole_ok HFn (camel2 (L "r#match")) = false /\
  hole_ok HFn (camel2 (L "_2fa")) = false.
Proof. exact fn_hole_refuted. Qed.

(* listener names: since the repair of C01-event-fn (every non-alphanumeric character of the event name
   becomes an underscore before PascalCase) the declared name is a legal identifier for EVERY event name *)
Theorem C01_event_fn_hole : forall name, hole_ok HFn (event_fn name) = true.
Proof. exact event_fn_hole. Qed.

(* declared type / constant names: PascalCase of the command name plus a fixed suffix *)
Theorem C01_tyname_hole : forall name suffix,
  plain_ident name = true -> forallb ascii_idc suffix = true -> is_reserved (pascal true name ++ suffix) = false ->
  str_eqb (pascal true name ++ suffix) (L "eval") = false -> str_eqb (pascal true name ++ suffix) (L "arguments") = false ->
  hole_ok HTyName (pascal true name ++ suffix) = true.
Proof. exact tyname_hole. Qed.

(* string literals: command names, event names over Tauri's alphabet, validator messages (any bytes) *)
Theorem C01_str_hole_command : forall name, plain_ident name = true -> hole_ok (HStr SQ) name = true.
Proof. exact str_hole_ident. Qed.
Theorem C01_str_hole_event : forall name, forallb event_char name = true -> hole_ok (HStr SQ) name = true.
Proof. exact str_hole_event. Qed.
Theorem C01_str_hole_message : forall m, hole_ok (HStr DQ) (escape_js m) = true.
Proof. exact str_hole_message. Qed.
Theorem C01_str_hole_refuted :
  hole_ok (HStr DQ) (scanned (L "a""b")) = false /\ bad_class (HStr DQ) (scanned (L "a""b")) = Some "C01-literal-backslash"%string.
Proof. exact str_hole_refuted. Qed.

(* type holes: the two recorded leaks, computed by the faithful model *)
Theorem C01_type_hole_refuted :
  let r1 := QPath [] (L "Result") true [QPath [] (L "HashMap") true [T0 "String"; T0 "User"]; T0 "String"] in
  let r2 := QPath [] (L "Result") true [QPath [L "crate"; L "models"] (L "User") false []; T0 "String"] in
  let c1 := {| cc_name := L "f"; cc_serde := []; cc_params := []; cc_ret := Some r1 |} in
  let c2 := {| cc_name := L "f"; cc_serde := []; cc_params := []; cc_ret := Some r2 |} in
  ret_text g0 c1 = L "types.HashMap<String" /\ hole_ok HType (ret_text g0 c1) = false /\
  ret_text g0 c2 = L "types.crate::models::User" /\ hole_ok HType (ret_text g0 c2) = false.
Proof. exact type_hole_refuted. Qed.

(* ---- skeleton (token level, plain-mode types.ts interface template) ---- *)
Theorem C01_skeleton_interface_partial : forall name ms rest,
  is_binding_name name = true -> Forall good_member ms ->
  p_item (interface_toks name ms ++ rest) = Some (IInterface name [] None (map member_ast ms) [], rest) /\
  item_ok (IInterface name [] None (map member_ast ms) []) = true.
Proof. exact skeleton_interface. Qed.

(* what remains: every item template of every file, at text level, from boolean hole_ok alone *)
Definition C01_skeleton_full_statement : Prop :=
  forall g ss cmds evs f items,
    (forall cs, In cs items -> In cs (fl_required (gen_file g ss cmds evs f)) \/ In cs (fl_optional (gen_file g ss cmds evs f))) ->
    (forall h, In h (holes (fl_prefix (gen_file g ss cmds evs f) ++ List.concat items)) -> hole_ok (fst h) (snd h) = true) ->
    c01_ok (text (fl_prefix (gen_file g ss cmds evs f) ++ List.concat items)) = true.
Definition C01_lex_compositional_full_statement : Prop :=
  forall cs, (forall h, In h (holes cs) -> hole_ok (fst h) (snd h) = true) -> lexed cs = toks_of cs.

(* ---- non-vacuity ---- *)
Example C01_ex_key : plain_ident (L "user_id") = true /\ kebab_rule (eff_rule (Some RCamel) (L "snake_case")) = false /\
  serialized (L "user_id") None (Some RCamel) (L "snake_case") = L "userId".
Proof. vm_compute. repeat split. Qed.
Example C01_ex_event_fn : event_fn (L "user:created/now") = L "onUserCreatedNow" /\ event_fn (L "app://ready") = L "onAppReady".
Proof. exact event_fn_example. Qed.
Example C01_ex_fn : plain_ident (L "get_user") = true /\ kf_reserved_fn (L "get_user") = false /\ camel2 (L "get_user") = L "getUser".
Proof. vm_compute. repeat split. Qed.
Example C01_ex_message : escape_js (L "say ""hi"" \ ok") = L "say \""hi\"" \\ ok".
Proof. vm_compute. reflexivity. Qed.
Example C01_ex_good_member :
  good_member {| gm_key := L "userId"; gm_opt := true; gm_toks := [KId (L "number")]; gm_ty := TyRef [L "number"] [] |}.
Proof. apply good_leaf; reflexivity. Qed.
Example C01_ex_skeleton : c01_ok (text (interface_chunks g0 ex_struct)) = true /\ bad_holes (interface_chunks g0 ex_struct) = [] /\
  lexed (interface_chunks g0 ex_struct) = toks_of (interface_chunks g0 ex_struct).
Proof. vm_compute. repeat split. Qed.

Print Assumptions C01_key_hole_iff.
Print Assumptions C01_key_hole_no_rename.
Print Assumptions C01_key_hole_refuted.
Print Assumptions C01_fn_hole.
Print Assumptions C01_fn_hole_refuted.
Print Assumptions C01_event_fn_hole.
Print Assumptions C01_tyname_hole.
Print Assumptions C01_str_hole_command.
Print Assumptions C01_str_hole_event.
Print Assumptions C01_str_hole_message.
Print Assumptions C01_str_hole_refuted.
Print Assumptions C01_type_hole_refuted.
Print Assumptions C01_skeleton_interface_partial.
