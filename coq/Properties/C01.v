(* C01 - every generated file is syntactically valid TypeScript.
   Only statements, [exact], examples and [Print Assumptions] live here.
   Model: Model/C01Emit.v (template text with typed holes); spec: Spec/TsLex.v, Spec/TsModule.v,
   Spec/C01Wf.v; proofs: Proofs/C01Holes.v, Proofs/C01Skeleton.v. *)
From Coq Require Import String Ascii List Bool NArith.
Require Import TT.Model.Str TT.Model.Pipeline TT.Spec.TsLex TT.Spec.TsModule TT.Spec.TsObs TT.Spec.C01Wf TT.Model.C01Emit.
Require Import TT.Model.TypeParse TT.Proofs.LexFacts TT.Proofs.C01Holes TT.Proofs.C01Skeleton TT.Proofs.C01TypeHole TT.Proofs.C01Lex.
Require Import TT.Spec.C01WfProp TT.Proofs.C01Wrapper TT.Proofs.C01HoleLex TT.Proofs.C01Text TT.Proofs.C01Reflect TT.Proofs.C01Prefix TT.Proofs.C01TextCmd.
Import ListNotations.

(* ---- hole lemmas (C01_holes, per class, on the complement of the recorded classes) ---- *)

(* property keys: since the repair of C01-bare-key every serde / parameter name printed in a key position goes
   through the ts_key filter. For EVERY byte string the printed key is an identifier name or a well-formed
   double-quoted literal, and the member access is .name or a bracket access with a well-formed literal *)
Theorem C01_key_chunk_ok : forall k, holes_ok [key_chunk k] = true.
Proof. exact key_chunk_ok. Qed.
Theorem C01_member_access_ok : forall k, holes_ok (member_access k) = true.
Proof. exact member_access_ok. Qed.
(* the reason: whatever the repaired filter prints bare is an ECMAScript identifier name (first character alphabetic,
   underscore or dollar; later ones alphabetic, ASCII digit, underscore or dollar) *)
Theorem C01_rust_ident_is_ident : forall k, rust_ident_name k = true -> is_ident_name k = true.
Proof. exact rust_ident_is_ident. Qed.
(* old witness of C01-key-other-number (m followed by SUPERSCRIPT TWO): quoted now *)
Theorem C01_key_chunk_number_witness :
  key_chunk m_squared = Hole (HStr DQ) m_squared /\ holes_ok [key_chunk m_squared] = true /\ hole_ok HKey m_squared = false.
Proof. exact key_chunk_number_witness. Qed.

(* no explicit rename, effective convention not kebab: the key stays bare (output unchanged by the repair) *)
Theorem C01_key_bare_no_rename : forall name rename_all dflt,
  plain_ident name = true -> kebab_rule (eff_rule rename_all dflt) = false ->
  key_chunk (serialized name None rename_all dflt) = Hole HKey (serialized name None rename_all dflt).
Proof. exact key_bare_no_rename. Qed.

(* the old witnesses of C01-bare-key and C01-raw-ident, now positive *)
Theorem C01_key_chunk_witnesses :
  key_chunk (serialized (L "full_name") (Some (scanned (L "full-name"))) None (L "snake_case")) = Hole (HStr DQ) (L "full-name") /\
  key_chunk (serialized (L "first_name") None (Some RKebab) (L "snake_case")) = Hole (HStr DQ) (L "first-name") /\
  key_chunk (serialized (unraw (L "r#type")) None None (L "camelCase")) = Hole HKey (L "type") /\
  member_access (L "on-event") = [F "["; Hole (HStr DQ) (L "on-event"); F "]"].
Proof. exact key_chunk_witnesses. Qed.

(* declared function names of command wrappers *)
Theorem C01_fn_hole : forall name,
  plain_ident name = true -> kf_reserved_fn name = false -> hole_ok HFn (camel2 name) = true.
Proof. exact fn_hole. Qed.

Theorem C01_fn_hole_refuted :
  hole_ok HFn (camel2 (L "delete")) = false /\ hole_ok HFn (camel2 (unraw (L "r#in"))) = false /\
  hole_ok HFn (camel2 (L "_2fa")) = false.
Proof. exact fn_hole_refuted. Qed.
Theorem C01_fn_hole_raw_witness : camel2 (unraw (L "r#match")) = L "match" /\ hole_ok HFn (camel2 (unraw (L "r#match"))) = true.
Proof. exact fn_hole_raw_witness. Qed.

(* listener names: since the repair of C01-event-fn (every non-alphanumeric character of the event name
   becomes an underscore before PascalCase) the declared name is a legal identifier for EVERY event name *)
Theorem C01_event_fn_hole : forall name, hole_ok HFn (event_fn name) = true.
Proof. exact event_fn_hole. Qed.

(* declared type / constant names: PascalCase of the command name plus a fixed suffix *)
Theorem C01_tyname_hole : forall name suffix,
  plain_ident name = true -> forallb ascii_idc suffix = true -> is_reserved (pascal true name ++ suffix) = false ->
  str_eqb (pascal true name ++ suffix) (L "eval") = false -> str_eqb (pascal true name ++ suffix) (L "arguments") = false ->
  hole_ok HTyName (pascal true name ++ suffix) = true.
Proof. exact tyname_hole. Qed.

(* string literals: command names, event names over Tauri's alphabet, validator messages (any bytes) *)
Theorem C01_str_hole_command : forall name, plain_ident name = true -> hole_ok (HStr SQ) name = true.
Proof. exact str_hole_ident. Qed.
Theorem C01_str_hole_event : forall name, forallb event_char name = true -> hole_ok (HStr SQ) name = true.
Proof. exact str_hole_event. Qed.
Theorem C01_str_hole_message : forall m, hole_ok (HStr DQ) (escape_js m) = true.
Proof. exact str_hole_message. Qed.
(* enum literals are escaped since the repair of C01-literal-backslash: old witness, now well formed *)
Theorem C01_str_hole_enum_witness :
  escape_js (scanned (L "a""b")) = L "a\\" /\ hole_ok (HStr DQ) (escape_js (scanned (L "a""b"))) = true.
Proof. exact str_hole_enum_witness. Qed.

(* type holes: the remaining leak (path-qualified types), computed by the faithful model *)
Theorem C01_type_hole_refuted :
  let r2 := QPath [] (L "Result") true [QPath [L "crate"; L "models"] (L "User") false []; T0 "String"] in
  let c2 := {| cc_name := L "f"; cc_serde := []; cc_params := []; cc_ret := Some r2 |} in
  ret_text g0 c2 = L "types.crate::models::User" /\ hole_ok HType (ret_text g0 c2) = false.
Proof. exact type_hole_refuted. Qed.
(* old witnesses of C01-half-generic and C01-prefix-tuple under the repaired splitting / prefixing *)
Theorem C01_type_hole_witnesses :
  let r1 := QPath [] (L "Result") true [QPath [] (L "HashMap") true [T0 "String"; T0 "User"]; T0 "String"] in
  let r3 := QPath [] (L "Vec") true [QTuple [T0 "String"; T0 "i32"]] in
  let c1 := {| cc_name := L "f"; cc_serde := []; cc_params := []; cc_ret := Some r1 |} in
  let c3 := {| cc_name := L "f"; cc_serde := []; cc_params := []; cc_ret := Some r3 |} in
  ret_text g0 c1 = L "Record<string, User>" /\ hole_ok HType (ret_text g0 c1) = true /\
  ret_text g0 c3 = L "[string, number][]" /\ hole_ok HType (ret_text g0 c3) = true /\
  hole_ok HZ (field_schema g0 {| cf_name := L "pair"; cf_ty := QTuple [T2 "HashMap" (T0 "String") (T0 "i32"); T0 "bool"]; cf_serde := []; cf_val := None |}) = true.
Proof. exact type_hole_witnesses. Qed.

(* ---- type holes, for all types: every TypeStructure whose leaf names are legal type names and whose nesting
   stays below the parser budget renders to tokens that ptype consumes up to any stop token (no dot, angle
   bracket, bar or bracket pair next), and the parsed type is well formed. By induction on the TypeStructure
   (arrays, sets, maps, tuples, options, results), through the invariant that a rendered type is a bar-separated
   sequence of primaries each followed by bracket pairs. ---- *)
Theorem C01_type_hole_render : forall g t rest,
  leaves_ok g t = true -> tdepth t < TYF -> stop rest ->
  exists ty, ptype (rtoks g t ++ rest) = Some (ty, rest) /\ ty_ok ty = true.
Proof. exact render_ptype. Qed.

(* ---- type holes at TEXT level: the lexer (Spec/TsLex.v) turns the text the renderer prints into exactly those
   tokens, in front of every admissible continuation (space, semicolon, comma, closing bracket, angle bracket not
   followed by an equals sign, newline); so the boolean hole predicate of the chunk model holds for every type with
   identifier leaves and nesting below the parser budget. Built on Proofs/LexFacts.v (token-boundary composition). ---- *)
Theorem C01_type_hole_lex : forall g t, leaves_ok g t = true -> lexes Pc (render_m g t) (rtoks g t).
Proof. exact lexes_render. Qed.
Theorem C01_type_hole_text : forall g t, leaves_ok g t = true -> tdepth t < TYF -> hole_ok HType (render_m g t) = true.
Proof. exact type_hole_text. Qed.

(* ---- skeleton, token level ---- *)
(* interface template: any name, any members with good keys (bare or quoted) and type tokens consumed by ptype *)
Theorem C01_skeleton_interface : forall name ms rest,
  is_binding_name name = true -> Forall good_member ms ->
  exists asts, p_item (interface_toks name ms ++ rest) = Some (IInterface name [] None asts [], rest) /\
               Forall2 member_matches ms asts /\ item_ok (IInterface name [] None asts []) = true.
Proof. exact skeleton_interface. Qed.

(* the same on the model's structs, with every premise about holes discharged: keys need none (ts_key), types
   need identifier leaves and nesting below 64 *)
Theorem C01_interface_tokens_ok : forall g s rest,
  is_binding_name (cs_name s) = true ->
  forallb (fun f => type_in_budget g (cf_ty f)) (listed_fields s) = true ->
  exists asts, p_item (struct_toks g s ++ rest) = Some (IInterface (cs_name s) [] None asts [], rest) /\
               item_ok (IInterface (cs_name s) [] None asts []) = true.
Proof. exact interface_tokens_ok. Qed.

(* enum alias template: any non-empty list of literals (their bodies are well formed by C01_str_hole_message) *)
Theorem C01_enum_alias_ok : forall name lits rest,
  is_binding_name name = true -> lits <> [] ->
  exists t, p_item (enum_toks name lits ++ rest) = Some (ITypeAlias name [] t, rest) /\ item_ok (ITypeAlias name [] t) = true.
Proof. exact enum_alias_ok. Qed.

(* an enum without listed variants (none declared, or all skipped) is printed as the uninhabited type *)
Theorem C01_enum_alias_never_ok : forall name rest, is_binding_name name = true ->
  p_item (never_toks name ++ rest) = Some (ITypeAlias name [] (TyRef [L "never"] []), rest) /\
  item_ok (ITypeAlias name [] (TyRef [L "never"] [])) = true.
Proof. exact enum_alias_never_ok. Qed.

(* params interface template: members as above, channel members key: Channel<T>; and the fixed index signature;
   on the model's commands every hole premise is discharged *)
Theorem C01_skeleton_params_interface : forall name ms rest,
  is_binding_name name = true -> Forall good_member ms ->
  exists asts, p_item (params_iface_toks name ms ++ rest) = Some (IInterface name [] None asts [index_sig], rest) /\
               Forall2 member_matches ms asts /\ item_ok (IInterface name [] None asts [index_sig]) = true.
Proof. exact skeleton_params_interface. Qed.
Theorem C01_params_interface_tokens_ok : forall g c rest,
  is_binding_name (ty_ts c ++ L "Params") = true ->
  forallb (fun p => type_in_budget g (snd p)) (c_values c) = true ->
  forallb (fun ch => chan_in_budget g (snd ch)) (c_channels c) = true ->
  exists asts, p_item (cmd_params_toks g c ++ rest) = Some (IInterface (ty_ts c ++ L "Params") [] None asts [index_sig], rest) /\
               item_ok (IInterface (ty_ts c ++ L "Params") [] None asts [index_sig]) = true.
Proof. exact params_interface_tokens_ok. Qed.

(* index.ts, the whole file *)
Theorem C01_index_tokens_ok : forall ms,
  p_items (S (List.length (flat_map star_toks ms))) (flat_map star_toks ms) [] = Some (map IExportStar ms) /\
  forallb item_ok (map IExportStar ms) = true.
Proof. exact index_tokens_ok. Qed.

(* ---- deepening round 7 ---- *)
(* the return / payload type hole: add_types_prefix of the rendered type. Its token rendering ptoks puts  types .  in
   front of the leaves the prefixing reaches; consumed by ptype like the unprefixed rendering *)
Theorem C01_type_hole_prefixed_render : forall g t rest,
  leaves_ok g t = true -> tdepth t < TYF -> stop rest ->
  exists ty, ptype (ptoks g t ++ rest) = Some (ty, rest) /\ ty_ok ty = true.
Proof. exact prefixed_ptype. Qed.

(* plain-mode command wrapper template (commands.ts), token level: signature AND body.
     export async function NAME ( [params : types . P] ) : Promise < RET > { return invoke ( 'cmd' [, params] ) ; }
   For any binding name, any identifier name P, any command-name literal and any return-type tokens that the type
   parser consumes one level below the top, p_item returns the function item with exactly this body and the rest
   untouched, and item_ok holds: the statement grammar pse accepts the body *)
Theorem C01_skeleton_wrapper : forall name pty ret cmd rest,
  is_binding_name name = true -> (forall n, pty = Some n -> is_ident_name n = true) -> good_ret ret ->
  exists ps t,
    p_item (wrapper_toks name pty ret cmd ++ rest) = Some (IFunction true name ps (Some t) (wrapper_body (has_params pty) cmd), rest) /\
    map (fun p => fst (fst p)) ps = (if has_params pty then [L "params"] else []) /\
    item_ok (IFunction true name ps (Some t) (wrapper_body (has_params pty) cmd)) = true.
Proof. exact skeleton_wrapper. Qed.
(* on the model's commands every hole premise is discharged: the command name is [A-Za-z][A-Za-z0-9_]* outside the
   reserved-word class, the return type has identifier leaves and nesting below 63; every token is well formed *)
Theorem C01_wrapper_tokens_ok : forall g c rest,
  plain_ident (cmd_name c) = true -> kf_reserved_fn (cmd_name c) = false -> ret_in_budget g c = true ->
  exists ps t,
    p_item (cmd_wrapper_toks g c ++ rest) = Some (IFunction true (fn_ts c) ps (Some t) (wrapper_body (cmd_has c) (cmd_name c)), rest) /\
    item_ok (IFunction true (fn_ts c) ps (Some t) (wrapper_body (cmd_has c) (cmd_name c))) = true /\
    forallb tok_ok (cmd_wrapper_toks g c) = true.
Proof. exact wrapper_tokens_ok. Qed.

(* ---- lexing of name / key / literal holes (C01_lex for these classes) ---- *)
(* a literal hole: EVERY well-formed body (escapes included), in front of EVERY continuation *)
Theorem C01_str_hole_lex : forall (Q : str -> Prop) q b,
  is_quote q -> hole_ok (HStr q) b = true -> lexes Q (chunk_text (Hole (HStr q) b)) [KStr q b].
Proof. exact str_hole_lexes. Qed.
(* function / type names, identifier keys, literals: one token, in front of every continuation that does not start
   with an identifier character; on its own the chunk lexes to that token *)
Theorem C01_name_key_hole_lex : forall h s, name_class h s -> hole_ok h s = true -> lexes bnd (chunk_text (Hole h s)) [hole_tok h s].
Proof. exact hole_lexes. Qed.
Theorem C01_hole_chunk_lex : forall h s, name_class h s -> hole_ok h s = true -> chunk_lex (Hole h s) = [hole_tok h s].
Proof. exact hole_chunk_lex. Qed.
(* the chain rule: C01_lex_compositional_full_statement reduced to one fact per chunk and one condition per boundary *)
Theorem C01_lex_compositional_chain : forall cs, chain cs -> lexed cs = toks_of cs.
Proof. exact lex_compositional_chain. Qed.
Theorem C01_member_line_compositional : forall g k t, leaves_ok g t = true ->
  let cs := [Hole (HStr DQ) (escape_js k); Fixed [":"%char]; Fixed [" "%char]; Hole HType (render_m g t); Fixed [";"%char]] in
  lexed cs = toks_of cs.
Proof. exact member_line_compositional. Qed.

(* ---- TEXT level: whole items and the whole plain-mode types.ts ---- *)
(* the interface item: lexing the text of the model's chunks = lexing chunk by chunk = the token rendering of
   C01_interface_tokens_ok; hence the item text is accepted and well formed *)
Theorem C01_interface_lexed : forall g s,
  is_binding_name (cs_name s) = true -> forallb (field_leaves_ok g) (listed_fields s) = true ->
  lexed (interface_chunks g s) = struct_toks g s /\ toks_of (interface_chunks g s) = struct_toks g s.
Proof. exact interface_lexed. Qed.
Theorem C01_interface_text_ok : forall g s,
  is_binding_name (cs_name s) = true -> forallb (fun f => type_in_budget g (cf_ty f)) (listed_fields s) = true ->
  c01_ok (text (interface_chunks g s)) = true.
Proof. exact interface_text_ok. Qed.
(* any sequence of items each of which is good at text level is an accepted, well-formed module *)
Theorem C01_items_text_ok : forall items, Forall item_text_ok items -> c01_ok (text (concat items)) = true.
Proof. exact items_c01_ok. Qed.
Theorem C01_enum_item_text_ok : forall g s, is_binding_name (cs_name s) = true -> item_text_ok (enum_chunks g s).
Proof. exact enum_item_text_ok. Qed.
Theorem C01_params_item_text_ok : forall g c, cmd_has c = true -> cmd_in_budget g c = true -> item_text_ok (params_iface_chunks g c).
Proof. exact params_item_text_ok. Qed.
(* C01_skeleton_full_statement for the plain-mode types.ts (f = FTypes, g_zod = false), with the hole premises
   discharged by the budget predicate: the prefix (channel import when a command has a channel) followed by ANY
   selection of the model's items in ANY order *)
Theorem C01_plain_types_text_ok : forall g ss cmds items,
  plain_types_in_budget g ss cmds = true ->
  (forall cs, In cs items -> In cs (fl_required (plain_types g ss cmds)) \/ In cs (fl_optional (plain_types g ss cmds))) ->
  c01_ok (text (fl_prefix (plain_types g ss cmds) ++ concat items)) = true.
Proof. exact plain_types_text_ok. Qed.

(* add_types_prefix (a function on text: suffix stripping, prefix tests) applied to the rendered text of ANY type with
   identifier leaves is the structural prefixing ptext, and that text lexes to ptoks in front of every admissible continuation *)
Theorem C01_prefix_text_structural : forall g t, leaves_ok g t = true -> add_types_prefix3 (render_m g t) = ptext g t.
Proof. exact add_types_prefix3_render. Qed.
Theorem C01_ret_text_lex : forall g c, leaves_ok g (ret_struct c) = true -> lexes Pc (ret_text g c) (ptoks g (ret_struct c)).
Proof. exact ret_text_lexes. Qed.
(* the wrapper item at text level, and C01_skeleton_full_statement for the plain-mode commands.ts (both imports, then ANY
   selection of the wrappers in ANY order) and for index.ts *)
Theorem C01_wrapper_item_text_ok : forall g c, wrapper_in_budget g c = true -> item_text_ok (wrapper_chunks g c).
Proof. exact wrapper_item_text_ok. Qed.
Theorem C01_plain_commands_text_ok : forall g cmds items,
  forallb (wrapper_in_budget g) cmds = true ->
  (forall cs, In cs items -> In cs (fl_required (plain_commands g cmds)) \/ In cs (fl_optional (plain_commands g cmds))) ->
  c01_ok (text (fl_prefix (plain_commands g cmds) ++ concat items)) = true.
Proof. exact plain_commands_text_ok. Qed.
Theorem C01_index_text_ok : forall b items,
  (forall cs, In cs items -> In cs (fl_required (index_file b))) -> c01_ok (text (fl_prefix (index_file b) ++ concat items)) = true.
Proof. exact index_text_ok. Qed.

(* ---- the run-time oracle against a Prop-level specification (Spec/C01WfProp.v) ---- *)
Theorem C01_str_body_reflect : forall q s, str_body_ok q s = true <-> StrBody q s.
Proof. exact str_body_reflect. Qed.
Theorem C01_tok_ok_reflect : forall t, tok_ok t = true <-> TokOk t.
Proof. exact tok_ok_reflect. Qed.
Theorem C01_item_ok_reflect : forall it, item_ok it = true <-> ItemOk it.
Proof. exact item_ok_reflect. Qed.
Theorem C01_ty_ok_reflect : forall t, ty_ok t = true <-> TyOk t.
Proof. exact ty_ok_reflect. Qed.
Theorem C01_wf_module_reflect : forall m toks, wf_module_b m toks = true <-> WfModule m toks.
Proof. exact wf_module_reflect. Qed.

(* what remains unproved (stated, not asserted):
   - C01_skeleton_full_statement outside plain mode (C01_skeleton_remaining_statement): the Zod item templates and the
     Zod wrappers (zod mode types.ts / commands.ts) and the listeners of events.ts (both modes) are decided at run time
     only (oracle on every generated case, token-for-token correspondence). Plain-mode types.ts, commands.ts and
     index.ts are proved above at text level, with the hole premises replaced by the budget predicates
     (binding names, identifier leaves, nesting within the parser budget);
   - C01_lex_compositional_full_statement in general: proved per hole class and as a chain rule, and for all chunks of
     the three plain-mode files (cslex); Zod expression holes have no lexing lemma; the statement itself is false
     without adjacency conditions (C01_lex_compositional_general_refuted below). *)
Definition C01_skeleton_full_statement : Prop :=
  forall g ss cmds evs f items,
    (forall cs, In cs items -> In cs (fl_required (gen_file g ss cmds evs f)) \/ In cs (fl_optional (gen_file g ss cmds evs f))) ->
    (forall h, In h (holes (fl_prefix (gen_file g ss cmds evs f) ++ List.concat items)) -> hole_ok (fst h) (snd h) = true) ->
    c01_ok (text (fl_prefix (gen_file g ss cmds evs f) ++ List.concat items)) = true.
(* the remainder, restated with the premise the refutation below shows to be necessary: no hole text opens a comment *)
Definition C01_skeleton_remaining_statement : Prop :=
  forall g ss cmds evs f items,
    (f = FEvents \/ (g_zod g = true /\ f <> FIndex)) ->
    (forall cs, In cs items -> In cs (fl_required (gen_file g ss cmds evs f)) \/ In cs (fl_optional (gen_file g ss cmds evs f))) ->
    (forall h, In h (holes (fl_prefix (gen_file g ss cmds evs f) ++ List.concat items)) ->
       hole_ok (fst h) (snd h) = true /\ has_sub "//" (snd h) = false /\ has_sub "/*" (snd h) = false) ->
    c01_ok (text (fl_prefix (gen_file g ss cmds evs f) ++ List.concat items)) = true.
Definition C01_lex_compositional_full_statement : Prop :=
  forall cs, (forall h, In h (holes cs) -> hole_ok (fst h) (snd h) = true) -> lexed cs = toks_of cs.

(* C01_skeleton_full_statement as stated (premise: hole_ok of every hole) is FALSE: a type_mappings target ending in a
   line comment is a good type hole on its own and swallows the rest of the wrapper line in place. The theorems above
   use the budget predicates (identifier leaves) instead; the remainder is restated with a no-comment premise. *)
Theorem C01_skeleton_hole_premise_refuted : ~ C01_skeleton_full_statement.
Proof. exact skeleton_hole_premise_refuted. Qed.
(* every good bare key lexes to one token: identifier names as above, decimal literals (never printed bare by the model)
   in front of every continuation that does not start with an identifier character or a dot *)
Theorem C01_key_hole_lex_all : forall s, hole_ok HKey s = true ->
  (is_ident_name s = true /\ lexes bnd s [KId s]) \/ (num_ok s = true /\ lexes num_bnd s [KNum s]).
Proof. exact key_hole_lexes. Qed.
(* C01_lex_compositional_full_statement as stated (arbitrary chunk lists, no adjacency conditions) is FALSE: two good
   name holes side by side merge into one identifier. The provable form is the chain rule C01_lex_compositional_chain
   (used for all chunks of the three plain-mode files). *)
Theorem C01_lex_compositional_general_refuted : ~ C01_lex_compositional_full_statement.
Proof. exact lex_compositional_general_refuted. Qed.

(* ---- non-vacuity ---- *)
Example C01_ex_key : plain_ident (L "user_id") = true /\ kebab_rule (eff_rule (Some RCamel) (L "snake_case")) = false /\
  key_chunk (serialized (L "user_id") None (Some RCamel) (L "snake_case")) = Hole HKey (L "userId").
Proof. vm_compute. repeat split. Qed.
Example C01_ex_event_fn : event_fn (L "user:created/now") = L "onUserCreatedNow" /\ event_fn (L "app://ready") = L "onAppReady".
Proof. exact event_fn_example. Qed.
Example C01_ex_fn : plain_ident (L "get_user") = true /\ kf_reserved_fn (L "get_user") = false /\ camel2 (L "get_user") = L "getUser".
Proof. vm_compute. repeat split. Qed.
Example C01_ex_message : escape_js (L "say ""hi"" \ ok") = L "say \""hi\"" \\ ok".
Proof. vm_compute. reflexivity. Qed.
Example C01_ex_good_member :
  good_member {| gm_key := GId (L "userId"); gm_opt := true; gm_toks := [KId (L "number")] |} /\
  good_member {| gm_key := GStr (L "full-name"); gm_opt := false; gm_toks := [KId (L "string")] |}.
Proof. split; apply good_leaf; reflexivity. Qed.
(* the token renderings of the theorems are what the lexer sees of the model text (sample; run time: every case) *)
Example C01_ex_tokens :
  toks_of (interface_chunks g0 ex_struct) = struct_toks g0 ex_struct /\
  lexed (interface_chunks g0 ex_struct) = struct_toks g0 ex_struct /\
  forallb (fun f => type_in_budget g0 (cf_ty f)) (listed_fields ex_struct) = true /\
  lex_module (render_m g0 (pts (L "HashMap<String, Vec<Option<(User, i32)>>>"))) = rtoks g0 (pts (L "HashMap<String, Vec<Option<(User, i32)>>>")).
Proof. exact tokens_example. Qed.
Example C01_ex_params_tokens :
  lexed (params_iface_chunks g0 ex_cmd) = cmd_params_toks g0 ex_cmd /\ toks_of (params_iface_chunks g0 ex_cmd) = cmd_params_toks g0 ex_cmd /\
  is_binding_name (ty_ts ex_cmd ++ L "Params") = true /\
  forallb (fun p => type_in_budget g0 (snd p)) (c_values ex_cmd) = true /\ forallb (fun ch => chan_in_budget g0 (snd ch)) (c_channels ex_cmd) = true.
Proof. exact params_tokens_example. Qed.
Example C01_ex_empty_enum : lexed (enum_chunks g0 ex_empty_enum) = never_toks (L "Status") /\ c01_ok (text (enum_chunks g0 ex_empty_enum)) = true /\
  c01_ok (text (zod_struct_chunks g0 ex_empty_enum)) = true.
Proof. exact never_example. Qed.
Example C01_ex_index : lexed (all_chunks (index_file true)) = flat_map star_toks [L "./types"; L "./commands"; L "./events"].
Proof. exact index_example. Qed.
Example C01_ex_skeleton : c01_ok (text (interface_chunks g0 ex_struct)) = true /\ bad_holes (interface_chunks g0 ex_struct) = [] /\
  lexed (interface_chunks g0 ex_struct) = toks_of (interface_chunks g0 ex_struct).
Proof. vm_compute. repeat split. Qed.

Example C01_ex_wrapper_tokens :
  forallb (fun c => toks_eqb (lexed (wrapper_chunks g0 c)) (cmd_wrapper_toks g0 c) && toks_eqb (toks_of (wrapper_chunks g0 c)) (cmd_wrapper_toks g0 c) &&
                    plain_ident (cmd_name c) && negb (kf_reserved_fn (cmd_name c)) && ret_in_budget g0 c) ex_wcmds = true.
Proof. exact wrapper_tokens_example. Qed.
Example C01_ex_chain :
  let cs := [Hole HKey (L "userId"); Fixed [":"%char]; Fixed [" "%char]; Hole (HStr DQ) (L "a\""b\x41"); Fixed [";"%char]] in
  chain cs /\ lexed cs = [KId (L "userId"); P ":"; KStr DQ (L "a\""b\x41"); P ";"].
Proof. exact chain_example. Qed.
Example C01_ex_text :
  forallb (struct_in_budget g0) [ex_struct; ex_enum; ex_empty_enum] = true /\
  lexed (enum_chunks g0 ex_enum) = enum_item_toks ex_enum /\
  c01_ok (text (concat (map (struct_chunks g0) [ex_struct; ex_enum; ex_empty_enum]))) = true.
Proof. exact text_example. Qed.
Example C01_ex_plain_types :
  plain_types_in_budget g0 [ex_struct; ex_enum; ex_empty_enum] [ex_cmd] = true /\
  lexed (params_iface_chunks g0 ex_cmd) = cmd_params_toks g0 ex_cmd /\
  c01_ok (text (all_chunks (plain_types g0 [ex_struct; ex_enum; ex_empty_enum] [ex_cmd]))) = true.
Proof. exact plain_types_example. Qed.
Example C01_ex_str_body : StrBody """"%char (L "a\""b\x41\u{1F600}\0") /\ ~ StrBody """"%char (L "a\7") /\ ~ StrBody "'"%char (L "it's").
Proof. exact str_body_example. Qed.

Example C01_ex_plain_commands :
  forallb (wrapper_in_budget g0) ex_wcmds = true /\ c01_ok (text (all_chunks (plain_commands g0 ex_wcmds))) = true.
Proof. exact plain_commands_example. Qed.

Example C01_ex_num_key : hole_ok HKey (L "1.5e3") = true /\ is_ident_name (L "1.5e3") = false /\ lex_module (L "1.5e3") = [KNum (L "1.5e3")].
Proof. vm_compute. repeat split. Qed.

Example C01_ex_ty_ok : TyOk (TyUnion [TyArr (TyRef [L "types"; L "User"] []); TyRef [L "null"] []]) /\ ~ TyOk (TyRef [L "delete"] []).
Proof. exact ty_ok_example. Qed.

Print Assumptions C01_key_chunk_ok.
Print Assumptions C01_member_access_ok.
Print Assumptions C01_rust_ident_is_ident.
Print Assumptions C01_key_chunk_number_witness.
Print Assumptions C01_key_bare_no_rename.
Print Assumptions C01_key_chunk_witnesses.
Print Assumptions C01_fn_hole.
Print Assumptions C01_fn_hole_refuted.
Print Assumptions C01_fn_hole_raw_witness.
Print Assumptions C01_event_fn_hole.
Print Assumptions C01_tyname_hole.
Print Assumptions C01_str_hole_command.
Print Assumptions C01_str_hole_event.
Print Assumptions C01_str_hole_message.
Print Assumptions C01_str_hole_enum_witness.
Print Assumptions C01_type_hole_refuted.
Print Assumptions C01_type_hole_witnesses.
Print Assumptions C01_type_hole_render.
Print Assumptions C01_type_hole_lex.
Print Assumptions C01_type_hole_text.
Print Assumptions C01_skeleton_interface.
Print Assumptions C01_interface_tokens_ok.
Print Assumptions C01_enum_alias_ok.
Print Assumptions C01_enum_alias_never_ok.
Print Assumptions C01_skeleton_params_interface.
Print Assumptions C01_params_interface_tokens_ok.
Print Assumptions C01_index_tokens_ok.
Print Assumptions C01_type_hole_prefixed_render.
Print Assumptions C01_skeleton_wrapper.
Print Assumptions C01_wrapper_tokens_ok.
Print Assumptions C01_str_hole_lex.
Print Assumptions C01_name_key_hole_lex.
Print Assumptions C01_hole_chunk_lex.
Print Assumptions C01_lex_compositional_chain.
Print Assumptions C01_member_line_compositional.
Print Assumptions C01_interface_lexed.
Print Assumptions C01_interface_text_ok.
Print Assumptions C01_items_text_ok.
Print Assumptions C01_enum_item_text_ok.
Print Assumptions C01_params_item_text_ok.
Print Assumptions C01_plain_types_text_ok.
Print Assumptions C01_str_body_reflect.
Print Assumptions C01_tok_ok_reflect.
Print Assumptions C01_item_ok_reflect.
Print Assumptions C01_wf_module_reflect.
Print Assumptions C01_prefix_text_structural.
Print Assumptions C01_ret_text_lex.
Print Assumptions C01_wrapper_item_text_ok.
Print Assumptions C01_plain_commands_text_ok.
Print Assumptions C01_index_text_ok.
Print Assumptions C01_key_hole_lex_all.
Print Assumptions C01_lex_compositional_general_refuted.
Print Assumptions C01_skeleton_hole_premise_refuted.
Print Assumptions C01_ty_ok_reflect.
