(* C20 — dependency ordering routines are correct on every graph.
   Only statements, [exact], and [Print Assumptions] live here. *)
From Coq Require Import List Arith Bool Permutation.
Require Import TT.Model.Base TT.Model.Topo TT.Model.Kahn TT.Model.C20Resolver.
Require Import TT.Proofs.TopoProofs TT.Proofs.KahnProofs TT.Proofs.Bridge TT.Proofs.C20Extra.
Require Import TT.Spec.P20 TT.Spec.P20Hist TT.Proofs.P20Sound TT.Proofs.P20KahnSound TT.Proofs.P20HistSound.
Import ListNotations.

Section C20.
Context {node : Type} {ED : EqDec node}.

(* The type-ordering routine terminates on every graph (cyclic ones included):
   fuel "one more than the number of nodes mentioned" always suffices. *)
Theorem C20_topo_total : forall (g : Topo.graph node) (req : list node),
  exists out, topo_sort (S (length (universe g req))) g req = Some out.
Proof. exact topo_total. Qed.

Theorem C20_topo_nodup : forall fuel (g : Topo.graph node) req out,
  topo_sort fuel g req = Some out -> NoDup out.
Proof. intros fuel g req out H. exact (proj1 (topo_correct _ _ _ _ H)). Qed.

Theorem C20_topo_exact : forall fuel (g : Topo.graph node) req out,
  topo_sort fuel g req = Some out ->
  forall n, In n out <-> exists r, In r req /\ reach g r n.
Proof. intros fuel g req out H. exact (proj1 (proj2 (topo_correct _ _ _ _ H))). Qed.

(* every direct dependency v of u comes before u unless v reaches u back
   (that is, unless the two lie on a common cycle) *)
Theorem C20_topo_order : forall fuel (g : Topo.graph node) req out,
  topo_sort fuel g req = Some out ->
  forall u v, In u out -> edge g u v -> ~ reach g v u -> idx_before out v u.
Proof. intros fuel g req out H. exact (proj2 (proj2 (topo_correct _ _ _ _ H))). Qed.

(* on acyclic graphs: every transitive dependency first *)
Theorem C20_topo_acyclic : forall fuel (g : Topo.graph node) req out,
  acyclic g -> topo_sort fuel g req = Some out ->
  forall u v, In u out -> reach1 g u v -> idx_before out v u.
Proof. exact topo_acyclic_transitive. Qed.

(* Build-order resolver (Kahn): for every duplicate-free enumeration order
   of the node set (the hash map's iteration order) *)
Theorem C20_kahn_ok_iff : forall (order : list node) (deps : list (Kahn.dep node)),
  NoDup order -> closed order deps ->
  ((exists l, kahn order deps = Ok l) <-> Bridge.acyclic deps).
Proof. exact kahn_ok_iff. Qed.

Theorem C20_kahn_valid : forall (order : list node) (deps : list (Kahn.dep node)) l,
  NoDup order -> closed order deps -> kahn order deps = Ok l ->
  Permutation l order /\ forall d, In d deps -> before (snd d) (fst d) l.
Proof. exact kahn_ok_valid. Qed.

Theorem C20_kahn_never_out_of_fuel : forall (order : list node) (deps : list (Kahn.dep node)),
  NoDup order -> closed order deps -> kahn order deps <> OutOfFuel.
Proof. exact kahn_never_out_of_fuel. Qed.
End C20.

(* The transitive reading on cyclic graphs is false of any DFS with cycle
   cutting; kept so the reading chosen above is explicit. *)
Theorem C20_transitive_on_cyclic_refuted :
  exists (g : Topo.graph nat) req out u w,
    topo_sort (S (length (universe g req))) g req = Some out /\
    reach g u w /\ ~ reach g w u /\ idx_before out u w.
Proof. exact transitive_on_cyclic_refuted. Qed.

(* The run-time oracles applied to what the IMPLEMENTATION returned (Spec/P20.v, extracted)
   decide exactly the statements above: a returned list passes iff it is duplicate free,
   consists of exactly the reachable nodes and respects every non-cyclic dependency; a
   resolver answer passes iff it is a valid topological order of an acyclic graph, or a
   circular-dependency report on a cyclic one. *)
Section C20_oracles.
Context {node : Type} {ED : EqDec node}.
Theorem C20_topo_oracle_exact : forall (g : Topo.graph node) (req out : list node),
  topo_ok_b g req out = true <->
  (NoDup out /\ (forall n, In n out <-> exists r, In r req /\ reach g r n) /\
   (forall u v, In u out -> edge g u v -> ~ reach g v u -> idx_before out v u)).
Proof. exact topo_ok_b_spec. Qed.

Theorem C20_kahn_oracle_exact : forall (ns : list node) (deps : list (Kahn.dep node)) (res : option (list node)),
  NoDup ns -> closed ns deps ->
  (kahn_ok_b ns deps res = true <->
   match res with
   | Some l => Bridge.acyclic deps /\ Permutation l ns /\ (forall d, In d deps -> before (snd d) (fst d) l)
   | None => ~ Bridge.acyclic deps
   end).
Proof. exact kahn_ok_b_spec. Qed.

(* consistency of model and oracle: the model's own answers always pass *)
Theorem C20_model_passes_oracles : forall (g : Topo.graph node) (req : list node) fuel out
                                          (order : list node) (deps : list (Kahn.dep node)),
  (topo_sort fuel g req = Some out -> topo_ok_b g req out = true) /\
  (NoDup order -> closed order deps ->
   kahn_ok_b order deps (match kahn order deps with Ok l => Some l | _ => None end) = true).
Proof. intros. split; [apply topo_sort_passes_oracle | apply kahn_passes_oracle]. Qed.
End C20_oracles.

(* Both routines live in mutable objects (DependencyResolver: add_node / add_dependency /
   resolve_build_order; TypeDependencyGraph: add_dependency / add_dependencies /
   topological_sort_types). For EVERY history of operations on one object, every query answers for
   exactly what has been registered up to that point - nothing remembered from an earlier query,
   nothing registered later missing. [ord] is the (unknown) iteration order of the hash collections. *)
Section C20_histories.
Context {node : Type} {ED : EqDec node}.

Theorem C20_resolver_resolution_in_history :
  forall (ord : list node -> list node), (forall l, Permutation (ord l) l) ->
  forall pre post : list (rop node),
  let s := state_after pre rinit in
  let r := kahn (ord (rnodes s)) (rdeps s) in
  rrun ord rinit (pre ++ Resolve :: post) = rrun ord rinit pre ++ r :: rrun ord s post
  /\ rdeps s = deps_of pre
  /\ (forall n, In n (rnodes s) <-> In n (mentioned pre))
  /\ match r with
     | Ok l => Bridge.acyclic (deps_of pre) /\ Permutation l (rnodes s)
               /\ (forall d, In d (deps_of pre) -> before (snd d) (fst d) l)
     | Cycle _ => ~ Bridge.acyclic (deps_of pre)
     | OutOfFuel => False
     end.
Proof. exact resolution_in_history. Qed.

Theorem C20_resolver_history_oracle_exact : forall (ops : list (rop node)) (outs : list (option (list node))),
  hist_ok_b rinit ops outs = true <-> hist_spec rinit ops outs.
Proof. intros ops outs. apply hist_ok_b_spec. exact rinv_init. Qed.

Theorem C20_resolver_history_model_passes :
  forall (ord : list node -> list node), (forall l, Permutation (ord l) l) ->
  forall ops : list (rop node), hist_spec rinit ops (map res_opt (rrun ord rinit ops)).
Proof. intros ord Hp ops. apply resolver_history_correct; [exact Hp | exact rinv_init]. Qed.

(* TypeDependencyGraph: the two mutators are map updates ... *)
Theorem C20_graph_mutators : forall (g : Topo.graph node) a b l n x,
  (In x (deps (gapply g (GDep a b)) n) <-> (n = a /\ x = b) \/ In x (deps g n)) /\
  (In x (deps (gapply g (GDeps a l)) n) <-> if eq_dec n a then In x l else In x (deps g n)).
Proof. intros. split; [apply add_dependency_map | apply add_dependencies_map]. Qed.

(* ... and every sort of every history is total and satisfies the three clauses on the graph as it
   stands at that point *)
Theorem C20_graph_history :
  forall (ord : list node -> list node), (forall l, Permutation (ord l) l) ->
  forall (ops : list (gop node)) (g : Topo.graph node),
  exists outs, grun ord g ops = map Some outs /\ ghist_spec g ops outs.
Proof. exact graph_history_correct. Qed.

Theorem C20_graph_history_oracle_exact : forall (ops : list (gop node)) (g : Topo.graph node) outs,
  ghist_ok_b g ops outs = true <-> ghist_spec g ops outs.
Proof. exact ghist_ok_b_spec. Qed.
End C20_histories.

Example C20_ex_history :
  rrun (fun l => l) rinit [AddDep 1 2; Resolve; AddNode 3; Resolve; AddDep 2 1; Resolve]
  = [Ok [2; 1]; Ok [2; 3; 1]; Cycle [1; 2]].
Proof. vm_compute. reflexivity. Qed.
Example C20_ex_graph_history :
  grun (fun l => l) [] [GDep 1 2; GSort [1]; GDep 2 3; GNote 2 true; GSort [1]; GDeps 1 [3]; GSort [1]]
  = [Some [2; 1]; Some [3; 2; 1]; Some [3; 1]].
Proof. vm_compute. reflexivity. Qed.

(* non-vacuity: concrete inputs meet the premises and give non-trivial results *)
Example C20_ex_acyclic : acyclic [(1, [2]); (2, [])] /\ ~ acyclic [(1, [1])].
Proof. split.
  - intros n H. assert (forall a b, reach1 [(1, [2]); (2, [])] a b -> a = 1 /\ b = 2) as Hc.
    { induction 1 as [a b He|a b c He Hr IH]; unfold edge in He; simpl in He.
      - destruct (eq_dec a 1); [subst; destruct He as [<-|[]]; auto|].
        destruct (eq_dec a 2); [destruct He|destruct He].
      - destruct IH as [-> ->]. destruct (eq_dec a 1); [subst; destruct He as [He|[]]; discriminate|].
        destruct (eq_dec a 2); destruct He. }
    destruct (Hc _ _ H) as [-> E]; discriminate.
  - intros H. apply (H 1). constructor 1. unfold edge. simpl. auto. Qed.
Example C20_ex_topo_run : topo_sort 5 [(1, [2; 3]); (2, [3]); (3, [1])] [1] = Some [3; 2; 1].
Proof. vm_compute. reflexivity. Qed.
Example C20_ex_kahn_ok : kahn [3; 1; 2] [(1, 2); (2, 3)] = Ok [3; 2; 1]
  /\ NoDup [3; 1; 2] /\ closed [3; 1; 2] [(1, 2); (2, 3)].
Proof. split; [vm_compute; reflexivity|]. split.
  - repeat constructor; simpl; intuition congruence.
  - intros d [<-|[<-|[]]]; simpl; intuition. Qed.
Example C20_ex_kahn_cycle : kahn [1; 2; 3] [(1, 2); (2, 1)] = Cycle [1; 2].
Proof. vm_compute. reflexivity. Qed.

Print Assumptions C20_topo_total.
Print Assumptions C20_topo_nodup.
Print Assumptions C20_topo_exact.
Print Assumptions C20_topo_order.
Print Assumptions C20_topo_acyclic.
Print Assumptions C20_kahn_ok_iff.
Print Assumptions C20_kahn_valid.
Print Assumptions C20_kahn_never_out_of_fuel.
Print Assumptions C20_transitive_on_cyclic_refuted.
Print Assumptions C20_topo_oracle_exact.
Print Assumptions C20_kahn_oracle_exact.
Print Assumptions C20_model_passes_oracles.
Print Assumptions C20_resolver_resolution_in_history.
Print Assumptions C20_resolver_history_oracle_exact.
Print Assumptions C20_resolver_history_model_passes.
Print Assumptions C20_graph_mutators.
Print Assumptions C20_graph_history.
Print Assumptions C20_graph_history_oracle_exact.
