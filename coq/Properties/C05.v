(* C05 - each emitted TypeScript type denotes the JSON shape serde produces.
   Statements, [exact], Examples and [Print Assumptions] only.

   Model: Model/TypeParse.v (type_to_string printer tts), Model/C05Parse.v (parse_type_structure after
   the repair C05-2-3-top-level-commas: depth-aware splitting everywhere), Model/Render.v and
   Model/C05Emit.v (visitors, schema builder, add_types_prefix, the five sites in both modes).
   Specification: Spec/TsType.v (TypeScript type grammar), Spec/C05Spec.v (README table rshape,
   namespace qualification, reading of Zod schemas, domain), Spec/C05Known.v (defect classes). *)
From Coq Require Import String Ascii.
From Coq Require Import List Arith Bool.
Require Import TT.Model.Str TT.Model.TypeParse TT.Spec.TsType TT.Model.Render TT.Model.C05Emit.
Require Import TT.Spec.C05Spec TT.Spec.C05Known.
Require Import TT.Model.C05Parse TT.Proofs.C05ParseProofs.
Require Import TT.Proofs.TypeParseProofs TT.Proofs.RenderProofs TT.Proofs.C05Proofs TT.Proofs.C05Sweep TT.Proofs.C05Witness TT.Proofs.C05Examples.
Require Import TT.Proofs.C05PrefixProofs TT.Proofs.C05OracleProofs TT.Model.C05TypeStr TT.Proofs.C05TypeStrProofs TT.Proofs.C05Utf8.
Require TT.Model.C10Zod TT.Spec.C10Check TT.Proofs.C10Depth.
Require Import TT.Proofs.C05ZodProofs.
Import ListNotations.
Local Open Scope string_scope.

(* The statement for every site and both modes. Without the class premise the faithful model refutes
   it (lemmas *_refuted below). With the premise it is PROVED
   - for every site whose text is a TypeScript type (8 of the 10 site x mode pairs): C05_sound_ts_sites;
   - for the two Zod-mode schema sites (parameter, field) and hence for ALL sites in BOTH modes:
     C05_sound_zod_schema / C05_sound_full_bounded, with two decidable premises added: the nesting
     bound tsdepth (sem t) < 31 (the expression parser of the specification, Spec/TsModule.pexpr, has the
     fixed budget 64) and C10Zod.dom (sem t) (the domain of the C10 development's round-trip theorem
     parse_ex (build_schema m ts) = Some (zex_of m ts false): map keys String / numbers, names not taken).
     C05_sound_all_sites states the same under that round trip as an explicit hypothesis
     (zod_parse_link) for the part of the domain C10's theorem does not cover (named or bool map keys).
   The unbounded statement itself stays a Definition: it cannot hold beyond the parser budget of the spec. *)
Definition C05_sound_full_statement : Prop :=
  forall (s : site) (md : mode) (t : rty),
    dom_b t = true -> kf_C05 s md [] t = false ->
    exists text, emit_type s md [] t = Some text /\
                 observe (site_is_type s md) text = Some (expected s [] t).
Definition C05_sound_zod_schema_statement : Prop :=
  forall (s : site) (t : rty), (s = SParam \/ s = SField) ->
    dom_b t = true -> kf_C05 s MZod [] t = false ->
    exists text, emit_type s MZod [] t = Some text /\ zod_infer text = Some (rshape [] t).

(* String -> TypeStructure: parse_type_structure returns the intended structure of EVERY well-formed
   type (names without square brackets), with the fuel the entry point uses. No class premise: the two
   parser classes (C05-2, C05-3) were repaired. *)
Theorem C05_parse_faithful : forall t : rty,
  wf t -> nobr t -> parse_type_structure2 (tts t) = Some (sem t).
Proof. exact parse_faithful. Qed.

(* Names with non-ASCII letters (legal Rust identifiers): strings are UTF-8 byte lists, and every
   identifier made of bytes >= 128 and of ASCII characters other than the eight delimiters and the two
   square brackets satisfies the name hypotheses of C05_parse_faithful (ident inside wf, nb inside nobr).
   So the parser theorem covers Result<Ärger, String>: all scanning is byte-wise and every delimiter is
   ASCII. *)
Theorem C05_utf8_names_admitted : forall n : str,
  n <> [] -> forallb high_or_ident n = true -> ident n /\ Forall nb n.
Proof. exact utf8_name_ok. Qed.

(* ... and at the TypeScript side: the identifier class of the specification lexers (Model/Render.is_idc,
   Spec/TsLex.is_id_start) and hence of dom_b admits every byte >= 128, so the site theorems below are
   statements about the REAL bytes of such names. A name made of bytes >= 128 and ASCII letters, digits,
   _ and $ that is not reserved and not one of the seven table names is a leaf of the domain, and at
   every site whose text is a TypeScript type the emitted text lexes and parses to the expected shape
   (the name verbatim, types.N at return / event sites). Compound types over such leaves are covered
   by the theorems below as they stand (dom_b is structural); the run-time stream unicode-names applies
   the oracle to the real bytes (no renaming). *)
Theorem C05_utf8_names_admitted_ts : forall n : str,
  n <> [] -> forallb high_or_idc n = true -> reserved n = false -> one_of n table_names = false ->
  dom_b (RPath n []) = true /\
  forall s md, site_is_type s md = true -> kf_C05 s md [] (RPath n []) = false ->
  exists text, emit_type s md [] (RPath n []) = Some text /\
               observe (site_is_type s md) text = Some (expected s [] (RPath n [])).
Proof. exact utf8_names_ts. Qed.

(* Parameter, field and channel sites in plain mode and the channel site in Zod mode, every type of
   the documented language at any nesting depth: the printed text, read by a TypeScript type parser
   with the real precedences, is exactly the README-table shape of the Rust type. *)
Theorem C05_sound_plain : forall t : rty,
  dom_b t = true -> kf_union_under_seq (sem t) = false ->
  forall s md, plain_site s md = true ->
  exists text, emit_type s md [] t = Some text /\
               observe (site_is_type s md) text = Some (expected s [] t).
Proof. intros t Hd. apply sound_plain; [constructor | exact Hd]. Qed.

(* The premise of C05_sound_plain is exactly "outside every class" at those sites *)
Theorem C05_plain_premises : forall s md t, plain_site s md = true ->
  kf_C05 s md [] t = false -> kf_union_under_seq (sem t) = false.
Proof.
  intros s md t Hs Hk. unfold kf_C05, all_classes in Hk. cbn [existsb in_class] in Hk.
  unfold plain_site in Hs. apply andb_true_iff in Hs as [Hty _]. rewrite Hty in Hk.
  rewrite msubst_nil in Hk. cbn [andb] in Hk.
  apply orb_false_elim in Hk as [H3 _]. exact H3.
Qed.

(* Return types and event payloads (the add_types_prefix sites), both modes, every type of the
   documented language at any nesting depth: outside the two remaining text classes (a union directly
   under [], C05-1; a declared name inside Record<..> / a tuple, C05-5) the printed text, read by the
   TypeScript type parser, is the README shape with every declared name qualified by the namespace. *)
Theorem C05_sound_prefix : forall t : rty,
  dom_b t = true -> kf_union_under_seq (sem t) = false -> pfx_class (sem t) = 0 ->
  forall s md, site_qualified s = true ->
  exists text, emit_type s md [] t = Some text /\
               observe (site_is_type s md) text = Some (expected s [] t).
Proof. intros t Hd H3 Hp. apply sound_prefix; try constructor; auto. rewrite msubst_nil. exact Hp. Qed.

(* Every site whose text is a TypeScript type (8 of the 10 site x mode pairs), with the class predicate
   of the run-time matcher as only premise: the full statement restricted to those sites. *)
Theorem C05_sound_ts_sites : forall (s : site) (md : mode) (t : rty),
  site_is_type s md = true -> dom_b t = true -> kf_C05 s md [] t = false ->
  exists text, emit_type s md [] t = Some text /\
               observe (site_is_type s md) text = Some (expected s [] t).
Proof. intros s md t Hty Hd Hk. apply sound_ts_sites; try constructor; auto. Qed.

(* add_types_prefix itself: on the text of every structure outside the pinned class it prints the
   qualified rendering (every declared name as types.N, nothing else touched) *)
Theorem C05_prefix_is_qualified_render : forall ts, ts_ok ts -> names_ok ts -> pfx_class ts = 0 ->
  add_types_prefix (render ts) = renderq ts.
Proof. intros ts Hok Hn Hp. unfold add_types_prefix. apply atp_render; auto.
  pose proof (sdepth_le_len ts). auto with arith. Qed.

(* The run-time oracle is exactly the Prop-level statement *)
Theorem C05_oracle_exact : forall s md m t text,
  c05_ok s md m t text = true <-> observe (site_is_type s md) text = Some (expected s m t).
Proof. exact c05_oracle_exact. Qed.

(* Zod-mode parameter and field schemas, on the expression tree of the schema: for every structure
   without Option / set / Result (the pinned deviations C05-6/7/8), with primitive and declared names
   as the domain provides them, the type z.infer gives the builder's tree is the README shape (with the
   table applied) - by structural induction, any depth below the fuel. *)
Theorem C05_zod_tree_denotes : forall m t,
  ts_ok (msubst m t) -> names_ok (msubst m t) -> zod_clean (msubst m t) = true ->
  forall key f, tdepth t < f -> zshape f (C10Zod.zex_of m t key) = Some (shape (msubst m t)).
Proof. exact zshape_zex. Qed.

(* the two models of the schema builder (this development's and C10's) are the same function *)
Theorem C05_zod_builders_agree : forall m t k, C10Zod.zbuild m t k = zbuild m t k.
Proof. exact zbuild_eq. Qed.

(* The Zod schema sites and then ALL sites, both modes: the full statement under the parse link and
   the nesting premise. *)
Theorem C05_sound_zod_schema_under_link : zod_parse_link -> forall (s : site) (md : mode) (t : rty),
  dom_b t = true -> tdepth (sem t) < 60 -> schema_site s md = true -> kf_C05 s md [] t = false ->
  exists text, emit_type s md [] t = Some text /\
               observe (site_is_type s md) text = Some (expected s [] t).
Proof. intros Hl s md t Hd. apply sound_zod_schema; try constructor; auto. Qed.

Theorem C05_sound_all_sites : zod_parse_link -> forall (s : site) (md : mode) (t : rty),
  dom_b t = true -> tdepth (sem t) < 60 -> kf_C05 s md [] t = false ->
  exists text, emit_type s md [] t = Some text /\
               observe (site_is_type s md) text = Some (expected s [] t).
Proof. intros Hl s md t Hd. apply sound_all_sites; try constructor; auto. Qed.

(* ... and with NO hypothesis about parsing: the link is the theorem C10LexEx.parse_build of the C10
   development (premises: the structure lies in C10's domain - map keys String / numbers, names legal
   TypeScript identifiers that are not taken - and the nesting bound tsdepth < 31, from which
   C10Depth.budgets derives the parser budgets). This is C05_sound_full_statement with those two
   decidable premises added: EVERY site, BOTH modes. *)
Theorem C05_sound_zod_schema : forall (s : site) (md : mode) (t : rty),
  dom_b t = true -> C10Zod.dom (sem t) = true -> C10Depth.tsdepth (sem t) < 31 ->
  schema_site s md = true -> kf_C05 s md [] t = false ->
  exists text, emit_type s md [] t = Some text /\
               observe (site_is_type s md) text = Some (expected s [] t).
Proof. intros s md t. apply sound_zod_schema_proved. reflexivity. Qed.

Theorem C05_sound_full_bounded : forall (s : site) (md : mode) (t : rty),
  dom_b t = true -> C10Zod.dom (sem t) = true -> C10Depth.tsdepth (sem t) < 31 ->
  kf_C05 s md [] t = false ->
  exists text, emit_type s md [] t = Some text /\
               observe (site_is_type s md) text = Some (expected s [] t).
Proof. intros s md t. apply sound_all_sites_proved. reflexivity. Qed.

(* The three type_to_string variants (command parameters / returns, struct fields, channel messages;
   Model/C05TypeStr.v models them on the larger syn syntax, where they differ on arrays, slices and
   non-type generic arguments) print the same text, tts, on every type of the documented language -
   which is why one printer suffices in the theorems above. *)
Theorem C05_printers_agree : forall t : rty,
  pr_cmd (emb t) = tts t /\ pr_struct (emb t) = tts t /\ pr_chan (emb t) = tts t.
Proof. exact printers_agree. Qed.

(* Compositional at any depth: what a reader sees for K<t> is K applied to what he sees for t *)
Theorem C05_compositional_vec : forall s md t, plain_site s md = true ->
  good [] t -> good [] (RPath (L "Vec") [t]) ->
  reads s md [] (RPath (L "Vec") [t]) = option_map TsArray (reads s md [] t).
Proof. intros s md t Hs. apply comp_vec; [constructor | exact Hs]. Qed.
Theorem C05_compositional_hashset : forall s md t, plain_site s md = true ->
  good [] t -> good [] (RPath (L "HashSet") [t]) ->
  reads s md [] (RPath (L "HashSet") [t]) = option_map TsArray (reads s md [] t).
Proof. intros s md t Hs. apply comp_hashset; [constructor | exact Hs]. Qed.
Theorem C05_compositional_btreeset : forall s md t, plain_site s md = true ->
  good [] t -> good [] (RPath (L "BTreeSet") [t]) ->
  reads s md [] (RPath (L "BTreeSet") [t]) = option_map TsArray (reads s md [] t).
Proof. intros s md t Hs. apply comp_btreeset; [constructor | exact Hs]. Qed.
Theorem C05_compositional_option : forall s md t, plain_site s md = true ->
  good [] t -> good [] (RPath (L "Option") [t]) ->
  reads s md [] (RPath (L "Option") [t]) = option_map (fun x => union_snoc x null_t) (reads s md [] t).
Proof. intros s md t Hs. apply comp_option; [constructor | exact Hs]. Qed.
Theorem C05_compositional_result : forall s md t e, plain_site s md = true ->
  good [] t -> good [] (RPath (L "Result") [t; e]) ->
  reads s md [] (RPath (L "Result") [t; e]) = reads s md [] t.
Proof. intros s md t e Hs. apply comp_result2; [constructor | exact Hs]. Qed.
Theorem C05_compositional_result1 : forall s md t, plain_site s md = true ->
  good [] t -> good [] (RPath (L "Result") [t]) ->
  reads s md [] (RPath (L "Result") [t]) = reads s md [] t.
Proof. intros s md t Hs. apply comp_result1; [constructor | exact Hs]. Qed.
Theorem C05_compositional_ref : forall s md t, plain_site s md = true ->
  good [] t -> good [] (RRef t) -> reads s md [] (RRef t) = reads s md [] t.
Proof. intros s md t Hs. apply comp_ref; [constructor | exact Hs]. Qed.
Theorem C05_compositional_map : forall s md (tag : string) k v, plain_site s md = true ->
  tag = "HashMap" \/ tag = "BTreeMap" ->
  good [] k -> good [] v -> good [] (RPath (L tag) [k; v]) ->
  reads s md [] (RPath (L tag) [k; v]) =
  match reads s md [] k, reads s md [] v with
  | Some a, Some b => Some (TsApp (L "Record") [] a [b]) | _, _ => None end.
Proof. intros s md tag k v Hs. apply comp_map; [constructor | exact Hs]. Qed.
Theorem C05_compositional_tuple : forall s md l, plain_site s md = true ->
  l <> [] -> Forall (good []) l -> good [] (RTuple l) ->
  reads s md [] (RTuple l) = option_map TsTuple (mapM (reads s md []) l).
Proof. intros s md l Hs. apply comp_tuple; [constructor | exact Hs]. Qed.

(* All five sites, both modes (namespace-qualified return/event types and Zod parameter/field
   schemas included), every constructor spine up to depth 1 (196 types). The depth-2 sweep (3763 types, the
   enumeration of the quick tier) is Proofs/C05Sweep2.v, compiled by the thorough tier; it is kept out of
   this file's closure because coqchk re-evaluates it without the VM.
   [sound_at s md t] reads: the model prints a text at the site and, unless the case lies in a
   recorded class (kf_C05), the specification accepts that text (c05_ok).
   Bounded, hence _partial. *)
Theorem C05_sweep_sound_depth1_partial :
  forall t, In t (spines 1) -> forall s md, sound_at s md t = true.
Proof. exact (sweep_spec sound_at (spines 1) sweep_sound_depth1). Qed.

Theorem C05_sweep_domain_depth1_partial :
  forall t, In t (spines 1) -> dom_b t = true.
Proof. exact (proj1 (forallb_forall dom_b (spines 1)) (proj1 sweep_domain_depth1)). Qed.

(* ... and the classes are exact there. [exact_at s md t] reads: if the case lies in a recorded
   class, the specification rejects the text the model prints. *)
Theorem C05_classes_exact_depth1_partial :
  forall t, In t (spines 1) -> forall s md, exact_at s md t = true.
Proof. exact (sweep_spec exact_at (spines 1) sweep_exact_depth1). Qed.

(* Each remaining class is a genuine failure of the faithful model: an in-domain type that lies in
   that class only, and whose printed text the specification rejects. *)
Theorem C05_union_under_seq_refuted : refuted SField MNone w_union KUnionUnderSeq.
Proof. exact union_under_seq_refuted. Qed.
Theorem C05_prefix_unqualified_refuted : refuted SReturn MNone w_pfx_unqualified KPrefixUnqualified.
Proof. exact prefix_unqualified_refuted. Qed.
Theorem C05_prefix_unqualified_seq_refuted : refuted SReturn MNone w_pfx_unqualified_seq KPrefixUnqualified.
Proof. exact prefix_unqualified_seq_refuted. Qed.
Theorem C05_zod_optional_refuted : refuted SField MZod w_zod_optional KZodOptional.
Proof. exact zod_optional_refuted. Qed.
Theorem C05_zod_set_refuted : refuted SField MZod w_zod_set KZodSet.
Proof. exact zod_set_refuted. Qed.
Theorem C05_zod_result_refuted : refuted SField MZod w_zod_result KZodResult.
Proof. exact zod_result_refuted. Qed.

(* The repaired classes (C05-2, C05-3, C05-4): on the old witnesses, at the site where they failed,
   the model (= the patched code) lies in no class and the specification accepts its text. *)
Theorem C05_result_ok_has_comma_repaired : repaired SField MNone w_result "Record<string, User>".
Proof. exact result_ok_has_comma_repaired. Qed.
Theorem C05_tuple_elem_has_comma_repaired : repaired SField MNone w_tuple "[User, Record<string, number>]".
Proof. exact tuple_elem_has_comma_repaired. Qed.
Theorem C05_prefix_composite_repaired : repaired SReturn MNone w_pfx_composite "string[][]".
Proof. exact prefix_composite_repaired. Qed.

(* ---- the premises are satisfiable on non-trivial inputs ---- *)
(* tuples of every arity are in the domain; the 1-tuple (f64,) is printed (f64) by type_to_string and
   must read as the one-element array type [number]; a project type named Path is rendered by name *)
Example C05_tuple_arity_and_names :
  dom_b (RTuple [RPath (L "f64") []]) = true /\ tts (RTuple [RPath (L "f64") []]) = L "(f64)" /\
  emit_type SField MNone [] (RTuple [RPath (L "f64") []]) = Some (L "[number]") /\
  expected SField [] (RTuple [RPath (L "f64") []]) = TsTuple [TsName (L "number") []] /\
  dom_b (RPath (L "Path") []) = true /\ emit_type SReturn MNone [] (RPath (L "Path") []) = Some (L "types.Path").
Proof. vm_compute. repeat split; reflexivity. Qed.
(* HashMap<String, Vec<(User, i32)>> as a Zod-mode field: clean, depth 4, and the reading of its tree *)
Definition ex_zod : rty :=
  RPath (L "HashMap") [RPath (L "String") []; RPath (L "Vec") [RTuple [RPath (L "User") []; RPath (L "i32") []]]].
Example C05_zod_premises :
  dom_b ex_zod = true /\ tdepth (sem ex_zod) = 4 /\ schema_site SField MZod = true /\ kf_C05 SField MZod [] ex_zod = false /\
  zod_clean (sem ex_zod) = true /\
  emit_type SField MZod [] ex_zod = Some (L "z.record(z.string(), z.array(z.tuple([UserSchema, z.coerce.number()])))") /\
  C10Check.parse_ex (C10Zod.build_schema [] (sem ex_zod)) = Some (C10Zod.zex_of [] (sem ex_zod) false) /\
  C10Zod.dom (sem ex_zod) = true /\ C10Depth.tsdepth (sem ex_zod) = 3.
Proof. vm_compute. repeat split; reflexivity. Qed.
Definition ex_utf8 : rty := RPath (L "Result") [RPath (L "Ärger") []; RPath (L "String") []].
Example C05_utf8_example :
  forallb high_or_ident (L "Ärger") = true /\ List.length (L "Ärger") = 6 /\
  parse_type_structure2 (tts ex_utf8) = Some (TRes (TCustom (L "Ärger"))) /\
  emit_type SReturn MNone [] ex_utf8 = Some (L "types.Ärger").
Proof. vm_compute. repeat split; reflexivity. Qed.
(* the premises of C05_utf8_names_admitted_ts on a name with 2- and 3-byte characters, and a compound
   type over it, HashMap<String, Option<Vec<Größe数>>>, inside the premises of C05_sound_full_bounded: the
   return-site text carries the bytes verbatim and the Zod-mode field schema refers to Größe数Schema *)
Definition ex_utf8_ts : rty :=
  RPath (L "HashMap") [RPath (L "String") []; RPath (L "Option") [RPath (L "Vec") [RPath (L "Größe数") []]]].
Example C05_utf8_ts_premises :
  L "Größe数" <> [] /\ forallb high_or_idc (L "Größe数") = true /\ List.length (L "Größe数") = 10 /\
  reserved (L "Größe数") = false /\ one_of (L "Größe数") table_names = false /\
  kf_C05 SReturn MNone [] (RPath (L "Größe数") []) = false /\
  emit_type SEvent MZod [] (RPath (L "Größe数") []) = Some (L "types.Größe数") /\
  dom_b ex_utf8_ts = true /\ C10Zod.dom (sem ex_utf8_ts) = true /\ C10Depth.tsdepth (sem ex_utf8_ts) < 31 /\
  kf_C05 SParam MNone [] ex_utf8_ts = false /\
  emit_type SParam MNone [] ex_utf8_ts = Some (L "Record<string, Größe数[] | null>") /\
  c05_ok SParam MNone [] ex_utf8_ts (L "Record<string, Größe数[] | null>") = true.
Proof. split; [discriminate|]. vm_compute. repeat split; try reflexivity; repeat constructor. Qed.
(* Option<Vec<Vec<User>>> at the return site: qualified under two [] and | null *)
Definition ex_ret : rty := RPath (L "Option") [RPath (L "Vec") [RPath (L "Vec") [RPath (L "User") []]]].
Example C05_sound_prefix_premises :
  dom_b ex_ret = true /\ kf_union_under_seq (sem ex_ret) = false /\ pfx_class (sem ex_ret) = 0 /\
  kf_C05 SReturn MZod [] ex_ret = false /\
  emit_type SReturn MZod [] ex_ret = Some (L "types.User[][] | null").
Proof. vm_compute. repeat split; reflexivity. Qed.
(* HashMap<String, Vec<(Option<User>, &str)>> : depth 4, six constructors, outside every class *)
Definition ex_deep : rty :=
  RPath (L "HashMap") [RPath (L "String") [];
    RPath (L "Vec") [RTuple [RPath (L "Option") [RPath (L "User") []]; RRef (RPath (L "str") [])]]].
Example C05_sound_plain_premises :
  dom_b ex_deep = true /\
  kf_union_under_seq (sem ex_deep) = false /\ plain_site SField MNone = true /\
  emit_type SField MNone [] ex_deep = Some (L "Record<string, [User | null, string][]>").
Proof. vm_compute. repeat split; reflexivity. Qed.
(* Result<(HashMap<String, User>, bool), String>: inside both former parser classes *)
Definition ex_commas : rty :=
  RPath (L "Result") [RTuple [RPath (L "HashMap") [RPath (L "String") []; RPath (L "User") []]; RPath (L "bool") []];
                      RPath (L "String") []].
Example C05_parse_faithful_premises :
  dom_b ex_commas = true /\ tts ex_commas = L "Result<(HashMap<String, User>, bool), String>" /\
  parse_type_structure2 (tts ex_commas) = Some (TRes (TTuple [TMap (TPrim (L "string")) (TCustom (L "User")); TPrim (L "boolean")])).
Proof. vm_compute. repeat split; reflexivity. Qed.
Example C05_compositional_premises :
  good [] (RPath (L "Option") [RPath (L "User") []]) /\ good [] (RPath (L "Vec") [RPath (L "User") []]) /\
  good [] (RTuple [RPath (L "Option") [RPath (L "User") []]; RPath (L "i32") []]) /\
  reads SParam MNone [] (RPath (L "Option") [RPath (L "User") []])
    = Some (TsUnion (TsName (L "User") []) (TsName (L "null") []) []).
Proof. unfold good. vm_compute. repeat split; reflexivity. Qed.
Example C05_sweep_premises :
  exists t, In t (spines 1) /\ tts t = L "HashMap<String, f64>" /\ kf_C05 SParam MZod [] t = false.
Proof. exact sweep_premises_example. Qed.

Print Assumptions C05_parse_faithful.
Print Assumptions C05_utf8_names_admitted.
Print Assumptions C05_utf8_names_admitted_ts.
Print Assumptions C05_sound_plain.
Print Assumptions C05_plain_premises.
Print Assumptions C05_sound_prefix.
Print Assumptions C05_sound_ts_sites.
Print Assumptions C05_prefix_is_qualified_render.
Print Assumptions C05_oracle_exact.
Print Assumptions C05_zod_tree_denotes.
Print Assumptions C05_zod_builders_agree.
Print Assumptions C05_sound_zod_schema_under_link.
Print Assumptions C05_sound_all_sites.
Print Assumptions C05_sound_zod_schema.
Print Assumptions C05_sound_full_bounded.
Print Assumptions C05_printers_agree.
Print Assumptions C05_compositional_vec.
Print Assumptions C05_compositional_hashset.
Print Assumptions C05_compositional_btreeset.
Print Assumptions C05_compositional_option.
Print Assumptions C05_compositional_result.
Print Assumptions C05_compositional_result1.
Print Assumptions C05_compositional_ref.
Print Assumptions C05_compositional_map.
Print Assumptions C05_compositional_tuple.
Print Assumptions C05_sweep_sound_depth1_partial.
Print Assumptions C05_sweep_domain_depth1_partial.
Print Assumptions C05_classes_exact_depth1_partial.
Print Assumptions C05_union_under_seq_refuted.
Print Assumptions C05_prefix_unqualified_refuted.
Print Assumptions C05_prefix_unqualified_seq_refuted.
Print Assumptions C05_zod_optional_refuted.
Print Assumptions C05_zod_set_refuted.
Print Assumptions C05_zod_result_refuted.
Print Assumptions C05_result_ok_has_comma_repaired.
Print Assumptions C05_tuple_elem_has_comma_repaired.
Print Assumptions C05_prefix_composite_repaired.
