(* C08 - the cache never leaves stale bindings: success means output is current.
   Only statements, [exact], Examples and [Print Assumptions] live here. *)
From Coq Require Import String List Arith Bool.
Require Import TT.Model.Str TT.Model.C08Fingerprint TT.Model.C08Run.
Require Import TT.Proofs.C08RunProofs TT.Proofs.C08FpProofs TT.Proofs.C08Examples.
Require TT.Proofs.RunSpike.
Import ListNotations.

Notation InvW_c := (InvW project config sched fname tree tree files fp).
Notation up_to_date_c := (up_to_date project config sched fname tree tree files).

(* Faithful model (presence test in the callers, the fingerprint of generation_cache.rs). For every history of source
   edits, configuration edits, deletions of output files, deletions of the record and forced or non-forced
   runs under arbitrary discovery orders, starting from any state satisfying the invariant (the empty
   directory does, and every reachable state does): a non-forced run that reports success or up to date
   leaves every file of a forced generation in place - unless the state before that run lies in a
   recorded class (kf_C08 = [8]: the command line numbers differ under visualize_deps while the fingerprints agree). Model of the code with the presence test in both callers (check_presence = true). *)
Theorem C08_cache_sound : forall (ops : list cop) (sg0 : cstate * option cgen) (w : sched),
  InvW_c sg0 ->
  let sg := fold_left (stepG_c true) ops sg0 in
  kf_C08 w sg = [] ->
  forall r st', run_c true w false None (fst sg) = (r, st') -> r = Success \/ r = UpToDate -> up_to_date_c w st'.
Proof. intros ops sg0 w HI sg Hk.
  apply (cache_sound_abstract project config sched fname tree tree fname_eqb tree_eqb files fp has_commands g_force true
           fname_eqb_spec files_nodup ops sg0 w HI).
  apply kf_nil_sound_hit. exact Hk. Qed.

(* the invariant holds in the empty output directory *)
Theorem C08_inv_initial : forall p c, InvW_c (init_state p c, None).
Proof. exact InvW_init. Qed.

(* completeness of the class list: equal fingerprints and equal unhashed components give equal files *)
Theorem C08_classes_complete : forall w p c w' p' c',
  fp w p c = fp w' p' c' -> unhashed w p c = unhashed w' p' c' -> files w p c = files w' p' c'.
Proof. exact fp_sound_modulo_unhashed. Qed.

(* the remaining class is a genuine failure of the faithful model: a computed history ends in a cache hit
   (result UpToDate) over files that are not those of a forced generation *)
Theorem C08_refuted : (exists ops, refutes [8] p0 (ex_cfg "none" true) ops) /\ (exists ops, refutes [8] p0 (ex_cfg "none" true) ops).
Proof. split; eexists; [exact refuted_8|exact refuted_8b]. Qed.

(* former witness of C08-10 (two commands of one file swapped; undetected while the hash sorted the commands by
   name): the hash keeps the source order inside a file, the edit is detected *)
Theorem C08_repaired_command_order :
  detects (p_two [ex_cmd None None; ex_cmd2]) c0 [Run _ _ _ _ w1 false; SetSrc _ _ _ _ (p_two [ex_cmd2; ex_cmd None None])].
Proof. exact fixed_10. Qed.

(* former witnesses of C08-6 (event renamed) and C08-9 (types.ts deleted): detected now *)
Theorem C08_repaired_events_and_lost_file :
  detects p0 c0 [Run _ _ _ _ w1 false; SetSrc _ _ _ _ (ex_proj (ex_struct None None v1) (ex_cmd None None) (L "pong"%string))] /\
  detects p0 c0 [Run _ _ _ _ w1 false; Delete _ _ _ _ Types].
Proof. split; [exact fixed_6|exact fixed_9]. Qed.

(* the former witnesses of C08-1..5 and C08-7 (serde rename of a field, struct rename_all, validator attributes
   in zod mode, command rename_all, parameter rename, visualize_deps switched on): the edit is detected now -
   the run regenerates, every file is current, no class *)
Theorem C08_repaired_witnesses_detected :
  (exists ops, detects p0 c0 ops) /\ detects p0 c0 [Run _ _ _ _ w1 false; SetCfg _ _ _ _ (ex_cfg "none" true)] /\
  detects p0 cz [Run _ _ _ _ w1 false; SetSrc _ _ _ _ (ex_proj (ex_struct None None v2) (ex_cmd None None) (L "ping"%string))] /\
  detects p0 c0 [Run _ _ _ _ w1 false; SetSrc _ _ _ _ (ex_proj (ex_struct None (Some (L "camelCase"%string)) v1) (ex_cmd None None) (L "ping"%string))] /\
  detects p0 c0 [Run _ _ _ _ w1 false; SetSrc _ _ _ _ (ex_proj (ex_struct None None v1) (ex_cmd (Some (L "snake_case"%string)) None) (L "ping"%string))] /\
  detects p0 c0 [Run _ _ _ _ w1 false; SetSrc _ _ _ _ (ex_proj (ex_struct None None v1) (ex_cmd None (Some (L "uid"%string))) (L "ping"%string))].
Proof. split; [eexists; exact fixed_1|]. split; [exact fixed_7|]. split; [exact fixed_3|]. split; [exact fixed_2|].
  split; [exact fixed_4|exact fixed_5]. Qed.

Theorem C08_refuted_means_unsound : forall cls p c ops, refutes cls p c ops ->
  exists r st', run_c true w1 false None (fst (final p c ops)) = (r, st') /\ r = UpToDate /\ ~ up_to_date_c w1 st'.
Proof. exact refutes_not_sound. Qed.

(* the repaired design (fingerprint that determines the output + presence test before answering
   up to date) is sound for all histories; abstract state machine of Proofs/RunSpike.v *)
Theorem C08_repaired_design_sound :
  forall (src cfg fname content fpT : Type)
    (fname_dec : forall a b : fname, {a = b} + {a <> b}) (fp_dec : forall a b : fpT, {a = b} + {a <> b})
    (files : src -> cfg -> list (fname * content)) (fp : src -> cfg -> fpT) (has_commands : src -> bool)
    (check_presence : bool),
    (forall s c, NoDup (map fst (files s c))) ->
    (forall s c s' c', fp s c = fp s' c' -> files s c = files s' c') ->
    check_presence = true ->
    forall ops st0, RunSpike.Inv src cfg fname content fpT files fp check_presence st0 ->
    let st := fold_left (RunSpike.step src cfg fname content fpT fname_dec fp_dec files fp has_commands check_presence) ops st0 in
    forall r st', RunSpike.run src cfg fname content fpT fname_dec fp_dec files fp has_commands check_presence false None st = (r, st') ->
    r = RunSpike.Success \/ r = RunSpike.UpToDate ->
    RunSpike.up_to_date src cfg fname content fpT files st'.
Proof. exact RunSpike.cache_sound. Qed.

(* non-vacuity *)
Example C08_ex_detected :
  let sg := final p0 c0 [Run _ _ _ _ w1 false; SetSrc _ _ _ _ p_field_type; Delete _ _ _ _ Events; Run _ _ _ _ w1 false; SetCfg _ _ _ _ cz] in
  kf_C08 w1 sg = [] /\ fst (run_c true w1 false None (fst sg)) = Success.
Proof. exact ex_detected. Qed.
Example C08_ex_hit :
  let sg := final p0 c0 [Run _ _ _ _ w1 false; SetSrc _ _ _ _ p_field_type; Run _ _ _ _ w1 false] in
  kf_C08 w1 sg = [] /\ fst (run_c true w1 false None (fst sg)) = UpToDate.
Proof. exact ex_hit. Qed.
Example C08_ex_validator_mode_none :
  let sg := final p0 c0 [Run _ _ _ _ w1 false; SetSrc _ _ _ _ (ex_proj (ex_struct None None v2) (ex_cmd None None) (L "ping"%string))] in
  kf_C08 w1 sg = [] /\ all_current w1 (snd (run_c true w1 false None (fst sg))) = true.
Proof. exact validator_none_harmless. Qed.

Print Assumptions C08_cache_sound.
Print Assumptions C08_inv_initial.
Print Assumptions C08_classes_complete.
Print Assumptions C08_refuted.
Print Assumptions C08_repaired_command_order.
Print Assumptions C08_repaired_events_and_lost_file.
Print Assumptions C08_repaired_witnesses_detected.
Print Assumptions C08_refuted_means_unsound.
Print Assumptions C08_repaired_design_sound.
