(* C08 - the cache never leaves stale bindings: success means output is current.
   Only statements, [exact], Examples and [Print Assumptions] live here. *)
From Coq Require Import String Ascii List Arith Bool.
Require Import TT.Model.Str TT.Model.C08Fingerprint TT.Model.C08Run.
Require Import TT.Proofs.C08RunProofs TT.Proofs.C08FpProofs TT.Proofs.C08Examples.
Require Import TT.Spec.TsLex TT.Model.C08Text TT.Proofs.C08TextProofs TT.Proofs.C08TextExamples TT.Proofs.C08OracleProofs.
Require TT.Proofs.RunSpike.
Import ListNotations.

Notation InvW_c := (InvW project config sched fname tree tree files fp).
Notation up_to_date_c := (up_to_date project config sched fname tree tree files).

(* Faithful model (presence test in the callers, the fingerprint of generation_cache.rs). For every history of source
   edits, configuration edits, deletions of output files, deletions of the record and forced or non-forced
   runs under arbitrary discovery orders, starting from any state satisfying the invariant (the empty
   directory does, and every reachable state does): a non-forced run that reports success or up to date
   leaves every file of a forced generation in place - unless the state before that run lies in a
   recorded class (kf_C08 = [8]: the command line numbers differ under visualize_deps while the fingerprints agree). Model of the code with the presence test in both callers (check_presence = true). *)
Theorem C08_cache_sound : forall (ops : list cop) (sg0 : cstate * option cgen) (w : sched),
  InvW_c sg0 ->
  let sg := fold_left (stepG_c true) ops sg0 in
  kf_C08 w sg = [] ->
  forall r st', run_c true w false None (fst sg) = (r, st') -> r = Success \/ r = UpToDate -> up_to_date_c w st'.
Proof. intros ops sg0 w HI sg Hk.
  apply (cache_sound_abstract project config sched fname tree tree fname_eqb tree_eqb files fp has_commands g_force true
           fname_eqb_spec files_nodup ops sg0 w HI).
  apply kf_nil_sound_hit. exact Hk. Qed.

(* the invariant holds in the empty output directory *)
Theorem C08_inv_initial : forall p c, InvW_c (init_state p c, None).
Proof. exact InvW_init. Qed.

(* completeness of the class list: equal fingerprints and equal unhashed components give equal files *)
Theorem C08_classes_complete : forall w p c w' p' c',
  fp w p c = fp w' p' c' -> unhashed w p c = unhashed w' p' c' -> files w p c = files w' p' c'.
Proof. exact fp_sound_modulo_unhashed. Qed.

(* the remaining class is a genuine failure of the faithful model: a computed history ends in a cache hit
   (result UpToDate) over files that are not those of a forced generation *)
Theorem C08_refuted : (exists ops, refutes [8] p0 (ex_cfg "none" true) ops) /\ (exists ops, refutes [8] p0 (ex_cfg "none" true) ops).
Proof. split; eexists; [exact refuted_8|exact refuted_8b]. Qed.

(* former witness of C08-10 (two commands of one file swapped; undetected while the hash sorted the commands by
   name): the hash keeps the source order inside a file, the edit is detected *)
Theorem C08_repaired_command_order :
  detects (p_two [ex_cmd None None; ex_cmd2]) c0 [Run _ _ _ _ w1 false; SetSrc _ _ _ _ (p_two [ex_cmd2; ex_cmd None None])].
Proof. exact fixed_10. Qed.

(* former witnesses of C08-6 (event renamed) and C08-9 (types.ts deleted): detected now *)
Theorem C08_repaired_events_and_lost_file :
  detects p0 c0 [Run _ _ _ _ w1 false; SetSrc _ _ _ _ (ex_proj (ex_struct None None v1) (ex_cmd None None) (L "pong"%string))] /\
  detects p0 c0 [Run _ _ _ _ w1 false; Delete _ _ _ _ Types].
Proof. split; [exact fixed_6|exact fixed_9]. Qed.

(* the former witnesses of C08-1..5 and C08-7 (serde rename of a field, struct rename_all, validator attributes
   in zod mode, command rename_all, parameter rename, visualize_deps switched on): the edit is detected now -
   the run regenerates, every file is current, no class *)
Theorem C08_repaired_witnesses_detected :
  (exists ops, detects p0 c0 ops) /\ detects p0 c0 [Run _ _ _ _ w1 false; SetCfg _ _ _ _ (ex_cfg "none" true)] /\
  detects p0 cz [Run _ _ _ _ w1 false; SetSrc _ _ _ _ (ex_proj (ex_struct None None v2) (ex_cmd None None) (L "ping"%string))] /\
  detects p0 c0 [Run _ _ _ _ w1 false; SetSrc _ _ _ _ (ex_proj (ex_struct None (Some (L "camelCase"%string)) v1) (ex_cmd None None) (L "ping"%string))] /\
  detects p0 c0 [Run _ _ _ _ w1 false; SetSrc _ _ _ _ (ex_proj (ex_struct None None v1) (ex_cmd (Some (L "snake_case"%string)) None) (L "ping"%string))] /\
  detects p0 c0 [Run _ _ _ _ w1 false; SetSrc _ _ _ _ (ex_proj (ex_struct None None v1) (ex_cmd None (Some (L "uid"%string))) (L "ping"%string))].
Proof. split; [eexists; exact fixed_1|]. split; [exact fixed_7|]. split; [exact fixed_3|]. split; [exact fixed_2|].
  split; [exact fixed_4|exact fixed_5]. Qed.

Theorem C08_refuted_means_unsound : forall cls p c ops, refutes cls p c ops ->
  exists r st', run_c true w1 false None (fst (final p c ops)) = (r, st') /\ r = UpToDate /\ ~ up_to_date_c w1 st'.
Proof. exact refutes_not_sound. Qed.

(* the repaired design (fingerprint that determines the output + presence test before answering
   up to date) is sound for all histories; abstract state machine of Proofs/RunSpike.v *)
Theorem C08_repaired_design_sound :
  forall (src cfg fname content fpT : Type)
    (fname_dec : forall a b : fname, {a = b} + {a <> b}) (fp_dec : forall a b : fpT, {a = b} + {a <> b})
    (files : src -> cfg -> list (fname * content)) (fp : src -> cfg -> fpT) (has_commands : src -> bool)
    (check_presence : bool),
    (forall s c, NoDup (map fst (files s c))) ->
    (forall s c s' c', fp s c = fp s' c' -> files s c = files s' c') ->
    check_presence = true ->
    forall ops st0, RunSpike.Inv src cfg fname content fpT files fp check_presence st0 ->
    let st := fold_left (RunSpike.step src cfg fname content fpT fname_dec fp_dec files fp has_commands check_presence) ops st0 in
    forall r st', RunSpike.run src cfg fname content fpT fname_dec fp_dec files fp has_commands check_presence false None st = (r, st') ->
    r = RunSpike.Success \/ r = RunSpike.UpToDate ->
    RunSpike.up_to_date src cfg fname content fpT files st'.
Proof. exact RunSpike.cache_sound. Qed.

(* ---------------- round 7: the text level ----------------
   Model/C08Text.v: a project as syntax (the item forms of Model/Pipeline.v), its analysis abs_project into the analysed
   data the fingerprint is computed from, the projection view_of = the views of the write plan, and the generated text of
   the text-level generator models (Pipeline.v types.ts / commands.ts token streams in plain mode, PipelineZod.v in zod
   mode, Events.v events.ts) applied to the items in generation order. *)

(* (a) the generated text is a function of the view: equal views give equal types.ts, commands.ts (both modes) and
   events.ts - across different projects, configurations and discovery orders *)
Theorem C08_text_function_of_view : forall w p c w' p' c', view_of w p c = view_of w' p' c' ->
  types_ts w p c = types_ts w' p' c' /\ commands_ts w p c = commands_ts w' p' c' /\
  zod_types_ts w p c = zod_types_ts w' p' c' /\ zod_commands_ts w p c = zod_commands_ts w' p' c' /\
  events_ts w p c = events_ts w' p' c'.
Proof. exact text_function_of_view. Qed.
(* the factorisation behind it: the text-level models read the syntax only through the analysed data, sorted as hashed *)
Theorem C08_types_ts_of_analysis : forall w p c,
  types_ts w p c = types_toks_a (a_structs_sorted (analyse w (abs_project p))) (a_cmds_sorted (g_ppath c) (analyse w (abs_project p))).
Proof. exact types_ts_of_analysis. Qed.
Example C08_ex_views_equal :
  view_of ex_w01 tp_user ex_tc = view_of ex_w10 tp_lines ex_tc /\ tp_user <> tp_lines /\
  List.length (types_ts ex_w01 tp_user ex_tc) = 122 /\ commands_ts ex_w01 tp_user ex_tc <> [] /\
  events_ts ex_w01 tp_user ex_tc <> None.
Proof. exact ex_views_equal. Qed.
Example C08_ex_views_equal_zod :
  view_of ex_w01 tp_user ex_tz = view_of ex_w10 tp_lines ex_tz /\
  List.length (zod_types_ts ex_w01 tp_user ex_tz) <> 0 /\ List.length (zod_commands_ts ex_w01 tp_user ex_tz) <> 0.
Proof. exact ex_views_equal_zod. Qed.

(* (b) the fingerprint covers the view: with the one unhashed component (class 8) equal - or the graph off - equal
   fingerprints give equal views; the text files need no side condition at all *)
Theorem C08_fp_covers_view : forall w p c w' p' c',
  fp_t w p c = fp_t w' p' c' -> unhashed_t w p c = unhashed_t w' p' c' -> view_of w p c = view_of w' p' c'.
Proof. exact fp_covers_view. Qed.
Theorem C08_fp_covers_view_no_graph : forall w p c w' p' c',
  fp_t w p c = fp_t w' p' c' -> g_viz c = false -> view_of w p c = view_of w' p' c'.
Proof. exact fp_covers_view_no_graph. Qed.
Theorem C08_fp_covers_text : forall w p c w' p' c', fp_t w p c = fp_t w' p' c' ->
  types_ts w p c = types_ts w' p' c' /\ commands_ts w p c = commands_ts w' p' c' /\
  zod_types_ts w p c = zod_types_ts w' p' c' /\ zod_commands_ts w p c = zod_commands_ts w' p' c' /\
  events_ts w p c = events_ts w' p' c' /\ ev_text w p c = ev_text w' p' c' /\ is_zod c = is_zod c'.
Proof. exact fp_covers_text. Qed.
Example C08_ex_fp_equal : fp_t ex_w01 tp_user ex_tc = fp_t ex_w10 tp_lines ex_tc /\ g_viz ex_tc = false /\
  unhashed_t ex_w01 tp_user ex_tc = unhashed_t ex_w10 tp_lines ex_tc.
Proof. exact ex_fp_equal. Qed.

(* C08_cache_sound composed to text: the same run / cache machine over syntax-level projects whose files hold the text
   (types.ts and commands.ts in both modes, events.ts in plain mode; views for index.ts, dependency-graph.*, zod events.ts).
   For every history, a non-forced run that reports success or up to date leaves every file of a forced generation in
   place with the text of a forced generation - outside class 8; with the graph off there is no class. *)
Theorem C08_cache_sound_text : forall (ops : list top) (sg0 : tstate * option tgen) (w : sched),
  InvW_t sg0 ->
  let sg := fold_left stepG_t ops sg0 in
  kf_C08_t w sg = [] ->
  forall r st', run_t w false None (fst sg) = (r, st') -> r = Success \/ r = UpToDate -> up_to_date_t w st'.
Proof. exact cache_sound_text. Qed.
Theorem C08_cache_sound_text_no_graph : forall (ops : list top) (sg0 : tstate * option tgen) (w : sched),
  InvW_t sg0 ->
  let sg := fold_left stepG_t ops sg0 in
  g_viz (s_cfg (fst sg)) = false ->
  forall r st', run_t w false None (fst sg) = (r, st') -> r = Success \/ r = UpToDate -> up_to_date_t w st'.
Proof. exact cache_sound_text_no_graph. Qed.
Theorem C08_inv_initial_text : forall p c, InvW_t (init_t p c, None).
Proof. exact InvW_t_init. Qed.
Example C08_ex_text_detected :
  let sg := final_t tp_user ex_tc [Run _ _ _ _ ex_w01 false; SetSrc _ _ _ _ tp_field; Delete _ _ _ _ Types] in
  kf_C08_t ex_w10 sg = [] /\ g_viz (s_cfg (fst sg)) = false /\ fst (run_t ex_w10 false None (fst sg)) = Success.
Proof. exact ex_text_detected. Qed.
Example C08_ex_text_hit :
  let sg := final_t tp_user ex_tc [Run _ _ _ _ ex_w01 false; SetSrc _ _ _ _ tp_lines] in
  kf_C08_t ex_w10 sg = [] /\ g_viz (s_cfg (fst sg)) = false /\ fst (run_t ex_w10 false None (fst sg)) = UpToDate.
Proof. exact ex_text_hit. Qed.

(* the other direction for the edit classes where it is immediate: a changed struct name, field key (field name, rename,
   effective rename_all) at any position, command name, event name changes the text *)
Theorem C08_struct_rename_changes_types_ts : forall pre s post s' post' cmds,
  Pipeline.types_toks (pre ++ s :: post) cmds = Pipeline.types_toks (pre ++ s' :: post') cmds -> Pipeline.s_name s = Pipeline.s_name s'.
Proof. exact struct_rename_changes_types_ts. Qed.
Theorem C08_field_key_changes_struct_toks : forall s pre f post f' post' R R',
  Pipeline.skipped (Pipeline.f_serde f) = false -> Pipeline.skipped (Pipeline.f_serde f') = false ->
  Pipeline.ty_toks (Pipeline.field_key s f) = [KId (Pipeline.field_key s f)] -> Pipeline.ty_toks (Pipeline.field_key s f') = [KId (Pipeline.field_key s f')] ->
  Pipeline.struct_toks (with_fields s (pre ++ f :: post)) ++ R = Pipeline.struct_toks (with_fields s (pre ++ f' :: post')) ++ R' ->
  Pipeline.field_key s f = Pipeline.field_key s f'.
Proof. exact field_key_changes_struct_toks. Qed.
Theorem C08_command_rename_changes_commands_ts : forall pre f n post,
  Pipeline.commands_toks (pre ++ f :: post) = Pipeline.commands_toks (pre ++ renamed n f :: post) -> Pipeline.fn_name f = n.
Proof. exact command_rename_changes_commands_ts. Qed.
Theorem C08_event_rename_changes_listener : forall e e' R R',
  ~ In "'"%char (fst e) -> ~ In "'"%char (fst e') ->
  Events.listener_text e ++ R = Events.listener_text e' ++ R' -> fst e = fst e'.
Proof. exact event_rename_changes_listener. Qed.
Example C08_ex_struct_rename : Pipeline.types_toks [ex_s "User" "user_id"] Pipeline.cmds <> Pipeline.types_toks [ex_s "Account" "user_id"] Pipeline.cmds.
Proof. exact ex_struct_rename. Qed.
Example C08_ex_field_rename :
  Pipeline.struct_toks (with_fields Pipeline.user (firstn 2 (Pipeline.s_fields Pipeline.user) ++ ex_f "first_name" :: [])) <>
  Pipeline.struct_toks (with_fields Pipeline.user (firstn 2 (Pipeline.s_fields Pipeline.user) ++ ex_f "last_name" :: [])).
Proof. exact ex_field_rename. Qed.
Example C08_ex_command_rename :
  Pipeline.commands_toks ([] ++ ex_c0 :: tl Pipeline.cmds) <> Pipeline.commands_toks ([] ++ renamed (L "fetch_user"%string) ex_c0 :: tl Pipeline.cmds).
Proof. exact ex_command_rename. Qed.
Example C08_ex_event_rename :
  Events.listener_text (L "ping"%string, L "String"%string) ++ [] <> Events.listener_text (L "pong"%string, L "String"%string) ++ [].
Proof. exact ex_event_rename. Qed.

(* round 7: the run-time oracle c08_ok (extracted; applied to the implementation's missing / different lists) and the
   boolean all_current are equivalent to the Prop-level statement: success or up to date implies every file of a forced
   generation is in place *)
Theorem C08_oracle_reflects : forall w r st,
  c08_ok r (fst (stale w st)) (snd (stale w st)) = true <-> (r = Success \/ r = UpToDate -> up_to_date_c w st).
Proof. exact c08_ok_reflects. Qed.
Theorem C08_all_current_reflects : forall w st, all_current w st = true <-> up_to_date_c w st.
Proof. exact all_current_reflects. Qed.
Example C08_ex_oracle : c08_ok UpToDate [] [] = true /\ c08_ok UpToDate [Types] [] = false /\ c08_ok Failure [Types] [] = true.
Proof. repeat split. Qed.

(* non-vacuity *)
Example C08_ex_detected :
  let sg := final p0 c0 [Run _ _ _ _ w1 false; SetSrc _ _ _ _ p_field_type; Delete _ _ _ _ Events; Run _ _ _ _ w1 false; SetCfg _ _ _ _ cz] in
  kf_C08 w1 sg = [] /\ fst (run_c true w1 false None (fst sg)) = Success.
Proof. exact ex_detected. Qed.
Example C08_ex_hit :
  let sg := final p0 c0 [Run _ _ _ _ w1 false; SetSrc _ _ _ _ p_field_type; Run _ _ _ _ w1 false] in
  kf_C08 w1 sg = [] /\ fst (run_c true w1 false None (fst sg)) = UpToDate.
Proof. exact ex_hit. Qed.
Example C08_ex_validator_mode_none :
  let sg := final p0 c0 [Run _ _ _ _ w1 false; SetSrc _ _ _ _ (ex_proj (ex_struct None None v2) (ex_cmd None None) (L "ping"%string))] in
  kf_C08 w1 sg = [] /\ all_current w1 (snd (run_c true w1 false None (fst sg))) = true.
Proof. exact validator_none_harmless. Qed.

Print Assumptions C08_cache_sound.
Print Assumptions C08_inv_initial.
Print Assumptions C08_classes_complete.
Print Assumptions C08_refuted.
Print Assumptions C08_repaired_command_order.
Print Assumptions C08_repaired_events_and_lost_file.
Print Assumptions C08_repaired_witnesses_detected.
Print Assumptions C08_refuted_means_unsound.
Print Assumptions C08_repaired_design_sound.
Print Assumptions C08_text_function_of_view.
Print Assumptions C08_types_ts_of_analysis.
Print Assumptions C08_fp_covers_view.
Print Assumptions C08_fp_covers_view_no_graph.
Print Assumptions C08_fp_covers_text.
Print Assumptions C08_cache_sound_text.
Print Assumptions C08_cache_sound_text_no_graph.
Print Assumptions C08_inv_initial_text.
Print Assumptions C08_struct_rename_changes_types_ts.
Print Assumptions C08_field_key_changes_struct_toks.
Print Assumptions C08_command_rename_changes_commands_ts.
Print Assumptions C08_event_rename_changes_listener.
Print Assumptions C08_oracle_reflects.
Print Assumptions C08_all_current_reflects.
