(* C12 - one correctly named, correctly subscribed listener per emitted event.
   Only statements, [exact], Examples and [Print Assumptions] live here.
   Model: Model/Events.v (event_parser.rs, event_name_to_function, events.ts template).
   Specification: Spec/C12Spec.v (EmitsAt / EmitsIn, evident_type, expect_ty, sites, oracle, classes). *)
From Coq Require Import String Ascii List Arith Bool.
Require Import TT.Model.Str TT.Spec.TsLex TT.Spec.TsModule TT.Spec.TsObs TT.Model.Pipeline TT.Model.Events TT.Spec.C12Spec.
Require Import TT.Proofs.C12Proofs TT.Proofs.C12Exact TT.Proofs.C12Payload TT.Proofs.C12Parse TT.Proofs.C12Lex TT.Proofs.C12Prefix TT.Proofs.C12Legal TT.Proofs.C12Full TT.Proofs.C12Names.
Require Import TT.Spec.C12Bind TT.Proofs.C12Bindings.
Require Import TT.Model.TypeParse TT.Model.Render TT.Spec.C05Spec TT.Proofs.TypeParseProofs.
Import ListNotations.

(* Walker completeness: every emit at a documented placement (expression statement, let
   initialiser, if / else, match arm, loop / while / for body, nested block, under ? and .await,
   receiver of a method call) on a documented receiver, in any top-level function of any file,
   yields an event - for every function body (no depth bound) and every parameter list. *)
Theorem C12_walker_complete : forall (p : project) f d n pl,
  In f (p_files p) -> In d f -> EmitsIn (fd_body d) n pl -> exists t, In (n, t) (project_events p).
Proof. exact project_complete. Qed.

(* Conversely, on in-domain projects (nothing the walker could see sits at an undocumented
   position) every event comes from a documented emit of a top-level function ... *)
Theorem C12_walker_sound : forall p n t, in_domain p = true -> In (n, t) (project_events p) ->
  exists f d pl, In f (p_files p) /\ In d f /\ EmitsIn (fd_body d) n pl.
Proof. exact walker_sound. Qed.

(* ... and the event list is exactly the list of documented sites, in order, each with the
   payload string inferred under the symbol table in force at that site. *)
Theorem C12_walker_exact : forall p, in_domain p = true -> project_events p = map ev_of (project_sites p).
Proof. exact walker_exact. Qed.

(* The function identifier is a legal, non-reserved TypeScript identifier for EVERY event name
   (since C12-fix-dedup-and-identifier: every non-alphanumeric character becomes '_' first). *)
Theorem C12_listener_ident_legal : forall n, is_legal_binding_name (listener_name n) = true.
Proof. exact listener_name_legal. Qed.

(* For every event list outside the one remaining naming class (two distinct names with one
   identifier): one listener per distinct name however often it is emitted (the first emit wins),
   subscribed to exactly that name, legal and pairwise distinct identifiers. *)
Theorem C12_listener_records_partial : forall (l : evs),
  let names := map fst l in
  (forall n, In n names -> kf_collision names n = false) ->
  let ls := model_listeners l in
  map ml_event ls = first_names names /\ NoDup (map ml_event ls) /\
  (forall n, In n names -> exists x, In x ls /\ ml_event x = n /\ forall y, In y ls -> ml_event y = n -> y = x) /\
  (forall x, In x ls -> is_legal_binding_name (ml_ident x) = true) /\
  NoDup (map ml_ident ls).
Proof. exact listeners_partial. Qed.

(* Payload: whenever the tool's symbol table agrees with the evident-type environment, the
   payload_type string is the (last segment of the) evident type, or "()" for the unit value. *)
Theorem C12_payload_simple_partial : forall p env sy t,
  evident_type p env = Some t -> agree_on env sy ->
  infer_payload p sy = type_name t \/ (t = QTuple [] /\ infer_payload p sy = L "()").
Proof. exact payload_simple_partial. Qed.

(* Every documented site outside the payload classes carries the payload string of its evident
   type (last path segment; "()" for the unit value) and `unknown` when no type is evident. No
   invariant is needed: the classes speak about the table in force at the site. *)
Theorem C12_payload_site : forall s, kf_payload s = false -> degenerate (pcore s) = false ->
  payload_ok (s_payload s) (s_env s) (s_sy s).
Proof. exact payload_site. Qed.

(* Main theorem, project level, on the complement of the classes: for every in-domain project whose
   documented names lie outside the naming class kf_collision, the listeners generated from the walker's
   events are in bijection with the documented names, each subscribed to exactly its name, under
   legal pairwise distinct identifiers; every event stems from a documented site and, outside the
   payload classes, has the payload string of the site's evident type. (Partial: stated on the
   listener records the template is applied to, not on the parsed text of events.ts.) *)
Theorem C12_listeners_partial : forall p, in_domain p = true ->
  let names := site_names (project_sites p) in
  (forall n, In n names -> kf_collision names n = false) ->
  let ls := model_listeners (project_events p) in
  map ml_event ls = first_names names /\ NoDup (map ml_event ls) /\
  (forall n, In n names -> exists x, In x ls /\ ml_event x = n /\ forall y, In y ls -> ml_event y = n -> y = x) /\
  (forall x, In x ls -> is_legal_binding_name (ml_ident x) = true) /\
  NoDup (map ml_ident ls) /\
  (forall n t, In (n, t) (project_events p) -> exists s, In s (project_sites p) /\ s_name s = n /\
     t = infer_payload (s_payload s) (s_sy s) /\
     (kf_payload s = false -> degenerate (pcore s) = false -> payload_ok (s_payload s) (s_env s) (s_sy s))).
Proof. exact listeners_project. Qed.

(* No events: no events.ts and no re-export; with events (and a command) the file is the template
   applied to exactly the event list and index.ts re-exports it. *)
Theorem C12_no_events_no_file : forall p, project_events p = [] ->
  o_events_ts (generate p) = None /\ o_index_reexports_events (generate p) = false.
Proof. exact no_events_no_file. Qed.
Theorem C12_events_file_written : forall p, project_events p <> [] -> p_has_command p = true ->
  o_events_ts (generate p) = Some (events_text (map_events (p_mappings p) (project_events p))) /\ o_index_reexports_events (generate p) = true.
Proof. exact events_file_written. Qed.
(* the oracle, on a project without documented emits, accepts exactly "no module, no re-export" *)
Theorem C12_no_sites_oracle : forall p ev ix, project_sites p = [] ->
  oracle (project_sites p) ev ix = [] <-> (ev = None /\ reexports_events ix = Some false).
Proof. exact no_sites_oracle. Qed.

(* The recorded classes: each witness lies in the domain, in exactly that class, the oracle
   complains about the faithful model's output, and every complaint is accounted for by the class. *)
Theorem C12_kf_collision_refuted : witness w_collide "kf_collision" /\ witness w_collide2 "kf_collision".
Proof. exact (conj witness_collide witness_collide2). Qed.
Theorem C12_kf_name_fallback_refuted : witness w_name "kf_name_fallback". Proof. exact witness_name. Qed.
Theorem C12_kf_last_segment_refuted : witness w_lastseg "kf_last_segment". Proof. exact witness_lastseg. Qed.
Theorem C12_kf_ctor_guess_refuted : witness w_ctor "kf_ctor_guess". Proof. exact witness_ctor. Qed.
Theorem C12_kf_scope_refuted : witness w_scope "kf_scope". Proof. exact witness_scope. Qed.
Theorem C12_kf_no_command_refuted : witness w_nocmd "kf_no_command". Proof. exact witness_nocmd. Qed.
(* The witnesses of the repaired defects (C12-dup, C12-ident, C12-tuple, C12-path) now satisfy the
   property: in the domain, in no class, and the oracle accepts the model's files. *)
Theorem C12_dup_repaired : repaired w_dup /\ repaired w_dup2. Proof. exact repaired_dup. Qed.
Theorem C12_ident_repaired : repaired w_ident /\ listener_name (L "user:created/now") = L "onUserCreatedNow".
Proof. exact repaired_ident. Qed.
Theorem C12_tuple_repaired : repaired w_tuple. Proof. exact repaired_tuple. Qed.
Theorem C12_path_repaired : repaired w_path. Proof. exact repaired_path. Qed.
Theorem C12_refuted_without_classes : exists p, in_domain p = true /\ model_complaints p <> [].
Proof. exact full_statement_needs_classes. Qed.

(* String level, token part (for every list of listener records): the token stream of the events
   module - the two imports, then the listener template once per record with its three holes -
   contains no lexical error, is parsed by the specification parser into the two imports followed by
   exactly one async function item per record, and the observation layer reads back exactly the
   records (identifier, handler payload type, one listen call, its type argument and event name).
   Payload type holes: the five primitive texts, or types.N for an identifier N other than listen. *)
Theorem C12_events_tokens_parse : forall rs, forallb rec_ok rs = true ->
  has_err (module_toks rs) = false /\
  p_items (S (List.length (module_toks rs))) (module_toks rs) [] = Some (header_items ++ map rec_item rs) /\
  lsts (header_items ++ map rec_item rs) = map rec_lst rs.
Proof. intros rs H. exact (conj (no_err_module rs) (conj (parse_module_toks rs H) (lsts_module rs H))). Qed.

(* The whole property on the model, NOT asserted: what remains unproved is the string level - that
   the payload string is rendered to the expected TypeScript type text and that the module parser
   reads the template text back into the listener records (both hold by evaluation on C12_ex_clean
   and on every case of the correspondence run). *)
Definition C12_full_statement : Prop := C12Proofs.C12_full_statement.

(* String level, character part (for every event list with legal names whose payload texts are one of
   the five primitive texts or types.N): the specification lexer reads exactly module_toks from the
   text the model prints (fuel included; the event name passes through the doc comment and the
   single-quoted literal because the legal alphabet has no quote, backslash, line break or star). *)
Theorem C12_lex_statement : forall l : evs,
  (forall e, In e l -> legal_event_name (fst e) = true) -> forallb rec_ok (model_recs l) = true ->
  lex_module (events_text l) = module_toks (model_recs l).
Proof. exact lex_statement_holds. Qed.
(* Hence the events.ts text of the model parses back, with the specification lexer and parser and
   the observation layer, to exactly the listener records. *)
Theorem C12_events_text_parses : forall l : evs,
  (forall e, In e l -> legal_event_name (fst e) = true) -> forallb rec_ok (model_recs l) = true ->
  parse_module (events_text l) = Some (header_items ++ map rec_item (model_recs l)) /\
  option_map lsts (parse_module (events_text l)) = Some (map rec_lst (model_recs l)).
Proof. exact events_text_parses. Qed.

(* A custom payload type name N (identifier characters, not a primitive Rust name, not a TypeScript
   builtin) is rendered by parse_type_structure / visitor / add_types_prefix to the text types.N -
   for every such N (the finite leaves are payload_ts_leaves). *)
Theorem C12_payload_text_custom : forall n, ident n -> idstr n -> prim_of n = None -> builtin n = false ->
  payload_ts n = L "types." ++ n.
Proof. exact payload_ts_custom. Qed.

(* THE COMPOSITION. For every in-domain project outside the classes that also satisfies the boolean
   side condition payload_dom (for every documented site the payload text the model renders - after
   type_mappings - has one of the two token shapes and denotes the expected type of the site), the
   oracle has NO complaint about the files the model generates: walker exactness, legal event names
   (from in_domain), one listener per name, text -> tokens -> items -> records, and every per-record
   check of the oracle compose. *)
Theorem C12_full : forall p, in_domain p = true -> kf_project p = false -> payload_dom p = true -> model_complaints p = [].
Proof. exact full_on_payload_dom. Qed.
(* every documented event name of an in-domain project is over the legal alphabet *)
Theorem C12_sites_legal : forall p, in_domain p = true -> forall s, In s (project_sites p) -> legal_event_name (s_name s) = true.
Proof. exact project_sites_legal. Qed.
(* The same with the side condition reduced to payload type NAMES, using the absence of the payload
   classes (C12_payload_site's analysis: outside the classes a payload is the unit value, non-evident, or
   has a plain named type whose name the tool inferred): no mapping for the name `unknown`, no
   struct expression with an empty path, and every inferred payload type name N satisfies name_ok -
   its rendered text after type_mappings has one of the two shapes and denotes the translation of N. *)
Theorem C12_full_names : forall p, in_domain p = true -> kf_project p = false -> names_dom p = true -> model_complaints p = [].
Proof. exact full_on_names_dom. Qed.
(* name_ok holds for every primitive Rust name under every mapping, and for every unmapped custom name
   that is an identifier, not a TypeScript builtin, not a container name and not `listen` *)
Theorem C12_name_ok_prim : forall mp n p, prim_ts n = Some p -> name_ok mp n = true.
Proof. exact name_ok_prim. Qed.
Theorem C12_name_ok_custom : forall mp n, ident n -> idstr n -> prim_of n = None -> builtin n = false -> prim_ts n = None ->
  container n = false -> lookup n mp = None -> is_ts_identifier n = true -> str_eqb n (L "listen") = false -> name_ok mp n = true.
Proof. exact name_ok_custom. Qed.
(* the same at the level of one events.ts text, for any site list and mapping *)
Theorem C12_oracle_accepts_text : forall mp ss ix,
  forallb (fun s => legal_event_name (s_name s) && site_payload_ok mp s) ss = true ->
  (forall n, In n (site_names ss) -> kf_collision (site_names ss) n = false) -> ss <> [] ->
  oracle_m mp ss (Some (events_text (map_events mp (map ev_of ss)))) ix = [].
Proof. intros mp ss ix H1 H2 H3. exact (oracle_text_ok mp ss H1 H2 ix H3). Qed.
(* The remaining gap to C12_full_statement, NOT asserted (and false without name hygiene): names_dom follows from in_domain and the
   absence of the payload classes under name hygiene (type names are identifiers that are neither
   TypeScript builtins, nor container names without arguments, nor `listen`; mapping targets likewise). *)
Definition C12_names_dom_statement : Prop :=
  forall p, in_domain p = true -> kf_project p = false -> names_dom p = true.

(* ---- non-vacuity ---- *)
Definition clean_body : list stmt := [
  SLet (PTyped (L "q") (T0 "Progress")) (Some (XCall (V "make") []));
  SExpr (XIf [SExpr (M0 (emit app "in-if" (V "q")) "ok")]
             (Some (XBlock [SExpr (XTry (XAwait (emit (XField (V "state") (L "window")) "in-else" (XRef (V "p")))))])));
  SExpr (XMatch [XBlock [SExpr (M0 (emit (M0 app "handle") "arm_block" (M0 (V "p") "clone")) "ok")];
                 M0 (XMethod (V "window") (L "emit_to") [S_ "main"; S_ "arm-expr"; XStruct [L "models"; L "Progress"]]) "unwrap"]);
  SExpr (XLoop [SExpr (XFor [SLet (PIdent (L "_r")) (Some (emit app "deep" (V "n")))]); SOther]);
  SExpr (M0 (emit (V "other") "not-counted" (V "p")) "ok");
  SExpr (M0 (emit app "unit" (XTuple [])) "ok") ].
Definition clean_project : project := mk1 clean_body true.
(* a rich project inside the domain and outside every class: the oracle accepts the model's files,
   and the events are the five documented ones *)
Example C12_ex_clean : in_domain clean_project = true /\ kf_project clean_project = false /\
  model_complaints clean_project = [] /\
  project_events clean_project = [(L "in-if", L "Progress"); (L "in-else", L "Progress"); (L "arm_block", L "Progress");
                                  (L "arm-expr", L "Progress"); (L "deep", L "u32"); (L "unit", L "()")].
Proof. vm_compute. repeat split; reflexivity. Qed.
Example C12_ex_clean_premises :
  let names := site_names (project_sites clean_project) in
  forallb (fun n => negb (kf_collision names n)) names = true /\
  forallb (fun s => negb (kf_payload s) && negb (degenerate (pcore s))) (project_sites clean_project) = true /\
  List.length names = 6.
Proof. vm_compute. repeat split; reflexivity. Qed.
(* the lexing step holds by evaluation on the clean project (6 listeners, all payload shapes), so that
   C12_events_tokens_parse applies to the model's actual text *)
Example C12_ex_lex_link :
  lex_module (events_text (project_events clean_project)) = module_toks (model_recs (project_events clean_project)) /\
  forallb rec_ok (model_recs (project_events clean_project)) = true /\
  map r_ty (model_recs (project_events clean_project)) =
    [PCustom (L "Progress"); PCustom (L "Progress"); PCustom (L "Progress"); PCustom (L "Progress"); PPrim (L "number"); PPrim (L "void")].
Proof. vm_compute. repeat split; reflexivity. Qed.
Definition mapped_project : project :=
  {| p_files := p_files clean_project; p_has_command := true; p_mappings := [(L "Progress", L "string"); (L "Other", L "number")] |}.
Example C12_ex_full_dom : names_dom clean_project = true /\ payload_dom clean_project = true /\ payload_dom (mk1 worker_body true) = false /\
  in_domain mapped_project = true /\ kf_project mapped_project = false /\ names_dom mapped_project = true /\
  map ml_payload (model_listeners (map_events (p_mappings mapped_project) (project_events mapped_project))) =
    [L "string"; L "string"; L "string"; L "string"; L "number"; L "void"].
Proof. repeat split; vm_compute; reflexivity. Qed.
Example C12_ex_emits_in : EmitsIn clean_body (L "in-else") (XRef (V "p")).
Proof.
  eapply EI_expr; [right; left; reflexivity|]. apply EA_else. apply EA_block.
  eapply EI_expr; [left; reflexivity|]. apply EA_try. apply EA_await. apply EA_here; try reflexivity.
Qed.
Example C12_ex_listeners_premises :
  let l := [(L "user-updated", L "User"); (L "tick", L "i32"); (L "ns:job/9", L "unknown"); (L "tick", L "String")] in
  let names := map fst l in
  (forall n, In n names -> kf_collision names n = false) /\
  map ml_ident (model_listeners l) = [L "onUserUpdated"; L "onTick"; L "onNsJob9"] /\
  map ml_payload (model_listeners l) = [L "types.User"; L "number"; L "unknown"].
Proof.
  cbv zeta. repeat split; try (intros n [<-|[<-|[<-|[<-|[]]]]]; vm_compute; reflexivity).
Qed.
Example C12_ex_payload : agree_on [(L "x", KEv (T1 "Vec" (T0 "User")))] [(L "x", L "Vec")] /\
  evident_type (XRef (M0 (V "x") "clone")) [(L "x", KEv (T1 "Vec" (T0 "User")))] = Some (T1 "Vec" (T0 "User")).
Proof.
  split; [|reflexivity]. intros y t H. cbn [rlookup] in H. cbn [lookup].
  destruct (str_eqb y (L "x")); [|discriminate H]. inversion H. reflexivity.
Qed.
Example C12_ex_no_events : project_events (mk1 [SExpr (M0 (emit (V "other") "x" (XLit LInt)) "ok")] true) = [].
Proof. vm_compute. reflexivity. Qed.
Example C12_ex_ident : listener_name (L "download-progress_2") = L "onDownloadProgress2" /\ listener_name (L "a.b c") = L "onABC".
Proof. vm_compute. split; reflexivity. Qed.

(* ---------------- binding histories: the per-function symbol table as a state machine ----------------
   Spec/C12Bind.v: bind (one let statement, = extract_local_binding), run (the fold over the statements
   before the emit), infer (= infer_payload_type under the resulting table); last_typable / last_kind
   read the history of the bindings of ONE name. *)

(* (1) for every history and every start table: the entry of x after the run is the type recorded by the
   LAST TYPABLE binding of x, else the entry it had before (a parameter) *)
Theorem C12_bindings_table_last_typable : forall x ss sy,
  lookup x (run sy ss) = match last_typable x sy ss with Some t => Some t | None => lookup x sy end.
Proof. exact lookup_run. Qed.

(* un-typable re-bindings are invisible: a let of x the tool cannot type (no annotation; initialiser not a
   struct literal, A::b(..) call or typed variable; or no initialiser) changes no table, so deleting it from
   the history changes nothing the tool infers afterwards *)
Theorem C12_bindings_untypable_invisible : forall x pre s post sy,
  rebinds x s = true -> typed_as x s (run sy pre) = None ->
  run sy (pre ++ s :: post) = run sy (pre ++ post).
Proof. exact untypable_invisible. Qed.

(* the inferred type at the emit: when the last binding of x is typable it is that binding's type *)
Theorem C12_bindings_infer_last_typable : forall x ss sy t,
  last_kind x sy ss = Some (Some t) -> infer (run sy ss) (XPath [x]) = t.
Proof. exact infer_last_typable. Qed.

(* the state machine IS the walker on straight-line bodies: parameters, then any plain statements, then an
   emit of x (bare, under & or .clone()) give exactly one event whose payload string is hist_type *)
Theorem C12_bindings_walker_history : forall params ss n p x,
  forallb plain_stmt ss = true -> var_payload x p = true ->
  fn_events_p params (ss ++ [emit_stmt n p]) = [(n, hist_type x (param_symbols params) ss)].
Proof. exact fn_events_history. Qed.

(* the class C12-scope (finding C05-10) in terms of histories is kf_bind_scope: the last binding is
   un-typable and the table still answers.  On its complement, with the last binding typable, the listener
   generated for the emit has exactly that binding's type as its payload type. *)
Theorem C12_bindings_listener_typable : forall params ss n p x t,
  forallb plain_stmt ss = true -> var_payload x p = true ->
  last_kind x (param_symbols params) ss = Some (Some t) ->
  model_listeners (fn_events_p params (ss ++ [emit_stmt n p])) =
  [{| ml_ident := listener_name n; ml_event := n; ml_payload := payload_ts t |}].
Proof. exact bindings_listener_typable. Qed.

(* the whole complement of the class, case by case *)
Theorem C12_bindings_complement : forall x sy ss,
  kf_bind_scope x sy ss = false ->
  infer (run sy ss) (XPath [x]) =
  match last_kind x sy ss with
  | Some (Some t) => t
  | Some None => unraw x
  | None => match lookup x sy with Some t => t | None => unraw x end
  end.
Proof. exact bindings_complement. Qed.

(* inside the class the tool answers with the stale entry of an EARLIER binding *)
Theorem C12_bindings_scope_stale : forall x ss sy,
  kf_bind_scope x sy ss = true ->
  exists u, lookup x (run sy ss) = Some u /\ infer (run sy ss) (XPath [x]) = u /\ last_kind x sy ss = Some None.
Proof. exact scope_class_stale. Qed.

(* (2) a witness inside the class: let u = User{..}; let k: u32; let u = compute(); emit(.., u) - in the
   domain, in exactly the recorded class kf_scope, the oracle complains, and the listener says types.User *)
Theorem C12_bindings_scope_refuted :
  witness w_bind_scope "kf_scope" /\
  kf_bind_scope (L "u") (param_symbols (map (fun q => (Some (fst q), snd q)) worker_params)) hist_scope = true /\
  map ml_payload (model_listeners (project_events w_bind_scope)) = [L "types.User"].
Proof. exact witness_bind_scope. Qed.

(* premises of the binding theorems on a history of three bindings (un-typable, typable, other name) *)
Example C12_ex_bindings :
  let sy := param_symbols (map (fun q => (Some (fst q), snd q)) worker_params) in
  forallb plain_stmt hist_typable = true /\ var_payload (L "u") (XRef (M0 (V "u") "clone")) = true /\
  last_kind (L "u") sy hist_typable = Some (Some (L "User")) /\ last_typable (L "u") sy hist_typable = Some (L "User") /\
  kf_bind_scope (L "u") sy hist_typable = false /\
  rebinds (L "u") (SLet (PIdent (L "u")) (Some (XCall (V "compute") []))) = true /\
  typed_as (L "u") (SLet (PIdent (L "u")) (Some (XCall (V "compute") []))) (run sy []) = None /\
  kf_bind_scope (L "p") sy [SLet (PIdent (L "p")) None] = true /\ last_kind (L "n") sy hist_typable = None.
Proof. vm_compute. repeat split; reflexivity. Qed.

Print Assumptions C12_walker_complete.
Print Assumptions C12_walker_sound.
Print Assumptions C12_walker_exact.
Print Assumptions C12_listener_ident_legal.
Print Assumptions C12_listener_records_partial.
Print Assumptions C12_payload_simple_partial.
Print Assumptions C12_payload_site.
Print Assumptions C12_listeners_partial.
Print Assumptions C12_no_events_no_file.
Print Assumptions C12_events_file_written.
Print Assumptions C12_no_sites_oracle.
Print Assumptions C12_kf_collision_refuted.
Print Assumptions C12_kf_name_fallback_refuted.
Print Assumptions C12_kf_last_segment_refuted.
Print Assumptions C12_kf_ctor_guess_refuted.
Print Assumptions C12_kf_scope_refuted.
Print Assumptions C12_kf_no_command_refuted.
Print Assumptions C12_dup_repaired.
Print Assumptions C12_ident_repaired.
Print Assumptions C12_tuple_repaired.
Print Assumptions C12_path_repaired.
Print Assumptions C12_refuted_without_classes.
Print Assumptions C12_events_tokens_parse.
Print Assumptions C12_lex_statement.
Print Assumptions C12_events_text_parses.
Print Assumptions C12_payload_text_custom.
Print Assumptions C12_full.
Print Assumptions C12_sites_legal.
Print Assumptions C12_full_names.
Print Assumptions C12_name_ok_prim.
Print Assumptions C12_name_ok_custom.
Print Assumptions C12_oracle_accepts_text.
Print Assumptions C12_bindings_table_last_typable.
Print Assumptions C12_bindings_untypable_invisible.
Print Assumptions C12_bindings_infer_last_typable.
Print Assumptions C12_bindings_walker_history.
Print Assumptions C12_bindings_listener_typable.
Print Assumptions C12_bindings_complement.
Print Assumptions C12_bindings_scope_stale.
Print Assumptions C12_bindings_scope_refuted.
