(* C18 - a type mapping replaces the mapped type everywhere and nothing else.
   Statements, [exact], Examples and [Print Assumptions] only. Same model as C05 with a table m
   (GenerateConfig.type_mappings): Model/C05Emit.v. Specification: Spec/C05Spec.v (rshape m: the README
   shape in which every mapped name, at any depth, is its target), Spec/C18Spec.v (relational token-level
   oracle), Spec/C18Known.v (classes). *)
From Coq Require Import String Ascii.
From Coq Require Import List Arith Bool.
Require Import TT.Model.Str TT.Model.TypeParse TT.Spec.TsType TT.Model.Render TT.Model.C05Emit.
Require Import TT.Spec.C05Spec TT.Spec.C05Known TT.Spec.C18Spec TT.Spec.C18Known.
Require Import TT.Model.C05Parse TT.Proofs.C05ParseProofs.
Require Import TT.Proofs.TypeParseProofs TT.Proofs.RenderProofs TT.Proofs.C05Proofs TT.Proofs.C05Sweep TT.Proofs.C05Examples TT.Proofs.C18Proofs.
Require Import TT.Proofs.C05PrefixProofs TT.Proofs.C05OracleProofs.
Require TT.Model.C10Zod TT.Spec.C10Check TT.Proofs.C10Depth.
Require Import TT.Proofs.C05ZodProofs.
Require Import TT.Spec.TsLex TT.Proofs.C18RelProofs TT.Model.C18Decl TT.Proofs.C18DeclProofs.
Require TT.Proofs.C18TokProofs.
Import ListNotations.
Local Open Scope string_scope.

(* Not asserted as a whole: substitution (both clauses of the oracle) at every site in both modes.
   After the repairs no class of C18 is left at the sites (kf_C18 is constantly false). PROVED for all inputs:
   the frame clause at every site (C18_frame); the absolute clause at all ten site x mode pairs
   (C18_subst_all_sites, C10 domain, no parsing hypothesis); the relational clause c18_ok at the four pairs
   whose text is the unqualified TypeScript type (C18_relational_unqualified_sites, round 7).
   Remaining on bounded sweeps of the model (C18_sweep_depth1_partial; depth 2 in Proofs/C18Sweep2.v) and
   the run-time oracle: the relational clause at return / event payload sites (qualified text), at the two
   Zod schema sites, and for generic keys such as DateTime<Utc>. *)
Definition C18_subst_full_statement : Prop :=
  forall (s : site) (md : mode) (m : mapping) (t : rty),
    mapping_ok m -> dom_m m t = true -> kf_C18 s md m t = false ->
    exists w wo, emit_type s md m t = Some w /\ emit_type s md [] t = Some wo /\
                 c18_full_ok s md m t w wo = true.

(* Nothing else: for EVERY string the analysis may hand over, every site, both modes - if no custom
   name of the parsed structure is a key of the table, the site prints byte for byte what it prints
   without the table (visitors, Zod visitor, schema builder and add_types_prefix included). *)
Theorem C18_frame : forall s md m opt ty,
  (forall ts, parse_type_structure2 ty = Some ts -> unmapped m ts) ->
  emit_str s md m opt ty = emit_str s md [] opt ty.
Proof. exact frame_str. Qed.

Theorem C18_frame_type : forall s md m t,
  wf t -> nobr t -> unmapped m (sem t) -> emit_type s md m t = emit_type s md [] t.
Proof. exact frame_type. Qed.

(* Everywhere: the text rendered with the table is the text of the structure in which every custom
   name that is a key, at any depth, is replaced by the primitive it is mapped to. *)
Theorem C18_render_subst : forall m ts, render_m m ts = render (msubst m ts).
Proof. exact render_m_msubst. Qed.

(* ... and at parameter, field and channel sites that text denotes the README shape of the type with
   every mapped name replaced by its target (rshape m), for all types, tables and depths. *)
Theorem C18_subst_plain : forall m t, mapping_ok m -> dom_m m t = true -> kf_union_under_seq (sem t) = false ->
  forall s md, plain_site s md = true ->
  exists text, emit_type s md m t = Some text /\
               observe (site_is_type s md) text = Some (expected s m t).
Proof. exact sound_plain. Qed.

(* ... and the same at EVERY site whose text is a TypeScript type (return types and event payloads
   through add_types_prefix included; 8 of the 10 site x mode pairs), for all types, tables with targets
   among string/number/boolean/void, and depths: outside C05's remaining classes the text printed with
   the table denotes the shape in which every mapped name, map keys included, is its target. This is
   the absolute clause of the oracle (c18_abs_ok) as a theorem. *)
Theorem C18_subst_ts_sites : forall m t s md, mapping_ok m -> targets_ok m -> dom_m m t = true ->
  site_is_type s md = true -> kf_C05 s md m t = false ->
  exists text, emit_type s md m t = Some text /\
               observe (site_is_type s md) text = Some (expected s m t).
Proof. intros m t s md. apply sound_ts_sites. Qed.

(* ... and at ALL sites, the two Zod-mode schema sites included (a mapped name becomes the schema
   z.M() of its target, read back as M), under the nesting premise and the explicit parse link
   zod_parse_link (see Properties/C05.v): the absolute clause of C18_subst_full_statement. *)
Theorem C18_subst_all_sites_under_link : zod_parse_link -> forall m t s md,
  mapping_ok m -> targets_ok m -> dom_m m t = true -> tdepth (sem t) < 60 -> kf_C05 s md m t = false ->
  exists text, emit_type s md m t = Some text /\
               observe (site_is_type s md) text = Some (expected s m t).
Proof. exact sound_all_sites. Qed.

(* ... with NO hypothesis about parsing (the link is C10LexEx.parse_build): all ten site x mode pairs,
   for every table with targets among string / number / boolean, every type whose structure lies in C10's
   domain (map keys String / numbers, names not taken; mapped names are plain identifiers) and nests
   less than 31 levels. The absolute clause of C18_subst_full_statement, everywhere. *)
Theorem C18_subst_all_sites : forall m t s md,
  C10Zod.map_ok m = true -> dom_m m t = true -> C10Zod.dom (sem t) = true -> C10Depth.tsdepth (sem t) < 31 ->
  kf_C05 s md m t = false ->
  exists text, emit_type s md m t = Some text /\
               observe (site_is_type s md) text = Some (expected s m t).
Proof. exact sound_all_sites_proved. Qed.

(* the absolute clause of the run-time oracle is exactly that statement *)
Theorem C18_abs_oracle_exact : forall s md m t text, dom_m m t = true -> kf_C05 s md m t = false ->
  (c18_abs_ok s md m t text = true <-> observe (site_is_type s md) text = Some (expected s m t)).
Proof. intros s md m t text Hd Hk. unfold c18_abs_ok. rewrite Hd, Hk. cbn [negb orb]. apply c05_oracle_exact. Qed.

(* All five sites, both modes, every constructor spine to depth 1 over String, i32, PathBuf, Uuid,
   DateTime<Utc>, User, table PathBuf->string, Uuid->number, DateTime<Utc>->boolean.
   [subst_at m s md t] reads: the model prints a text with and without the table and, unless the
   case lies in a recorded class (kf_C18, empty), the oracle c18_full_ok accepts the pair: relational
   clause c18_ok AND absolute clause c18_abs_ok (the text denotes rshape m t, map keys included).
   Bounded, hence _partial. The depth-2 sweep is Proofs/C18Sweep2.v (compiled by the thorough tier,
   kept out of this closure because coqchk re-evaluates it without the VM). *)
Theorem C18_sweep_depth1_partial :
  forall t, In t spines18_1 -> forall s md, subst_at table18 s md t = true.
Proof. exact (sweep_spec (subst_at table18) spines18_1 (proj1 sweep18_depth1)). Qed.
Theorem C18_sweep_domain_depth1_partial :
  forall t, In t spines18_1 -> dom_m table18 t = true.
Proof. exact (proj1 (forallb_forall (dom_m table18) spines18_1) (proj2 sweep18_depth1)). Qed.

(* the three classes recorded before the repairs (C18-1, C18-2, C18-3): on the old witnesses the
   oracle now accepts the model's texts, and still rejects the old output *)
Theorem C18_prefix_on_target_repaired :
  dom_m table18 w18_prefix = true /\
  emit_type SReturn MNone [] w18_prefix = Some (L "types.PathBuf[][]") /\
  emit_type SReturn MNone table18 w18_prefix = Some (L "string[][]") /\
  c18_ok true table18 w18_prefix (L "string[][]") (L "types.PathBuf[][]") = true /\
  c18_ok true table18 w18_prefix (L "types.string[][]") (L "types.PathBuf[][]") = false.
Proof. exact prefix_on_target_repaired. Qed.
Theorem C18_tuple_comma_repaired :
  emit_type SField MNone table18 w18_tuple = Some (L "[number, Record<string, string>]") /\
  emit_type SField MNone [] w18_tuple = Some (L "[number, Record<string, PathBuf>]") /\
  c18_ok true table18 w18_tuple (L "[number, Record<string, string>]") (L "[number, Record<string, PathBuf>]") = true.
Proof. exact tuple_comma_repaired. Qed.
Theorem C18_result_comma_repaired :
  emit_type SField MNone table18 w18_result = Some (L "[string, number]") /\
  emit_type SField MNone [] w18_result = Some (L "[PathBuf, number]") /\
  c18_ok true table18 w18_result (L "[string, number]") (L "[PathBuf, number]") = true.
Proof. exact result_comma_repaired. Qed.

(* a mapped name in map-key position: the model prints the target; an output that prints string with
   and without the table passes the relational clause and is rejected by the absolute clause *)
Theorem C18_map_key_absolute :
  emit_type SField MNone table18 w18_key = Some (L "Record<number, string>") /\
  c18_full_ok SField MNone table18 w18_key (L "Record<number, string>") (L "Record<Uuid, string>") = true /\
  c18_ok true table18 w18_key (L "Record<string, string>") (L "Record<string, string>") = true /\
  c18_full_ok SField MNone table18 w18_key (L "Record<string, string>") (L "Record<string, string>") = false.
Proof. exact map_key_absolute. Qed.

(* ---- deepening round 7 ---- *)
(* the substitution lemma of the renderer at token level, for ALL structures of C10's domain and all tables
   with targets string / number / boolean whose keys are legal names that are not taken (plain identifiers,
   not a primitive, not Record / null / ...): the text of the substituted structure lexes (specification lexer
   lex_module, no lexing error) to the tokens of the text of the structure itself in which every types.N / N
   is replaced by M (subst_tokens of the oracle, guards included) *)
Theorem C18_render_subst_tokens : forall m ts,
  C18TokProofs.keys_ok m = true -> C10Zod.map_ok m = true -> C10Zod.dom ts = true ->
  lex_module (render (msubst m ts)) = subst_tokens true m (lex_module (render_m [] ts)) /\ has_err (lex_module (render (msubst m ts))) = false.
Proof. exact render_subst_tokens. Qed.

(* the relational clause of the oracle (c18_ok, all three conjuncts and the byte-equality branch) for ALL
   types at the sites whose text is the unqualified TypeScript type: parameter and field in plain mode,
   channel in both modes. noschema: no unmapped project type is literally called NSchema for a key N
   (the oracle's no-longer-referred-to test also looks for NSchema). *)
Theorem C18_relational_unqualified_sites : forall m t s md,
  C18TokProofs.keys_ok m = true -> C10Zod.map_ok m = true -> dom_m m t = true ->
  C10Zod.dom (sem t) = true -> C18TokProofs.noschema m (sem t) = true -> unq_site s md = true ->
  exists w wo, emit_type s md m t = Some w /\ emit_type s md [] t = Some wo /\
    (mentions m t = true -> lex_module w = subst_tokens true m (lex_module wo)) /\
    c18_ok true m t w wo = true.
Proof. exact relational_unq. Qed.

(* N is never declared: on the declaration model (Model/C18Decl.v: the set of project types types.ts exports,
   TypeCollector::collect_used_types with the nested discovery), for every project, every table and every set
   of sites, outside the recorded class C18-4 (a project struct or enum whose own name is a key) *)
Theorem C18_never_declared : forall m all sites, kf18_own_name_mapped m all = false ->
  forall n tg, lookup m n = Some tg -> ~ In n (declared m all sites).
Proof. exact never_declared. Qed.
(* nothing else: the table never changes the set of declarations *)
Theorem C18_declared_frame : forall m all sites, declared m all sites = declared [] all sites.
Proof. exact declared_frame. Qed.
(* nothing else is declared: a declared name is a project struct or enum reachable from a site through field types *)
Theorem C18_declared_reachable : forall m all sites n, In n (declared m all sites) ->
  In n (map s_name all) /\ reach all (flat_map refs sites) n.
Proof. exact declared_reachable. Qed.
(* inside the class the defect is general: a project struct or enum that a site names is declared whatever
   the table says (C18-4), with the computed witness struct Timestamp as a parameter, Timestamp -> string:
   rendered string, still declared, in Zod mode with TimestampSchema *)
Theorem C18_mapped_struct_declared : forall m all sites n,
  In n (flat_map refs sites) -> In n (map s_name all) -> In n (declared m all sites).
Proof. exact direct_struct_declared. Qed.
Theorem C18_never_declared_refuted :
  kf18_own_name_mapped w18_decl_table w18_decl_all = true /\
  lookup w18_decl_table (L "Timestamp") = Some (L "string") /\
  render_m w18_decl_table (TCustom (L "Timestamp")) = L "string" /\
  declared w18_decl_table w18_decl_all w18_decl_sites = [L "Timestamp"] /\
  declared_ts true w18_decl_table w18_decl_all w18_decl_sites = [L "Timestamp"; L "TimestampSchema"] /\
  c18_decl_ok w18_decl_table (declared w18_decl_table w18_decl_all w18_decl_sites) = false.
Proof. exact declared_refuted. Qed.
(* the run-time oracle of the clause is the clause *)
Theorem C18_decl_oracle_exact : forall m names, c18_decl_ok m names = true <->
  forall n tg, In (n, tg) m -> ~ In n names /\ ~ In (n ++ L "Schema")%list names.
Proof. exact decl_oracle_exact. Qed.

(* ---- premises are satisfiable on non-trivial inputs ---- *)
Definition ex18 : rty :=
  RPath (L "HashMap") [RPath (L "String") [];
    RPath (L "Vec") [RTuple [RPath (L "Option") [RPath (L "PathBuf") []]; datetime_utc; RPath (L "User") []]]].
Example C18_subst_plain_premises :
  dom_m table18 ex18 = true /\
  kf_union_under_seq (sem ex18) = false /\ plain_site SParam MNone = true /\
  emit_type SParam MNone table18 ex18 = Some (L "Record<string, [string | null, boolean, User][]>") /\
  emit_type SParam MNone [] ex18 = Some (L "Record<string, [PathBuf | null, DateTime<Utc>, User][]>").
Proof. vm_compute. repeat split; reflexivity. Qed.
Example C18_mapping_ok_table : mapping_ok table18 /\ targets_ok table18.
Proof. split; repeat constructor; discriminate. Qed.
(* frame: the table maps Uuid only, the type mentions PathBuf and User *)
Example C18_frame_premises :
  let m := [(L "Uuid", L "number")] in
  let ty := L "Vec<(PathBuf, User)>" in
  (forall ts, parse_type_structure2 ty = Some ts -> unmapped m ts) /\
  emit_str SReturn MZod m false ty = Some (L "[PathBuf, User][]").
Proof. cbv zeta. split.
  - intros ts H. vm_compute in H. inversion H; subst. intros n Hn. simpl in Hn.
    destruct Hn as [<-|[<-|[]]]; vm_compute; reflexivity.
  - vm_compute. reflexivity. Qed.
Example C18_sweep_premises :
  exists t, In t spines18_1 /\ tts t = L "Option<Uuid>" /\ kf_C18 SReturn MZod table18 t = false.
Proof. exact sweep18_premises_example. Qed.

Definition table18r : mapping := [(L "PathBuf", L "string"); (L "Uuid", L "number")].
Definition ex18r : rty :=
  RPath (L "HashMap") [RPath (L "String") [];
    RPath (L "Vec") [RTuple [RPath (L "Option") [RPath (L "PathBuf") []]; RPath (L "Uuid") []; RPath (L "User") []]]].
Example C18_relational_premises :
  C18TokProofs.keys_ok table18r = true /\ C10Zod.map_ok table18r = true /\ dom_m table18r ex18r = true /\
  C10Zod.dom (sem ex18r) = true /\ C18TokProofs.noschema table18r (sem ex18r) = true /\ unq_site SChannel MZod = true /\
  mentions table18r ex18r = true /\
  emit_type SChannel MZod table18r ex18r = Some (L "Record<string, [string | null, number, User][]>") /\
  emit_type SChannel MZod [] ex18r = Some (L "Record<string, [PathBuf | null, Uuid, User][]>").
Proof. vm_compute. repeat split; reflexivity. Qed.
Example C18_never_declared_premises :
  kf18_own_name_mapped [(L "Uuid", L "number")] ex18_decl_all = false /\
  declared [(L "Uuid", L "number")] ex18_decl_all [TOpt (TCustom (L "Holder"))] = [L "Holder"; L "Leaf"] /\
  c18_decl_ok [(L "Uuid", L "number")] (declared [(L "Uuid", L "number")] ex18_decl_all [TOpt (TCustom (L "Holder"))]) = true.
Proof. exact never_declared_example. Qed.

(* round 7, after seeded/C18-11: the frame clause on declarations as a run-time oracle (the exported names with the
   table = the exported names without it) is set equality, and the model satisfies it for every project *)
Theorem C18_decl_frame_oracle_exact : forall a b, c18_decl_frame_ok a b = true <-> (forall x, In x a <-> In x b).
Proof. exact decl_frame_oracle_exact. Qed.
Theorem C18_decl_frame_model : forall zod m all sites,
  c18_decl_frame_ok (declared_ts zod m all sites) (declared_ts zod [] all sites) = true.
Proof. exact decl_frame_model. Qed.
Example C18_decl_frame_premises :
  c18_decl_frame_ok [L "Holder"; L "Profile"] [L "Profile"; L "Holder"] = true /\
  c18_decl_frame_ok [L "Holder"] [L "Profile"; L "Holder"] = false.
Proof. vm_compute. split; reflexivity. Qed.

Print Assumptions C18_frame.
Print Assumptions C18_frame_type.
Print Assumptions C18_render_subst.
Print Assumptions C18_subst_plain.
Print Assumptions C18_subst_ts_sites.
Print Assumptions C18_subst_all_sites_under_link.
Print Assumptions C18_subst_all_sites.
Print Assumptions C18_abs_oracle_exact.
Print Assumptions C18_sweep_depth1_partial.
Print Assumptions C18_sweep_domain_depth1_partial.
Print Assumptions C18_prefix_on_target_repaired.
Print Assumptions C18_tuple_comma_repaired.
Print Assumptions C18_result_comma_repaired.
Print Assumptions C18_map_key_absolute.
Print Assumptions C18_render_subst_tokens.
Print Assumptions C18_relational_unqualified_sites.
Print Assumptions C18_never_declared.
Print Assumptions C18_declared_frame.
Print Assumptions C18_declared_reachable.
Print Assumptions C18_mapped_struct_declared.
Print Assumptions C18_never_declared_refuted.
Print Assumptions C18_decl_oracle_exact.
Print Assumptions C18_decl_frame_oracle_exact.
Print Assumptions C18_decl_frame_model.
