(* C11 - validator attributes become exactly the declared Zod constraints.
   Model: Model/C11Validator.v (token printing, validator_parser.rs scanners, schema_builder.rs).
   Spec:  Spec/C11Spec.v (expected constraints, chain reader, JS string reading, oracle, domain, classes).
   Only statements, [exact], examples and [Print Assumptions] live here. *)
From Coq Require Import String Ascii List Arith Bool ZArith.
Require Import TT.Model.Str TT.Model.C11Validator TT.Spec.C11Spec TT.Proofs.C11Proofs TT.Proofs.C11Scan TT.Proofs.C11Loop TT.Proofs.C11Esc TT.Proofs.C11Arr TT.Proofs.C11Full TT.Proofs.C11FullS.
Require TT.Proofs.C11Dec.
Import ListNotations.

(* The full statement (NOT asserted here): for every f64 printing function, every in-domain field whose literal
   texts carry the declared values and that lies outside the eight known classes is parsed without panic and
   its chain reads back as exactly the declared constraints. Checked at run time on every generated case
   outside the classes (eight: C11-5 and C11-7 were repaired, C11-10 was added); proved below for the rendering half
   (all inputs), for the scanning half on canonical single validators (C11_exact_scan_partial), for fields without validators, and refuted
   inside each class. *)
Definition C11_exact_full_statement : Prop :=
  forall (dispf : str -> option str) (f : field),
    in_domain f = true -> lits_consistent f = true -> kf_any dispf f = false ->
    exists v chain, field_chain dispf f = Ok (v, chain) /\ c11_field_ok f chain = true.

(* message reproduced character for character: for EVERY byte string m, the literal that
   escape_js_string produces is read by JavaScript as m again *)
Theorem C11_escape_roundtrip : forall m : str,
  read_str (dq :: escape_js_string m ++ [dq]) = Some (m, []).
Proof. exact escape_roundtrip. Qed.

(* rendering half of exactness, all inputs: every parsed ValidatorAttributes value (any messages, any
   number texts) under any number of Option wrappers is emitted as a chain that reads back as exactly
   its constraints - on a string, a number and an array field *)
Theorem C11_exact_render_partial : forall v k, va_ok v = true ->
  read_chain (build_schema (opts k (TsPrim (L "string"))) (Some v))
    = Some (Sch (L "z.string") [] (string_meths v ++ repeat MOptional k)) /\
  read_chain (build_schema (opts k (TsPrim (L "number"))) (Some v))
    = Some (Sch (L "z.coerce.number") [] (number_meths v ++ repeat MOptional k)) /\
  read_chain (build_schema (opts k (TsArr (TsPrim (L "string")))) (Some v))
    = Some (Sch (L "z.array") [Sch (L "z.string") [] []] (length_meths v ++ repeat MOptional k)).
Proof. exact render_exact. Qed.

(* rendering half, arrays, for EVERY element type: the chain of a Vec field is z.array(<bare element schema>)
   followed by the length methods and the Option wrappers - no validator ever reaches an element *)
Theorem C11_array_elements_bare : forall inner v k,
  build_schema (opts k (TsArr inner)) (Some v) =
  L "z.array(" ++ bare_schema inner ++ L ")" ++ flat_map show_meth (length_meths v ++ repeat MOptional k).
Proof. exact array_elements_bare. Qed.

(* ... and read back for number, boolean, Option<number>, Vec<String>, Vec<Option<number>> elements *)
Theorem C11_exact_render_arrays_partial : forall v k, va_ok v = true ->
  let ms := length_meths v ++ repeat MOptional k in
  read_chain (build_schema (opts k (TsArr (TsPrim (L "number")))) (Some v)) = Some (arr_of (Sch (L "z.coerce.number") [] []) ms) /\
  read_chain (build_schema (opts k (TsArr (TsPrim (L "boolean")))) (Some v)) = Some (arr_of (Sch (L "z.coerce.boolean") [] []) ms) /\
  read_chain (build_schema (opts k (TsArr (TsOpt (TsPrim (L "number"))))) (Some v)) = Some (arr_of (Sch (L "z.coerce.number") [] [MOptional]) ms) /\
  read_chain (build_schema (opts k (TsArr (TsArr (TsPrim (L "string"))))) (Some v)) =
    Some (arr_of (Sch (L "z.array") [Sch (L "z.string") [] []] []) ms) /\
  read_chain (build_schema (opts k (TsArr (TsArr (TsOpt (TsPrim (L "number")))))) (Some v)) =
    Some (arr_of (Sch (L "z.array") [Sch (L "z.coerce.number") [] [MOptional]] []) ms).
Proof. exact render_exact_arrays. Qed.
(* ... and for EVERY element type the reader understands (readable: string / number / boolean / void primitives, Option,
   Vec, custom types whose name is made of identifier characters - i.e. everything but the z.unknown comment form):
   the chain of a Vec field reads back as z.array(<schema_of element>) with exactly the length methods and the Option
   wrappers (induction over read_schema with symbolic fuel, Proofs/C11Arr.v) ... *)
Theorem C11_exact_render_arrays : forall inner v k, readable inner = true -> va_ok v = true ->
  read_chain (build_schema (opts k (TsArr inner)) (Some v)) =
  Some (arr_of (schema_of inner) (length_meths v ++ repeat MOptional k)).
Proof. exact render_exact_arrays_all. Qed.
(* ... and the element schema carries no constraint, whatever the element type *)
Theorem C11_array_element_no_constraint : forall t, no_cons_schema (schema_of t) = true.
Proof. exact schema_of_no_cons. Qed.

(* scanning half on the sub-domain of CANONICAL single validators: one #[validate(length(..))] or
   #[validate(range(..))] whose arguments are any subset of min, max, message in ANY of the six orders (o); bounds are any
   number texts (digits . e E + -), the message literal is "body" where body is ANY source text (multi-byte and
   escapes included) on which the closing-quote scan ends at the literal's own quote (closes: every double quote
   escaped, not ending inside an escape), free of closing parenthesis and the seven keywords (okm = body_ok).
   On the printed token string the scanners return exactly the declared components: no panic, bounds = the
   numeric parse applied to the declared literal text, message = unescape body (the five replace calls; equal to
   the literal's value on the sub-language of C11_unescape_exact_partial, see C11_loop_escaped_messages; equal to
   body itself on the plain bodies of the earlier rounds, C11_plain_bodies_instance), email = url = false,
   the other constraint absent. dispf (f64 parse + Display) is arbitrary. *)
Theorem C11_exact_scan_partial : forall dispf r o omin omax omsg, okn omin -> okn omax -> okm omsg ->
  parse_validator_attributes dispf [AValidate [canon_item r (canon_args o omin omax omsg)]] =
  Ok (Some (let c := {| c_min := onum (if r then dispf else parse_u64) omin;
                        c_max := onum (if r then dispf else parse_u64) omax; c_msg := option_map unescape omsg |} in
            {| v_length := if r then None else Some c; v_range := if r then Some c else None;
               v_email := false; v_url := false |})).
Proof. exact scan_exact_canon. Qed.
Theorem C11_plain_bodies_instance : forall b, plain_body b = true -> body_ok b = true /\ unescape b = b.
Proof. exact plain_body_ok. Qed.

(* both halves composed on that sub-domain, for String / numeric / Vec<String> fields under k Options:
   the emitted chain reads back as exactly min / max (printed bound of the declared literal) with the declared message *)
Theorem C11_exact_canon_partial : forall dispf k o omin omax omsg, okn omin -> okn omax -> okm omsg ->
  (va_ok (canon_va dispf false omin omax omsg) = true ->
   exists chain, field_chain dispf (canon_field (opt_ty k TyString) false o omin omax omsg)
                   = Ok (Some (canon_va dispf false omin omax omsg), chain) /\
     read_chain chain = Some (Sch (L "z.string") [] (cstr_meths (canon_cstr dispf false omin omax omsg) ++ repeat MOptional k))) /\
  (va_ok (canon_va dispf true omin omax omsg) = true ->
   exists chain, field_chain dispf (canon_field (opt_ty k TyNum) true o omin omax omsg)
                   = Ok (Some (canon_va dispf true omin omax omsg), chain) /\
     read_chain chain = Some (Sch (L "z.coerce.number") [] (cstr_meths (canon_cstr dispf true omin omax omsg) ++ repeat MOptional k))) /\
  (va_ok (canon_va dispf false omin omax omsg) = true ->
   exists chain, field_chain dispf (canon_field (opt_ty k (TyVec TyString)) false o omin omax omsg)
                   = Ok (Some (canon_va dispf false omin omax omsg), chain) /\
     read_chain chain = Some (Sch (L "z.array") [Sch (L "z.string") [] []]
                                  (cstr_meths (canon_cstr dispf false omin omax omsg) ++ repeat MOptional k))).
Proof. exact exact_canon. Qed.

(* THE FULL STATEMENT on the canonical sub-domain (field_chain does not panic and the ORACLE accepts the chain - the
   conclusion of C11_exact_full_statement, not only a read-back of the parsed attributes): one length validator with
   u64 bounds (any u64 literal, leading zeros included; C11_u64_bound_exact supplies printed text = declared
   decimal), arguments in any of the six orders, message any admissible body on which unescape gives the value the
   specification assigns to the literal (msg_agrees: true on the escape sub-language by C11_loop_escaped_messages
   and on plain bodies), on String and Vec<String> fields under k Options; for every dispf *)
Theorem C11_full_canon_length_partial : forall dispf k o omin omax omsg, oku64 omin -> oku64 omax -> okm omsg -> msg_agrees omsg ->
  (exists v chain, field_chain dispf (canon_field (opt_ty k TyString) false o omin omax omsg) = Ok (v, chain) /\
                   c11_field_ok (canon_field (opt_ty k TyString) false o omin omax omsg) chain = true) /\
  (exists v chain, field_chain dispf (canon_field (opt_ty k (TyVec TyString)) false o omin omax omsg) = Ok (v, chain) /\
                   c11_field_ok (canon_field (opt_ty k (TyVec TyString)) false o omin omax omsg) chain = true).
Proof. exact full_canon_length. Qed.
(* ... and on Vec<T> for EVERY readable element type T (C11_exact_render_arrays supplies the read-back) *)
Theorem C11_full_canon_length_vec_partial : forall dispf k o omin omax omsg ti, readable (tstruct_of ti) = true ->
  oku64 omin -> oku64 omax -> okm omsg -> msg_agrees omsg ->
  exists v chain, field_chain dispf (canon_field (opt_ty k (TyVec ti)) false o omin omax omsg) = Ok (v, chain) /\
                  c11_field_ok (canon_field (opt_ty k (TyVec ti)) false o omin omax omsg) chain = true.
Proof. exact full_canon_length_vec. Qed.
(* ... and one range validator on a numeric field, for every f64 printing function dispf that is exact on the declared
   bounds (okb dispf: the literal is a number text, dispf prints a number text denoting the declared decimal - the
   complement of class C11-9 together with the domain condition) *)
Theorem C11_full_canon_range_partial : forall dispf k o omin omax omsg, okb dispf omin -> okb dispf omax -> okm omsg -> msg_agrees omsg ->
  exists v chain, field_chain dispf (canon_field (opt_ty k TyNum) true o omin omax omsg) = Ok (v, chain) /\
                  c11_field_ok (canon_field (opt_ty k TyNum) true o omin omax omsg) chain = true.
Proof. exact full_canon_range. Qed.

(* several validators per attribute and several attributes per field: for ANY list of attributes, in any
   order, each being  #[validate(sides.., length|range(args in any order), sides..)]  (sides = any number, before
   and after, of email / url flags AND other validators: custom(function = ..), must_match(other = ..), required,
   nested, any name with or without key = literal arguments),  #[validate(sides..)] / #[validate()],  #[validate]
   or a non-validate attribute. Side condition on another validator (side_ok / inert): its printed text contains
   none of email, url, length, range - nothing else; messages as in C11_exact_scan_partial (escapes allowed).
   parse_validator_attributes does not panic and returns the left fold of the per-attribute effects
   (lr_effect: the declared length/range replaces the slot of its kind, the other slot and the flags are kept;
   flags_effect: flags are or-ed in; the other validators contribute nothing) - Some iff a validate attribute is present *)
Theorem C11_loop_exact_partial : forall dispf ss, Forall sattr_ok ss ->
  parse_validator_attributes dispf (map attr_of ss) =
  Ok (if existsb is_val ss then Some (fold_left (effect dispf) ss va_init) else None).
Proof. exact loop_exact. Qed.
(* THE FULL STATEMENT ON THE LOOP GRAMMAR (String fields): any attribute list  A ++ [#[validate(pr.., length(..), po..)]] ++ B
   where A and B are lists of attributes without length / range (#[validate(sides..)], #[validate()], #[validate],
   other attributes), sides = email / url flags and other validators (inert: side_ok), at most one email and one
   url over all side items (the in_domain clause count <= 1), u64 bounds, admissible message with msg_agrees:
   field_chain does not panic and the oracle accepts the chain, under k Options, for every dispf *)
Theorem C11_full_loop_string_partial : forall dispf k o omin omax omsg pr po A B,
  oku64 omin -> oku64 omax -> okm omsg -> msg_agrees omsg -> sides_ok pr -> sides_ok po ->
  forallb nolr A = true -> forallb nolr B = true -> Forall sattr_ok A -> Forall sattr_ok B ->
  cnt FE ((all_sides A ++ pr) ++ po ++ all_sides B) <= 1 -> cnt FU ((all_sides A ++ pr) ++ po ++ all_sides B) <= 1 ->
  exists v chain, field_chain dispf (loop_field k o omin omax omsg pr po A B) = Ok (v, chain) /\
                  c11_field_ok (loop_field k o omin omax omsg pr po A B) chain = true.
Proof. exact full_loop_string. Qed.
(* ... the same attribute lists on Vec<T>, T any readable element type, no email / url among the side items (outside
   the domain on a Vec), other validators at will *)
Theorem C11_full_loop_vec_partial : forall dispf k o omin omax omsg pr po A B,
  oku64 omin -> oku64 omax -> okm omsg -> msg_agrees omsg -> sides_ok pr -> sides_ok po ->
  forallb nolr A = true -> forallb nolr B = true -> Forall sattr_ok A -> Forall sattr_ok B ->
  forall ti, readable (tstruct_of ti) = true ->
  cnt FE ((all_sides A ++ pr) ++ po ++ all_sides B) = 0 -> cnt FU ((all_sides A ++ pr) ++ po ++ all_sides B) = 0 ->
  exists v chain, field_chain dispf (loop_field_vec k o omin omax omsg pr po A B ti) = Ok (v, chain) /\
                  c11_field_ok (loop_field_vec k o omin omax omsg pr po A B ti) chain = true.
Proof. intros dispf k o omin omax omsg pr po A B H1 H2 H3 H4 H5 H6 H7 H8 H9 H10 ti Hr Z0 Z1.
  apply (full_loop_vec dispf k o omin omax omsg pr po A B H1 H2 H3 H4 H5 H6 H7 H8 H9 H10); try assumption; rewrite ?Z0, ?Z1; auto. Qed.
(* ... the same attribute lists around one RANGE validator on a numeric field (no email / url: outside the domain on
   a number), for every dispf that is exact on the declared bounds (okb dispf, the complement of class C11-9) *)
Theorem C11_full_loop_num_partial : forall dispf k o omin omax omsg pr po A B,
  okb dispf omin -> okb dispf omax -> okm omsg -> msg_agrees omsg -> sides_ok pr -> sides_ok po ->
  forallb nolr A = true -> forallb nolr B = true -> Forall sattr_ok A -> Forall sattr_ok B ->
  cnt FE ((all_sides A ++ pr) ++ po ++ all_sides B) = 0 -> cnt FU ((all_sides A ++ pr) ++ po ++ all_sides B) = 0 ->
  exists v chain, field_chain dispf (loop_field_num k o omin omax omsg pr po A B) = Ok (v, chain) /\
                  c11_field_ok (loop_field_num k o omin omax omsg pr po A B) chain = true.
Proof. exact full_loop_num. Qed.
(* ... and String fields WITHOUT length: only flags and other validators, e.g. #[validate(email)], #[validate(url, required)] *)
Theorem C11_full_flags_string_partial : forall dispf k A, forallb nolr A = true -> Forall sattr_ok A -> existsb is_val A = true ->
  cnt FE (all_sides A) <= 1 -> cnt FU (all_sides A) <= 1 ->
  let f := {| f_ty := opt_ty k TyString; f_attrs := map attr_of A |} in
  exists v chain, field_chain dispf f = Ok (v, chain) /\ c11_field_ok f chain = true.
Proof. exact full_flags_string. Qed.

(* the side condition is exact: if the token string of an attribute contains one of the four keywords - for instance
   inside one of its items (second theorem) - the step is NOT inert: the flag is set / the slot is occupied *)
Theorem C11_other_validators_condition_exact : forall dispf v T v', va_step dispf v T = Ok v' ->
  (contains "email" T = true -> v_email v' = true) /\ (contains "url" T = true -> v_url v' = true) /\
  (contains "length" T = true -> v_length v' <> None) /\ (contains "range" T = true -> v_range v' <> None).
Proof. exact keyword_not_inert. Qed.
Theorem C11_keyword_in_item : forall fl s (kw : string), In s fl -> contains kw (stext s) = true ->
  contains kw (items_tokens (map sitem fl)) = true.
Proof. exact keyword_in_item. Qed.
(* the escape sub-language inside the loop theorem: a literal of the sub-language (lit_ok) whose source text has no
   closing parenthesis and none of the seven keywords is an admissible message (okm) of C11_exact_scan_partial /
   C11_exact_canon_partial / C11_loop_exact_partial, the message these theorems return for it is the literal's value,
   and that is the value the specification side (rust_body_value, used by lits_consistent) gives the declared literal *)
Theorem C11_loop_escaped_messages : forall l, lit_ok l = true -> lacks ")" (text l) = true ->
  forallb (fun kw => negb (contains kw (text l))) kws = true ->
  okm (Some (text l)) /\ option_map unescape (Some (text l)) = Some (value l) /\ lit_value (text l) = value l.
Proof. exact atoms_in_loop. Qed.

(* later attributes only add (the loop of parse_validator_attributes; seeds C11-1 / C11-4 break exactly this):
   attributes that declare no length leave the length parsed so far untouched, same for range, and
   email / url once set stay set *)
Theorem C11_later_attrs_only_add : forall dispf ss1 ss2, Forall sattr_ok (ss1 ++ ss2) -> existsb is_val ss1 = true ->
  exists v1 v, parse_validator_attributes dispf (map attr_of ss1) = Ok (Some v1) /\
               parse_validator_attributes dispf (map attr_of (ss1 ++ ss2)) = Ok (Some v) /\
    (existsb declares_length ss2 = false -> v_length v = v_length v1) /\
    (existsb declares_range ss2 = false -> v_range v = v_range v1) /\
    (v_email v1 = true -> v_email v = true) /\ (v_url v1 = true -> v_url v = true).
Proof. exact later_attrs_only_add. Qed.

(* message literals WITH escapes. Sub-language (lit_ok): the body is a sequence of plain bytes (anything but
   backslash and double quote, multi-byte included) and the escapes backslash + double quote / single quote /
   n / t / backslash, where an escaped backslash is not directly followed by a plain n, t or single quote
   (n, t: class C11-6). On it the five sequential replace calls compute exactly the literal's value ... *)
Theorem C11_unescape_exact_partial : forall l, lit_ok l = true -> unescape (text l) = value l.
Proof. exact unescape_atoms. Qed.
(* ... and parse_message returns that value wherever the literal stands in the content, whatever follows it.
   OUT of the sub-language: backslash r / 0 / x.. / u{..} / line continuation and raw strings (class C11-6,
   refuted), and an escaped backslash before a plain single quote (right value, not proved) *)
Theorem C11_message_escapes_partial : forall T P l R,
  fs (L "message") T = Some (P, L " = " ++ dq :: text l ++ dq :: R) ->
  lit_ok l = true -> parse_message T = Ok (Some (value l)).
Proof. exact parse_message_atoms. Qed.

(* u64 bounds: the text printed for a declared length bound (parse::<u64> then Display) denotes exactly the declared
   decimal - the oracle compares dec_of_text of the printed text with dec_of_num of the declaration *)
Theorem C11_u64_bound_exact : forall lit, u64_lit (Num false lit) = true ->
  exists t, parse_u64 lit = Some t /\ t = show_N (n_of_digits lit) /\ dec_of_text t = dec_of_text lit /\
            dec_of_text lit = dec_of_num (Num false lit) /\ dec_of_text lit <> None.
Proof. exact C11Dec.u64_bound_exact. Qed.
(* ... and Display of a u64 reads back as that number: dec_of_text (show_N n) has value n *)
Theorem C11_show_N_value : forall n x, dec_of_text (show_N n) = Some x -> C11Dec.dec_val_N x = Some n.
Proof. exact C11Dec.show_N_value. Qed.
Theorem C11_show_N_reads : forall n, dec_of_text (show_N n) = Some (canon false (show_N n) 0%Z).
Proof. exact C11Dec.show_N_roundtrip. Qed.

(* the run-time oracle decides exactly this proposition (C11_holds: reads as a schema of the right base, nothing
   nested carries a constraint, own methods = expected constraints kind by kind with equal exact decimals and
   equal message bytes) *)
Theorem C11_oracle_exact : forall f chain, c11_field_ok f chain = true <-> C11_holds f chain.
Proof. exact oracle_exact. Qed.

(* fields without #[validate] carry no constraints: they get the plain schema of their type *)
Theorem C11_none : forall dispf f,
  no_validate (f_attrs f) = true ->
  field_chain dispf f = Ok (None, bare_schema (tstruct_of (f_ty f))).
Proof. exact none_bare. Qed.

(* a constraint is never attached to a different field: the chain of field i is a function of field i alone *)
Theorem C11_not_misattached : forall dispf fs gs i f,
  nth_error fs i = Some f -> nth_error gs i = Some f ->
  nth_error (struct_chains dispf fs) i = nth_error (struct_chains dispf gs) i.
Proof. exact chain_ignores_other_fields. Qed.

Theorem C11_chain_of_own_field : forall dispf fs i,
  nth_error (struct_chains dispf fs) i = option_map (field_chain dispf) (nth_error fs i).
Proof. exact chain_of_own_field. Qed.

(* the faithful model violates the property inside each recorded class (computed witnesses) *)
Theorem C11_kf1_neg_bound_refuted : kf_neg_bound w1 = true /\ fails w1.
Proof. exact kf1_refuted. Qed.
Theorem C11_kf2_paren_in_literal_refuted : kf_paren_in_literal w2 = true /\ fails w2.
Proof. exact kf2_refuted. Qed.
Theorem C11_kf3_email_url_substring_refuted : kf_email_url_substring w3 = true /\ fails w3.
Proof. exact kf3_refuted. Qed.
Theorem C11_kf4_keyword_in_text_refuted : kf_keyword_in_text w4 = true /\ fails w4.
Proof. exact kf4_refuted. Qed.
(* C11-5 repaired (char_indices): the old witnesses - a message that panicked, one that was cut - are in the
   domain, in no class, and their chains now satisfy the oracle *)
Theorem C11_fixed5_multibyte_message_ok : holds_b w5 = true /\ holds_b w5b = true.
Proof. exact fixed5_ok. Qed.
Theorem C11_kf6_escape_chain_refuted : kf_escape_chain w6 = true /\ fails w6.
Proof. exact kf6_refuted. Qed.
(* C11-7 repaired (Optional arm passes skip_validation through): the old witness now passes, and for every
   ValidatorAttributes value the element schema of Vec<Option<String>> stays bare *)
Theorem C11_fixed7_option_below_vec_ok : holds_b w7 = true /\
  field_chain dispf_small w7 = Ok (Some {| v_length := Some {| c_min := Some (L "2"); c_max := None; c_msg := None |};
                                          v_range := None; v_email := false; v_url := false |},
                                   L "z.array(z.string().optional()).min(2)").
Proof. exact fixed7_ok. Qed.
Theorem C11_fixed7_render_option_element : forall v k, va_ok v = true ->
  read_chain (build_schema (opts k (TsArr (TsOpt (TsPrim (L "string"))))) (Some v)) =
    Some (Sch (L "z.array") [Sch (L "z.string") [] [MOptional]] (length_meths v ++ repeat MOptional k)).
Proof. exact render_exact_option_element. Qed.
Theorem C11_kf8_flag_message_refuted : kf_flag_message w8 = true /\ fails w8.
Proof. exact kf8_refuted. Qed.
Theorem C11_kf9_f64_inexact_refuted : kf_f64_inexact dispf_small w9 = true /\ fails w9.
Proof. exact kf9_refuted. Qed.
Theorem C11_kf10_length_equal_refuted : kf_length_equal w10 = true /\ fails w10.
Proof. exact kf10_refuted. Qed.
(* each remaining witness triggers its own class only; the repaired witnesses trigger none *)
Theorem C11_classes_separate :
  map (kf_flags dispf_small) [w1; w2; w3; w4; w6; w8; w9; w10] = map (fun i => map (Nat.eqb i) (seq 0 8)) (seq 0 8)
  /\ map (kf_any dispf_small) [w5; w5b; w7] = [false; false; false].
Proof. exact witnesses_separate. Qed.

(* non-vacuity *)
Example C11_ex_full_statement_premises :
  forallb (fun f => in_domain f && lits_consistent f && negb (kf_any dispf_small f) &&
                    match field_chain dispf_small f with Ok (_, chain) => c11_field_ok f chain | Panic => false end)
          [g1; g2; g3; g4] = true.
Proof. vm_compute. reflexivity. Qed.
Example C11_ex_escape : read_str (dq :: escape_js_string (L "a""b\c" ++ [nl; tab; cr]) ++ [dq]) = Some (L "a""b\c" ++ [nl; tab; cr], [])
  /\ escape_js_string (L "a""b\c" ++ [nl]) = L "a\""b\\c\n".
Proof. split; vm_compute; reflexivity. Qed.
Definition ex_va : vattrs :=
  {| v_length := Some {| c_min := Some (L "1"); c_max := Some (L "50"); c_msg := Some (L "say ""hi"" \ (x)") |};
     v_range := Some {| c_min := Some (L "-0.5"); c_max := None; c_msg := None |}; v_email := true; v_url := false |}.
Example C11_ex_render : va_ok ex_va = true /\
  build_schema (opts 1 (TsPrim (L "string"))) (Some ex_va)
    = L "z.string().email().min(1, { message: ""say \""hi\"" \\ (x)"" }).max(50, { message: ""say \""hi\"" \\ (x)"" }).optional()".
Proof. split; vm_compute; reflexivity. Qed.
Example C11_ex_none : no_validate (f_attrs {| f_ty := TyOpt (TyVec TyNum); f_attrs := [ANotValidate] |}) = true
  /\ bare_schema (tstruct_of (TyOpt (TyVec TyNum))) = L "z.array(z.coerce.number()).optional()".
Proof. split; vm_compute; reflexivity. Qed.
Example C11_ex_not_misattached :
  nth_error (struct_chains dispf_small [g1; w1; g2]) 2 = nth_error (struct_chains dispf_small [w3; w2; g2]) 2.
Proof. exact (C11_not_misattached dispf_small [g1; w1; g2] [w3; w2; g2] 2 g2 eq_refl eq_refl). Qed.

(* the canonical sub-domain is inhabited by in-domain fields outside every class, messages with
   multi-byte characters, quotes of the other kind, opening parentheses, commas and equals signs included *)
Definition ex_body : str := L "Name: 1 (a, b = c '" ++ e_acute.
Example C11_ex_canon_premises :
  okn (Some (L "1")) /\ okn (Some (L "2.5e3")) /\ okm (Some ex_body) /\
  (let f := canon_field (opt_ty 1 TyString) false 3 (Some (L "1")) (Some (L "50")) (Some ex_body) in
   in_domain f && lits_consistent f && negb (kf_any dispf_small f) && va_ok (canon_va dispf_small false (Some (L "1")) (Some (L "50")) (Some ex_body))) = true.
Proof. repeat split; vm_compute; reflexivity. Qed.

(* the shape of the seeded regressions: #[validate(length(min = 6, max = 254))] then #[validate(email)] *)
Example C11_ex_loop :
  let ss := [SLr [] false 0 (Some (L "6")) (Some (L "254")) None []; SOther; SFlags [SdF FE]; SPath] in
  Forall sattr_ok ss /\
  parse_validator_attributes dispf_small (map attr_of ss) =
    Ok (Some {| v_length := Some {| c_min := Some (L "6"); c_max := Some (L "254"); c_msg := None |};
                v_range := None; v_email := true; v_url := false |}).
Proof. split; [repeat constructor; vm_compute; reflexivity|vm_compute; reflexivity]. Qed.

(* other validators beside length, and a message with escapes, in the loop theorem *)
Definition ex_lit : list atom := [Plain "a"; Esc dq; Plain "b"; Esc dq; Plain " "; Esc bs; Plain " "; Esc "n"; Esc "t"; Esc sq; Esc bs; Esc "n"].
Example C11_ex_loop_sides :
  let ss := [SLr [SdO (L "custom") (Some [(L "function", L """check_name""")]); SdF FU] false 4 (Some (L "1")) None (Some (text ex_lit))
                 [SdO (L "required") None; SdO (L "must_match") (Some [(L "other", L """pw2""")])]; SFlags [SdO (L "nested") None]] in
  Forall sattr_ok ss /\
  lit_ok ex_lit = true /\ lacks ")" (text ex_lit) = true /\ forallb (fun kw => negb (contains kw (text ex_lit))) kws = true /\
  parse_validator_attributes dispf_small (map attr_of ss) =
    Ok (Some {| v_length := Some {| c_min := Some (L "1"); c_max := None; c_msg := Some (value ex_lit) |};
                v_range := None; v_email := false; v_url := true |}) /\
  side_ok (SdO (L "custom") (Some [(L "function", L """is_email_like""")])) = false.
Proof. split; [repeat constructor; vm_compute; reflexivity|repeat split; vm_compute; reflexivity]. Qed.
Example C11_ex_arrays_all :
  let inner := TsOpt (TsArr (TsOpt (TsCustom (L "Item")))) in
  readable inner = true /\ va_ok ex_va = true /\
  build_schema (opts 1 (TsArr inner)) (Some ex_va) =
    L "z.array(z.array(ItemSchema.optional()).optional()).min(1, { message: ""say \""hi\"" \\ (x)"" }).max(50, { message: ""say \""hi\"" \\ (x)"" }).optional()".
Proof. repeat split; vm_compute; reflexivity. Qed.
Example C11_ex_u64_bound : u64_lit (Num false (L "00120")) = true /\ parse_u64 (L "00120") = Some (L "120") /\
  dec_of_text (L "120") = dec_of_text (L "00120") /\ u64_lit (Num false (L "18446744073709551615")) = true.
Proof. repeat split; vm_compute; reflexivity. Qed.

Example C11_ex_full_canon_premises :
  oku64 (Some (L "007")) /\ oku64 None /\ okm (Some (text ex_lit)) /\ msg_agrees (Some (text ex_lit)) /\
  okb dispf_small (Some (L "0")) /\ okb dispf_small (Some (L "100")) /\
  readable (tstruct_of (TyOpt (TyVec (TyCustom (L "Item"))))) = true.
Proof. repeat split; try (vm_compute; reflexivity); eexists; eexists; repeat split; vm_compute; reflexivity. Qed.

(* an instance of the loop-grammar full theorem: its premises hold, and the field lies in the domain of
   C11_exact_full_statement (in_domain, lits_consistent, outside every class) *)
Definition ex_loop_field : field :=
  loop_field 1 4 (Some (L "007")) None (Some (text ex_lit))
    [SdO (L "custom") (Some [(L "function", L """check_name""")]); SdF FU] [SdO (L "required") None]
    [SFlags [SdF FE]; SOther] [SPath; SFlags [SdO (L "nested") None]].
Example C11_ex_full_loop_premises :
  sides_ok [SdO (L "custom") (Some [(L "function", L """check_name""")]); SdF FU] /\ sides_ok [SdO (L "required") None] /\
  Forall sattr_ok [SFlags [SdF FE]; SOther] /\ Forall sattr_ok [SPath; SFlags [SdO (L "nested") None]] /\
  (in_domain ex_loop_field && lits_consistent ex_loop_field && negb (kf_any dispf_small ex_loop_field) &&
   match field_chain dispf_small ex_loop_field with Ok (_, chain) => c11_field_ok ex_loop_field chain | Panic => false end) = true.
Proof. repeat split; try (repeat constructor); vm_compute; reflexivity. Qed.

Example C11_ex_full_more_premises :
  let A := [SFlags [SdF FE; SdO (L "required") None]; SPath; SOther] in
  let B := [SFlags [SdO (L "nested") None]] in
  (forallb nolr A = true /\ existsb is_val A = true /\ forallb nolr B = true /\
   cnt FE ((all_sides B ++ []) ++ [SdO (L "required") None] ++ all_sides []) = 0 /\
   cnt FU ((all_sides B ++ []) ++ [SdO (L "required") None] ++ all_sides []) = 0 /\
   readable (tstruct_of (TyOpt (TyCustom (L "Item")))) = true) /\
  cnt FE (all_sides A) <= 1 /\ cnt FU (all_sides A) <= 1 /\ Forall sattr_ok A /\ Forall sattr_ok B.
Proof. split; [repeat split; vm_compute; reflexivity|]. split; [vm_compute; auto|]. split; [vm_compute; auto|].
  split; repeat constructor; vm_compute; reflexivity. Qed.

Example C11_ex_escapes :
  let l := [Plain "a"; Esc dq; Plain "b"; Esc dq; Plain " "; Esc bs; Plain " "; Esc "n"; Esc "t"; Esc sq; Esc bs; Esc "n"] in
  lit_ok l = true /\ text l = L "a\""b\"" \\ \n\t\'\\\n" /\ value l = L "a""b"" \ " ++ [nl; tab; sq; bs; nl].
Proof. repeat split; vm_compute; reflexivity. Qed.

Print Assumptions C11_escape_roundtrip.
Print Assumptions C11_exact_render_partial.
Print Assumptions C11_array_elements_bare.
Print Assumptions C11_exact_render_arrays_partial.
Print Assumptions C11_exact_render_arrays.
Print Assumptions C11_array_element_no_constraint.
Print Assumptions C11_exact_scan_partial.
Print Assumptions C11_plain_bodies_instance.
Print Assumptions C11_exact_canon_partial.
Print Assumptions C11_full_canon_length_partial.
Print Assumptions C11_full_canon_length_vec_partial.
Print Assumptions C11_full_canon_range_partial.
Print Assumptions C11_loop_exact_partial.
Print Assumptions C11_full_loop_string_partial.
Print Assumptions C11_full_loop_vec_partial.
Print Assumptions C11_full_loop_num_partial.
Print Assumptions C11_full_flags_string_partial.
Print Assumptions C11_other_validators_condition_exact.
Print Assumptions C11_keyword_in_item.
Print Assumptions C11_loop_escaped_messages.
Print Assumptions C11_later_attrs_only_add.
Print Assumptions C11_unescape_exact_partial.
Print Assumptions C11_message_escapes_partial.
Print Assumptions C11_u64_bound_exact.
Print Assumptions C11_show_N_value.
Print Assumptions C11_show_N_reads.
Print Assumptions C11_oracle_exact.
Print Assumptions C11_none.
Print Assumptions C11_not_misattached.
Print Assumptions C11_chain_of_own_field.
Print Assumptions C11_kf1_neg_bound_refuted.
Print Assumptions C11_kf2_paren_in_literal_refuted.
Print Assumptions C11_kf3_email_url_substring_refuted.
Print Assumptions C11_kf4_keyword_in_text_refuted.
Print Assumptions C11_fixed5_multibyte_message_ok.
Print Assumptions C11_kf6_escape_chain_refuted.
Print Assumptions C11_fixed7_option_below_vec_ok.
Print Assumptions C11_fixed7_render_option_element.
Print Assumptions C11_kf8_flag_message_refuted.
Print Assumptions C11_kf9_f64_inexact_refuted.
Print Assumptions C11_kf10_length_equal_refuted.
Print Assumptions C11_classes_separate.
