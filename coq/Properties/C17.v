(* C17 - a failed run is never remembered as up to date.
   Only statements, [exact], Examples and [Print Assumptions] live here. *)
From Coq Require Import String List Arith Bool.
Require Import TT.Model.Str TT.Model.C08Fingerprint TT.Model.C08Run.
Require Import TT.Model.C17History TT.Model.C17Trunc.
Require Import TT.Proofs.C08RunProofs TT.Proofs.C08FpProofs TT.Proofs.C08Examples TT.Proofs.C17HistoryProofs TT.Proofs.C17TruncProofs.
Import ListNotations.

Notation up_to_date_c := (up_to_date project config sched fname tree tree files).

(* Faithful model (presence test in the callers), every state (any earlier history) whose record does not equal
   the current fingerprint (the run is due to an edit or there is no record), every discovery order, every fault
   position k: a non-forced run that gets as far as writing and whose k-th write fails
   - keeps sources and configuration;
   - if the failing write is one of the files of the plan: reports Failure, leaves the record exactly as it
     was, has written exactly the first k files and leaves no file under the name whose write failed (no truncated
     file survives: repair C17-1);
   - if only the record cannot be written: reports Success with every file of the plan in place and no record;
   - in both cases the record does not vouch for the current inputs afterwards (cache_hit = false);
   - the next non-forced run (under any order with the same fingerprint) regenerates: Success, every file
     current, record = fingerprint of the current inputs. *)
Theorem C17_fault : forall (w : sched) (st : cstate) (k : nat) r st1,
  run_c true w false (Some k) st = (r, st1) -> r <> NoCommands -> r <> UpToDate ->
  g_force (s_cfg st) = false ->
  s_cache st <> Some (fp w (s_src st) (s_cfg st)) ->
  let plan := files w (s_src st) (s_cfg st) in
  s_src st1 = s_src st /\ s_cfg st1 = s_cfg st /\
  (k < length plan -> r = Failure /\ s_cache st1 = s_cache st /\
     (forall f, s_out st1 f = unwrite fname tree fname_eqb (nth_error plan k)
                                (write_all fname tree fname_eqb (firstn k plan) (s_out st)) f)) /\
  (length plan <= k -> r = Success /\ s_cache st1 = None /\ up_to_date_c w st1) /\
  cache_hit_c true w st1 = false /\
  (forall w2 r2 st2, fp w2 (s_src st) (s_cfg st) = fp w (s_src st) (s_cfg st) ->
     run_c true w2 false None st1 = (r2, st2) ->
     r2 = Success /\ up_to_date_c w2 st2 /\ s_cache st2 = Some (fp w2 (s_src st) (s_cfg st))).
Proof. exact (fault_faithful project config sched fname tree tree fname_eqb tree_eqb files fp has_commands g_force true
                fname_eqb_spec tree_eqb_spec files_nodup). Qed.

(* the record is written after every file of the plan: a run that writes a record has written them all *)
Theorem C17_record_last : forall (w : sched) (flag : bool) (fault : option nat) (st : cstate) r st1,
  run_c true w flag fault st = (r, st1) -> s_cache st1 <> s_cache st ->
  s_cache st1 <> None -> r = Success /\ up_to_date_c w st1.
Proof. exact (record_last project config sched fname tree tree fname_eqb tree_eqb files fp has_commands g_force true
                fname_eqb_spec files_nodup). Qed.

(* in every other situation (e.g. the record matches and the run was due to a lost file) the next fault-free
   non-forced run either regenerates everything and records the current fingerprint, or is a cache hit - record
   equal to the current fingerprint and every file of the plan present - that leaves the state alone *)
Theorem C17_recovery_outcomes : forall (w : sched) (t : cstate) r2 st2, has_commands (s_src t) = true ->
  run_c true w false None t = (r2, st2) ->
  (r2 = Success /\ up_to_date_c w st2 /\ s_cache st2 = Some (fp w (s_src t) (s_cfg t))) \/
  (r2 = UpToDate /\ st2 = t /\ cache_hit_c true w t = true).
Proof. exact (recovery_outcomes project config sched fname tree tree fname_eqb tree_eqb files fp has_commands g_force true
                fname_eqb_spec files_nodup). Qed.

(* former witness of C17-1 (a failed write left a truncated file that the presence test of the next run accepted):
   matching record, types.ts lost, the regeneration fails at types.ts - nothing is left under that name, and the
   next run regenerates everything *)
Theorem C17_repaired_truncating_failure :
  let st1 := snd (run_c true w1 false None (init_state p0 c0)) in
  let st2 := step_c true st1 (Delete _ _ _ _ Types) in
  let r3 := run_c true w1 false (Some 0) st2 in
  let r4 := run_c true w1 false None (snd r3) in
  fst r3 = Failure /\ s_out (snd r3) Types = None /\ fst r4 = Success /\ all_current w1 (snd r4) = true.
Proof. exact c17_repaired_truncation. Qed.

(* ---------------- histories ----------------
   A step (hstep17) is one run - forced or not, fault-free or failing at write k for any k (k >= length plan: only the
   record write fails), since C17-1 a failing write leaves no file behind - optionally preceded by an arbitrary edit of
   sources and configuration. Ghost components: the inputs of the generation that wrote the record; dirty = a failed run
   has written over the output since then.
   Inv17: whenever a record is on disk it is the fingerprint of the generation that wrote it, and unless dirty every
   file of that generation is in place, complete. *)
Notation Inv17_c := (Inv17 project config sched fname tree tree files fp).

Theorem C17_inv_init : forall p c, Inv17_c (init17 p c).
Proof. exact Inv17_init. Qed.

Theorem C17_inv_step : forall (s : hstate17_c) (h : hstep17_c), Inv17_c s -> Inv17_c (step17_c s h).
Proof. exact (Inv17_step project config sched fname tree tree fname_eqb tree_eqb files fp has_commands g_force true
                fname_eqb_spec files_nodup). Qed.

Theorem C17_history : forall (steps : list hstep17_c) p c, Inv17_c (fold_left step17_c steps (init17 p c)).
Proof. exact Inv17_history_c. Qed.

(* after any history, a non-forced run that reports success leaves exactly the files of a fresh generation; one that
   reports up to date does so when the output is clean (no failed run has written over it since the record was made) and
   the state is outside C08's recorded class *)
Theorem C17_history_success_means_current : forall steps p c w st g d,
  fold_left step17_c steps (init17 p c) = (st, g, d) ->
  forall r st', run_c true w false None st = (r, st') ->
  r = Success \/ (r = UpToDate /\ d = false /\ kf_C08 w (st, g) = []) -> up_to_date_c w st'.
Proof. exact history_success_current. Qed.

(* the statement without the clean-output premise: not asserted, false on the model *)
Definition C17_history_full_statement : Prop := forall steps p c w st g d,
  fold_left step17_c steps (init17 p c) = (st, g, d) ->
  forall r st', run_c true w false None st = (r, st') ->
  r = Success \/ (r = UpToDate /\ kf_C08 w (st, g) = []) -> up_to_date_c w st'.

(* witness: A (no events) generated; edit to B (emits an event) and the run fails at events.ts after writing B's types.ts
   and commands.ts, the record still A's; revert to A, whose plan has no events.ts: every file of it is present, the
   record matches - "up to date" over B's files. An edit (a revert to the recorded inputs) between the failed run and the
   recovery: outside the property's quantifier (recovery runs follow the fault), documented. *)
Theorem C17_history_refuted :
  let '(st, g, d) := fold_left step17_c steps_refuting (init17 p_field_type c0) in
  d = true /\ kf_C08 w1 (st, g) = [] /\ fst (run_c true w1 false None st) = UpToDate /\
  all_current w1 (snd (run_c true w1 false None st)) = false.
Proof. exact history_full_refuted. Qed.

Example C17_ex_history :
  let '(st, g, d) := fold_left step17_c steps_example (init17 p0 c0) in
  d = true /\ fst (run_c true w1 false None st) = Success /\ all_current w1 (snd (run_c true w1 false None st)) = true.
Proof. exact history_example. Qed.

(* ---------------- faults after the open (Model/C17Trunc.v) ----------------
   FOpen k: the k-th write fails before the file is touched (the fault of C17_fault). FPost k n rm_ok: the k-th write
   fails after the target was truncated and n units of its content were written; then write_or_remove removes the file;
   rm_ok = false: the removal fails as well (its result is ignored) and the file stays, cut to n units (cut_tree n).
   Every statement is for every k, every n and both values of rm_ok. *)

(* C17_fault for the post-open fault: the run is due to an edit or a missing record. Failure is reported, the record is
   left alone, the first k files are written and the k-th is absent (removal succeeded) or holds the prefix (removal
   failed); the record does not vouch; the next non-forced run regenerates everything *)
Theorem C17_fault_post : forall (w : sched) (st : cstate) (k n : nat) (rm_ok : bool) r st1,
  run17_c w false (Some (FPost k n rm_ok)) st = (r, st1) -> r <> NoCommands -> r <> UpToDate ->
  s_cache st <> Some (fp w (s_src st) (s_cfg st)) ->
  let plan := files w (s_src st) (s_cfg st) in
  s_src st1 = s_src st /\ s_cfg st1 = s_cfg st /\
  (k < length plan -> r = Failure /\ s_cache st1 = s_cache st /\
     (forall f, s_out st1 f =
        (if rm_ok then unwrite fname tree fname_eqb (nth_error plan k) (write_all fname tree fname_eqb (firstn k plan) (s_out st)) f
         else leave_cut fname tree fname_eqb cut_tree n (nth_error plan k)
                        (write_all fname tree fname_eqb (firstn k plan) (s_out st)) f))) /\
  (length plan <= k -> r = Success /\ s_cache st1 = None /\ up_to_date_c w st1) /\
  cache_hit_c true w st1 = false /\
  (forall r2 st2, run_c true w false None st1 = (r2, st2) ->
     r2 = Success /\ up_to_date_c w st2 /\ s_cache st2 = Some (fp w (s_src st) (s_cfg st))).
Proof. exact (fault17_post project config sched fname tree tree fname_eqb tree_eqb files fp has_commands g_force cut_tree
                fname_eqb_spec tree_eqb_spec files_nodup). Qed.

(* recovery after ANY failed run - forced or not, whatever the record (matching: the run was forced or followed the loss
   of a file), open or post-open fault - outside the class kf_C17_rmfail (removal failed over a matching record): the
   presence test or the record test refuses the hit and the next non-forced run regenerates everything. This is the
   statement that the presence test excludes a hit over what a failed write left *)
Theorem C17_fault_recovery : forall (w : sched) (flag : bool) (ft : fault17) (st st1 : cstate),
  run17_c w flag (Some ft) st = (Failure, st1) -> kf_C17_rmfail w ft st = false ->
  s_src st1 = s_src st /\ s_cfg st1 = s_cfg st /\ s_cache st1 = s_cache st /\
  cache_hit_c true w st1 = false /\
  forall r2 st2, run_c true w false None st1 = (r2, st2) ->
    r2 = Success /\ up_to_date_c w st2 /\ s_cache st2 = Some (fp w (s_src st) (s_cfg st)).
Proof. exact (fault17_recovery project config sched fname tree tree fname_eqb tree_eqb files fp has_commands g_force cut_tree
                fname_eqb_spec files_nodup). Qed.

(* inside the class the model breaks the property (finding C17-2, confirmed on the real binary): generation; forced run
   whose first write fails after the open and whose removal fails; the next run answers up to date over the cut file *)
Theorem C17_rmfail_refuted :
  let st1 := snd (run17_c w1 false None (init_state p0 c0)) in
  let ft := FPost 0 0 false in
  let r2 := run17_c w1 true (Some ft) st1 in
  let r3 := run17_c w1 false None (snd r2) in
  kf_C17_rmfail w1 ft st1 = true /\ fst r2 = Failure /\
  s_out (snd r2) Types = option_map (cut_tree 0) (s_out st1 Types) /\ s_out (snd r2) Types <> s_out st1 Types /\
  fst r3 = UpToDate /\ all_current w1 (snd r3) = false.
Proof. exact c17_rmfail_witness. Qed.

(* the invariant over histories whose steps carry the refined faults *)
Theorem C17_inv_step_post : forall (s : hstate17_c) (h : hstep17t_c), Inv17_c s -> Inv17_c (step17t_c s h).
Proof. exact (Inv17_step17t project config sched fname tree tree fname_eqb tree_eqb files fp has_commands g_force cut_tree
                fname_eqb_spec files_nodup). Qed.

Theorem C17_history_post : forall (steps : list hstep17t_c) p c, Inv17_c (fold_left step17t_c steps (init17 p c)).
Proof. exact Inv17_history17t_c. Qed.

Example C17_ex_post :
  let st1 := snd (run17_c w1 false None (init_state p0 c0)) in
  let r2 := run17_c w1 true (Some (FPost 0 0 true)) st1 in
  let r3 := run17_c w1 false None (snd r2) in
  let st1e := edited project config fname tree tree (Some (p_field_type, c0)) st1 in
  let r4 := run17_c w1 false (Some (FPost 1 1 false)) st1e in
  let r5 := run17_c w1 false None (snd r4) in
  kf_C17_rmfail w1 (FPost 0 0 true) st1 = false /\ fst r2 = Failure /\ s_out (snd r2) Types = None /\
  fst r3 = Success /\ all_current w1 (snd r3) = true /\
  kf_C17_rmfail w1 (FPost 1 1 false) st1e = false /\ fst r4 = Failure /\ s_out (snd r4) Commands <> None /\
  s_cache st1e <> Some (fp w1 (s_src st1e) (s_cfg st1e)) /\
  fst r5 = Success /\ all_current w1 (snd r5) = true.
Proof. exact c17_trunc_example. Qed.

Example C17_ex_history_post :
  let '(st, g, d) := fold_left step17t_c steps17t_example (init17 p0 c0) in
  d = false /\ s_cache st = None /\ all_current w1 st = true.
Proof. exact history17t_example. Qed.

Example C17_ex_premises :
  fst (run_c true w1 false (Some 1) (init_state p0 c0)) = Failure /\
  fst (run_c true w1 false (Some 4) (init_state p0 c0)) = Success /\
  length (files w1 p0 c0) = 4.
Proof. exact c17_ex. Qed.

Print Assumptions C17_fault.
Print Assumptions C17_record_last.
Print Assumptions C17_recovery_outcomes.
Print Assumptions C17_repaired_truncating_failure.
Print Assumptions C17_inv_init.
Print Assumptions C17_inv_step.
Print Assumptions C17_history.
Print Assumptions C17_history_success_means_current.
Print Assumptions C17_history_refuted.
Print Assumptions C17_fault_post.
Print Assumptions C17_fault_recovery.
Print Assumptions C17_rmfail_refuted.
Print Assumptions C17_inv_step_post.
Print Assumptions C17_history_post.
