(* C17 - a failed run is never remembered as up to date.
   Only statements, [exact], Examples and [Print Assumptions] live here. *)
From Coq Require Import String List Arith Bool.
Require Import TT.Model.Str TT.Model.C08Fingerprint TT.Model.C08Run.
Require Import TT.Proofs.C08RunProofs TT.Proofs.C08FpProofs TT.Proofs.C08Examples.
Import ListNotations.

Notation up_to_date_c := (up_to_date project config sched fname tree tree files).

(* Faithful model (presence test in the callers), every state (any earlier history) whose record does not equal
   the current fingerprint (the run is due to an edit or there is no record), every discovery order, every fault
   position k: a non-forced run that gets as far as writing and whose k-th write fails
   - keeps sources and configuration;
   - if the failing write is one of the files of the plan: reports Failure, leaves the record exactly as it
     was, has written exactly the first k files and leaves no file under the name whose write failed (no truncated
     file survives: repair C17-1);
   - if only the record cannot be written: reports Success with every file of the plan in place and no record;
   - in both cases the record does not vouch for the current inputs afterwards (cache_hit = false);
   - the next non-forced run (under any order with the same fingerprint) regenerates: Success, every file
     current, record = fingerprint of the current inputs. *)
Theorem C17_fault : forall (w : sched) (st : cstate) (k : nat) r st1,
  run_c true w false (Some k) st = (r, st1) -> r <> NoCommands -> r <> UpToDate ->
  g_force (s_cfg st) = false ->
  s_cache st <> Some (fp w (s_src st) (s_cfg st)) ->
  let plan := files w (s_src st) (s_cfg st) in
  s_src st1 = s_src st /\ s_cfg st1 = s_cfg st /\
  (k < length plan -> r = Failure /\ s_cache st1 = s_cache st /\
     (forall f, s_out st1 f = unwrite fname tree fname_eqb (nth_error plan k)
                                (write_all fname tree fname_eqb (firstn k plan) (s_out st)) f)) /\
  (length plan <= k -> r = Success /\ s_cache st1 = None /\ up_to_date_c w st1) /\
  cache_hit_c true w st1 = false /\
  (forall w2 r2 st2, fp w2 (s_src st) (s_cfg st) = fp w (s_src st) (s_cfg st) ->
     run_c true w2 false None st1 = (r2, st2) ->
     r2 = Success /\ up_to_date_c w2 st2 /\ s_cache st2 = Some (fp w2 (s_src st) (s_cfg st))).
Proof. exact (fault_faithful project config sched fname tree tree fname_eqb tree_eqb files fp has_commands g_force true
                fname_eqb_spec tree_eqb_spec files_nodup). Qed.

(* the record is written after every file of the plan: a run that writes a record has written them all *)
Theorem C17_record_last : forall (w : sched) (flag : bool) (fault : option nat) (st : cstate) r st1,
  run_c true w flag fault st = (r, st1) -> s_cache st1 <> s_cache st ->
  s_cache st1 <> None -> r = Success /\ up_to_date_c w st1.
Proof. exact (record_last project config sched fname tree tree fname_eqb tree_eqb files fp has_commands g_force true
                fname_eqb_spec files_nodup). Qed.

(* in every other situation (e.g. the record matches and the run was due to a lost file) the next fault-free
   non-forced run either regenerates everything and records the current fingerprint, or is a cache hit - record
   equal to the current fingerprint and every file of the plan present - that leaves the state alone *)
Theorem C17_recovery_outcomes : forall (w : sched) (t : cstate) r2 st2, has_commands (s_src t) = true ->
  run_c true w false None t = (r2, st2) ->
  (r2 = Success /\ up_to_date_c w st2 /\ s_cache st2 = Some (fp w (s_src t) (s_cfg t))) \/
  (r2 = UpToDate /\ st2 = t /\ cache_hit_c true w t = true).
Proof. exact (recovery_outcomes project config sched fname tree tree fname_eqb tree_eqb files fp has_commands g_force true
                fname_eqb_spec files_nodup). Qed.

(* former witness of C17-1 (a failed write left a truncated file that the presence test of the next run accepted):
   matching record, types.ts lost, the regeneration fails at types.ts - nothing is left under that name, and the
   next run regenerates everything *)
Theorem C17_repaired_truncating_failure :
  let st1 := snd (run_c true w1 false None (init_state p0 c0)) in
  let st2 := step_c true st1 (Delete _ _ _ _ Types) in
  let r3 := run_c true w1 false (Some 0) st2 in
  let r4 := run_c true w1 false None (snd r3) in
  fst r3 = Failure /\ s_out (snd r3) Types = None /\ fst r4 = Success /\ all_current w1 (snd r4) = true.
Proof. exact c17_repaired_truncation. Qed.

Example C17_ex_premises :
  fst (run_c true w1 false (Some 1) (init_state p0 c0)) = Failure /\
  fst (run_c true w1 false (Some 4) (init_state p0 c0)) = Success /\
  length (files w1 p0 c0) = 4.
Proof. exact c17_ex. Qed.

Print Assumptions C17_fault.
Print Assumptions C17_record_last.
Print Assumptions C17_recovery_outcomes.
Print Assumptions C17_repaired_truncating_failure.
