(* C17 - a failed run is never remembered as up to date.
   Only statements, [exact], Examples and [Print Assumptions] live here. *)
From Coq Require Import String List Arith Bool.
Require Import TT.Model.Str TT.Model.C08Fingerprint TT.Model.C08Run.
Require Import TT.Proofs.C08RunProofs TT.Proofs.C08FpProofs TT.Proofs.C08Examples.
Import ListNotations.

Notation up_to_date_c := (up_to_date project config sched fname tree tree files).

(* Faithful model, every state (any earlier history), every discovery order, every fault position k:
   a non-forced run that gets as far as writing and whose k-th write fails
   - keeps sources and configuration;
   - if the failing write is one of the files of the plan: reports Failure, leaves the record exactly as it
     was and has written exactly the first k files;
   - if only the record cannot be written: reports Success with every file of the plan in place and no record;
   - in both cases the record does not vouch for the current inputs afterwards (cache_hit = false);
   - the next non-forced run (under any order with the same fingerprint) regenerates: Success, every file
     current, record = fingerprint of the current inputs. *)
Theorem C17_fault : forall (w : sched) (st : cstate) (k : nat) r st1,
  run_c false w false (Some k) st = (r, st1) -> r <> NoCommands -> r <> UpToDate ->
  g_force (s_cfg st) = false ->
  let plan := files w (s_src st) (s_cfg st) in
  s_src st1 = s_src st /\ s_cfg st1 = s_cfg st /\
  (k < length plan -> r = Failure /\ s_cache st1 = s_cache st /\
     (forall f, s_out st1 f = write_all fname tree fname_eqb (firstn k plan) (s_out st) f)) /\
  (length plan <= k -> r = Success /\ s_cache st1 = None /\ up_to_date_c w st1) /\
  cache_hit_c false w st1 = false /\
  (forall w2 r2 st2, fp w2 (s_src st) (s_cfg st) = fp w (s_src st) (s_cfg st) ->
     run_c false w2 false None st1 = (r2, st2) ->
     r2 = Success /\ up_to_date_c w2 st2 /\ s_cache st2 = Some (fp w2 (s_src st) (s_cfg st))).
Proof. exact (fault_faithful project config sched fname tree tree fname_eqb tree_eqb files fp has_commands g_force false
                fname_eqb_spec files_nodup eq_refl). Qed.

(* the record is written after every file of the plan: a run that writes a record has written them all *)
Theorem C17_record_last : forall (w : sched) (flag : bool) (fault : option nat) (st : cstate) r st1,
  run_c false w flag fault st = (r, st1) -> s_cache st1 <> s_cache st ->
  s_cache st1 <> None -> r = Success /\ up_to_date_c w st1.
Proof. exact (record_last project config sched fname tree tree fname_eqb tree_eqb files fp has_commands g_force false
                fname_eqb_spec files_nodup). Qed.

Example C17_ex_premises :
  fst (run_c false w1 false (Some 1) (init_state p0 c0)) = Failure /\
  fst (run_c false w1 false (Some 4) (init_state p0 c0)) = Success /\
  length (files w1 p0 c0) = 4.
Proof. exact c17_ex. Qed.

Print Assumptions C17_fault.
Print Assumptions C17_record_last.
