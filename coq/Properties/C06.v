(* C06 - property keys and enum literals equal the names serde uses on the wire.
   Model: Model/C06Serde.v (faithful: token printing, substring scanners, skip filter for fields and
   variants, compute_field_name for fields, compute_variant_name for variants - the code with the
   repairs C06-1-variant-rule and C06-6-variant-skip). Specification: Spec/C06SerdeRule.v (serde_derive case.rs).
   Only statements, [exact], examples and [Print Assumptions] live here. *)
From Coq Require Import String Ascii.
From Coq Require Import List Arith Bool.
Require Import TT.Model.Str TT.Model.C06Serde TT.Spec.C06SerdeRule.
Require Import TT.Model.C06Print TT.Spec.TsLex TT.Spec.TsModule TT.Spec.C06Keys.
Require Import TT.Proofs.C06Strings TT.Proofs.C06Proofs TT.Proofs.C06Main TT.Proofs.C06Print.
Require Import TT.Proofs.C10ParseTy TT.Proofs.C10ParseEx.
Require Import TT.Proofs.LexFacts TT.Proofs.C06Lists TT.Proofs.C06File TT.Proofs.C06C10.
Import ListNotations.
Local Open Scope list_scope.

(* Attribute spellings: rename = v and rename(serialize = v, deserialize = w) in either order or with one
   side only, likewise rename_all; other container keys (flags and key = value) anywhere.
   For every container kind, container attribute list, ASCII identifier (plain or raw: r#type is named
   type, as serde does) and item attribute list of the
   domain (rename = any string, skip, any other name or name = any string, in any order, in any number
   of #[serde] attributes) outside the four recorded classes (C06-2, -3, -4, -5): the emitted keys / literals are exactly
   serde's wire names - an item rename wins, the container rule is the field rule for struct fields
   and the variant rule for variants, unattributed items keep their Rust name, an item is absent iff
   it carries skip. (The naming routines are total since the camelCase guards.) *)
Theorem C06_names : forall c : container,
  in_domain c = true -> kf_C06 c = false ->
  emitted_keys default_field_case c = serde_wire_names c.
Proof. exact names_correct. Qed.

(* the same for EVERY configured default_field_case (any string; an unknown one counts as camelCase),
   outside the configuration class C06-7; C06_names is the instance for the default configuration,
   where that class is empty *)
Theorem C06_names_cfg : forall (dfc : str) (c : container),
  in_domain c = true -> kf_C06 c = false -> kf_config_case dfc c = false ->
  emitted_keys dfc c = serde_wire_names c.
Proof. exact names_correct_cfg. Qed.
Theorem C06_config_default_empty : forall c : container, kf_config_case default_field_case c = false.
Proof. exact config_default_empty. Qed.
(* C06-7: with default_field_case = camelCase an unattributed struct field is renamed, serde keeps it *)
Theorem C06_config_case_refuted : in_domain w7 = true /\ kf_C06 w7 = false /\ kf_config_case (L "camelCase") w7 = true /\
  emitted_keys (L "camelCase") w7 = [L "userId"; L "a"] /\ serde_wire_names w7 = [L "user_id"; L "a"] /\
  c06_ok w7 [L "userId"; L "a"] = false.
Proof. exact config_case_refuted. Qed.

(* the run-time oracle is exact *)
Theorem C06_oracle_exact : forall (c : container) (observed : list str),
  c06_ok c observed = true <-> observed = serde_wire_names c.
Proof. exact oracle_exact. Qed.

(* string level (Model/C06Print.v: ts_key, escape_js as the templates print; Spec/TsLex.v lexer,
   Spec/TsModule.v type parser, Spec/C06Keys.v reader) - every byte string:
   decoding inverts escaping; a literal is one string token whose decoded body is the name; the key
   token before the colon decodes to the name whichever form ts_key chose *)
Theorem C06_unescape_escape : forall s : str, js_unescape (escape_js s) = s.
Proof. exact unescape_escape. Qed.
Theorem C06_lex_literal : forall f name rest,
  lexm (S f) (literal_text name ++ rest) = KStr DQ (escape_js name) :: lexm f rest /\
  js_unescape (escape_js name) = name.
Proof. exact lex_literal. Qed.
Theorem C06_key_token : forall f bare name rest, (bare = true -> ident_bytes name = true) ->
  exists t k, lexm (S f) (key_text_of bare name ++ ":"%char :: rest) = t :: lexm f (":"%char :: rest) /\
              key_of_tok t = Some k /\ key_text k = name.
Proof. exact key_token. Qed.
(* the enum alias template, any non-empty list of names: the text lexes to the literal tokens, and the
   type parser + lits_of_ty read exactly the names back *)
Theorem C06_lex_union : forall names f rest, names <> [] ->
  lexm (S (4 * (List.length names - 1) + f)) (union_text names ++ rest) = union_toks names ++ lexm f rest.
Proof. exact lex_union. Qed.
Theorem C06_union_reads_back : forall names rest, names <> [] ->
  exists t, ptype (union_toks names ++ P ";" :: rest) = Some (t, P ";" :: rest) /\ lits_of_ty t = Some names.
Proof. exact union_reads_back. Qed.

(* deepening round 7. The escape functions as written (five sequential replaces) are the character-wise
   map, so every string-level theorem above speaks about the text the code prints *)
Theorem C06_escape_code_charwise : forall s : str, escape_js_code s = escape_js s.
Proof. exact escape_code_charwise. Qed.
(* whole member lists. x = (member, tokens of the text after its colon, the parsed value). For every list of
   members whose bare keys are made of identifier bytes and whose value text lexes in front of the separator:
   the interface body / the z.object body lexes to the member tokens followed by the closing tokens *)
Theorem C06_lex_interface_body : forall l : list (member * (list tk * ty)),
  Forall (fun x => key_choice_ok x /\ lexes semi_next (m_value (fst x)) (fst (snd x))) l ->
  lexes T (interface_body (map fst l)) (flat_map mtoks l ++ [P "}"]).
Proof. exact (@lex_interface_body ty). Qed.
Theorem C06_lex_zobject_body : forall l : list (member * (list tk * ex)),
  Forall (fun x => key_choice_ok x /\ lexes comma_next (m_value (fst x)) (fst (snd x))) l ->
  lexes T (zobject_body (map fst l)) (flat_map ptoks l ++ [P "}"; P ")"; P ";"]).
Proof. exact (@lex_zobject_body ex). Qed.
(* and when the type parser reads each value as one unit in front of the semicolon, pmembers (the entry point
   of the item parser after the opening brace) returns one member per printed member, in order, and the keys
   the reader of Spec/C06Keys takes from them are exactly the serialized names *)
Theorem C06_interface_members_read : forall (l : list (member * (list tk * ty))) rest,
  Forall (fun x => key_choice_ok x /\ reads ptype ";" x) l ->
  pmembers (flat_map mtoks l ++ P "}" :: rest) = Some ((map mem_of l, []), rest) /\
  map (fun m => key_text (fst (fst m))) (map mem_of l) = map m_name (map fst l).
Proof. exact interface_members_read. Qed.
(* the object literal of z.object, for whatever expression parser level rec reads the values *)
Theorem C06_zobject_props_read : forall rec (l : list (member * (list tk * ex))) rest,
  Forall (fun x => key_choice_ok x /\ reads rec "," x) l ->
  p_atom rec (P "{" :: flat_map ptoks l ++ P "}" :: rest) = Some (EObj (map prop_of l), rest) /\
  mapM (fun p : option key * ex => match fst p with Some k => Some (key_text k) | None => None end) (map prop_of l)
  = Some (map m_name (map fst l)).
Proof. exact zobject_props_read. Qed.
(* the array of z.enum: text of any list of names -> tokens -> array of string literals -> exactly the names *)
Theorem C06_lex_zenum_list : forall names, lexes T (zenum_list names) (arr_toks (map escape_js names)).
Proof. exact lex_zenum_list. Qed.
Theorem C06_zenum_array_read : forall rec names rest, reads_lits rec ->
  p_atom rec (P "[" :: arr_toks (map escape_js names) ++ P "]" :: rest) = Some (EArr (map (EStr DQ) (map escape_js names)), rest) /\
  mapM (fun x => match x with EStr _ s => Some (js_unescape s) | _ => None end) (map (EStr DQ) (map escape_js names)) = Some names.
Proof. exact zenum_array_read. Qed.
Theorem C06_expr_reads_lits : forall f, reads_lits (p_expr (S f)).
Proof. exact p_expr_lit. Qed.
Example C06_ex_members : Forall (fun x => key_choice_ok x /\ lexes semi_next (m_value (fst x)) (fst (snd x)) /\ reads ptype ";" x) ex_members
  /\ map m_name (map fst ex_members) = [L "user-id"; L "firstName"; L "a""b\c"].
Proof. split; [exact ex_members_ok|reflexivity]. Qed.
Example C06_ex_props : Forall (fun x => key_choice_ok x /\ lexes comma_next (m_value (fst x)) (fst (snd x)) /\ reads (p_expr 62) "," x) ex_props.
Proof. exact ex_props_ok. Qed.
Example C06_ex_escape_code : escape_js_code (L "a\""b") = L "a\\\""b" /\ zenum_list [L "A"; L "b""c"] = L """A"", ""b\""c""".
Proof. vm_compute. repeat split. Qed.

(* whole declarations, string to names: for every identifier N and every list of members / names, the text the
   templates print (partials/interface.tera, partials/enum.tera, zod partials/schema.ts.tera, generate_enum_schema;
   keys by ts_key, literals by the five-replace escape) is read by the specification lexer, the module parser and
   the reader of Spec/C06Keys (read_keys, the function the run-time check applies to types.ts) as exactly the
   list of serialized names. member_ok / prop_ok: a bare key is made of identifier bytes, the value text lexes in
   front of the separator into error-free tokens and the type / expression parser reads them as one unit *)
Theorem C06_read_interface : forall n (l : list (member * (list tk * ty))), ident n = true -> Forall member_ok l ->
  read_keys n (interface_text n (map fst l)) = Some [DInterface (map m_name (map fst l))].
Proof. exact read_interface. Qed.
Theorem C06_read_alias : forall n names, ident n = true -> names <> [] ->
  read_keys n (alias_text n names) = Some [DLiterals names].
Proof. exact read_alias. Qed.
Theorem C06_read_zobject : forall n (l : list (member * (list tk * ex))), ident n = true -> Forall prop_ok l ->
  read_keys n (zobject_text n (map fst l)) = Some [DZObject (map m_name (map fst l))].
Proof. exact read_zobject. Qed.
Theorem C06_read_zenum : forall n names, ident n = true -> names <> [] ->
  read_keys n (zenum_text n names) = Some [DZEnum names].
Proof. exact read_zenum. Qed.
Example C06_ex_files : Forall member_ok ex_members /\ Forall prop_ok ex_props /\
  read_keys (L "T0") (interface_text (L "T0") (map fst ex_members)) = Some [DInterface [L "user-id"; L "firstName"; L "a""b\c"]] /\
  read_keys (L "T0") (zenum_text (L "T0") [L "IN_PROGRESS"; L "a\"; L "x""y"]) = Some [DZEnum [L "IN_PROGRESS"; L "a\"; L "x""y"]] /\
  interface_text (L "T0") (map fst ex_members) =
    L "export interface T0 {" ++ [LF] ++ L "  ""user-id""?: string;" ++ [LF] ++ L "  firstName: number;" ++ [LF] ++ L "  ""a\""b\\c"": string;" ++ [LF] ++ L "}".
Proof. split; [exact ex_members_file|]. split; [exact ex_props_file|]. split; [exact (proj1 ex_files)|].
  split; [exact (proj2 (proj2 (proj2 ex_files)))|vm_compute; reflexivity]. Qed.

(* the parsing premise (reads) holds for the canonical tokens of every normal-form type tree / Zod expression of
   C10 (its round trips through the same specification parser): what remains a premise for such members is the lexing of the value text *)
Theorem C06_reads_type : forall (m : member) (t : ty), nf t -> nest t < TYF -> reads ptype ";" (m, (pr t, t)).
Proof. exact reads_type. Qed.
Theorem C06_reads_expr : forall (m : member) (e : ex), nfx e -> enest e < 62 -> reads (p_expr 62) "," (m, (pe e, e)).
Proof. exact reads_expr. Qed.
Example C06_ex_reads_type : nf ex_ty /\ nest ex_ty < TYF /\
  pr ex_ty = [KId (L "Record"); P "<"; KId (L "string"); P ","; KId (L "User"); P "["; P "]"; P ">"].
Proof. split; [exact (proj1 ex_ty_ok)|]. split; [exact (proj2 ex_ty_ok)|reflexivity]. Qed.

(* attributes other than rename and skip (skip_serializing_if = s, default, default = s, ...) change
   nothing: two containers that differ only in such attributes emit the same names, outside the classes *)
Theorem C06_other_attrs_inert : forall c c' : container,
  same_modulo_others c c' ->
  in_domain c = true -> in_domain c' = true -> kf_C06 c = false -> kf_C06 c' = false ->
  emitted_keys default_field_case c = emitted_keys default_field_case c'.
Proof. exact other_attrs_inert. Qed.

(* serde itself never looks at them *)
Theorem C06_spec_ignores_others : forall c c' : container,
  same_modulo_others c c' -> serde_wire_names c = serde_wire_names c'.
Proof. exact spec_ignores_others. Qed.

(* the naming routines as called: apply_naming_convention (total since the camelCase guard) computes
   serde's field rule, the rule part of compute_variant_name (camelCase computed at the call site,
   apply_to_variant otherwise) is serde's variant rule *)
Theorem C06_field_rule : forall (r : rule) (s : str),
  uident_ok s = true -> apply_naming_convention r s = field_rule r s.
Proof. exact apply_field_ok. Qed.
Theorem C06_variant_rule : forall (r : rule) (s : str),
  (match r with RCamel => variant_camel s | _ => apply_to_variant r s end) = variant_rule r s.
Proof. exact apply_variant_ok. Qed.

(* deepening round 7: item identifiers may be UTF-8 (uident_ok) under every field rule and under the PascalCase /
   lowercase / UPPERCASE variant rules, and under camelCase when the first character is ASCII (uni_rule_ok; the
   SnakeCase-based variant rules stay ASCII-only); C06_names and C06_names_cfg are stated on this domain.
   The former ASCII-only domain lies inside it; ASCII identifiers are UTF-8 identifiers *)
Theorem C06_domain_ascii : forall c : container, in_domain0 c = true ->
  forallb (fun it => is_ascii_str (unraw (it_ident it))) (c_items c) = true -> in_domain c = true.
Proof. exact domain_ascii. Qed.
Theorem C06_ident_ok_uident : forall s : str, ident_ok s = true -> uident_ok s = true.
Proof. exact ident_ok_uident. Qed.
Example C06_ex_unicode :
  in_domain wu_struct = true /\ kf_C06 wu_struct = false /\
  emitted_keys default_field_case wu_struct = [L "GRößE-X"; L "NAïVE-éTé"; L "name"] /\
  in_domain (wu_enum "UPPERCASE" "Été") = true /\ emitted_keys default_field_case (wu_enum "UPPERCASE" "Été") = [L "ÉTé"; L "DONE"] /\
  in_domain (wu_enum "camelCase" "Naïve") = true /\ emitted_keys default_field_case (wu_enum "camelCase" "Naïve") = [L "naïve"; L "done"] /\
  in_domain (wu_enum "snake_case" "Été") = false /\ in_domain (wu_enum "camelCase" "Été") = false /\
  in_domain (wu_enum "snake_case" "Ete") = true.
Proof. exact unicode_examples. Qed.

(* where the repaired defect C06-1 was visible: outside rules_differ the two rules coincide *)
Theorem C06_rules_agree : forall (r : rule) (s : str),
  ident_ok s = true -> rules_differ r s = false -> field_rule r s = variant_rule r s.
Proof. exact rules_agree. Qed.

(* the scanners on one attribute, on the complement of C06-4 / C06-5 and for every value text *)
Theorem C06_parse_rename : forall g : group,
  forallb other_ok g = true -> count_renames g <= 1 ->
  (forall m, In m g -> rename_free m) ->
  (forall l, In (MRenameP l) g -> p_bad l = false) ->
  (forall v, first_rename g = Some v -> needs_escape v = false) ->
  parse_rename (group_string g) = first_rename g.
Proof. exact parse_rename_group. Qed.

Theorem C06_skip_test : forall g : group,
  field_skip (group_string g) = existsb skip_in g && negb (existsb skipser_in g).
Proof. exact field_skip_group. Qed.

(* repaired defects: the old witnesses of C06-1 and C06-6 now satisfy the property, and the oracle
   rejects the old output *)
Theorem C06_variant_rule_repaired : in_domain w1 = true /\ kf_C06 w1 = false /\
  emitted_keys default_field_case w1 = [L "IN_PROGRESS"; L "DONE"] /\ c06_ok w1 [L "IN_PROGRESS"; L "DONE"] = true
  /\ c06_ok w1 [L "INPROGRESS"; L "DONE"] = false.
Proof. exact variant_rule_repaired. Qed.
Theorem C06_variant_skip_repaired : in_domain w6 = true /\ kf_C06 w6 = false /\
  emitted_keys default_field_case w6 = [L "Active"] /\ c06_ok w6 [L "Active"] = true /\ c06_ok w6 [L "Active"; L "Gone"] = false.
Proof. exact variant_skip_repaired. Qed.

(* each remaining class fails on the faithful model: computed witnesses *)
Theorem C06_skip_text_refuted : refutes kf_skip_text w2 [L "a"] /\ serde_wire_names w2 = [L "a"; L "b"; L "c"].
Proof. exact skip_text_refuted. Qed.
Theorem C06_skip_beside_refuted : refutes kf_skip_beside w3 [L "a"; L "b"] /\ serde_wire_names w3 = [L "a"].
Proof. exact skip_beside_refuted. Qed.
Theorem C06_rename_escape_refuted :
  refutes kf_rename_escape w4 [L "a\"] /\ serde_wire_names w4 = [L "a""b"].
Proof. exact rename_escape_refuted. Qed.
Theorem C06_rename_text_refuted : refutes kf_rename_text w5 [L " , alias = "] /\ serde_wire_names w5 = [L "e"].
Proof. exact rename_text_refuted. Qed.
Theorem C06_skip_text_variant_refuted : refutes kf_skip_text w2e [L "A"] /\ serde_wire_names w2e = [L "A"; L "B"].
Proof. exact skip_text_variant_refuted. Qed.
Theorem C06_skip_beside_variant_refuted : refutes kf_skip_beside w3e [L "A"; L "B"] /\ serde_wire_names w3e = [L "A"].
Proof. exact skip_beside_variant_refuted. Qed.
(* repaired by C06-8-9-serde-attr-spellings: the witnesses of C06-8 (deserialize alone / first), of C06-9
   (rename_all_fields) and the former witness of C06-5 now satisfy the property, outside every class;
   the oracle rejects the old outputs *)
Theorem C06_spellings_repaired :
  repaired w8 [L "user_id"] /\ repaired w8i [L "ser_name"] /\ repaired w9 [L "TaskStarted"] /\ repaired w5old [L "e"] /\
  c06_ok w8 [L "userId"] = false /\ c06_ok w8i [L "de_name"] = false /\ c06_ok w9 [L "taskStarted"] = false.
Proof. exact spellings_repaired. Qed.
(* every variant shape (unit, tuple, struct) is named by the variant routine: the three markers
   parse_enum writes all pass the starts_with test of FieldContext::from_field_info *)
Theorem C06_variant_shapes : forall sh : shape, named_as_variant (variant_marker sh) = true.
Proof. exact variant_marker_is_variant. Qed.
(* inside C06-3 inertness fails: skip_serializing_if beside skip brings the field back *)
Theorem C06_other_attrs_inert_refuted :
  same_modulo_others w3' w3 /\ in_domain w3' = true /\ in_domain w3 = true /\ kf_C06 w3' = false /\
  emitted_keys default_field_case w3' <> emitted_keys default_field_case w3.
Proof. exact other_attrs_inert_refuted. Qed.

(* non-vacuity: containers that meet the premises of C06_names and exercise every clause *)
Definition ex_struct : container :=
  {| c_kind := KStruct;
     c_attrs := [[CFlag (L "deny_unknown_fields")]; [CRenameAll (L "camelCase")]];
     c_items := [it0 "user_id" [];
                 it0 "first_last_name" [[MOther (L "skip_serializing_if") (Some (L "Option::is_none")); MOther (L "default") None]];
                 it0 "x" [[MOther (L "default") (Some (L "default_x"))]; [MRename (L "full-name")]];
                 it0 "secret" [[MOther (L "default") None; MSkip]];
                 it0 "_a__b1" [[MRename (L "is it = , ok")]];
                 it0 "r#type_of" [[MOther (L "default") None]]] |}.
Example C06_ex_struct :
  in_domain ex_struct = true /\ kf_C06 ex_struct = false /\
  emitted_keys default_field_case ex_struct = [L "userId"; L "firstLastName"; L "full-name"; L "is it = , ok"; L "typeOf"].
Proof. vm_compute. repeat split. Qed.
Definition ex_enum : container :=
  {| c_kind := KEnum; c_attrs := [[CRenameAll (L "kebab-case")]];
     c_items := [it0 "InProgress" []; it0 "HTTPError" [[MOther (L "alias") (Some (L "http"))]]; it0 "Done" [[MRename (L "fin")]];
                 it0 "Gone" [[MSkip; MOther (L "alias") (Some (L "x"))]]] |}.
Example C06_ex_enum :
  in_domain ex_enum = true /\ kf_C06 ex_enum = false /\
  emitted_keys default_field_case ex_enum = [L "in-progress"; L "h-t-t-p-error"; L "fin"].
Proof. vm_compute. repeat split. Qed.
(* a non-default configuration outside C06-7, and a string-level instance with characters that need escapes *)
Example C06_ex_cfg :
  let c := {| c_kind := KStruct; c_attrs := []; c_items := [it0 "id" []; it0 "user_id" [[MRename (L "uid")]]; it0 "tmp_x" [[MSkip]]] |} in
  in_domain c = true /\ kf_C06 c = false /\ kf_config_case (L "kebab-case") c = false /\ emitted_keys (L "kebab-case") c = [L "id"; L "uid"].
Proof. vm_compute. repeat split. Qed.
Example C06_ex_print :
  key_text_of false (L "a\""b c") = L """a\\\""b c""" /\ ident_bytes (L "user_id") = true /\ ident_bytes (L "user-id") = false /\
  union_text [L "IN_PROGRESS"; L "a\"] = L """IN_PROGRESS"" | ""a\\""".
Proof. vm_compute. repeat split. Qed.
(* every legal spelling of the container and item attributes, outside the classes: the parenthesised
   form with serialize first or alone, other keys before and after, split over several attributes *)
Definition ex_spellings : container :=
  {| c_kind := KEnum;
     c_attrs := [[CFlag (L "deny_unknown_fields"); CKV (L "tag") (L "type")];
                 [CRenameAllP [(true, L "snake_case"); (false, L "camelCase")]; CKV (L "rename") (L "Wire")]];
     c_items := [it0 "TaskStarted" []; it0 "HTTPError" [[MRenameP [(true, L "http")]]];
                 it0 "Moved" [[MOther (L "alias") (Some (L "mv"))]; [MRenameP [(true, L "moved-to"); (false, L "m")]]]] |}.
Example C06_ex_spellings :
  in_domain ex_spellings = true /\ kf_C06 ex_spellings = false /\
  emitted_keys default_field_case ex_spellings = [L "task_started"; L "http"; L "moved-to"].
Proof. vm_compute. repeat split. Qed.
(* an unattributed struct keeps the Rust names *)
Example C06_ex_plain :
  emitted_keys default_field_case {| c_kind := KStruct; c_attrs := []; c_items := [it0 "user_id" []; it0 "URL" []] |}
  = [L "user_id"; L "URL"].
Proof. vm_compute. reflexivity. Qed.
(* the two containers of the inertness statement really differ only in other attributes *)
Example C06_ex_inert :
  same_modulo_others ex_struct
    {| c_kind := KStruct; c_attrs := [[CRenameAll (L "camelCase")]];
       c_items := [it0 "user_id" []; it0 "first_last_name" []; it0 "x" [[MRename (L "full-name")]]; it0 "secret" [[MSkip]];
                   it0 "_a__b1" [[MRename (L "is it = , ok")]]; it0 "r#type_of" []] |}.
Proof. repeat split. Qed.
Example C06_ex_rules_agree : ident_ok (L "InProgress") = true /\ rules_differ RCamel (L "InProgress") = false
  /\ rules_differ RScreamingSnake (L "InProgress") = true /\ variant_rule RScreamingSnake (L "InProgress") = L "IN_PROGRESS".
Proof. vm_compute. repeat split. Qed.

Print Assumptions C06_names.
Print Assumptions C06_names_cfg.
Print Assumptions C06_config_default_empty.
Print Assumptions C06_config_case_refuted.
Print Assumptions C06_oracle_exact.
Print Assumptions C06_unescape_escape.
Print Assumptions C06_lex_literal.
Print Assumptions C06_key_token.
Print Assumptions C06_lex_union.
Print Assumptions C06_union_reads_back.
Print Assumptions C06_escape_code_charwise.
Print Assumptions C06_lex_interface_body.
Print Assumptions C06_lex_zobject_body.
Print Assumptions C06_interface_members_read.
Print Assumptions C06_zobject_props_read.
Print Assumptions C06_lex_zenum_list.
Print Assumptions C06_zenum_array_read.
Print Assumptions C06_expr_reads_lits.
Print Assumptions C06_read_interface.
Print Assumptions C06_read_alias.
Print Assumptions C06_read_zobject.
Print Assumptions C06_read_zenum.
Print Assumptions C06_reads_type.
Print Assumptions C06_reads_expr.
Print Assumptions C06_other_attrs_inert.
Print Assumptions C06_spec_ignores_others.
Print Assumptions C06_field_rule.
Print Assumptions C06_variant_rule.
Print Assumptions C06_domain_ascii.
Print Assumptions C06_ident_ok_uident.
Print Assumptions C06_rules_agree.
Print Assumptions C06_parse_rename.
Print Assumptions C06_skip_test.
Print Assumptions C06_variant_rule_repaired.
Print Assumptions C06_variant_skip_repaired.
Print Assumptions C06_skip_text_refuted.
Print Assumptions C06_skip_beside_refuted.
Print Assumptions C06_rename_escape_refuted.
Print Assumptions C06_rename_text_refuted.
Print Assumptions C06_skip_text_variant_refuted.
Print Assumptions C06_skip_beside_variant_refuted.
Print Assumptions C06_spellings_repaired.
Print Assumptions C06_variant_shapes.
Print Assumptions C06_other_attrs_inert_refuted.
