(* C09 - in Zod mode no schema is read before it is defined.
   Only statements, [exact], examples and [Print Assumptions] live here. *)
From Coq Require Import String Ascii.
From Coq Require Import List Arith Bool.
Require Import TT.Model.Base TT.Model.Str TT.Model.C07TypeParse TT.Model.C07Harvest TT.Model.C07Worklist TT.Model.C07Reach TT.Model.Topo.
Require Import TT.Spec.TsModule TT.Spec.TsObs TT.Spec.C07Spec TT.Spec.C07Known TT.Spec.C09Spec TT.Spec.C09Known TT.Model.C09Module.
Require Import TT.Proofs.TopoProofs TT.Proofs.C20Extra TT.Proofs.C09Proofs TT.Proofs.C09Acyclic TT.Proofs.C07Lift TT.Proofs.C09Full TT.Proofs.C07Total TT.Proofs.C09Oracle TT.Proofs.C09ModuleProofs TT.Proofs.C09Witness.
Require Import TT.Model.C09Text TT.Proofs.C09Text TT.Proofs.C09TextEx.
Import ListNotations.

(* For every iteration order of every hash collection and every project of the documented feature set
   outside the recorded classes whose type dependency graph (serde types and the serde types their
   fields mention) is acyclic: the schema constants are emitted without repetition and every declared
   schema that a struct's fields mention - wherever in the field type it is nested - comes before that
   struct's schema. No class of its own remains: C09-1 (edge hidden under a one-argument Result) was repaired;
   the remaining premises are C07-5 (Result field), C07-6 (odd names) and C07-7 (inline modules), in which the
   readers of the tool still disagree with the type graph of the property text. *)
Theorem C09_decl_before_use : forall (o : orders) (p : project) (out : list str),
  ord_ok o -> in_domain p = true ->
  kf_c07_field_result p = false -> kf_c07_odd_name p = false -> kf_c07_inline_mod p = false ->
  kf_c07_payload_expr p = false ->
  acyclic (spec_graph p) -> emitted_zod o p = Some out ->
  NoDup out /\ forall u v, In u out -> In v out -> In v (schema_refs p u) -> idx_before out v u.
Proof. exact zod_order_full. Qed.

(* the whole module: struct and enum schemas in the emitted order, then one parameter schema per command with
   parameters (generate_types_file_content, types.ts.tera), each with the identifiers of its right-hand side as
   rendered by the Zod schema builder (renderer model of C10). The run-time oracle accepts the model's module:
   no constant is read before its definition and every parameter schema follows every struct and enum schema. *)
Theorem C09_module_decl_before_use : forall (o : orders) (p : project) cs,
  ord_ok o -> in_domain p = true ->
  kf_c07_field_result p = false -> kf_c07_odd_name p = false -> kf_c07_inline_mod p = false ->
  kf_c07_payload_expr p = false ->
  acyclic (spec_graph p) -> no_params_suffix p = true ->
  zod_consts o p = Some cs -> decl_before_use cs = true.
Proof. intros o p cs Ho Hd K5 K6 K7 K8 Hac Hnp H. exact (module_decl_before_use o Ho p Hd K5 K6 K7 K8 Hac Hnp cs H). Qed.

(* reflection of the run-time oracle *)
Theorem C09_oracle_exact : forall cs, decl_before_use cs = true <-> DeclBeforeUse cs /\ ParamsLast cs.
Proof. exact c09_oracle_exact. Qed.

(* the identifiers the rendered schema of a field type mentions are z and exactly the schema names of the
   custom names of its TypeStructure, wherever they are nested (structural induction over the renderer) *)
Theorem C09_schema_identifiers : forall t k,
  (forall x, In x (ex_ids [] (TT.Model.C10Zod.zex_of [] (conv t) k)) -> x = L "z" \/ exists n, In n (ts_names t) /\ x = schema_name n) /\
  (forall n, In n (ts_names t) -> In (schema_name n) (ex_ids [] (TT.Model.C10Zod.zex_of [] (conv t) k))).
Proof. exact zex_ids_plain. Qed.
Theorem C09_struct_identifiers : forall p n x,
  In x (struct_ids p n) <-> x = L "z" \/ exists m, In m (schema_refs p n) /\ x = schema_name m.
Proof. exact struct_ids_refs_plain. Qed.

(* with configured type mappings (config.type_mappings, also when they name project-defined types): a mapped name is
   rendered as z.string() / z.number() / z.boolean() / z.custom<X>((val) => true), so the identifiers are z, possibly
   true, and the schema names of the unmapped custom names; the order does not look at the mappings and the module
   still satisfies the oracle *)
Theorem C09_schema_identifiers_mapped : forall (m : list (str * str)) t k,
  (forall x, In x (ex_ids [] (TT.Model.C10Zod.zex_of m (conv t) k)) ->
     x = L "z" \/ x = L "true" \/ exists n, In n (ts_names t) /\ TT.Model.C10Zod.lookup m n = None /\ x = schema_name n) /\
  (forall n, In n (ts_names t) -> TT.Model.C10Zod.lookup m n = None -> In (schema_name n) (ex_ids [] (TT.Model.C10Zod.zex_of m (conv t) k))).
Proof. exact zex_ids. Qed.
Theorem C09_module_decl_before_use_mapped : forall (o : orders) (p : project) (m : list (str * str)) cs,
  ord_ok o -> in_domain p = true ->
  kf_c07_field_result p = false -> kf_c07_odd_name p = false -> kf_c07_inline_mod p = false ->
  kf_c07_payload_expr p = false ->
  acyclic (spec_graph p) -> no_params_suffix p = true ->
  zod_consts_m m o p = Some cs -> decl_before_use cs = true.
Proof. intros o p m cs Ho Hd K5 K6 K7 K8 Hac Hnp H. exact (module_decl_before_use_m o Ho p Hd K5 K6 K7 K8 Hac Hnp m cs H). Qed.

(* ---- text level (deepening round 7): declare-before-use as a statement about the TEXT of the constants.
   Composition with C10's round trips C10_struct_schema_text_denotes / C10_param_schema_text_denotes: the text
   schema.ts.tera / param_schemas.ts.tera print for a declaration (Model/C10ZodText.v struct_schema_text,
   param_schema_text, no type mappings) is lexed and parsed by the specification parser (text_ids = ex_ids of
   parse_ex); the members s / d may carry any keys and optional flags, their types are the parsed field /
   parameter strings of the project (struct_sdef, cmd_cdef). C10's premises are explicit in line_ok: keys that
   are identifier names, types in C10's domain, call / literal nesting of a member schema below 62. ---- *)
(* the identifiers read from the printed struct schema are z and exactly the schema names of the custom names
   of its fields; as a list they are the identifiers of the module model *)
Theorem C09_struct_identifiers_text : forall p n s x,
  struct_sdef p n s -> Forall line_ok (TT.Model.C10Zod.s_fields s) ->
  (In x (text_ids (TT.Model.C10ZodText.struct_schema_text [] s)) <->
   x = L "z" \/ exists r, In r (schema_refs p n) /\ x = schema_name r).
Proof. exact struct_text_identifiers. Qed.
Theorem C09_struct_ids_text : forall p n s,
  struct_sdef p n s -> Forall line_ok (TT.Model.C10Zod.s_fields s) ->
  text_ids (TT.Model.C10ZodText.struct_schema_text [] s) = struct_ids p n.
Proof. exact struct_text_ids. Qed.
(* the same for the parameter schema of a command (an optional parameter has a second .optional() link) *)
Theorem C09_params_identifiers_text : forall c d x,
  cmd_cdef c d -> Forall line_ok (TT.Model.C10Zod.c_params d) ->
  (In x (text_ids (TT.Model.C10ZodText.param_schema_text [] d)) <->
   x = L "z" \/ exists t r, In t (cmd_params c) /\ In r (ts_of (tstr t)) /\ x = schema_name r).
Proof. exact param_text_identifiers. Qed.
Theorem C09_params_ids_text : forall c d,
  cmd_cdef c d -> Forall line_ok (TT.Model.C10Zod.c_params d) ->
  text_ids (TT.Model.C10ZodText.param_schema_text [] d) = params_ids c.
Proof. exact param_text_ids. Qed.
(* the module as (constant name, initialiser text) pairs in the printed order (module_text: every struct text is
   the template text of a declaration rendering that type; for enums and unit structs, whose z.enum text has
   no round trip yet, the premise is that the parser reads just z from the text): the constants the
   specification parser reads from the texts are the constants of the module model, and the run-time oracle
   accepts them *)
Theorem C09_module_consts_text : forall o p tm, module_text o p tm -> zod_consts o p = Some (text_consts tm).
Proof. exact module_text_consts. Qed.
Theorem C09_module_decl_before_use_text : forall (o : orders) (p : project) tm,
  ord_ok o -> in_domain p = true ->
  kf_c07_field_result p = false -> kf_c07_odd_name p = false -> kf_c07_inline_mod p = false ->
  kf_c07_payload_expr p = false ->
  acyclic (spec_graph p) -> no_params_suffix p = true ->
  module_text o p tm -> decl_before_use (text_consts tm) = true.
Proof. intros o p tm Ho Hd K5 K6 K7 K8 Hac Hnp H. exact (module_decl_before_use_text o Ho p Hd K5 K6 K7 K8 Hac Hnp tm H). Qed.
(* non-vacuity: the struct User of the sample project with keys alpha, beta, gamma; the whole sample project
   as nine constant texts (eight types incl. the enum Status as z.enum, one parameter schema) meets module_text,
   and the oracle, run on what lexer and parser read from the texts, accepts *)
Example C09_ex_struct_text :
  struct_sdef sample_dag (L "User") (gen_sdef sample_dag (L "User")) /\
  Forall line_ok (TT.Model.C10Zod.s_fields (gen_sdef sample_dag (L "User"))) /\
  text_ids (TT.Model.C10ZodText.struct_schema_text [] (gen_sdef sample_dag (L "User")))
  = [L "z"; L "ProfileSchema"; L "z"; L "z"; L "z"; L "ItemSchema"; L "PlainSchema"].
Proof. exact sample_user_text. Qed.
Example C09_ex_module_text : module_text o_default sample_dag sample_tm /\
  List.length sample_tm = 9 /\ decl_before_use (text_consts sample_tm) = true.
Proof. split; [exact sample_module_text|exact sample_module_text_run]. Qed.

(* outside the classes every schema reference to a defined type is a recorded dependency *)
Theorem C09_edges_recorded : forall p, in_domain p = true ->
  kf_c07_field_result p = false -> kf_c07_odd_name p = false -> kf_c07_inline_mod p = false -> edges_recorded_b p = true.
Proof. exact edges_recorded_from_classes. Qed.

(* For every iteration order of every hash collection (root set, dependency sets, used set, struct
   map, requested set): if the recorded dependency graph is acyclic and every schema reference of a
   struct is one of its recorded dependencies (decidable premise, false exactly in the recorded class),
   the schema constants are emitted without repetition and every declared schema that a struct's
   fields mention comes before that struct's schema - wherever in the field type it is nested. *)
Theorem C09_decl_before_use_recorded_graph : forall (o : orders) (p : project) (disc out : list str),
  ord_ok o -> discovered o p = Some disc -> acyclic (dep_graph o p disc) -> edges_recorded_b p = true ->
  emitted_zod o p = Some out ->
  NoDup out /\ forall u v, In u out -> In v out -> In v (schema_refs p u) -> idx_before out v u.
Proof. intros o p disc out Ho. exact (zod_order o Ho p disc out). Qed.

(* the same with the acyclicity premise on the type dependency graph of the property text (serde types
   and the serde types their fields mention), given the decidable agreement premise of C07 *)
Theorem C09_decl_before_use_type_graph : forall (o : orders) (p : project) (out : list str),
  ord_ok o -> agree_b p = true -> acyclic (spec_graph p) -> edges_recorded_b p = true ->
  emitted_zod o p = Some out ->
  NoDup out /\ forall u v, In u out -> In v out -> In v (schema_refs p u) -> idx_before out v u.
Proof. exact zod_order_spec. Qed.

(* the selected types are discovered, resolvable types: the requested set of the sort lies in the graph *)
Theorem C09_declared_discovered : forall o p disc decl, ord_ok o ->
  discovered o p = Some disc -> C07Reach.declared o p = Some decl ->
  forall x, In x decl -> In x disc /\ resolvable p x = true.
Proof. intros o p disc decl Ho. exact (declared_sub o Ho p disc decl). Qed.

(* the orders fed back from an observed declaration order are legitimate iteration orders *)
Theorem C09_observed_orders_ok : forall seen, NoDup seen -> ord_ok (o_obs seen).
Proof. exact ord_ok_obs. Qed.

(* a decreasing rank certifies acyclicity (used by the example) *)
Theorem C09_rank_acyclic : forall (g : Topo.graph str) (rank : str -> nat),
  (forall u v, edge g u v -> rank v < rank u) -> acyclic g.
Proof. exact rank_acyclic. Qed.

(* the model never runs out of fuel (both worklists; the sort is total by C20_topo_total) *)
Theorem C09_model_total : forall o p, ord_ok o -> in_domain p = true -> exists out, emitted_zod o p = Some out.
Proof. intros o p Ho Hd. exact (emitted_zod_total o Ho p (domain_nodup p Hd)). Qed.

(* Not modelled: the template-level clause (parameter schemas after all struct schemas); it is a fact
   about zod/templates/types.ts.tera and is checked by the run-time oracle decl_before_use on every file. *)

(* the former witness of C09-1 (struct Order { x: Result<Item> }): the edge is recorded now and ItemSchema
   precedes OrderSchema under the order that used to fail, the default order and the sorted orders *)
Theorem C09_hidden_edge_repaired :
  ord_ok o_bad /\ in_domain w_hidden = true /\ spec_acyclic w_hidden = true /\
  edges_recorded_b w_hidden = true /\
  In (L "Item") (schema_refs w_hidden (L "Order")) /\
  emitted_zod o_bad w_hidden = Some [L "Item"; L "Order"] /\
  emitted_zod o_default w_hidden = Some [L "Item"; L "Order"] /\
  emitted_zod o_sorted w_hidden = Some [L "Item"; L "Order"].
Proof. exact hidden_edge_repaired. Qed.

(* the iteration orders of the repaired tool (every collection sorted before use) are legitimate orders *)
Theorem C09_sorted_orders_ok : ord_ok o_sorted.
Proof. exact ord_ok_sorted. Qed.

(* non-vacuity: a three-file project with a diamond, an enum, decoys, a channel and an event meets the
   premises and emits eight schemas *)
Example C09_ex_premises :
  in_domain sample_dag = true /\ spec_acyclic sample_dag = true /\ ord_ok o_default /\
  exists disc out, discovered o_default sample_dag = Some disc /\ acyclic (dep_graph o_default sample_dag disc) /\
    edges_recorded_b sample_dag = true /\ emitted_zod o_default sample_dag = Some out /\ List.length out = 8.
Proof. exact sample_premises. Qed.
Example C09_ex_type_graph : agree_b sample_dag = true /\ acyclic (spec_graph sample_dag).
Proof. split; [vm_compute; reflexivity|]. apply (rank_acyclic _ sample_rank). apply rank_check. vm_compute. reflexivity. Qed.
Example C09_ex_module : no_params_suffix sample_dag = true /\
  exists cs, zod_consts o_default sample_dag = Some cs /\ List.length cs = 9 /\ decl_before_use cs = true.
Proof. split; [vm_compute; reflexivity|]. eexists. split; [vm_compute; reflexivity|]. split; vm_compute; reflexivity. Qed.
Example C09_ex_oracle : decl_before_use [(L "ASchema", [L "z"]); (L "BSchema", [L "z"; L "ASchema"]); (L "FParamsSchema", [L "BSchema"])] = true
  /\ decl_before_use [(L "BSchema", [L "z"; L "ASchema"]); (L "ASchema", [L "z"])] = false
  /\ decl_before_use [(L "FParamsSchema", [L "z"]); (L "ASchema", [L "z"])] = false.
Proof. repeat split; vm_compute; reflexivity. Qed.

Print Assumptions C09_decl_before_use.
Print Assumptions C09_module_decl_before_use.
Print Assumptions C09_oracle_exact.
Print Assumptions C09_schema_identifiers.
Print Assumptions C09_struct_identifiers.
Print Assumptions C09_schema_identifiers_mapped.
Print Assumptions C09_module_decl_before_use_mapped.
Print Assumptions C09_struct_identifiers_text.
Print Assumptions C09_struct_ids_text.
Print Assumptions C09_params_identifiers_text.
Print Assumptions C09_params_ids_text.
Print Assumptions C09_module_consts_text.
Print Assumptions C09_module_decl_before_use_text.
Print Assumptions C09_edges_recorded.
Print Assumptions C09_decl_before_use_recorded_graph.
Print Assumptions C09_decl_before_use_type_graph.
Print Assumptions C09_declared_discovered.
Print Assumptions C09_observed_orders_ok.
Print Assumptions C09_rank_acyclic.
Print Assumptions C09_model_total.
Print Assumptions C09_hidden_edge_repaired.
Print Assumptions C09_sorted_orders_ok.
