(* C10 - Zod schemas describe the same structure as the plain TypeScript declarations.
   Only statements, [exact], examples and [Print Assumptions] live here.

   Model (TT.Model.C10Zod, faithful, defects included): the plain renderer [plain], the Zod
   visitor's [ziface] and [zvisit], the schema builder [zbuild] (build_schema / build_param_schema,
   validator None), as strings; the syntax trees the specification parser reads from those strings
   ([ts_ty_of], [zex_of], [zvisit_ex]); the items both types.ts templates print for an analysis
   result ([plain_items], [zod_items]).
   Specification (TT.Spec.C10Shape): [tshape], [zshape], [shape_agree], [nonjson], [rejects],
   [compare_modules].
   The theorems named _partial speak about the syntax trees; the link  parse (string) = tree  is proved
   for all in-domain types for the four renderers ([C10_plain_text_denotes], [C10_builder_text_denotes],
   [C10_visitor_text_denotes]) and for the expression / type part of every member line
   ([C10_shapes_field_text], [C10_shapes_param_text]); [C10_denotation_sweep] and the per-case run-time
   check remain as independent evidence. Module level: [C10_modules]. *)
From Coq Require Import String Ascii.
From Coq Require Import List Arith Bool.
Require Import TT.Model.Str TT.Model.TypeParse TT.Spec.TsLex TT.Spec.TsModule TT.Spec.TsObs.
Require Import TT.Spec.C10Shape TT.Model.C10Zod TT.Spec.C10Check TT.Proofs.C10Proofs TT.Proofs.C10Items.
Require Import TT.Proofs.C10ParseTy TT.Proofs.C10LexTy TT.Proofs.C10Oracle TT.Proofs.C10ParseEx TT.Proofs.C10LexEx TT.Proofs.C10Depth.
Require Import TT.Model.C10ZodText TT.Proofs.C10LexVisit TT.Proofs.C10MemberText TT.Proofs.C10Modules TT.Proofs.C10ObjectText TT.Proofs.C10Eqb.
Import ListNotations.

(* ---- per key: the shape of the schema agrees with the shape of the declaration ---- *)
Theorem C10_shapes_partial : forall (m : mapping) (t : tstruct),
  map_ok m = true -> dom t = true ->
  has_set_t t = false -> has_res_t t = false -> union_under_seq t = false ->
  shape_agree (zshape (zex_of m t false)) (tshape (ts_ty_of m t)) = true.
Proof. intros m t Hm Hd Hs Hr Hu. apply type_agree; [exact Hm|]. repeat split; assumption. Qed.

(* ... at a struct field, with the optional marker of the interface member *)
Theorem C10_shapes_field_partial : forall (m : mapping) (f : member),
  map_ok m = true -> clean (m_ty f) -> flag_ok f ->
  shape_agree (zshape (snd (zod_field m f))) (snd (tmember (plain_member m f))) = true.
Proof. intros m f Hm. exact (field_agree m Hm f). Qed.

(* ... at a parameter, where the template appends a second .optional() *)
Theorem C10_shapes_param_partial : forall (m : mapping) (f : member),
  map_ok m = true -> clean (m_ty f) -> flag_ok f ->
  shape_agree (zshape (snd (zod_param m f))) (snd (tmember (plain_member m f))) = true.
Proof. intros m f Hm. exact (param_agree m Hm f). Qed.

(* ... the two member statements with both sides read from the text of the member line: the schema
   expression the Zod templates paste after the key (parameter lines: with the template's own second
   .optional()) and the type the plain templates paste after the key; the optional marker of the key is
   the analysis flag [m_opt f] *)
Theorem C10_shapes_field_text : forall (m : mapping) (f : member),
  map_ok m = true -> clean (m_ty f) -> flag_ok f ->
  nest (ts_ty_of m (m_ty f)) < TYF -> enest (zex_of m (m_ty f) false) < 64 ->
  exists a b, parse_ex (zod_field_text m f) = Some a /\ parse_ty (plain_member_text m f) = Some b /\
              shape_agree (zshape a) (mk_opt false (m_opt f) (tshape b)) = true.
Proof. intros m f Hm. exact (field_agree_text m Hm f). Qed.
Theorem C10_shapes_param_text : forall (m : mapping) (f : member),
  map_ok m = true -> clean (m_ty f) -> flag_ok f ->
  nest (ts_ty_of m (m_ty f)) < TYF -> enest (zex_of m (m_ty f) false) < 64 ->
  exists a b, parse_ex (zod_param_text m f) = Some a /\ parse_ty (plain_member_text m f) = Some b /\
              shape_agree (zshape a) (mk_opt false (m_opt f) (tshape b)) = true.
Proof. intros m f Hm. exact (param_agree_text m Hm f). Qed.
(* the parser reads the member trees of the model from the member texts *)
Theorem C10_member_text_denotes : forall (m : mapping) (f : member),
  map_ok m = true -> dom (m_ty f) = true ->
  nest (ts_ty_of m (m_ty f)) < TYF -> enest (zex_of m (m_ty f) false) < 64 ->
  parse_ex (zod_field_text m f) = Some (snd (zod_field m f)) /\
  parse_ex (zod_param_text m f) = Some (snd (zod_param m f)) /\
  parse_ty (plain_member_text m f) = Some (snd (plain_member m f)).
Proof.
  intros m f Hm Hd Hn He. split; [apply parse_field_text; assumption|]. split; [apply parse_param_text; assumption|].
  apply parse_plain_member_text; assumption.
Qed.

(* ---- text level of a whole schema constant: the initialiser  z.object({ key: schema, ... })  as
   schema.ts.tera (one line per field) and param_schemas.ts.tera (entries without separator, the second
   .optional() of optional parameters) print it, trailing comma included, is read back by the specification
   lexer and expression parser as the object tree of the model, for any number of members; keys that are
   identifier names (quoted keys are not covered), member schemas within the nesting budget ---- *)
Theorem C10_struct_schema_text_denotes : forall (m : mapping) (s : sdef),
  map_ok m = true -> Forall (field_line_ok m) (s_fields s) ->
  parse_ex (struct_schema_text m s) = Some (zcall "object" [EObj (map (zod_field m) (s_fields s))]).
Proof. intros m s Hm. exact (parse_struct_schema m Hm s). Qed.
Theorem C10_param_schema_text_denotes : forall (m : mapping) (c : cdef),
  map_ok m = true -> Forall (field_line_ok m) (c_params c) ->
  parse_ex (param_schema_text m c) = Some (zcall "object" [EObj (map (zod_param m) (c_params c))]).
Proof. intros m c Hm. exact (parse_param_schema m Hm c). Qed.
(* ... and the keys read from that text are the keys of the plain declaration *)
Theorem C10_struct_schema_text_keys : forall (m : mapping) (s : sdef),
  map_ok m = true -> Forall (field_line_ok m) (s_fields s) ->
  exists a, parse_ex (struct_schema_text m s) = Some a /\
            keys_of (zshape a) = member_keys (map (plain_member m) (s_fields s)).
Proof.
  intros m s Hm Hf. exists (zod_object (map (zod_field m) (s_fields s))). split; [exact (parse_struct_schema m Hm s Hf)|apply keys_struct].
Qed.

(* ---- string level, TypeScript side: for EVERY in-domain type whose Record/tuple nesting fits the
   specification parser's budget (TYF = 64 levels), lexing and parsing the text the plain renderer
   prints (and the text ZodVisitor::visit_type_for_interface prints) yields exactly the tree
   [ts_ty_of m t]: structural induction through the character lexer of TT.Spec.TsLex and the
   recursive-descent parser of TT.Spec.TsModule, no sweep ---- *)
Theorem C10_plain_text_denotes : forall (m : mapping) (t : tstruct),
  map_ok m = true -> dom t = true -> nest (ts_ty_of m t) < TYF ->
  parse_ty (plain m t) = Some (ts_ty_of m t) /\ parse_ty (ziface m t) = Some (ts_ty_of m t).
Proof. intros m t Hm Hd Hn. rewrite (ziface_plain m t). split; apply parse_plain; assumption. Qed.

(* ---- string level, Zod side: the text ZodSchemaBuilder prints (build_schema = build_param_schema with
   validator None, also in record-key position) lexes and parses to the tree [zex_of m t key], for EVERY
   in-domain type whose call / literal nesting fits the expression parser's budget of 64 ---- *)
Theorem C10_builder_text_denotes : forall (m : mapping) (t : tstruct) (key : bool),
  map_ok m = true -> dom t = true -> enest (zex_of m t key) < 64 ->
  parse_ex (zbuild m t key) = Some (zex_of m t key).
Proof. intros m t key Hm Hd Hn. apply parse_build; assumption. Qed.

(* ---- string level, ZodVisitor::visit_type: structural induction, for EVERY in-domain type within the
   budget (replaces the depth-2 sweep as the statement about zvisit); one depth premise gives the budget ---- *)
Theorem C10_visitor_text_denotes : forall (m : mapping) (t : tstruct),
  map_ok m = true -> dom t = true -> enest (zvisit_ex m t) < 64 ->
  parse_ex (zvisit m t) = Some (zvisit_ex m t).
Proof. intros m t Hm. exact (parse_visit m Hm t). Qed.
Theorem C10_visitor_text_depth : forall (m : mapping) (t : tstruct),
  map_ok m = true -> dom t = true -> tsdepth t < 30 ->
  parse_ex (zvisit m t) = Some (zvisit_ex m t).
Proof. intros m t Hm Hd Hdep. apply parse_visit; [exact Hm|exact Hd|apply visit_budget; exact Hdep]. Qed.

(* ---- the shape theorem at string level (formerly C10_shapes_full_statement): both printed texts are
   read back by the specification lexer and parser and the shapes they denote agree ---- *)
Theorem C10_shapes : forall (m : mapping) (t : tstruct),
  map_ok m = true -> dom t = true -> nest (ts_ty_of m t) < TYF -> enest (zex_of m t false) < 64 ->
  has_set_t t = false -> has_res_t t = false -> union_under_seq t = false ->
  exists a b, parse_ex (build_schema m t) = Some a /\ parse_ty (plain m t) = Some b /\
              shape_agree (zshape a) (tshape b) = true.
Proof.
  intros m t Hm Hd Hn He Hs Hr Hu. exists (zex_of m t false), (ts_ty_of m t).
  split; [apply parse_build; assumption|]. split; [apply parse_plain; assumption|].
  apply type_agree; [exact Hm|]. repeat split; assumption.
Qed.
(* one premise instead of the two parser budgets: TypeStructure depth below 31 *)
Theorem C10_shapes_depth : forall (m : mapping) (t : tstruct),
  map_ok m = true -> dom t = true -> tsdepth t < 31 ->
  has_set_t t = false -> has_res_t t = false -> union_under_seq t = false ->
  exists a b, parse_ex (build_schema m t) = Some a /\ parse_ty (plain m t) = Some b /\
              shape_agree (zshape a) (tshape b) = true.
Proof.
  intros m t Hm Hd Hdep Hs Hr Hu. destruct (budgets m t false Hm Hdep) as [H1 H2]. apply C10_shapes; assumption.
Qed.
(* the JSON clauses read from the printed parameter schema *)
Theorem C10_json : forall (m : mapping) (t : tstruct),
  map_ok m = true -> dom t = true -> enest (zex_of m t false) < 64 -> has_set_t t = false -> has_res_t t = false ->
  exists a, parse_ex (build_param_schema m t) = Some a /\ nonjson (zshape a) = [].
Proof.
  intros m t Hm Hd He Hs Hr. exists (zex_of m t false). split; [apply parse_build; assumption|]. apply type_json; assumption.
Qed.
Theorem C10_accept : forall (m : mapping) (t : tstruct),
  map_ok m = true -> clean t -> has_opt_t t = false -> nest (ts_ty_of m t) < TYF -> enest (zex_of m t false) < 64 ->
  exists a b, parse_ex (build_param_schema m t) = Some a /\ parse_ty (plain m t) = Some b /\ rejects (zshape a) (tshape b) = [].
Proof.
  intros m t Hm Hc Ho Hn He. pose proof Hc as [Hd _]. exists (zex_of m t false), (ts_ty_of m t).
  split; [apply parse_build; assumption|]. split; [apply parse_plain; assumption|]. apply type_accept; assumption.
Qed.

(* the shape statement with the declaration side read from the printed text *)
Theorem C10_shapes_text_partial : forall (m : mapping) (t : tstruct),
  map_ok m = true -> dom t = true -> nest (ts_ty_of m t) < TYF ->
  has_set_t t = false -> has_res_t t = false -> union_under_seq t = false ->
  exists b, parse_ty (plain m t) = Some b /\ shape_agree (zshape (zex_of m t false)) (tshape b) = true.
Proof.
  intros m t Hm Hd Hn Hs Hr Hu. exists (ts_ty_of m t). split; [apply parse_plain; assumption|].
  apply type_agree; [exact Hm|]. repeat split; assumption.
Qed.

(* ---- the tag oracle of one key is exact ---- *)
Theorem C10_oracle_exact : forall (param : bool) (z t : shape),
  compare_shapes param z t = [] <->
  shape_agree z t = true /\ (param = true -> nonjson z = [] /\ accepts z t).
Proof. exact compare_shapes_exact. Qed.

(* the three recorded classes are real: the faithful model disagrees inside each *)
Theorem C10_shapes_set_refuted : exists t, dom t = true /\ has_set_t t = true /\
  shape_agree (zshape (zex_of [] t false)) (tshape (ts_ty_of [] t)) = false.
Proof. exists w_set. destruct refuted_set as [a [b [c _]]]. repeat split; assumption. Qed.
Theorem C10_shapes_result_refuted : exists t, dom t = true /\ has_res_t t = true /\
  shape_agree (zshape (zex_of [] t false)) (tshape (ts_ty_of [] t)) = false.
Proof. exists w_res. exact refuted_res. Qed.
Theorem C10_shapes_precedence_refuted : exists t, dom t = true /\ union_under_seq t = true /\
  shape_agree (zshape (zex_of [] t false)) (tshape (ts_ty_of [] t)) = false.
Proof. exists w_prec. exact refuted_prec. Qed.

(* ---- JSON clauses ---- *)
(* no node of a (parameter) schema denotes a non-JSON value, outside the z.set class *)
Theorem C10_json_partial : forall (m : mapping) (t : tstruct),
  map_ok m = true -> dom t = true -> has_set_t t = false -> has_res_t t = false ->
  nonjson (zshape (zex_of m t false)) = [].
Proof. intros m t Hm. exact (type_json m Hm t). Qed.
Theorem C10_json_refuted : exists t, dom t = true /\ has_set_t t = true /\
  nonjson (zshape (zex_of [] t false)) = [L "set"].
Proof. exists w_set. destruct refuted_set as [a [b [_ d]]]. repeat split; assumption. Qed.

(* a JSON value of the declared type is not refused for structural reasons, outside the Option class *)
Theorem C10_accept_partial : forall (m : mapping) (t : tstruct),
  map_ok m = true -> clean t -> has_opt_t t = false ->
  rejects (zshape (zex_of m t false)) (tshape (ts_ty_of m t)) = [].
Proof. intros m t Hm. exact (type_accept m Hm t). Qed.
(* .optional() refuses the explicit null the declaration  T | null  allows, although the shapes agree *)
Theorem C10_accept_refuted : exists t, dom t = true /\ has_opt_t t = true /\
  shape_agree (zshape (zex_of [] t false)) (tshape (ts_ty_of [] t)) = true /\
  rejects (zshape (zex_of [] t false)) (tshape (ts_ty_of [] t)) = [RejNull].
Proof. exists w_opt. exact refuted_opt. Qed.

(* ---- names ---- *)
(* the same type and parameter-object names in both modes, for every analysis result (the enum class
   was repaired by C10-5-zod-enum-alias: Zod-mode enums now have their type alias) *)
Theorem C10_names : forall p : proj, type_decls (zod_items p) = type_decls (plain_items p).
Proof. exact names_equal. Qed.
Theorem C10_names_iff : forall (p : proj) (n : str),
  In n (type_decls (plain_items p)) <-> In n (type_decls (zod_items p)).
Proof. exact names_iff. Qed.
(* the former refutation witness (an enum used by a command) now satisfies the property *)
Theorem C10_names_enum_witness : exists p, has_enum p = true /\
  type_decls (plain_items p) = [L "Status"; L "GetParams"] /\ type_decls (zod_items p) = [L "Status"; L "GetParams"] /\
  v_tags (compare_modules (plain_items p) (zod_items p)) = [].
Proof. exists p_enum. exact enum_witness. Qed.
(* the schema constants of Zod mode: one per type, one per command with value parameters *)
Theorem C10_schema_names : forall p : proj, const_order (zod_items p) = schema_consts p.
Proof. exact zod_consts. Qed.

(* ---- keys ---- *)
Theorem C10_keys : forall (m : mapping) (s : sdef),
  keys_of (zshape (zod_object (map (zod_field m) (s_fields s)))) = member_keys (map (plain_member m) (s_fields s)).
Proof. exact keys_struct. Qed.
Theorem C10_keys_params : forall (m : mapping) (c : cdef),
  keys_of (zshape (zod_object (map (zod_param m) (c_params c)))) ++ member_keys (map (chan_member m ts_ty_of) (c_chans c)) =
  member_keys (map (plain_member m) (c_params c) ++ map (chan_member m ts_ty_of) (c_chans c)).
Proof. exact keys_params. Qed.

(* ---- the two interface renderers print the same text ---- *)
Theorem C10_interface_renderers_equal : forall (m : mapping) (t : tstruct), ziface m t = plain m t.
Proof. exact ziface_plain. Qed.

(* ---- the parser reads the model's trees from the model's strings: all types to depth 2 ---- *)
Theorem C10_denotation_sweep :
  forallb (den_ok []) (enum_types 2) = true /\ forallb (den_ok sweep_map) (enum_types 2) = true /\
  List.length (enum_types 2) = 637.
Proof. exact denotation_sweep. Qed.

(* ---- the sweep for ALL types: the run-time denotation test [den_ok] (all four printed texts read back as
   the model trees, compared with the reflected equality tests ty_eqb / ex_eqb) succeeds on every in-domain
   type of TypeStructure depth below 30 ---- *)
Theorem C10_denotation_all : forall (m : mapping) (t : tstruct),
  map_ok m = true -> dom t = true -> tsdepth t < 30 -> den_ok m t = true.
Proof. exact den_ok_all. Qed.
(* the equality tests of the correspondence check are exact on the printed s-expressions *)
Theorem C10_eqb_exact : forall (a b : ty) (e f : ex) (i j : item),
  (ty_eqb a b = true <-> sx_ty a = sx_ty b) /\ (ex_eqb e f = true <-> sx_ex e = sx_ex f) /\
  (item_eqb i j = true <-> sx_item i = sx_item j).
Proof. intros a b e f i j. split; [apply ty_eqb_iff|split; [apply ex_eqb_iff|apply item_eqb_iff]]. Qed.

(* ---- module level: the oracle finds nothing on the model's two modules (the former
   C10_modules_full_statement, which was false as stated: see C10_modules_premises_needed) ----
   [proj_ok p]: primitive mapping targets; every struct field and value parameter outside every class
   (clean, no Option) with the optional flag off; channel message types in the domain without a union
   under an array; enums with at least one variant; distinct serialised keys inside one struct / one
   parameter object (parameters and channels together); non-empty command type names; distinct type
   names. Proved through lookup lemmas under NoDup names (find_nth = the declaring item), for every
   such analysis result; no premise on reachability from parameter schemas (the JSON clauses hold at
   every key). *)
Theorem C10_modules : forall p : proj,
  proj_ok p -> v_tags (compare_modules (plain_items p) (zod_items p)) = [].
Proof. exact modules_clean. Qed.
(* ... and the whole verdict is empty: no per-item detail, no per-key finding *)
Theorem C10_modules_verdict : forall p : proj, proj_ok p ->
  v_tags (compare_modules (plain_items p) (zod_items p)) = [] /\
  v_detail (compare_modules (plain_items p) (zod_items p)) = [] /\
  v_keys (compare_modules (plain_items p) (zod_items p)) = [].
Proof. exact modules_verdict_clean. Qed.
(* each premise that the former statement lacked is needed: an enum without variants (z.enum([]) against
   the empty union), an optional flag on a type that is not Option, two fields with one key *)
Theorem C10_modules_premises_needed :
  v_tags (compare_modules (plain_items p_empty_enum) (zod_items p_empty_enum)) = [TgShape] /\
  v_tags (compare_modules (plain_items p_flag) (zod_items p_flag)) = [TgShape] /\
  v_tags (compare_modules (plain_items p_dupkey) (zod_items p_dupkey)) = [TgShape].
Proof. exact premises_needed. Qed.

(* ---- non-vacuity ---- *)
Example C10_ex_budgets : let t := TMap (TPrim (L "number")) (TTuple [TPrim (L "string"); TArr (TCustom (L "User"))]) in
  nest (ts_ty_of [] t) < TYF /\ enest (zex_of [] t false) < 64 /\
  parse_ex (build_schema [] t) = Some (zex_of [] t false).
Proof. cbv zeta. split; [vm_compute; repeat constructor|]. split; [vm_compute; repeat constructor|vm_compute; reflexivity]. Qed.
Example C10_ex_text : nest (ts_ty_of [] (TMap (TPrim (L "number")) (TTuple [TPrim (L "string"); TArr (TOpt (TCustom (L "User")))]))) < TYF /\
  parse_ty (plain [] (TArr (TOpt (TCustom (L "User"))))) = Some (TyUnion [TyRef [L "User"] []; TyArr (TyRef [L "null"] [])]).
Proof. split; [vm_compute; repeat constructor|vm_compute; reflexivity]. Qed.
Definition ex_type : tstruct := TMap (TPrim (L "number")) (TTuple [TPrim (L "string"); TArr (TCustom (L "User"))]).
Example C10_ex_premises : map_ok [(L "DateTime", L "string")] = true /\ clean ex_type /\ has_opt_t ex_type = false /\
  zex_of [] ex_type false <> zex_of [] (TPrim (L "string")) false.
Proof. split; [reflexivity|]. split; [repeat split; reflexivity|]. split; [reflexivity|]. discriminate. Qed.
Example C10_ex_optional_member :
  let f := {| m_key := L "nick"; m_opt := true; m_ty := TOpt (TPrim (L "string")) |} in
  clean (m_ty f) /\ flag_ok f /\ snd (tmember (plain_member [] f)) = ShOpt true true ShStr /\
  zshape (snd (zod_param [] f)) = ShOpt false true ShStr.
Proof. cbv zeta. split; [repeat split; reflexivity|]. split; [intros _; reflexivity|]. split; reflexivity. Qed.
Example C10_ex_project : proj_dom p_clean = true /\ has_enum p_clean = false /\
  v_tags (compare_modules (plain_items p_clean) (zod_items p_clean)) = [].
Proof. exact clean_example. Qed.

Example C10_ex_modules : proj_ok p_clean /\ List.length (plain_items p_clean) = 2 /\ List.length (zod_items p_clean) = 4.
Proof. split; [exact p_clean_ok|split; reflexivity]. Qed.
Example C10_ex_visitor : let t := TMap (TPrim (L "number")) (TTuple [TPrim (L "string"); TArr (TOpt (TCustom (L "User")))]) in
  dom t = true /\ tsdepth t < 30 /\ parse_ex (zvisit [] t) = Some (zvisit_ex [] t).
Proof. cbv zeta. split; [reflexivity|]. split; [vm_compute; repeat constructor|vm_compute; reflexivity]. Qed.
Example C10_ex_member_text :
  let f := {| m_key := L "nick"; m_opt := true; m_ty := TOpt (TPrim (L "string")) |} in
  clean (m_ty f) /\ flag_ok f /\ zod_param_text [] f = L "z.string().optional().optional()" /\
  plain_member_text [] f = L "string | null".
Proof. cbv zeta. split; [repeat split; reflexivity|]. split; [intros _; reflexivity|]. split; reflexivity. Qed.

Definition ex_struct : sdef := {| s_name := L "User"; s_fields :=
  [{| m_key := L "id"; m_opt := false; m_ty := TPrim (L "number") |};
   {| m_key := L "tags"; m_opt := false; m_ty := TArr (TPrim (L "string")) |}] |}.
Example C10_ex_struct_text : Forall (field_line_ok []) (s_fields ex_struct) /\
  struct_schema_text [] ex_struct =
    L "z.object({" ++ nl ++ L "  id: z.coerce.number()," ++ nl ++ L "  tags: z.array(z.string())," ++ nl ++ L "})".
Proof.
  split; [|reflexivity]. repeat constructor; try reflexivity; vm_compute; repeat constructor.
Qed.
Example C10_ex_param_text :
  let c := {| c_tname := L "Save"; c_params := [{| m_key := L "a"; m_opt := false; m_ty := TPrim (L "string") |};
                                                 {| m_key := L "b"; m_opt := true; m_ty := TOpt (TPrim (L "boolean")) |}]; c_chans := [] |} in
  Forall (field_line_ok []) (c_params c) /\
  param_schema_text [] c = L "z.object({" ++ nl ++ L "  a: z.string(),b: z.coerce.boolean().optional().optional()," ++ nl ++ L "})".
Proof.
  cbv zeta. split; [|reflexivity]. repeat constructor; try reflexivity; vm_compute; repeat constructor.
Qed.

Print Assumptions C10_shapes_partial.
Print Assumptions C10_shapes_field_partial.
Print Assumptions C10_shapes_param_partial.
Print Assumptions C10_shapes_field_text.
Print Assumptions C10_shapes_param_text.
Print Assumptions C10_member_text_denotes.
Print Assumptions C10_struct_schema_text_denotes.
Print Assumptions C10_param_schema_text_denotes.
Print Assumptions C10_struct_schema_text_keys.
Print Assumptions C10_plain_text_denotes.
Print Assumptions C10_builder_text_denotes.
Print Assumptions C10_visitor_text_denotes.
Print Assumptions C10_visitor_text_depth.
Print Assumptions C10_shapes.
Print Assumptions C10_shapes_depth.
Print Assumptions C10_json.
Print Assumptions C10_accept.
Print Assumptions C10_shapes_text_partial.
Print Assumptions C10_oracle_exact.
Print Assumptions C10_shapes_set_refuted.
Print Assumptions C10_shapes_result_refuted.
Print Assumptions C10_shapes_precedence_refuted.
Print Assumptions C10_json_partial.
Print Assumptions C10_json_refuted.
Print Assumptions C10_accept_partial.
Print Assumptions C10_accept_refuted.
Print Assumptions C10_names.
Print Assumptions C10_names_iff.
Print Assumptions C10_names_enum_witness.
Print Assumptions C10_schema_names.
Print Assumptions C10_keys.
Print Assumptions C10_keys_params.
Print Assumptions C10_interface_renderers_equal.
Print Assumptions C10_denotation_sweep.
Print Assumptions C10_denotation_all.
Print Assumptions C10_eqb_exact.
Print Assumptions C10_modules.
Print Assumptions C10_modules_verdict.
Print Assumptions C10_modules_premises_needed.
