(* C10 - Zod schemas describe the same structure as the plain TypeScript declarations.
   Only statements, [exact], examples and [Print Assumptions] live here.

   Model (TT.Model.C10Zod, faithful, defects included): the plain renderer [plain], the Zod
   visitor's [ziface] and [zvisit], the schema builder [zbuild] (build_schema / build_param_schema,
   validator None), as strings; the syntax trees the specification parser reads from those strings
   ([ts_ty_of], [zex_of], [zvisit_ex]); the items both types.ts templates print for an analysis
   result ([plain_items], [zod_items]).
   Specification (TT.Spec.C10Shape): [tshape], [zshape], [shape_agree], [nonjson], [rejects],
   [compare_modules].
   The theorems named _partial speak about the syntax trees; the link  parse (string) = tree  is
   checked by [C10_denotation_sweep] for every type of depth at most 2 and on every case of every
   run of the correspondence check, not proved for all types. *)
From Coq Require Import String Ascii.
From Coq Require Import List Arith Bool.
Require Import TT.Model.Str TT.Model.TypeParse TT.Spec.TsLex TT.Spec.TsModule TT.Spec.TsObs.
Require Import TT.Spec.C10Shape TT.Model.C10Zod TT.Spec.C10Check TT.Proofs.C10Proofs TT.Proofs.C10Items.
Require Import TT.Proofs.C10ParseTy TT.Proofs.C10LexTy TT.Proofs.C10Oracle TT.Proofs.C10ParseEx TT.Proofs.C10LexEx TT.Proofs.C10Depth.
Import ListNotations.

(* ---- per key: the shape of the schema agrees with the shape of the declaration ---- *)
Theorem C10_shapes_partial : forall (m : mapping) (t : tstruct),
  map_ok m = true -> dom t = true ->
  has_set_t t = false -> has_res_t t = false -> union_under_seq t = false ->
  shape_agree (zshape (zex_of m t false)) (tshape (ts_ty_of m t)) = true.
Proof. intros m t Hm Hd Hs Hr Hu. apply type_agree; [exact Hm|]. repeat split; assumption. Qed.

(* ... at a struct field, with the optional marker of the interface member *)
Theorem C10_shapes_field_partial : forall (m : mapping) (f : member),
  map_ok m = true -> clean (m_ty f) -> flag_ok f ->
  shape_agree (zshape (snd (zod_field m f))) (snd (tmember (plain_member m f))) = true.
Proof. intros m f Hm. exact (field_agree m Hm f). Qed.

(* ... at a parameter, where the template appends a second .optional() *)
Theorem C10_shapes_param_partial : forall (m : mapping) (f : member),
  map_ok m = true -> clean (m_ty f) -> flag_ok f ->
  shape_agree (zshape (snd (zod_param m f))) (snd (tmember (plain_member m f))) = true.
Proof. intros m f Hm. exact (param_agree m Hm f). Qed.

(* ---- string level, TypeScript side: for EVERY in-domain type whose Record/tuple nesting fits the
   specification parser's budget (TYF = 64 levels), lexing and parsing the text the plain renderer
   prints (and the text ZodVisitor::visit_type_for_interface prints) yields exactly the tree
   [ts_ty_of m t]: structural induction through the character lexer of TT.Spec.TsLex and the
   recursive-descent parser of TT.Spec.TsModule, no sweep ---- *)
Theorem C10_plain_text_denotes : forall (m : mapping) (t : tstruct),
  map_ok m = true -> dom t = true -> nest (ts_ty_of m t) < TYF ->
  parse_ty (plain m t) = Some (ts_ty_of m t) /\ parse_ty (ziface m t) = Some (ts_ty_of m t).
Proof. intros m t Hm Hd Hn. rewrite (ziface_plain m t). split; apply parse_plain; assumption. Qed.

(* ---- string level, Zod side: the text ZodSchemaBuilder prints (build_schema = build_param_schema with
   validator None, also in record-key position) lexes and parses to the tree [zex_of m t key], for EVERY
   in-domain type whose call / literal nesting fits the expression parser's budget of 64 ---- *)
Theorem C10_builder_text_denotes : forall (m : mapping) (t : tstruct) (key : bool),
  map_ok m = true -> dom t = true -> enest (zex_of m t key) < 64 ->
  parse_ex (zbuild m t key) = Some (zex_of m t key).
Proof. intros m t key Hm Hd Hn. apply parse_build; assumption. Qed.

(* ---- the shape theorem at string level (formerly C10_shapes_full_statement): both printed texts are
   read back by the specification lexer and parser and the shapes they denote agree ---- *)
Theorem C10_shapes : forall (m : mapping) (t : tstruct),
  map_ok m = true -> dom t = true -> nest (ts_ty_of m t) < TYF -> enest (zex_of m t false) < 64 ->
  has_set_t t = false -> has_res_t t = false -> union_under_seq t = false ->
  exists a b, parse_ex (build_schema m t) = Some a /\ parse_ty (plain m t) = Some b /\
              shape_agree (zshape a) (tshape b) = true.
Proof.
  intros m t Hm Hd Hn He Hs Hr Hu. exists (zex_of m t false), (ts_ty_of m t).
  split; [apply parse_build; assumption|]. split; [apply parse_plain; assumption|].
  apply type_agree; [exact Hm|]. repeat split; assumption.
Qed.
(* one premise instead of the two parser budgets: TypeStructure depth below 31 *)
Theorem C10_shapes_depth : forall (m : mapping) (t : tstruct),
  map_ok m = true -> dom t = true -> tsdepth t < 31 ->
  has_set_t t = false -> has_res_t t = false -> union_under_seq t = false ->
  exists a b, parse_ex (build_schema m t) = Some a /\ parse_ty (plain m t) = Some b /\
              shape_agree (zshape a) (tshape b) = true.
Proof.
  intros m t Hm Hd Hdep Hs Hr Hu. destruct (budgets m t false Hm Hdep) as [H1 H2]. apply C10_shapes; assumption.
Qed.
(* the JSON clauses read from the printed parameter schema *)
Theorem C10_json : forall (m : mapping) (t : tstruct),
  map_ok m = true -> dom t = true -> enest (zex_of m t false) < 64 -> has_set_t t = false -> has_res_t t = false ->
  exists a, parse_ex (build_param_schema m t) = Some a /\ nonjson (zshape a) = [].
Proof.
  intros m t Hm Hd He Hs Hr. exists (zex_of m t false). split; [apply parse_build; assumption|]. apply type_json; assumption.
Qed.
Theorem C10_accept : forall (m : mapping) (t : tstruct),
  map_ok m = true -> clean t -> has_opt_t t = false -> nest (ts_ty_of m t) < TYF -> enest (zex_of m t false) < 64 ->
  exists a b, parse_ex (build_param_schema m t) = Some a /\ parse_ty (plain m t) = Some b /\ rejects (zshape a) (tshape b) = [].
Proof.
  intros m t Hm Hc Ho Hn He. pose proof Hc as [Hd _]. exists (zex_of m t false), (ts_ty_of m t).
  split; [apply parse_build; assumption|]. split; [apply parse_plain; assumption|]. apply type_accept; assumption.
Qed.

(* the shape statement with the declaration side read from the printed text *)
Theorem C10_shapes_text_partial : forall (m : mapping) (t : tstruct),
  map_ok m = true -> dom t = true -> nest (ts_ty_of m t) < TYF ->
  has_set_t t = false -> has_res_t t = false -> union_under_seq t = false ->
  exists b, parse_ty (plain m t) = Some b /\ shape_agree (zshape (zex_of m t false)) (tshape b) = true.
Proof.
  intros m t Hm Hd Hn Hs Hr Hu. exists (ts_ty_of m t). split; [apply parse_plain; assumption|].
  apply type_agree; [exact Hm|]. repeat split; assumption.
Qed.

(* ---- the tag oracle of one key is exact ---- *)
Theorem C10_oracle_exact : forall (param : bool) (z t : shape),
  compare_shapes param z t = [] <->
  shape_agree z t = true /\ (param = true -> nonjson z = [] /\ accepts z t).
Proof. exact compare_shapes_exact. Qed.

(* the three recorded classes are real: the faithful model disagrees inside each *)
Theorem C10_shapes_set_refuted : exists t, dom t = true /\ has_set_t t = true /\
  shape_agree (zshape (zex_of [] t false)) (tshape (ts_ty_of [] t)) = false.
Proof. exists w_set. destruct refuted_set as [a [b [c _]]]. repeat split; assumption. Qed.
Theorem C10_shapes_result_refuted : exists t, dom t = true /\ has_res_t t = true /\
  shape_agree (zshape (zex_of [] t false)) (tshape (ts_ty_of [] t)) = false.
Proof. exists w_res. exact refuted_res. Qed.
Theorem C10_shapes_precedence_refuted : exists t, dom t = true /\ union_under_seq t = true /\
  shape_agree (zshape (zex_of [] t false)) (tshape (ts_ty_of [] t)) = false.
Proof. exists w_prec. exact refuted_prec. Qed.

(* ---- JSON clauses ---- *)
(* no node of a (parameter) schema denotes a non-JSON value, outside the z.set class *)
Theorem C10_json_partial : forall (m : mapping) (t : tstruct),
  map_ok m = true -> dom t = true -> has_set_t t = false -> has_res_t t = false ->
  nonjson (zshape (zex_of m t false)) = [].
Proof. intros m t Hm. exact (type_json m Hm t). Qed.
Theorem C10_json_refuted : exists t, dom t = true /\ has_set_t t = true /\
  nonjson (zshape (zex_of [] t false)) = [L "set"].
Proof. exists w_set. destruct refuted_set as [a [b [_ d]]]. repeat split; assumption. Qed.

(* a JSON value of the declared type is not refused for structural reasons, outside the Option class *)
Theorem C10_accept_partial : forall (m : mapping) (t : tstruct),
  map_ok m = true -> clean t -> has_opt_t t = false ->
  rejects (zshape (zex_of m t false)) (tshape (ts_ty_of m t)) = [].
Proof. intros m t Hm. exact (type_accept m Hm t). Qed.
(* .optional() refuses the explicit null the declaration  T | null  allows, although the shapes agree *)
Theorem C10_accept_refuted : exists t, dom t = true /\ has_opt_t t = true /\
  shape_agree (zshape (zex_of [] t false)) (tshape (ts_ty_of [] t)) = true /\
  rejects (zshape (zex_of [] t false)) (tshape (ts_ty_of [] t)) = [RejNull].
Proof. exists w_opt. exact refuted_opt. Qed.

(* ---- names ---- *)
(* the same type and parameter-object names in both modes, for every analysis result (the enum class
   was repaired by C10-5-zod-enum-alias: Zod-mode enums now have their type alias) *)
Theorem C10_names : forall p : proj, type_decls (zod_items p) = type_decls (plain_items p).
Proof. exact names_equal. Qed.
Theorem C10_names_iff : forall (p : proj) (n : str),
  In n (type_decls (plain_items p)) <-> In n (type_decls (zod_items p)).
Proof. exact names_iff. Qed.
(* the former refutation witness (an enum used by a command) now satisfies the property *)
Theorem C10_names_enum_witness : exists p, has_enum p = true /\
  type_decls (plain_items p) = [L "Status"; L "GetParams"] /\ type_decls (zod_items p) = [L "Status"; L "GetParams"] /\
  v_tags (compare_modules (plain_items p) (zod_items p)) = [].
Proof. exists p_enum. exact enum_witness. Qed.
(* the schema constants of Zod mode: one per type, one per command with value parameters *)
Theorem C10_schema_names : forall p : proj, const_order (zod_items p) = schema_consts p.
Proof. exact zod_consts. Qed.

(* ---- keys ---- *)
Theorem C10_keys : forall (m : mapping) (s : sdef),
  keys_of (zshape (zod_object (map (zod_field m) (s_fields s)))) = member_keys (map (plain_member m) (s_fields s)).
Proof. exact keys_struct. Qed.
Theorem C10_keys_params : forall (m : mapping) (c : cdef),
  keys_of (zshape (zod_object (map (zod_param m) (c_params c)))) ++ member_keys (map (chan_member m ts_ty_of) (c_chans c)) =
  member_keys (map (plain_member m) (c_params c) ++ map (chan_member m ts_ty_of) (c_chans c)).
Proof. exact keys_params. Qed.

(* ---- the two interface renderers print the same text ---- *)
Theorem C10_interface_renderers_equal : forall (m : mapping) (t : tstruct), ziface m t = plain m t.
Proof. exact ziface_plain. Qed.

(* ---- the parser reads the model's trees from the model's strings: all types to depth 2 ---- *)
Theorem C10_denotation_sweep :
  forallb (den_ok []) (enum_types 2) = true /\ forallb (den_ok sweep_map) (enum_types 2) = true /\
  List.length (enum_types 2) = 637.
Proof. exact denotation_sweep. Qed.

(* ---- full statements, not asserted ---- *)
(* module level: the oracle finds nothing on the model's two modules *)
Definition C10_modules_full_statement : Prop := forall p : proj,
  proj_dom p = true ->
  (forall t, In t (member_types p) -> clean t /\ has_opt_t t = false) ->
  NoDup (type_decls (plain_items p)) ->
  v_tags (compare_modules (plain_items p) (zod_items p)) = [].

(* ---- non-vacuity ---- *)
Example C10_ex_budgets : let t := TMap (TPrim (L "number")) (TTuple [TPrim (L "string"); TArr (TCustom (L "User"))]) in
  nest (ts_ty_of [] t) < TYF /\ enest (zex_of [] t false) < 64 /\
  parse_ex (build_schema [] t) = Some (zex_of [] t false).
Proof. cbv zeta. split; [vm_compute; repeat constructor|]. split; [vm_compute; repeat constructor|vm_compute; reflexivity]. Qed.
Example C10_ex_text : nest (ts_ty_of [] (TMap (TPrim (L "number")) (TTuple [TPrim (L "string"); TArr (TOpt (TCustom (L "User")))]))) < TYF /\
  parse_ty (plain [] (TArr (TOpt (TCustom (L "User"))))) = Some (TyUnion [TyRef [L "User"] []; TyArr (TyRef [L "null"] [])]).
Proof. split; [vm_compute; repeat constructor|vm_compute; reflexivity]. Qed.
Definition ex_type : tstruct := TMap (TPrim (L "number")) (TTuple [TPrim (L "string"); TArr (TCustom (L "User"))]).
Example C10_ex_premises : map_ok [(L "DateTime", L "string")] = true /\ clean ex_type /\ has_opt_t ex_type = false /\
  zex_of [] ex_type false <> zex_of [] (TPrim (L "string")) false.
Proof. split; [reflexivity|]. split; [repeat split; reflexivity|]. split; [reflexivity|]. discriminate. Qed.
Example C10_ex_optional_member :
  let f := {| m_key := L "nick"; m_opt := true; m_ty := TOpt (TPrim (L "string")) |} in
  clean (m_ty f) /\ flag_ok f /\ snd (tmember (plain_member [] f)) = ShOpt true true ShStr /\
  zshape (snd (zod_param [] f)) = ShOpt false true ShStr.
Proof. cbv zeta. split; [repeat split; reflexivity|]. split; [intros _; reflexivity|]. split; reflexivity. Qed.
Example C10_ex_project : proj_dom p_clean = true /\ has_enum p_clean = false /\
  v_tags (compare_modules (plain_items p_clean) (zod_items p_clean)) = [].
Proof. exact clean_example. Qed.

Print Assumptions C10_shapes_partial.
Print Assumptions C10_shapes_field_partial.
Print Assumptions C10_shapes_param_partial.
Print Assumptions C10_plain_text_denotes.
Print Assumptions C10_builder_text_denotes.
Print Assumptions C10_shapes.
Print Assumptions C10_shapes_depth.
Print Assumptions C10_json.
Print Assumptions C10_accept.
Print Assumptions C10_shapes_text_partial.
Print Assumptions C10_oracle_exact.
Print Assumptions C10_shapes_set_refuted.
Print Assumptions C10_shapes_result_refuted.
Print Assumptions C10_shapes_precedence_refuted.
Print Assumptions C10_json_partial.
Print Assumptions C10_json_refuted.
Print Assumptions C10_accept_partial.
Print Assumptions C10_accept_refuted.
Print Assumptions C10_names.
Print Assumptions C10_names_iff.
Print Assumptions C10_names_enum_witness.
Print Assumptions C10_schema_names.
Print Assumptions C10_keys.
Print Assumptions C10_keys_params.
Print Assumptions C10_interface_renderers_equal.
Print Assumptions C10_denotation_sweep.
