(* C02 - generated modules are closed: every name resolves, none is declared twice.
   Only statements, [exact], examples and [Print Assumptions] live here. *)
From Coq Require Import String List Bool.
Require Import TT.Model.Str TT.Spec.TsObs TT.Spec.C02Closed TT.Model.C02Model TT.Spec.C02Domain TT.Model.C02Samples.
Require Import TT.Proofs.C02Reflect TT.Proofs.C02Proofs TT.Proofs.C02World TT.Proofs.C02Witness.
Require Import TT.Model.C02Reuse TT.Model.C02ReuseSamples TT.Proofs.C02ReuseProofs.
Import ListNotations.

(* The run-time oracle decides the Prop-level definition of a closed module graph:
   every reference of every written file resolves (types.ts: declaration, import or built-in;
   commands.ts / events.ts: types.X is an export of types.ts), index.ts re-exports exactly the
   files written. *)
Theorem C02_oracle_closed_iff : forall fs, closed_b fs = true <-> closed fs.
Proof. exact closed_b_iff. Qed.

(* No module declares an exported name twice, decided exactly *)
Theorem C02_oracle_nodup_iff : forall fs, nodup_b fs = true <-> exports_nodup fs.
Proof. exact nodup_b_iff. Qed.

Theorem C02_dups_nil_iff_NoDup : forall l, dups l = [] <-> NoDup l.
Proof. exact dups_nil_NoDup. Qed.

(* THE PROPERTY, on the model, both modes. Premises: the project is well formed (wf), its types are
   of the documented type language (dom: unqualified container heads with their arities, names
   without special characters, type names with an upper-case initial), every named type used is a
   serde struct/enum of the project or covered by a type mapping (closed_world = the premise of the
   property text), and the project lies outside the recorded defect classes. Then every reference
   of every generated module resolves, index.ts re-exports exactly the files written, and no module
   declares an exported name twice. *)
Theorem C02_closed : forall p zod,
  wf p = true -> dom p = true -> closed_world p = true -> kf_C02 p zod = false ->
  closed (gen p zod) /\ exports_nodup (gen p zod).
Proof. exact C02_closed_world. Qed.

Theorem C02_closed_zod : forall p,
  wf p = true -> dom p = true -> closed_world p = true -> kf_C02 p true = false ->
  closed (gen p true) /\ exports_nodup (gen p true).
Proof. intros p. exact (C02_closed_world p true). Qed.

Theorem C02_closed_plain : forall p,
  wf p = true -> dom p = true -> closed_world p = true -> kf_C02 p false = false ->
  closed (gen p false) /\ exports_nodup (gen p false).
Proof. intros p. exact (C02_closed_world p false). Qed.

(* the step that was missing: in the closed world, every custom name a declaration, a schema or a
   prefixed site mentions is among the declared types (harvester, parser and the two closures agree) *)
Theorem C02_closed_world_declares : forall p,
  wf p = true -> dom p = true -> closed_world p = true -> kf_event_head p = false -> refs_declared p = true.
Proof. exact world_refs_declared. Qed.

(* the same conclusion from the decidable side condition alone (no type-language premise) *)
Theorem C02_closed_if_declared : forall p zod,
  wf p = true -> refs_declared p = true -> kf_C02 p zod = false ->
  closed (gen p zod) /\ exports_nodup (gen p zod).
Proof. exact C02_model_closed. Qed.

(* the index.ts clause holds of every project, in every mode, unconditionally *)
Theorem C02_index_exact : forall p zod, index_exact (gen p zod) (index_sum p).
Proof. exact index_ok. Qed.

(* plain-mode types.ts: distinct Params names that are not names of declared types suffice *)
Theorem C02_types_exports_nodup_plain : forall p,
  NoDup (flat_map (fun c => opt_l (has_pc c) [tname c ++ S_ "Params"%string]) (cmds p)) ->
  (forall c, In c (cmds p) -> has_pc c = true -> ~ In (tname c ++ S_ "Params"%string) (used p)) ->
  NoDup (ms_exports (types_sum p false)).
Proof. exact types_exports_nodup_plain. Qed.

(* The property as stated (premise: closed world) is still false of the faithful model
   (add_types_prefix on a map-typed return) *)
Theorem C02_refuted : exists p zod,
  wf p = true /\ dom p = true /\ closed_world p = true /\ ~ (closed (gen p zod) /\ exports_nodup (gen p zod)).
Proof. exact closed_world_refuted. Qed.

(* one computed witness per recorded class: in the class, premises met, oracle false on the model *)
Theorem C02_class_witnesses :
  in_class (kf_prefix w_prefix) w_prefix false /\
  in_class (kf_prefix w_prefix3) w_prefix3 false /\
  in_class (kf_prefix w_garbage) w_garbage false /\
  in_class (kf_event_head w_event_head) w_event_head false /\
  in_class (kf_dup_listener w_dup_listener) w_dup_listener false /\
  in_class (kf_collision w_collision false) w_collision false.
Proof.
  split; [apply w_prefix_fails|]. split; [apply w_prefix_fails|]. split; [apply w_garbage_now_prefix|].
  split; [apply w_event_head_fails|]. split; [apply w_dup_listener_fails|].
  apply w_collision_fails. Qed.

(* Repaired defects (comma splitting below a tuple field, string[][] and User[][] returns, Zod enum alias, one-argument Result, dependencies of event payload types, the
   same event emitted twice, ipc::Channel): the former witnesses meet every premise, lie outside
   every class and satisfy the oracle in both modes *)
Theorem C02_repaired_witnesses :
  repaired w_zod_enum true /\ repaired w_result1 false /\ repaired w_event_nested false /\
  repaired w_event_nested true /\ repaired w_same_event_twice false /\ repaired w_ipc_channel true /\
  repaired w_tuple_map_field false /\ repaired w_tuple_map_field true /\ repaired w_prefix2 false /\ repaired w_vecvec_user true.
Proof.
  split; [apply w_zod_enum_repaired|]. split; [apply w_result1_repaired|]. split; [apply w_event_nested_repaired|].
  split; [apply w_event_nested_repaired|]. split; [apply w_same_event_twice_repaired|]. split; [apply w_ipc_channel_ok|].
  exact w_batch3_repaired. Qed.

(* ONE analyzer reused over a history of rounds (Model/C02Reuse.v: the AST cache keeps removed files, a
   discovered struct keeps its first definition for ever, events accumulate; the files of a round are
   gen of the view of the accumulated state under the round's type mappings). For every history
   outside the class C02-9 (no later round lacks a mapping key an earlier round had) in which what
   each round adds - the definitions read in that round and the functions of its analysis - only
   mentions names that are discovered after the round or mapped by it (fresh_ok, decidable), every
   round whose view is well formed, of the documented type language and outside the per-project
   classes is closed and duplicate-free. The closed-world premise of the view is not assumed: it is
   the invariant carried through the fold of the rounds. *)
Theorem C02_reuse_closed : forall h zod,
  kf_reuse_maps h = false -> rounds_fresh_ok st0 h = true ->
  forall sr, In sr (run st0 h) ->
    wf (reuse_view sr) = true -> dom (reuse_view sr) = true -> kf_C02 (reuse_view sr) zod = false ->
    closed (reuse_files sr zod) /\ exports_nodup (reuse_files sr zod).
Proof. exact reuse_closed. Qed.

(* the invariant itself: after every round the accumulated state is a closed world under that round's mappings *)
Theorem C02_reuse_closed_world_invariant : forall h,
  kf_reuse_maps h = false -> rounds_fresh_ok st0 h = true ->
  Forall (fun sr => closed_world (reuse_view sr) = true) (run st0 h).
Proof. exact reuse_closed_world_invariant. Qed.

(* discovered structs are never forgotten and never re-read *)
Theorem C02_reuse_structs_monotone : forall st r, exists more, st_structs (step st r) = st_structs st ++ more.
Proof. exact reuse_structs_monotone. Qed.

(* the class C02-9 is not empty and the statement is false inside it: every other premise holds in every
   round, and the second round's files are not closed (the stale Doc mentions the no longer mapped Uuid) *)
Theorem C02_reuse_refuted : exists h zod sr,
  rounds_fresh_ok st0 h = true /\ In sr (run st0 h) /\
  wf (reuse_view sr) = true /\ dom (reuse_view sr) = true /\ kf_C02 (reuse_view sr) zod = false /\
  kf_reuse_maps h = true /\ ~ (closed (reuse_files sr zod) /\ exports_nodup (reuse_files sr zod)).
Proof. exact reuse_refuted. Qed.

(* stated, not asserted: fresh_ok follows from the sources - if every name mentioned by a function of the
   analysed cache or by a definition read in this round has a definition in the cache, is already
   discovered or is mapped, and the cache is of the documented type language, then what the round
   adds is closed (needs the completeness of resolve_types_lazily restricted to names not yet
   discovered: harvest_q and grow_stable of Proofs/C02World.v relativised to info_now). Checked at run
   time on every round of every reuse history. *)
Definition C02_reuse_fresh_full_statement : Prop := forall st r,
  let c := cache_merge (st_cache st) (ri_files r) in
  let st' := step st r in
  dom {| pj_items := eff c; pj_maps := ri_maps r |} = true ->
  (forall it n, In it (fresh_items st st') -> In n (item_names it) ->
     info_now c n <> None \/ known (st_structs st) n = true \/ mapped (ri_maps r) n = true) ->
  fresh_ok st st' (ri_maps r) = true.

(* non-vacuity of C02_reuse_closed: the witness history of C02-9 with the mapping kept, and a three-round
   history (event file removed from disk, payload struct redefined under its old name, types added) *)
Example C02_ex_reuse :
  kf_reuse_maps h_maps_kept = false /\ rounds_fresh_ok st0 h_maps_kept = true /\
  forallb (round_in_premises false) (run st0 h_maps_kept) = true /\
  kf_reuse_maps h_three = false /\ rounds_fresh_ok st0 h_three = true /\
  forallb (round_in_premises true) (run st0 h_three) = true /\
  map (fun sr => map fst (st_structs (fst sr))) (run st0 h_three) =
    [[L "User"; L "Progress"]; [L "User"; L "Progress"]; [L "User"; L "Progress"; L "Team"; L "Status"]]%string /\
  map (fun sr => c02_ok (reuse_files sr true)) (run st0 h_three) = [true; true; true].
Proof. exact reuse_examples. Qed.
Example C02_ex_reuse_class :
  kf_reuse_maps h_maps_dropped = true /\ rounds_fresh_ok st0 h_maps_dropped = true /\
  forallb (round_in_premises false) (run st0 h_maps_dropped) = true /\
  map (fun sr => c02_ok (reuse_files sr false)) (run st0 h_maps_dropped) = [true; false].
Proof. exact reuse_maps_dropped_fails. Qed.

(* statement sequences: an initialiser that cannot be typed keeps the payload variable's earlier type *)
Example C02_ex_rebinding : repaired w_rebind false /\ repaired w_rebind true.
Proof. split; apply w_rebind_ok. Qed.

(* non-vacuity: a project with structs, an enum, nesting, a channel, an event and a type mapping
   meets the premises of the partial theorem in both modes, and the premise of the property *)
Example C02_ex_premises :
  wf w_ok = true /\ dom w_ok = true /\ closed_world w_ok = true /\ refs_declared w_ok = true /\
  kf_C02 w_ok false = false /\ kf_C02 w_ok true = false.
Proof. vm_compute. repeat split; reflexivity. Qed.
Example C02_ex_closed : closed (gen w_ok true) /\ exports_nodup (gen w_ok true).
Proof. destruct C02_ex_premises as [A [B [C [_ [_ E]]]]]. exact (C02_closed w_ok true A B C E). Qed.
Example C02_ex_oracle : c02_ok (gen w_ok false) = true /\ c02_ok (gen w_prefix false) = false.
Proof. split; vm_compute; reflexivity. Qed.

Print Assumptions C02_oracle_closed_iff.
Print Assumptions C02_oracle_nodup_iff.
Print Assumptions C02_dups_nil_iff_NoDup.
Print Assumptions C02_closed.
Print Assumptions C02_closed_zod.
Print Assumptions C02_closed_plain.
Print Assumptions C02_closed_world_declares.
Print Assumptions C02_closed_if_declared.
Print Assumptions C02_index_exact.
Print Assumptions C02_types_exports_nodup_plain.
Print Assumptions C02_refuted.
Print Assumptions C02_class_witnesses.
Print Assumptions C02_repaired_witnesses.
Print Assumptions C02_reuse_closed.
Print Assumptions C02_reuse_closed_world_invariant.
Print Assumptions C02_reuse_structs_monotone.
Print Assumptions C02_reuse_refuted.
