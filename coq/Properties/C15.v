(* C15 - no input makes analysis or generation panic (the string-index arithmetic).
   Strings are UTF-8 byte lists; every Rust slice is a slice that returns Panic exactly when
   Rust panics. Statements, [exact]/projections, Examples and Print Assumptions only. *)
From Coq Require Import String Ascii List Arith Bool ZArith.
Require Import TT.Model.Base TT.Model.C15Utf8 TT.Model.C15Funs TT.Model.C15Project TT.Model.C15Hash.
Require Import TT.Proofs.C15Utf8Facts TT.Proofs.C15FunsProofs TT.Proofs.C15ProjectProofs TT.Proofs.C15HashProofs.
Import ListNotations.

(* every Rust str satisfies the hypothesis of the boundary calculus *)
Theorem C15_utf8_wf : forall s, utf8 s = true -> wf s = true.
Proof. exact utf8_wf. Qed.

(* TypeResolver::parse_type_structure with every extract_* helper, parse_two_type_params and the
   helpers find_top_level_comma / split_top_level of repair C05-2-3:
   returns (no panic, fuel length+1 suffices) on every UTF-8 string *)
Theorem C15_parse_type_structure : forall s, utf8 s = true -> exists t, parse_type_structure_b s = Ok t.
Proof. intros s H. apply safe_ok, parse_type_structure_safe, utf8_wf, H. Qed.

(* split_top_level / find_top_level_comma (repair C05-2-3), shared by resolver and harvester: every
   `&rest[..pos]` and `&rest[pos + 1..]` is on a boundary and the loop ends within length+1 rounds *)
Theorem C15_split_top_level : forall s, utf8 s = true -> exists parts, split_top_level_b s = Ok parts.
Proof. intros s H. destruct (split_top_level_spec s (utf8_wf s H)) as (parts & E & _). eauto. Qed.

(* CommandAnalyzer::extract_type_names (extract_type_names_recursive) *)
Theorem C15_extract_type_names : forall s, utf8 s = true -> exists l, names_b s = Ok l.
Proof. intros s H. apply safe_ok, names_safe, utf8_wf, H. Qed.

(* add_types_prefix (with the recursion under [] of repair C05-4): both unwrap() calls are guarded;
   returns on every string, fuel length+1 suffices *)
Theorem C15_add_types_prefix : forall t, exists r, prefix_b t = Ok r.
Proof. intros t. apply safe_ok, prefix_safe. Qed.

(* SerdeParser::parse_rename_all *)
Theorem C15_parse_rename_all : forall t, utf8 t = true -> exists r, rename_all_b t = Ok r.
Proof. intros t H. apply safe_ok, rename_all_safe, utf8_wf, H. Qed.

(* the text between the parentheses and the min/max texts of parse_length/range_from_tokens *)
Theorem C15_validator_content : forall t, utf8 t = true ->
  (exists r, content_b (L "length") t = Ok r) /\ (exists r, content_b (L "range") t = Ok r).
Proof. intros t H. apply utf8_wf in H. split.
  - destruct (content_spec (L "length") _ _ t eq_refl eq_refl H) as (r & E & _). eauto.
  - destruct (content_spec (L "range") _ _ t eq_refl eq_refl H) as (r & E & _). eauto. Qed.
Theorem C15_validator_bounds : forall c, utf8 c = true ->
  (exists r, bound_b (L "min") c = Ok r) /\ (exists r, bound_b (L "max") c = Ok r).
Proof. intros c H. apply utf8_wf in H. split; apply safe_ok; eapply bound_safe; eauto; reflexivity. Qed.

(* parse_message_from_content (repaired: char_indices, byte offsets): never panics; the former
   counterexample (message e-acute) now returns the whole message *)
Theorem C15_message : forall c, utf8 c = true -> msg_b c <> Panic.
Proof. intros c H. apply safe_not_panic, msg_safe, utf8_wf, H. Qed.
Theorem C15_message_witness :
  utf8 msg_witness = true /\
  validator_b msg_witness = Ok {| va_email := false; va_url := false;
      va_length := Some {| v_min := Some (L "1"); v_max := None; v_msg := Some (map ascii_of_nat [195; 169]) |};
      va_range := None |}.
Proof. exact message_witness_ok. Qed.
Theorem C15_validator : forall t, utf8 t = true -> exists r, validator_b t = Ok r.
Proof. intros t H. apply safe_ok, validator_safe. apply utf8_wf, H. Qed.

(* parse_rename / parse_rename_all (repaired twice; now one whole-key scanner find_key + written_value with
   the parenthesised serialize form): no slice offset is off a char boundary, the scan ends within length+1
   rounds; the former counterexample (rename, two ideographic spaces, _all inside a literal) yields no rename *)
Theorem C15_parse_rename : forall t, utf8 t = true -> rename_b t <> Panic.
Proof. intros t H. apply safe_not_panic, rename_safe, utf8_wf, H. Qed.
Theorem C15_rename_witness :
  utf8 rename_witness = true /\
  serde_b rename_witness = Ok {| sa_rename := None; sa_skip := false; sa_rename_all := None |}.
Proof. exact rename_witness_ok. Qed.
Theorem C15_serde : forall t, utf8 t = true -> exists r, serde_b t = Ok r.
Proof. intros t H. apply safe_ok, serde_safe. apply utf8_wf, H. Qed.

(* NamingContext::apply_naming_convention with the camelCase call-site guard never slices: it returns
   for every rule and every byte string; the former counterexamples are returned unchanged *)
Theorem C15_naming : forall r s, exists o, naming_b r s = Ok o.
Proof. intros r s. apply safe_ok, naming_safe. Qed.
(* the default branch of compute_field_name / compute_parameter_name for every configured value of
   default_field_case / default_parameter_case (unknown names fall back to camelCase) *)
Theorem C15_default_case : forall configured s, exists o, default_case_b configured s = Ok o.
Proof. intros c s. apply safe_ok. unfold default_case_b. apply naming_safe. Qed.
Theorem C15_naming_witness :
  naming_b RCamel (L "__") = Ok (L "__") /\
  (let ete := map ascii_of_nat [195; 169; 116; 195; 169] in utf8 ete = true /\ naming_b RCamel ete = Ok ete).
Proof. exact naming_witness_ok. Qed.
Theorem C15_event_name_to_function : forall s, exists o, event_fn_b s = Ok o.
Proof. intros s. apply safe_ok, event_fn_safe. Qed.

(* compute_variant_name (new with the variant-rule repair, CamelCase arm guarded at the call site):
   returns for every rule and every byte string; the crate's apply_to_variant(CamelCase) would panic
   on a variant name starting with a non-ASCII letter, and is no longer reached *)
Theorem C15_variant : forall r s, exists o, variant_b r s = Ok o.
Proof. intros r s. apply safe_ok, variant_safe. Qed.
Theorem C15_variant_witness :
  let etat := map ascii_of_nat [195; 137; 116; 97; 116] in
  utf8 etat = true /\ apply_to_variant_b RCamel etat = Panic /\ variant_b RCamel etat = Ok etat.
Proof. exact variant_witness_ok. Qed.

(* termination: the fuel of every fuelled string recursion suffices, also inside the defect classes *)
Theorem C15_total : forall s, utf8 s = true ->
  parse_type_structure_b s <> OutOfFuel /\ names_b s <> OutOfFuel /\ prefix_b s <> OutOfFuel /\ rename_b s <> OutOfFuel.
Proof. intros s H. apply utf8_wf in H. repeat split.
  - apply safe_not_panic, parse_type_structure_safe, H.
  - apply safe_not_panic, names_safe, H.
  - apply safe_not_panic, prefix_safe.
  - apply rename_nf, H. Qed.

(* the depth counter of find_top_level_comma is an i32: run with overflow checks (Panic when the range
   is left) the scan equals the model with an unbounded depth for every input of at most 2^31 - 1 bytes;
   this is the explicit size bound under which the theorems above speak about the code *)
Theorem C15_depth_bound : forall s, (Z.of_nat (List.length s) <= 2147483647)%Z ->
  comma_top_chk 0 s = Ok (find_top_level_comma s).
Proof. intros s H. apply comma_top_chk_exact. simpl. exact H. Qed.

(* the run-time oracle is exactly the statement of the theorems above *)
Theorem C15_oracle_exact : forall (A : Type) (o : outcome A),
  returned o = true <-> (exists r, o = Ok r) /\ o <> Panic /\ o <> OutOfFuel.
Proof. intros A o. destruct o; simpl; split; try discriminate.
  - intros [[r H] _]. discriminate.
  - intros [[r H] _]. discriminate.
  - intros _. split; [eauto|split; discriminate].
  - reflexivity. Qed.

(* the guarded indexing of syn sequences in the AST walkers: args[0..2] in extract_emit_event,
   segments[0..1] in is_tauri_command, segments[0..2] in is_tauri_parameter_type never go out of range *)
Theorem C15_walker_indexing :
  (forall (A : Type) (emit_to : bool) (args : list A), exists r, emit_select emit_to args = Ok r) /\
  (forall lc segs, exists b, attr_is_command_b lc segs = Ok b) /\
  (forall segs, exists b, tauri_param_plain_b segs = Ok b).
Proof. split; [|split]; intros; apply safe_ok; [apply emit_select_safe|apply attr_is_command_safe|apply tauri_param_safe]. Qed.

(* ---- project level: the per-file loop, for arbitrary syn-level walkers ---- *)
Section C15Project.
Context {path name AST cmd ev def : Type} {EN : EqDec name}.
Variable cmds_of : path -> AST -> list cmd.
Variable events_of : path -> AST -> list ev.
Variable names_of : path -> AST -> list name.
Variable defs_of : AST -> list name.
Variable extract_type : AST -> name -> option def.
Variable deps_of : def -> list name.
Variable arrange : list (path * AST) -> list (path * AST).
Local Notation analysis := (analysis cmds_of events_of names_of defs_of extract_type deps_of arrange).

(* a file that cannot be read or parsed, anywhere in the walk: what is generated (commands, events,
   discovered types and their order) is what the run without the file generates, and the file is reported *)
Theorem C15_isolated : forall (pre post : list (@entry path AST)) (e : entry), is_bad e = true ->
  generated (analysis (pre ++ e :: post)) = generated (analysis (pre ++ post)) /\
  (forall r reps, analysis (pre ++ e :: post) = RunOk r reps -> forall x, In x (report_of e) -> In x reps).
Proof. exact (isolated cmds_of events_of names_of defs_of extract_type deps_of arrange). Qed.
(* any number of failing files at once; stderr holds exactly their reports, in walk order *)
Theorem C15_isolated_all : forall es : list (@entry path AST),
  generated (analysis es) = generated (analysis (filter (fun e => negb (is_bad e)) es)) /\
  (forall r reps, analysis es = RunOk r reps -> reps = flat_map report_of es).
Proof. exact (isolated_all cmds_of events_of names_of defs_of extract_type deps_of arrange). Qed.
(* termination of the whole analysis model with the stated fuels (load loop, resolve_types_lazily with the
   potential of the generic worklist, type ordering with |universe| + 1): it returns unless walkdir fails *)
Theorem C15_total_pipeline : forall es : list (@entry path AST), no_walk_error es = true ->
  exists r reps, analysis es = RunOk r reps.
Proof. exact (total_pipeline cmds_of events_of names_of defs_of extract_type deps_of arrange). Qed.
Theorem C15_pipeline_never_out_of_fuel : forall es : list (@entry path AST), analysis es <> RunOutOfFuel.
Proof. exact (never_out_of_fuel cmds_of events_of names_of defs_of extract_type deps_of arrange). Qed.
End C15Project.

(* non-vacuity: the premises are satisfiable on non-trivial inputs *)
Definition ex_bytes (l : list nat) : str := map ascii_of_nat l.
(* a length attribute whose message is e-acute followed by a: returned whole (it used to be cut) *)
Example C15_ex_validator :
  let t := L "length (min = 1 , message = """ ++ ex_bytes [195; 169; 97] ++ L """)" in
  utf8 t = true /\
  validator_b t = Ok {| va_email := false; va_url := false;
                        va_length := Some {| v_min := Some (L "1"); v_max := None; v_msg := Some (ex_bytes [195; 169; 97]) |};
                        va_range := None |}.
Proof. vm_compute. auto. Qed.
(* rename inside rename_all is not a whole key; the later rename with a multi-byte value is found; the
   parenthesised form takes the serialize entry, and deserialize alone renames nothing *)
Example C15_ex_serde :
  let t := L "rename_all = ""camelCase"" , rename = ""x" ++ ex_bytes [195; 169] ++ L """" in
  utf8 t = true /\
  serde_b t = Ok {| sa_rename := Some (L "x" ++ ex_bytes [195; 169]); sa_skip := false; sa_rename_all := Some (L "camelCase") |} /\
  rename_b (L "rename (deserialize = ""d"" , serialize = ""s"")") = Ok (Some (L "s")) /\
  rename_b (L "rename (deserialize = ""d"")") = Ok None /\
  rename_b (L "y = ""renamea_all = \""w\""""") = Ok None.
Proof. vm_compute. auto 6. Qed.
Example C15_ex_naming :
  let n := L "user_" ++ ex_bytes [195; 169] ++ L "_id" in
  utf8 n = true /\ naming_b RCamel n = Ok (L "user" ++ ex_bytes [195; 169] ++ L "Id") /\
  variant_b RCamel (L "InProgress") = Ok (L "inProgress") /\
  variant_b RScreamingSnake (L "InProgress") = Ok (L "IN_PROGRESS").
Proof. vm_compute. auto. Qed.
(* the data point of DESIGN section 11 (now split at top-level commas only) and an input with multi-byte
   characters and unbalanced brackets (the comma sits at depth 1 after the unclosed parenthesis: no split) *)
Example C15_ex_types :
  parse_type_structure_b (L "Result<(HashMap<String, User>, Inner), String>")
    = Ok (TRes (TTuple [TMap (TPrim (L "string")) (TCustom (L "User")); TCustom (L "Inner")])) /\
  names_b (L "Result<(HashMap<String, User>, Inner), String>") = Ok [L "User"; L "Inner"] /\
  (let s := L "HashMap<" ++ ex_bytes [195; 169] ++ L ",(" ++ ex_bytes [227; 128; 128] ++ L "A>" in
   utf8 s = true /\ parse_type_structure_b s = Ok (TMap (TCustom (ex_bytes [195; 169])) (TCustom (L "(" ++ ex_bytes [227; 128; 128] ++ L "A")))) /\
  split_top_level_b (L "A<B, C>, (D, E), " ++ ex_bytes [195; 169]) = Ok [L "A<B, C>"; L " (D, E)"; L " " ++ ex_bytes [195; 169]].
Proof. vm_compute. auto 6. Qed.
Example C15_ex_walkers :
  emit_select true [10; 11; 12; 13] = Ok (Some (11, 12)) /\ emit_select false [10] = Ok None /\
  attr_is_command_b true [L "tauri"; L "command"] = Ok true /\ attr_is_command_b true [L "command"] = Ok false /\
  tauri_param_plain_b [L "tauri"; L "ipc"; L "Channel"] = Ok true /\ tauri_param_plain_b [L "my"; L "State"] = Ok false.
Proof. vm_compute. auto 8. Qed.
Example C15_ex_prefix :
  prefix_b (L "User[][] | null") = Ok (L "types.User[][] | null") /\ prefix_b (L "string[][]") = Ok (L "string[][]").
Proof. vm_compute. auto. Qed.

(* a concrete project: two parsed files with mutually dependent types, one unparsable and one unreadable file *)
Definition ex_ast := list (nat * list nat).
Definition ex_analysis := analysis (path := nat) (name := nat) (AST := ex_ast) (cmd := nat) (ev := nat) (def := list nat)
  (fun p _ => [p]) (fun _ _ => []) (fun _ a => map fst a) (fun a => map fst a)
  (fun a n => option_map snd (List.find (fun x => Nat.eqb (fst x) n) a)) (fun d => d) (fun c => c).
Example C15_ex_isolated :
  let good1 := File 1 (Parsed [(10, [11]); (11, [10; 12])]) in
  let good2 := File 5 (Parsed [(12, [])]) in
  exists r, ex_analysis [good1; File 2 Unparsable; Skipped 3; File 4 Unreadable; good2] = RunOk r [FailedToParse 2; FailedToRead 4] /\
            ex_analysis [good1; Skipped 3; good2] = RunOk r [] /\ r_cmds r = [1; 5] /\ length (r_structs r) = 3 /\ length (r_order r) = 3.
Proof. eexists. split; [vm_compute; reflexivity|]. split; [vm_compute; reflexivity|]. vm_compute. auto. Qed.

(* the cache-reading path (needs_regeneration_with_events and the cache-hit branches of run_generate and
   BuildSystem::generate_bindings): whatever the hash texts in the cache file are - the format x of a u64 has
   no padding, so they can be shorter than 16 digits, and the file may hold any text - the path returns:
   it compares the texts and prints fixed lines, it never cuts them *)
Theorem C15_cache_hit_no_slice : forall verbose previous current, exists st, cache_hit_b verbose previous current = Ok st.
Proof. exact cache_hit_returns. Qed.

(* satisfiable and not vacuous: a u64 whose text has eleven digits; a twelve-digit cut of it panics in the
   byte calculus, the cache-hit path of the code returns on it with its two fixed lines *)
Example C15_ex_cache_hit :
  hex hash_witness = L "31e0567420c" /\ abbrev_b 12 (hex hash_witness) = Panic /\
  (forall w text, List.length text < w -> abbrev_b w text = Panic) /\
  let c := {| c_version := 1; c_commands := hex 10111213; c_structs := hex 7; c_config := hex 0;
              c_combined := hex hash_witness; c_events := [] |} in
  cache_hit_b true c c = Ok (UpToDate [L "Cache hit - no changes detected, skipping generation"; L "TypeScript bindings are up to date"]).
Proof.
  split; [exact hex_witness_text|]. split; [exact (proj2 abbrev_witness_panics)|].
  split; [exact abbrev_short_panics|]. exact cache_hit_witness.
Qed.

Print Assumptions C15_utf8_wf.
Print Assumptions C15_parse_type_structure.
Print Assumptions C15_split_top_level.
Print Assumptions C15_extract_type_names.
Print Assumptions C15_add_types_prefix.
Print Assumptions C15_parse_rename_all.
Print Assumptions C15_validator_content.
Print Assumptions C15_validator_bounds.
Print Assumptions C15_message.
Print Assumptions C15_message_witness.
Print Assumptions C15_validator.
Print Assumptions C15_parse_rename.
Print Assumptions C15_rename_witness.
Print Assumptions C15_serde.
Print Assumptions C15_naming.
Print Assumptions C15_default_case.
Print Assumptions C15_naming_witness.
Print Assumptions C15_event_name_to_function.
Print Assumptions C15_variant.
Print Assumptions C15_variant_witness.
Print Assumptions C15_total.
Print Assumptions C15_depth_bound.
Print Assumptions C15_oracle_exact.
Print Assumptions C15_walker_indexing.
Print Assumptions C15_isolated.
Print Assumptions C15_isolated_all.
Print Assumptions C15_total_pipeline.
Print Assumptions C15_pipeline_never_out_of_fuel.
Print Assumptions C15_cache_hit_no_slice.
