(* C19 - configuration is preserved, round-trips, and obeys flag > file > default.
   Only statements, [exact], examples and [Print Assumptions] live here.
   Model: Model/C19Config.v (faithful to /repo/src/interface/config.rs and to run_generate /
   run_init of /repo/src/bin/cargo-tauri-typegen.rs, defects included); specification and
   known-finding classes: Spec/C19Spec.v; proofs: Proofs/C19ConfigProofs.v. *)
From Coq Require Import String List Bool.
Require Import TT.Model.C19Config TT.Spec.C19Spec TT.Proofs.C19ConfigProofs TT.Proofs.C19OracleProofs.
Import ListNotations.
Local Open Scope string_scope.

(* Writing the settings keeps the value at every path (object keys and array positions)
   that neither leads to nor passes through plugins.typegen - for every document the save
   accepts. Absent paths stay absent. *)
Theorem C19_preserve : forall (c : config) (doc doc' : json) (q : list pel),
  save_doc c doc = Some doc' -> outside_section q = true -> get q doc' = get q doc.
Proof. exact preserve. Qed.

(* The save is refused with an error, before anything is written, exactly when the
   settings cannot be written into the document: the root is not an object, or plugins
   exists and is not an object (formerly the silent classes C19-3 and C19-4). *)
Theorem C19_save_refused : forall (c : config) (doc : json),
  save_doc c doc = None <-> saveable doc = false.
Proof. exact save_refused_iff. Qed.

(* Reading the written document back yields the settings written (absent booleans as
   false), for every accepted document and every settings value - the two naming
   conventions included (formerly class C19-5). *)
Theorem C19_roundtrip : forall (c : config) (doc doc' : json),
  save_doc c doc = Some doc' -> load_doc doc' = Some (normalise c).
Proof. exact roundtrip. Qed.

(* The settings a run of generate uses are, setting by setting (project path, output
   path, validation library, verbosity of the configuration and of the logger, dependency
   graph, force), the flag if given, else the value in the configuration file (first
   candidate that is a readable document), else the default - for every set of files and
   every flag set (formerly outside the classes C19-1 and C19-6). *)
Theorem C19_precedence : forall (f : fs) (fl : flags),
  eff_of fl (apply_flags fl (search f cands)) = spec_eff f fl.
Proof. exact precedence. Qed.

(* generate: when the effective settings name an unsupported library or a project path
   that does not exist - whether the value comes from a flag, from the configuration file
   or from a default - the run is refused and the file system is the one it started from;
   otherwise it runs with exactly the effective settings and writes nowhere but under the
   effective output path. *)
Theorem C19_generate_reject_first : forall (f : fs) (fl : flags),
  if spec_invalid f (spec_eff f fl)
  then exists e, run_generate f fl = RReject e f
  else (run_generate f fl = RNoCommands (spec_eff f fl) f /\ fs_get f (e_project (spec_eff f fl)) <> Some NProj)
       \/ exists f', run_generate f fl = RRun (spec_eff f fl) f' /\ fs_get f (e_project (spec_eff f fl)) = Some NProj
                     /\ forall p, norm p <> norm (e_output (spec_eff f fl)) -> fs_get f' p = fs_get f p.
Proof. exact generate_spec. Qed.

(* init with settings that must be refused is refused and leaves every file alone
   (formerly class C19-2: the file was rewritten first). *)
Theorem C19_init_reject_first : forall (f : fs) (il : iflags),
  init_invalid f il = true -> exists e, run_init f il = RReject e f.
Proof. exact init_reject_first. Qed.

(* init pointed at a document the settings cannot be written into: an error, every file
   left alone (formerly: success reported, nothing written / root replaced). *)
Theorem C19_init_unsaveable : forall (f : fs) (il : iflags) (d : json),
  fs_get f (init_target il) = Some (NDoc (Some d)) -> saveable d = false ->
  run_init f il = RFail f \/ exists e, run_init f il = RReject e f.
Proof. exact init_unsaveable. Qed.

(* what a valid init leaves in its target is save_doc of what was there, so C19_preserve
   and C19_roundtrip speak about the document the real command writes *)
Theorem C19_init_document : forall (f : fs) (il : iflags) (d d' : json),
  init_invalid f il = false ->
  fs_get f (init_target il) = Some (NDoc (Some d)) ->
  save_doc (init_config il) d = Some d' ->
  norm (init_generated il) <> norm (init_target il) ->
  fs_get (result_fs (run_init f il)) (init_target il) = Some (NDoc (Some d')).
Proof. exact init_document. Qed.

(* the run-time round-trip oracle accepts the model's own output *)
Theorem C19_oracle_roundtrip_model : forall (c : config) (doc doc' : json),
  save_doc c doc = Some doc' -> roundtrip_b c (load_doc doc') = true.
Proof. exact oracle_roundtrip_model. Qed.

(* ---- the standalone configuration file (generate -c <file>, typegen.json) ---- *)
(* save_to_file then from_file (serde's derived readers, before validation) gives back
   exactly the settings written, for every settings value, all twelve fields. *)
Theorem C19_roundtrip_file : forall c : config, from_flat (flat_json c) = Some c.
Proof. exact flat_roundtrip. Qed.

(* flag over standalone file over default, for every well-formed file and flag set *)
Theorem C19_precedence_file : forall (fl : flags) (doc : json) (c0 : config),
  from_flat doc = Some c0 -> eff_of fl (apply_flags fl c0) = spec_eff_c fl doc.
Proof. exact precedence_c. Qed.

(* generate -c: invalid effective settings - from a flag, the file or a default - are
   refused with the file system untouched; otherwise the run uses exactly flag over file
   over default (formerly outside class C19-8). *)
Theorem C19_generate_c : forall (f : fs) (fl : flags) (p : string) (d : json) (c0 : config),
  fs_get f p = Some (NDoc (Some d)) -> from_flat d = Some c0 ->
  if spec_invalid f (spec_eff_c fl d)
  then exists err, run_generate_c f fl p = RReject err f
  else (run_generate_c f fl p = RNoCommands (spec_eff_c fl d) f /\ fs_get f (e_project (spec_eff_c fl d)) <> Some NProj)
       \/ exists f', run_generate_c f fl p = RRun (spec_eff_c fl d) f'
                     /\ fs_get f (e_project (spec_eff_c fl d)) = Some NProj
                     /\ forall q, norm q <> norm (e_output (spec_eff_c fl d)) -> fs_get f' q = fs_get f q.
Proof. exact generate_c_spec. Qed.

(* a missing, unreadable or malformed standalone file: error, nothing written *)
Theorem C19_generate_c_unreadable : forall (f : fs) (fl : flags) (p : string),
  (forall d c0, fs_get f p = Some (NDoc (Some d)) -> from_flat d = Some c0 -> False) ->
  run_generate_c f fl p = RFail f.
Proof. exact generate_c_unreadable. Qed.

(* the build-script loader uses the file's settings over the defaults (section of
   tauri.conf.json, else typegen.json) - outside C19-9 (an unusable configuration is not
   refused: warning and fall-back to the next source). *)
Theorem C19_precedence_build : forall f : fs, kf_build_fallback f = false ->
  eff_of no_flags (build_config f) = spec_eff_build f.
Proof. exact build_precedence. Qed.

Theorem C19_build_fallback_refuted : exists f e f',
  kf_build_fallback f = true /\ run_build f = RRun e f' /\ e_lib e = "none" /\ e_output e = "./src/generated".
Proof. exact build_fallback_refuted. Qed.

Theorem C19_oracle_roundtrip_file_model : forall c : config, flat_roundtrip_b c (from_flat (flat_json c)) = true.
Proof. exact oracle_flat_roundtrip_model. Qed.

(* ---- init -o <standalone file> ---- *)
(* invalid settings - whatever the shape of the missing project path, the model only asks
   whether the path names something that exists - are refused with every file left alone *)
Theorem C19_init_file_reject_first : forall (f : fs) (il : iflags) (force : bool),
  init_invalid f il = true ->
  run_init_file f il force = RFail f \/ exists e, run_init_file f il force = RReject e f.
Proof. exact init_file_reject_first. Qed.

Theorem C19_init_file_no_overwrite : forall (f : fs) (il : iflags),
  fs_exists f (or_else (i_output il) "tauri.conf.json") = true -> run_init_file f il false = RFail f.
Proof. exact init_file_no_overwrite. Qed.

(* a valid init creates the file with exactly the settings given, and they read back *)
Theorem C19_init_file_document : forall (f : fs) (il : iflags) (force : bool),
  init_invalid f il = false ->
  fs_exists f (or_else (i_output il) "tauri.conf.json") && negb force = false ->
  init_writable f (or_else (i_output il) "tauri.conf.json") = true ->
  norm (init_generated il) <> norm (or_else (i_output il) "tauri.conf.json") ->
  fs_get (result_fs (run_init_file f il force)) (or_else (i_output il) "tauri.conf.json")
    = Some (NDoc (Some (flat_json (init_config il))))
  /\ from_flat (flat_json (init_config il)) = Some (init_config il).
Proof. exact init_file_document. Qed.

(* ---- deepening round 7 ---- *)
(* init -o <file> whose directory does not exist (or has a regular file in the way, or which
   is itself a directory): an error, every file left alone - nothing is created on the way *)
Theorem C19_init_file_unwritable : forall (f : fs) (il : iflags) (force : bool),
  init_writable f (or_else (i_output il) "tauri.conf.json") = false ->
  run_init_file f il force = RFail f \/ exists e, run_init_file f il force = RReject e f.
Proof. exact init_file_unwritable. Qed.

(* a standalone file that states one of the twelve fields twice is refused by the reader
   (serde's derived reader: duplicate field), whatever the two values *)
Theorem C19_file_duplicate_refused : forall d : list (string * json),
  dup_field d = true -> from_flat (JObj d) = None.
Proof. exact from_flat_dup. Qed.

(* so is a root that is neither an object without such a repetition nor an array of at most
   twelve elements (an array is read positionally: C19_precedence_file covers it) *)
Theorem C19_file_shape_refused : forall doc : json, flat_shape_ok doc = false -> from_flat doc = None.
Proof. exact from_flat_shape. Qed.

(* the equality tests inside the oracles decide equality *)
Theorem C19_json_eqb_reflect : forall a b : json, json_eqb a b = true <-> a = b.
Proof. exact json_eqb_eq. Qed.
Theorem C19_config_eqb_reflect : forall a b : config, config_eqb a b = true <-> a = b.
Proof. exact config_eqb_eq. Qed.
Theorem C19_eff_eqb_reflect : forall a b : eff, eff_eqb a b = true <-> eff_norm a = eff_norm b.
Proof. exact eff_eqb_iff. Qed.

(* round-trip oracles = the Prop-level statements *)
Theorem C19_oracle_roundtrip_reflect : forall (c : config) (l : option config),
  roundtrip_b c l = true <-> l = Some (normalise c).
Proof. exact roundtrip_b_iff. Qed.
Theorem C19_oracle_roundtrip_file_reflect : forall (c : config) (l : option config),
  flat_roundtrip_b c l = true <-> l = Some c.
Proof. exact flat_roundtrip_b_iff. Qed.
Theorem C19_oracle_roundtrip_lres_reflect : forall (f : fs) (c : config) (l : lres),
  roundtrip_lres_b f c l = true <-> roundtrip_lres_P f c l.
Proof. exact roundtrip_lres_b_iff. Qed.

(* preservation oracle = every path of length at most fuel outside the section has the same
   value in both documents (absent = absent); and, with fuel above the depth of both
   documents, = every path outside the section *)
Theorem C19_oracle_preserved_reflect : forall (fuel : nat) (before after : json),
  preserved_b fuel before after = true <-> preserved_P fuel before after.
Proof. exact preserved_b_iff. Qed.
Theorem C19_oracle_preserved_reflect_all : forall (fuel : nat) (before after : json),
  depth before <= fuel -> depth after <= fuel ->
  (preserved_b fuel before after = true <-> preserved_all_P before after).
Proof. exact preserved_b_iff_all. Qed.

(* the model passes the preservation oracle: every settings value, every accepted document, any fuel *)
Theorem C19_oracle_preserved_model : forall (fuel : nat) (c : config) (doc doc' : json),
  save_doc c doc = Some doc' -> preserved_b fuel doc doc' = true.
Proof. exact oracle_preserved_model. Qed.

(* the whole library-level oracle (refusal of unsaveable documents, preservation, read-back
   judged on what the loader returns) = its Prop-level statement, and the model passes it
   for every file system, settings value and document *)
Theorem C19_oracle_lib_reflect : forall (f : fs) (c : config) (dref : json) (after : option json) (l : lres),
  lib_ok_b f c dref after l = true <-> lib_ok_P f c dref after l.
Proof. exact lib_ok_b_iff. Qed.
Theorem C19_oracle_lib_model : forall (f : fs) (c : config) (d : json),
  let after := save_doc c d in
  let f' := match after with Some d' => fs_put f "tauri.conf.json" (NDoc (Some d')) | None => f end in
  lib_ok_b f' c d after (from_tauri_config f' "tauri.conf.json") = true.
Proof. exact oracle_lib_model. Qed.

(* precedence oracles (generate, generate -c) = the Prop-level statements; the model passes
   them for every set of files and every flag set, and a refusal of the model leaves the file
   system it started from *)
Theorem C19_oracle_precedence_reflect : forall (f : fs) (fl : flags) (o : cli_obs),
  generate_ok_b f fl o = true <-> generate_ok_P f fl o.
Proof. exact generate_ok_b_iff. Qed.
Theorem C19_oracle_precedence_model : forall (f : fs) (fl : flags),
  generate_ok_b f fl (obs_of_result (run_generate f fl)) = true
  /\ (forall e f', run_generate f fl = RReject e f' -> f' = f).
Proof. exact oracle_generate_model. Qed.
Theorem C19_oracle_precedence_file_reflect : forall (f : fs) (fl : flags) (p : string) (o : cli_obs),
  generate_c_ok_b f fl p o = true <-> generate_c_ok_P f fl p o.
Proof. exact generate_c_ok_b_iff. Qed.
Theorem C19_oracle_precedence_file_model : forall (f : fs) (fl : flags) (p : string),
  generate_c_ok_b f fl p (obs_of_result (run_generate_c f fl p)) = true.
Proof. exact oracle_generate_c_model. Qed.

(* ---- non-vacuity: concrete non-trivial inputs meet the premises *)
Definition ex_doc : json :=
  JObj [("productName", JStr "My App"); ("big", JNum "18446744073709551615");
        ("build", JObj [("devUrl", JStr "http://localhost:1420"); ("list", JArr [JNum "f0.5"; JNull])]);
        ("plugins", JObj [("shell", JObj [("open", JBool true)]);
                          ("typegen", JObj [("projectPath", JStr "./old"); ("extra", JNum "1")])])].
Definition ex_cfg : config :=
  {| project_path := "./src-tauri"; output_path := "./src/gen"; validation_library := "zod";
     verbose := None; visualize_deps := Some true; include_private := None;
     type_mappings := Some [("DateTime", "string")]; exclude_patterns := Some ["target"];
     include_patterns := None; default_parameter_case := "camelCase"; default_field_case := "snake_case";
     force := Some true |}.

Definition ex_saved : json :=
  match save_doc ex_cfg ex_doc with Some d => d | None => JNull end.

Example C19_ex_preserve :
  save_doc ex_cfg ex_doc = Some ex_saved /\ outside_section [PKey "plugins"; PKey "shell"; PKey "open"] = true
  /\ outside_section [PKey "build"; PKey "list"; PIdx 0] = true
  /\ get [PKey "plugins"; PKey "shell"; PKey "open"] ex_saved = Some (JBool true)
  /\ get [PKey "build"; PKey "list"; PIdx 0] ex_saved = Some (JNum "f0.5")
  /\ get [PKey "plugins"; PKey "typegen"; PKey "extra"] ex_saved = None
  /\ preserved_b 40 ex_doc ex_saved = true.
Proof. vm_compute. repeat split; reflexivity. Qed.

(* settings with non-default naming conventions (the old C19-5 witness) now read back *)
Definition ex_cfg_case : config :=
  {| project_path := "p"; output_path := "o"; validation_library := "none"; verbose := None;
     visualize_deps := None; include_private := None; type_mappings := None; exclude_patterns := None;
     include_patterns := None; default_parameter_case := "snake_case"; default_field_case := "kebab-case";
     force := None |}.
Example C19_ex_roundtrip :
  load_doc ex_saved = Some (normalise ex_cfg) /\ normalise ex_cfg <> ex_cfg
  /\ exists d', save_doc ex_cfg_case (JObj [("a", JNum "1")]) = Some d'
      /\ load_doc d' = Some (normalise ex_cfg_case)
      /\ default_parameter_case (normalise ex_cfg_case) = "snake_case".
Proof.
  split; [vm_compute; reflexivity|]. split; [discriminate|].
  eexists. split; [vm_compute; reflexivity|]. split; vm_compute; reflexivity.
Qed.

(* the old C19-3 and C19-4 witnesses are now refused *)
Example C19_ex_save_refused :
  saveable (JObj [("productName", JStr "x"); ("plugins", JArr [JNum "1"; JNum "2"])]) = false
  /\ save_doc dflt (JObj [("productName", JStr "x"); ("plugins", JArr [JNum "1"; JNum "2"])]) = None
  /\ saveable (JArr [JNum "1"; JObj [("a", JNum "2")]]) = false
  /\ save_doc dflt (JArr [JNum "1"; JObj [("a", JNum "2")]]) = None
  /\ saveable ex_doc = true.
Proof. repeat split; reflexivity. Qed.

Definition ex_fs : fs :=
  [("src-tauri", NProj); ("projA", NProj); ("projB", NProj);
   ("tauri.conf.json", NDoc (Some (JObj [("plugins", JObj [("typegen",
      JObj [("projectPath", JStr "./projA"); ("outputPath", JStr "./outF");
            ("validationLibrary", JStr "zod"); ("force", JBool true)])])])))].
Definition ex_flags : flags :=
  {| f_project := Some "./projB"; f_output := None; f_validation := None; f_verbose := true;
     f_visualize := false; f_force := false |}.

Example C19_ex_precedence :
  spec_invalid ex_fs (spec_eff ex_fs ex_flags) = false
  /\ spec_eff ex_fs ex_flags =
     {| e_project := "./projB"; e_output := "./outF"; e_lib := "zod"; e_verbose := true;
        e_log_verbose := true; e_visualize := false; e_force := true |}.
Proof. vm_compute. repeat split; reflexivity. Qed.

Example C19_ex_generate_reject :
  let fl := {| f_project := None; f_output := None; f_validation := Some "yup"; f_verbose := false;
               f_visualize := false; f_force := false |} in
  spec_invalid ex_fs (spec_eff ex_fs fl) = true /\ run_generate ex_fs fl = RReject (BadLib "yup") ex_fs.
Proof. vm_compute. repeat split; reflexivity. Qed.

(* the old C19-1 witnesses: an unsupported library / a missing project path in the file is
   refused; a file that relies on the missing default project runs with the flag's project
   and keeps its other settings *)
Definition fs_with (sec : list (string * json)) (st : list (string * node)) : fs :=
  (st ++ [("projB", NProj);
          ("tauri.conf.json", NDoc (Some (JObj [("plugins", JObj [("typegen", JObj sec)])])))])%list.
Example C19_ex_file_invalid_refused :
  let f1 := fs_with [("validationLibrary", JStr "yup"); ("outputPath", JStr "./outF")] [("src-tauri", NProj)] in
  let f2 := fs_with [("projectPath", JStr "./nope"); ("outputPath", JStr "./outF")] [("src-tauri", NProj)] in
  let f3 := fs_with [("outputPath", JStr "./outF"); ("validationLibrary", JStr "zod")] [] in
  run_generate f1 no_flags = RReject (BadLib "yup") f1
  /\ run_generate f2 no_flags = RReject (NoProject "./nope") f2
  /\ exists e f', run_generate f3 {| f_project := Some "./projB"; f_output := None; f_validation := None;
                                     f_verbose := false; f_visualize := false; f_force := false |} = RRun e f'
                  /\ e_project e = "./projB" /\ e_output e = "./outF" /\ e_lib e = "zod".
Proof. vm_compute. split; [reflexivity|]. split; [reflexivity|]. eexists. eexists. repeat split; reflexivity. Qed.

(* the old C19-6 witness: verbose only in the file switches the logger on as well *)
Example C19_ex_verbose_from_file :
  let f := fs_with [("verbose", JBool true)] [("src-tauri", NProj)] in
  exists e f', run_generate f no_flags = RRun e f' /\ e_verbose e = true /\ e_log_verbose e = true.
Proof. vm_compute. eexists. eexists. repeat split; reflexivity. Qed.

(* the old C19-2 witness (init -v foo on a readable document): refused, nothing written *)
Definition ex_fs_init : fs :=
  [("src-tauri", NProj); ("src-tauri/tauri.conf.json", NDoc (Some (JObj [("a", JNum "1")])))].
Example C19_ex_init_reject :
  let il := {| i_project := None; i_generated := None; i_output := None; i_validation := Some "foo";
               i_verbose := false; i_visualize := false |} in
  init_invalid ex_fs_init il = true /\ run_init ex_fs_init il = RReject (BadLib "foo") ex_fs_init.
Proof. vm_compute. split; reflexivity. Qed.

Example C19_ex_init_unsaveable :
  let il := {| i_project := None; i_generated := None; i_output := None; i_validation := None;
               i_verbose := false; i_visualize := false |} in
  let f := [("src-tauri", NProj);
            ("src-tauri/tauri.conf.json", NDoc (Some (JObj [("a", JNum "1"); ("plugins", JArr [])])))] in
  init_invalid f il = false /\ run_init f il = RFail f.
Proof. vm_compute. split; reflexivity. Qed.

Example C19_ex_init_document :
  let il := {| i_project := Some "./projA"; i_generated := Some "./gen"; i_output := Some "./tauri.conf.json";
               i_validation := Some "zod"; i_verbose := false; i_visualize := false |} in
  exists d d' e f', init_invalid ex_fs il = false /\ fs_get ex_fs (init_target il) = Some (NDoc (Some d))
  /\ save_doc (init_config il) d = Some d'
  /\ norm (init_generated il) <> norm (init_target il)
  /\ run_init ex_fs il = RRun e f' /\ e_project e = "./projA" /\ e_output e = "./gen" /\ e_lib e = "zod".
Proof. vm_compute. eexists. eexists. eexists. eexists. repeat split; try reflexivity. discriminate. Qed.

(* the old C19-8 witness: the file relies on the missing default project, -p gives the real
   one: the run uses projB and keeps the file's output path and library *)
Example C19_ex_file_flag_project :
  let f := [("projB", NProj); ("typegen.json", NDoc (Some (JObj [("output_path", JStr "./outF");
                                                                  ("validation_library", JStr "zod")])))] in
  exists e f', run_generate_c f {| f_project := Some "./projB"; f_output := None; f_validation := None;
                                   f_verbose := false; f_visualize := false; f_force := false |} "typegen.json" = RRun e f'
               /\ e_project e = "./projB" /\ e_output e = "./outF" /\ e_lib e = "zod".
Proof. vm_compute. eexists. eexists. repeat split; reflexivity. Qed.

Definition ex_flat : json :=
  JObj [("project_path", JStr "./projA"); ("output_path", JStr "./outF"); ("validation_library", JStr "zod");
        ("force", JBool true); ("verbose", JNull); ("unknown", JNum "1")].
Example C19_ex_file :
  let f := (ex_fs ++ [("typegen.json", NDoc (Some ex_flat))])%list in
  (exists c0, from_flat ex_flat = Some c0 /\ force c0 = Some true /\ verbose c0 = None)
  /\ spec_eff_c ex_flags ex_flat =
     {| e_project := "./projB"; e_output := "./outF"; e_lib := "zod"; e_verbose := true;
        e_log_verbose := true; e_visualize := false; e_force := true |}
  /\ exists f', run_generate_c f ex_flags "typegen.json" = RRun (spec_eff_c ex_flags ex_flat) f'.
Proof. vm_compute. split; [eexists; repeat split; reflexivity|]. repeat split; try reflexivity. eexists. reflexivity. Qed.

Example C19_ex_build :
  let f := [("src-tauri", NProj); ("projA", NProj); ("tauri.conf.json", NDoc (Some (JObj [("a", JNum "1")])));
            ("typegen.json", NDoc (Some ex_flat))] in
  kf_build_fallback f = false /\ e_force (spec_eff_build f) = true /\ e_output (spec_eff_build f) = "./outF"
  /\ exists f', run_build f = RRun (spec_eff_build f) f'.
Proof. vm_compute. repeat split; try reflexivity. eexists. reflexivity. Qed.

(* a project path that leads through a regular file names nothing: refused, nothing created *)
Example C19_ex_init_file_through_file :
  let f := [("src-tauri", NProj); ("notes.txt", NDoc None)] in
  let il := {| i_project := Some "notes.txt/src"; i_generated := Some "./gen"; i_output := Some "./typegen.json";
               i_validation := Some "zod"; i_verbose := false; i_visualize := false |} in
  init_invalid f il = true /\ run_init_file f il false = RReject (NoProject "notes.txt/src") f
  /\ run_init f (Build_iflags (Some "notes.txt/src") None (Some "./tauri.conf.json") None false false)
     = RReject (NoProject "notes.txt/src") f.
Proof. vm_compute. repeat split; reflexivity. Qed.

(* history: a refused run - forced or not - against an output directory that an earlier
   run has filled leaves that directory (and everything else) as it was *)
Example C19_ex_reject_on_generated_dir :
  let f := [("src-tauri", NProj); ("src/generated", NOut {| g_project := "primeP"; g_lib := "none"; g_viz := false |})] in
  let fl := {| f_project := None; f_output := None; f_validation := Some "yup"; f_verbose := true;
               f_visualize := true; f_force := true |} in
  spec_invalid f (spec_eff f fl) = true /\ run_generate f fl = RReject (BadLib "yup") f
  /\ fs_get f "./src/generated" = Some (NOut {| g_project := "primeP"; g_lib := "none"; g_viz := false |}).
Proof. vm_compute. repeat split; reflexivity. Qed.

(* ---- the build script with its project detection (first of ./ and ../ holding tauri.conf.json,
   tauri.conf.js or src-tauri) ---- *)
(* file over default at any document path / typegen.json path, outside C19-9 *)
Theorem C19_precedence_build_at : forall (f : fs) (tp : option string) (gp : string),
  kf_build_fallback_at f tp gp = false ->
  eff_of no_flags (build_config_at f tp gp) = spec_eff_build_at f tp gp.
Proof. exact build_precedence_at. Qed.
(* with a detected root, outside C19-9, the run uses exactly the root's file over the defaults *)
Theorem C19_build_detect_precedence : forall (f : fs) (r : string),
  build_root f = Some r -> kf_build_fallback_detect f = false ->
  exists res, run_build_detect f = res /\
    (res = RNoCommands (spec_eff_build_detect f) f \/ exists f', res = RRun (spec_eff_build_detect f) f').
Proof. exact build_detect_precedence. Qed.
(* without a detected root nothing is generated and nothing changes *)
Theorem C19_build_detect_none : forall f : fs, build_root f = None -> exists e, run_build_detect f = RNoCommands e f.
Proof. exact build_detect_none. Qed.
(* run from the project root the detection changes nothing (ties C19_precedence_build to it) *)
Theorem C19_build_detect_here : forall f : fs, is_root f "" = true -> fs_exists f "tauri.conf.js" = false ->
  run_build_detect f = run_build f.
Proof. exact build_detect_here. Qed.

(* the build-script oracle accepts the model wherever it does not demand a refusal *)
Theorem C19_oracle_build_model : forall f : fs, build_invalid_detect f = false ->
  build_ok_detect_b f (obs_of_result (run_build_detect f)) = true.
Proof. exact oracle_build_model. Qed.

(* the init oracles = their Prop-level statements, and the model passes them for every file
   system and flag set (the generated-files directory must not be the target itself) *)
Theorem C19_oracle_init_reflect : forall (f : fs) (il : iflags) (bref : json) (o : cli_obs) (after : option json),
  init_ok_b f il bref o after = true <-> init_ok_P f il bref o after.
Proof. exact init_ok_b_iff. Qed.
Theorem C19_oracle_init_file_reflect : forall (f : fs) (il : iflags) (force : bool) (o : cli_obs) (after : option json),
  init_file_ok_b f il force o after = true <-> init_file_ok_P f il force o after.
Proof. exact init_file_ok_b_iff. Qed.
Theorem C19_oracle_init_model : forall (f : fs) (il : iflags),
  norm (init_generated il) <> norm (init_target il) ->
  forall bref, (forall d, fs_get f (init_target il) = Some (NDoc (Some d)) -> bref = d) ->
  init_ok_b f il bref (obs_of_result (run_init f il)) (doc_at (run_init f il) (init_target il)) = true.
Proof. exact oracle_init_model. Qed.
Theorem C19_oracle_init_file_model : forall (f : fs) (il : iflags) (force : bool),
  norm (init_generated il) <> norm (or_else (i_output il) "tauri.conf.json") ->
  init_file_ok_b f il force (obs_of_result (run_init_file f il force))
    (doc_at (run_init_file f il force) (or_else (i_output il) "tauri.conf.json")) = true.
Proof. exact oracle_init_file_model. Qed.

(* ---- deepening round 7: examples *)
(* the oracles on the example document: accepted for the model's output, within the fuel,
   and not vacuous (a dropped key, a changed array element, wrong settings are refused) *)
Example C19_ex_oracles :
  preserved_b 40 ex_doc ex_saved = true /\ depth ex_doc <= 40 /\ depth ex_saved <= 40
  /\ preserved_b 40 ex_doc (JObj [("plugins", JObj [])]) = false
  /\ preserved_b 2 (JObj [("a", JArr [JNum "1"])]) (JObj [("a", JArr [JNum "2"])]) = false
  /\ roundtrip_b ex_cfg (load_doc ex_saved) = true /\ roundtrip_b ex_cfg (Some ex_cfg) = false
  /\ generate_ok_b ex_fs ex_flags (obs_of_result (run_generate ex_fs ex_flags)) = true
  /\ generate_ok_b ex_fs ex_flags (ORan (spec_eff ex_fs no_flags)) = false
  /\ generate_ok_b ex_fs ex_flags (ORejected true) = false
  /\ lib_ok_b ex_fs ex_cfg ex_doc (Some ex_saved) (LOk (normalise ex_cfg)) = true
  /\ lib_ok_b ex_fs ex_cfg ex_doc (Some ex_saved) (LOk ex_cfg) = false.
Proof. vm_compute. repeat split; try reflexivity; repeat constructor. Qed.

(* standalone files: a field given twice is refused, an unknown key may repeat, an array is
   read by position (flag over file over default still holds), thirteen elements are refused *)
Definition ex_flat_arr : json := JArr [JStr "./projA"; JStr "./outF"; JStr "zod"; JBool true].
Example C19_ex_file_shapes :
  dup_field [("verbose", JBool true); ("output_path", JStr "./a"); ("verbose", JBool true)] = true
  /\ from_flat (JObj [("verbose", JBool true); ("output_path", JStr "./a"); ("verbose", JBool true)]) = None
  /\ (exists c0, from_flat (JObj [("x", JNum "1"); ("force", JBool true); ("x", JNum "2")]) = Some c0 /\ force c0 = Some true)
  /\ (exists c0, from_flat ex_flat_arr = Some c0 /\ project_path c0 = "./projA" /\ verbose c0 = Some true /\ force c0 = None)
  /\ spec_eff_c ex_flags ex_flat_arr =
     {| e_project := "./projB"; e_output := "./outF"; e_lib := "zod"; e_verbose := true;
        e_log_verbose := true; e_visualize := false; e_force := false |}
  /\ flat_shape_ok (JArr (repeat JNull 13)) = false /\ from_flat (JArr (repeat JNull 13)) = None
  /\ flat_shape_ok (JStr "x") = false
  /\ (exists f', run_generate_c (ex_fs ++ [("typegen.json", NDoc (Some ex_flat_arr))])%list ex_flags "typegen.json"
                 = RRun (spec_eff_c ex_flags ex_flat_arr) f')
  /\ generate_c_ok_b (ex_fs ++ [("typegen.json", NDoc (Some ex_flat_arr))])%list ex_flags "typegen.json"
       (obs_of_result (run_generate_c (ex_fs ++ [("typegen.json", NDoc (Some ex_flat_arr))])%list ex_flags "typegen.json")) = true.
Proof.
  vm_compute. split; [reflexivity|]. split; [reflexivity|]. split; [eexists; split; reflexivity|].
  split; [eexists; repeat split; reflexivity|]. repeat split; try reflexivity. eexists. reflexivity.
Qed.

(* init -o into a directory that does not exist, through a regular file, onto a directory:
   refused with every file left alone; into an existing directory: created *)
Example C19_ex_init_unwritable :
  let f := [("src-tauri", NProj); ("notes.txt", NDoc None); ("cfg", NDir); ("empty", NDir)] in
  let il o := {| i_project := None; i_generated := Some "./gen"; i_output := Some o;
                 i_validation := Some "zod"; i_verbose := false; i_visualize := false |} in
  init_invalid f (il "nodir/my.json") = false
  /\ init_writable f "nodir/my.json" = false /\ run_init_file f (il "nodir/my.json") false = RFail f
  /\ init_writable f "notes.txt/my.json" = false /\ run_init_file f (il "notes.txt/my.json") true = RFail f
  /\ init_writable f "empty" = false /\ run_init_file f (il "empty") true = RFail f
  /\ init_writable f "./cfg/my.json" = true /\ init_writable f "my.json" = true /\ init_writable f "./my.json" = true
  /\ exists e f', run_init_file f (il "./cfg/my.json") false = RRun e f'
       /\ fs_get f' "cfg/my.json" = Some (NDoc (Some (flat_json (init_config (il "./cfg/my.json"))))).
Proof. vm_compute. repeat split; try reflexivity. eexists. eexists. split; reflexivity. Qed.


(* the build script started one level below the project root: the parent's typegen.json is the
   configuration file; in an unrelated directory: nothing is generated *)
Example C19_ex_build_detect :
  let f := [("projA", NProj); ("../tauri.conf.json", NDoc (Some (JObj [("a", JNum "1")])));
            ("../typegen.json", NDoc (Some ex_flat))] in
  build_root f = Some "../" /\ kf_build_fallback_detect f = false
  /\ e_output (spec_eff_build_detect f) = "./outF" /\ e_force (spec_eff_build_detect f) = true
  /\ (exists f', run_build_detect f = RRun (spec_eff_build_detect f) f')
  /\ build_ok_detect_b f (obs_of_result (run_build_detect f)) = true
  /\ build_invalid_detect f = false
  /\ build_root [("projA", NProj); ("typegen.json", NDoc (Some ex_flat))] = None
  /\ is_root [("src-tauri", NProj)] "" = true.
Proof. vm_compute. repeat split; try reflexivity. eexists. reflexivity. Qed.

(* the init oracles on concrete runs: accepted for the model, and not vacuous *)
Definition ex_il : iflags :=
  {| i_project := Some "./projA"; i_generated := Some "./gen"; i_output := Some "./tauri.conf.json";
     i_validation := Some "zod"; i_verbose := false; i_visualize := false |}.
Definition ex_ilf : iflags :=
  {| i_project := Some "./projA"; i_generated := Some "./gen"; i_output := Some "./typegen.json";
     i_validation := Some "zod"; i_verbose := false; i_visualize := false |}.
Definition ex_target_doc : json :=
  match fs_get ex_fs (init_target ex_il) with Some (NDoc (Some d)) => d | _ => JNull end.
Example C19_ex_init_oracles :
  norm (init_generated ex_il) <> norm (init_target ex_il)
  /\ fs_get ex_fs (init_target ex_il) = Some (NDoc (Some ex_target_doc))
  /\ init_ok_b ex_fs ex_il ex_target_doc (obs_of_result (run_init ex_fs ex_il)) (doc_at (run_init ex_fs ex_il) (init_target ex_il)) = true
  /\ init_ok_b ex_fs ex_il ex_target_doc (obs_of_result (run_init ex_fs ex_il)) (Some ex_target_doc) = false
  /\ init_ok_b ex_fs ex_il ex_target_doc (ORejected true) (Some ex_target_doc) = false
  /\ init_file_ok_b ex_fs ex_ilf false (obs_of_result (run_init_file ex_fs ex_ilf false)) (doc_at (run_init_file ex_fs ex_ilf false) "./typegen.json") = true
  /\ init_file_ok_b ex_fs ex_ilf false (ORejected true) None = false
  /\ init_file_ok_b ex_fs ex_ilf false ONoCommands (Some (JObj [])) = false.
Proof.
  split; [vm_compute; discriminate|]. split; [vm_compute; reflexivity|].
  split; [vm_compute; reflexivity|]. split; [vm_compute; reflexivity|]. split; [vm_compute; reflexivity|].
  split; [vm_compute; reflexivity|]. split; vm_compute; reflexivity.
Qed.

Print Assumptions C19_preserve.
Print Assumptions C19_save_refused.
Print Assumptions C19_roundtrip.
Print Assumptions C19_precedence.
Print Assumptions C19_generate_reject_first.
Print Assumptions C19_init_reject_first.
Print Assumptions C19_init_unsaveable.
Print Assumptions C19_init_document.
Print Assumptions C19_oracle_roundtrip_model.
Print Assumptions C19_roundtrip_file.
Print Assumptions C19_precedence_file.
Print Assumptions C19_generate_c.
Print Assumptions C19_generate_c_unreadable.
Print Assumptions C19_precedence_build.
Print Assumptions C19_build_fallback_refuted.
Print Assumptions C19_oracle_roundtrip_file_model.
Print Assumptions C19_init_file_reject_first.
Print Assumptions C19_init_file_no_overwrite.
Print Assumptions C19_init_file_document.
Print Assumptions C19_init_file_unwritable.
Print Assumptions C19_file_duplicate_refused.
Print Assumptions C19_file_shape_refused.
Print Assumptions C19_json_eqb_reflect.
Print Assumptions C19_config_eqb_reflect.
Print Assumptions C19_eff_eqb_reflect.
Print Assumptions C19_oracle_roundtrip_reflect.
Print Assumptions C19_oracle_roundtrip_file_reflect.
Print Assumptions C19_oracle_roundtrip_lres_reflect.
Print Assumptions C19_oracle_preserved_reflect.
Print Assumptions C19_oracle_preserved_reflect_all.
Print Assumptions C19_oracle_preserved_model.
Print Assumptions C19_oracle_lib_reflect.
Print Assumptions C19_oracle_lib_model.
Print Assumptions C19_oracle_precedence_reflect.
Print Assumptions C19_oracle_precedence_model.
Print Assumptions C19_oracle_precedence_file_reflect.
Print Assumptions C19_oracle_precedence_file_model.
Print Assumptions C19_precedence_build_at.
Print Assumptions C19_build_detect_precedence.
Print Assumptions C19_build_detect_none.
Print Assumptions C19_build_detect_here.
Print Assumptions C19_oracle_build_model.
Print Assumptions C19_oracle_init_reflect.
Print Assumptions C19_oracle_init_file_reflect.
Print Assumptions C19_oracle_init_model.
Print Assumptions C19_oracle_init_file_model.
