(* C16 - only the tool's own files in the output directory are ever written or removed.
   Only statements, [exact], examples and [Print Assumptions] live here.
   Model: Model/C16Fs.v (abstract file system; the three entry points as functions
   from file system to file system). Specification: Spec/C16Reserved.v. *)
From Coq Require Import String Ascii List Bool.
Require Import TT.Model.Str TT.Model.C16Fs TT.Spec.C16Reserved TT.Proofs.C16Proofs.
Import ListNotations.
Local Open Scope list_scope.

(* reserved_b (the run-time oracle) is the list of the property text *)
Theorem C16_reserved_name_b_iff : forall n, reserved_name_b n = true <-> reserved_name n.
Proof. exact reserved_name_b_iff. Qed.

Theorem C16_reserved_b_iff : forall out q, reserved_b out q = true <-> reserved out q.
Proof. exact reserved_b_iff. Qed.

Theorem C16_reserved_exact_listing :
  reserved_exact = map L ["types.ts"; "types.d.ts"; "commands.ts"; "commands.d.ts"; "events.ts"; "events.d.ts";
                          "index.ts"; "index.d.ts"; "schemas.ts"; "schemas.d.ts"; "models.ts"; "models.d.ts";
                          "bindings.ts"; "bindings.d.ts"; ".typecache"; "dependency-graph.txt"; "dependency-graph.dot"]%string.
Proof. exact reserved_exact_listing. Qed.

(* is_generated_file (with any set of managed names) selects, among the names that are
   not in the current set, only reserved names: the name patterns of cleanup do not
   reach beyond the property's list *)
Theorem C16_cleanup_selects_reserved : forall managed n,
  is_generated_file managed n = true -> in_b n managed = false -> reserved_name n.
Proof. exact cleanup_selects_reserved. Qed.

(* ... and, since the repair of C16-2, never a project source *)
Theorem C16_cleanup_spares_sources : forall managed n proj out,
  is_generated_file managed n = true -> in_b n managed = false -> is_source proj (out ++ [n]) = false.
Proof. exact cleanup_spares_sources. Qed.

(* Main theorem, with no known-finding premise since the repairs of C16-1 and C16-2.
   may_change r q = q is a reserved name directly inside the output directory of run r
   and is not a project source (a .rs file below r's project path).
   For every file system and every history of runs (each run with its own entry point,
   effective configuration and analysis result): a path that no run may change and that
   no init of the history was pointed at holds the same regular file (same bytes), or the
   same absence of one, afterwards. This covers foreign files in the output directory,
   all project sources and everything outside. *)
Theorem C16_frame : forall runs s q,
  (forall r, In r runs -> ~ may_change r q /\ init_target r <> Some q) ->
  file_at (fs_after runs s) q = file_at s q.
Proof. exact frame_history. Qed.

(* Directories: none disappears or turns into a file; a new one is an output directory
   of the history or one of its ancestors. *)
Theorem C16_dirs : forall runs s q,
  (lookup s q = Some Dir -> lookup (fs_after runs s) q = Some Dir) /\
  (lookup (fs_after runs s) q = Some Dir ->
   lookup s q = Some Dir \/ exists r, In r runs /\ is_prefix q (out_of r) = true).
Proof. exact dirs_history. Qed.

(* init: besides what the following generate may touch, only the file it was pointed at *)
Theorem C16_init : forall i c a s q,
  ~ (reserved (c_out c) q /\ is_source (c_proj c) q = false) -> q <> i_target i ->
  file_at (fst (run_init i c a s)) q = file_at s q.
Proof. exact init_frame. Qed.

(* Whatever sits at <output>/.write_test stays, on every entry (formerly finding C16-1). *)
Theorem C16_probe_untouched : forall r s, init_target r <> Some (out_of r ++ [n_probe]) ->
  file_at (fst (exec r s)) (out_of r ++ [n_probe]) = file_at s (out_of r ++ [n_probe]).
Proof. exact probe_untouched. Qed.

(* The witnesses of the two repaired defects now satisfy the property (and the runs still
   generate and clean): formerly C16_write_test_refuted and C16_source_cleanup_refuted. *)
Theorem C16_write_test_kept :
  file_at (fst (exec wit_run wit_fs)) [L "gen"; L ".write_test"] = Some (L "my notes") /\
  file_at (fst (exec wit_run wit_fs)) [L "gen"; L "types.ts"] = Some (L "T") /\
  file_at (fst (exec wit_run wit_fs)) [L "gen"; L "models.ts"] = None /\
  snd (exec wit_run wit_fs) = BuildOk.
Proof. exact write_test_kept. Qed.

Theorem C16_sources_kept :
  file_at (fst (exec wit2_run wit2_fs)) [L "src-tauri"; L "src"; L "generated_cmds.rs"] = Some (L "#[tauri::command] fn ping() {}") /\
  file_at (fst (exec wit2_run wit2_fs)) [L "src-tauri"; L "src"; L "old_generated.ts"] = None /\
  snd (exec wit2_run wit2_fs) = BuildOk.
Proof. exact sources_kept. Qed.

(* ---- non-vacuity: a history of four runs over all three entry points meets the
   premises of C16_frame for a foreign file, and really changes the tree *)
Definition ex_cfg (force : bool) : cfg :=
  {| c_out := [L "app"; L "gen"]; c_proj := [L "app"; L "src-tauri"]; c_lib_ok := true; c_force := force; c_viz := true |}.
Definition ex_ana (cmds : bool) : ana :=
  {| a_ok := true; a_cmds := cmds; k_types := L "T"; k_commands := L "C"; k_events := Some (L "E");
     k_index := L "I"; k_txt := L "x"; k_dot := L "d"; k_cache := L "H" |}.
Definition ex_init : initp :=
  {| i_target := [L "app"; L "src-tauri"; L "tauri.conf.json"]; i_force := false; i_parses := true; i_new := L "{new}" |}.
Definition ex_runs : list run :=
  [ {| r_entry := Generate; r_cfg := ex_cfg false; r_ana := ex_ana true |};
    {| r_entry := Build true; r_cfg := ex_cfg false; r_ana := ex_ana false |};
    {| r_entry := Init ex_init; r_cfg := ex_cfg false; r_ana := ex_ana true |};
    {| r_entry := Build true; r_cfg := ex_cfg true; r_ana := ex_ana true |} ].
Definition ex_fs : fs :=
  [([L "app"], Dir); ([L "app"; L "src-tauri"], Dir);
   ([L "app"; L "src-tauri"; L "tauri.conf.json"], File (L "{}"));
   ([L "app"; L "gen"], Dir);
   ([L "app"; L "gen"; L "notes.ts"], File (L "user notes"));
   ([L "app"; L "gen"; L "models.ts"], File (L "stale"));
   ([L "app"; L "gen"; L "types.ts.bak"], File (L "backup"));
   ([L "app"; L "gen"; L ".write_test"], File (L "mine"))].

Example C16_ex_premises :
  (forall r, In r ex_runs ->
     ~ may_change r [L "app"; L "gen"; L "notes.ts"] /\ init_target r <> Some [L "app"; L "gen"; L "notes.ts"]).
Proof.
  intros r H. cbn [ex_runs In] in H.
  destruct H as [<-|[<-|[<-|[<-|[]]]]]; (split; [apply not_may_change_by_b; vm_compute; reflexivity|discriminate]).
Qed.

Example C16_ex_effect :
  file_at (fs_after ex_runs ex_fs) [L "app"; L "gen"; L "types.ts"] = Some (L "T") /\
  file_at (fs_after ex_runs ex_fs) [L "app"; L "gen"; L "models.ts"] = None /\
  file_at (fs_after ex_runs ex_fs) [L "app"; L "src-tauri"; L "tauri.conf.json"] = Some (L "{new}") /\
  file_at (fs_after ex_runs ex_fs) [L "app"; L "gen"; L "notes.ts"] = Some (L "user notes") /\
  file_at (fs_after ex_runs ex_fs) [L "app"; L "gen"; L "types.ts.bak"] = Some (L "backup") /\
  file_at (fs_after ex_runs ex_fs) [L "app"; L "gen"; L ".write_test"] = Some (L "mine").
Proof. vm_compute. repeat split; reflexivity. Qed.

(* a generated-looking project source inside the output directory, build-script entry *)
Definition ex2_cfg : cfg :=
  {| c_out := [L "app"; L "src-tauri"; L "src"]; c_proj := [L "app"; L "src-tauri"]; c_lib_ok := true; c_force := true; c_viz := false |}.
Definition ex2_run : run := {| r_entry := Build true; r_cfg := ex2_cfg; r_ana := ex_ana true |}.
Definition ex2_fs : fs :=
  [([L "app"], Dir); ([L "app"; L "src-tauri"], Dir); ([L "app"; L "src-tauri"; L "src"], Dir);
   ([L "app"; L "src-tauri"; L "src"; L "generated_cmds.rs"], File (L "source"))].
Example C16_ex_source :
  is_build ex2_run = true /\
  ~ may_change ex2_run [L "app"; L "src-tauri"; L "src"; L "generated_cmds.rs"] /\
  reserved (out_of ex2_run) [L "app"; L "src-tauri"; L "src"; L "generated_cmds.rs"] /\
  file_at (fst (exec ex2_run ex2_fs)) [L "app"; L "src-tauri"; L "src"; L "types.ts"] = Some (L "T").
Proof.
  split; [reflexivity|]. split; [apply not_may_change_by_b; vm_compute; reflexivity|].
  split; [apply C16_reserved_b_iff; vm_compute; reflexivity|vm_compute; reflexivity].
Qed.

Example C16_ex_names :
  map reserved_name_b [L "types.ts"; L "events.d.ts"; L "generated_x.ts"; L "x_generated.ts"; L ".typecache";
                       L "types.ts.bak"; L "mytypes.ts"; L "index.tsx"; L ".write_test"; L "generated.ts"]
  = [true; true; true; true; true; false; false; false; false; false].
Proof. vm_compute. reflexivity. Qed.

Print Assumptions C16_reserved_name_b_iff.
Print Assumptions C16_reserved_b_iff.
Print Assumptions C16_reserved_exact_listing.
Print Assumptions C16_cleanup_selects_reserved.
Print Assumptions C16_cleanup_spares_sources.
Print Assumptions C16_frame.
Print Assumptions C16_dirs.
Print Assumptions C16_init.
Print Assumptions C16_probe_untouched.
Print Assumptions C16_write_test_kept.
Print Assumptions C16_sources_kept.
