(* C03 - exactly one wrapper per discovered command, invoking exactly its Rust name.
   Only statements, [exact], examples and [Print Assumptions] live here.
   Model: Model/C03Discover.v (faithful, defects included). Specification: Spec/C03Spec.v
   (path components, never substrings). Proofs: Proofs/C03Proofs.v, Proofs/DiscoverSpike.v. *)
From Coq Require Import String Ascii.
From Coq Require Import List Arith Bool Permutation.
Require Import TT.Model.Str TT.Model.Pipeline TT.Model.C03Discover TT.Spec.C03Spec.
Require Import TT.Proofs.C03Proofs.
Import ListNotations.
Local Open Scope list_scope.

(* For every well-formed layout, every spelling of the project path outside the recorded
   class C03-1 and when no accepted file is outside UTF-8 (class C03-2): the analysis
   succeeds, and under EVERY iteration order of the AST cache (files' ranges over all
   permutations of the cached files) the wrappers of commands.ts, read as
   (invoke name, Promise type), are a permutation of the specification: the annotated
   top-level functions of parsed .rs files without a target/.git directory component. *)
Theorem C03_bijection : forall (root : str) (l : layout),
  layout_ok l = true -> kf_root root = false -> kf_notutf8 root l = false ->
  exists cached, cache root l = Done cached /\
    forall files', Permutation files' cached ->
      Permutation (map wobs (emit (analyze_files files'))) (map spec_obs (annotated_spec l)).
Proof. exact bijection. Qed.

(* the run in walk order (what the extracted entry point computes) gives the list itself *)
Theorem C03_walk_order : forall (root : str) (l : layout),
  layout_ok l = true -> kf_root root = false -> kf_notutf8 root l = false ->
  exists cs, analyze root l = Done cs /\ map wobs (emit cs) = map spec_obs (annotated_spec l).
Proof. exact bijection_walk_order. Qed.

(* what the specification contains, read declaratively: exactly the functions f that stand
   at the top level (RFn, not inside RImpl or RMod) of a file that parses, whose name is
   stem.rs, none of whose directory components is target or .git, and that carry an
   attribute with path tauri::command or command *)
Theorem C03_spec_membership : forall (l : layout) (p : list str) (f : fn_def),
  In (p, f) (annotated_spec l) <->
  exists items, In (p, Parsed items) (walk l) /\ spec_accept p = true /\ In (RFn f) items /\ annotated f = true.
Proof. exact in_annotated_spec. Qed.

(* the one non-trivial step: the substring test on the full path string equals the
   component test, for slash-free components and a root outside class C03-1 *)
Theorem C03_accepted_by_components : forall (root : str) (comps : list str),
  kf_root root = false -> Forall DiscoverSpike.slashfree comps ->
  accepted root comps = spec_accept comps.
Proof. exact accepted_spec_accept. Qed.

(* a file that fails to parse removes exactly its own wrappers: for any files before and
   after it in walk order, the run with the file parsed yields a ++ own ++ b and the run
   with the same file unparsable yields a ++ b (and both fail together otherwise) *)
Theorem C03_unparsable_isolated : forall (root : str) pre post (p : list str) (items : list ritem),
  match analyze_list root pre, analyze_list root post with
  | Done a, Done b =>
      analyze_list root (pre ++ (p, Parsed items) :: post) = Done (a ++ own_cmds root p items ++ b) /\
      analyze_list root (pre ++ (p, Unparsable) :: post) = Done (a ++ b)
  | _, _ =>
      analyze_list root (pre ++ (p, Parsed items) :: post) = Failed /\
      analyze_list root (pre ++ (p, Unparsable) :: post) = Failed
  end.
Proof. exact unparsable_isolated. Qed.

Theorem C03_unparsable_isolated_layout : forall (root : str) (l l' : layout) pre post (p : list str) items,
  walk l = pre ++ (p, Parsed items) :: post ->
  walk l' = pre ++ (p, Unparsable) :: post ->
  match analyze root l with
  | Done cs => exists a b, cs = a ++ own_cmds root p items ++ b /\ analyze root l' = Done (a ++ b)
  | Failed => analyze root l' = Failed
  end.
Proof. exact unparsable_isolated_layout. Qed.

(* C03-1: a root whose own path contains /target/ loses every command *)
Theorem C03_root_path_refuted :
  layout_ok w_layout1 = true /\ kf_root w_root = true /\ kf_notutf8 w_root w_layout1 = false /\
  analyze w_root w_layout1 = Done [] /\
  map spec_obs (annotated_spec w_layout1) = [(L "hello", L "Promise<string>")].
Proof. exact root_refuted. Qed.

(* C03-2: one accepted file that is not UTF-8 makes the whole analysis fail *)
Theorem C03_notutf8_refuted :
  layout_ok w_layout2 = true /\ kf_root (L "src") = false /\ kf_notutf8 (L "src") w_layout2 = true /\
  analyze (L "src") w_layout2 = Failed /\
  map spec_obs (annotated_spec w_layout2) = [(L "hello", L "Promise<string>")].
Proof. exact notutf8_refuted. Qed.

(* the run-time oracle decides exactly: every exported function calls invoke once with a
   string literal, and the (invoke name, return type) pairs are a permutation of the expected ones *)
Theorem C03_oracle_exact : forall expected obs,
  c03_ok expected obs = true <->
  exists ws pairs, obs = Some ws /\ mapM one_invoke ws = Some pairs /\ Permutation pairs expected.
Proof. exact c03_ok_iff. Qed.

(* ---- non-vacuity ---- *)
Definition ex_fn (name : string) (attrs : list (list str)) : fn_def :=
  {| fn_name := L name; fn_attrs := attrs; fn_async := false; fn_params := [];
     fn_ret := Some (QPath [] (L "Result") true [QPath [] (L "User") false []; QPath [] (L "String") false []]) |}.
Definition ex_layout : layout :=
  [ NFile (L "main.rs") (Parsed [RFn (ex_fn "a" [[L "inline"]; [L "tauri"; L "command"]]);
                                 RFn (ex_fn "helper" [[L "my"; L "command"]]);
                                 RImpl [ex_fn "method" [[L "command"]]];
                                 RMod [RFn (ex_fn "nested" [[L "tauri"; L "command"]])]; ROther]);
    NFile (L "x.rs.bak") (Parsed [RFn (ex_fn "bak" [[L "command"]])]);
    NDir (L "target") [NDir (L "debug") [NFile (L "d.rs") (Parsed [RFn (ex_fn "decoy" [[L "command"]])])]];
    NDir (L "sub") [NDir (L ".git") [NFile (L "g.rs") (Parsed [RFn (ex_fn "decoy2" [[L "command"]])])];
                    NDir (L "y.rs") [NFile (L "b.rs") (Parsed [RFn (ex_fn "b" [[L "command"]; [L "doc"]])])];
                    NFile (L "broken.rs") Unparsable;
                    NFile (L "notes.txt") NotUtf8];
    NDir (L "targets") [NFile (L "c.rs") (Parsed [RFn (ex_fn "a" [[L "tauri"; L "command"]])])] ].

Example C03_ex_premises :
  layout_ok ex_layout = true /\ kf_root (L "./proj/src/") = false /\ kf_notutf8 (L "./proj/src/") ex_layout = false.
Proof. vm_compute. repeat split; reflexivity. Qed.
Example C03_ex_result :
  match analyze (L "./proj/src/") ex_layout with
  | Done cs => map wobs (emit cs)
  | Failed => []
  end = [(L "a", L "Promise<types.User>"); (L "b", L "Promise<types.User>"); (L "a", L "Promise<types.User>")].
Proof. vm_compute. reflexivity. Qed.
Example C03_ex_isolated :
  walk [NFile (L "a.rs") (Parsed [RFn (ex_fn "a" [[L "command"]])]); NFile (L "b.rs") (Parsed [RFn (ex_fn "b" [[L "command"]])])]
  = [] ++ ([L "a.rs"], Parsed [RFn (ex_fn "a" [[L "command"]])]) :: [([L "b.rs"], Parsed [RFn (ex_fn "b" [[L "command"]])])].
Proof. reflexivity. Qed.
(* the template text of Model/Pipeline.v for these commands, lexed and parsed by the
   specification parser, reads back as the wrapper records of the abstract model *)
Example C03_ex_tokens_read_back :
  let cs := [ex_fn "get_user" [[L "command"]]; ex_fn "save" [[L "tauri"; L "command"]]] in
  option_map (fun ws => map (fun w => (wo_invokes w, wo_ret w)) ws)
             (option_map wrappers_of (TsModule.p_items 1000 (commands_toks cs) []))
  = Some (map (fun f => ([Some (fn_name f)], canon_type (promise_of f))) cs).
Proof. vm_compute. reflexivity. Qed.

Print Assumptions C03_bijection.
Print Assumptions C03_walk_order.
Print Assumptions C03_spec_membership.
Print Assumptions C03_accepted_by_components.
Print Assumptions C03_unparsable_isolated.
Print Assumptions C03_unparsable_isolated_layout.
Print Assumptions C03_root_path_refuted.
Print Assumptions C03_notutf8_refuted.
Print Assumptions C03_oracle_exact.
