(* C03 - exactly one wrapper per discovered command, invoking exactly its Rust name.
   Only statements, [exact], examples and [Print Assumptions] live here.
   Model: Model/C03Discover.v (faithful to the code after the repairs of C03-1 and C03-2).
   Specification: Spec/C03Spec.v (path components, never substrings). Proofs: Proofs/C03Proofs.v. *)
From Coq Require Import String Ascii.
From Coq Require Import List Arith Bool Permutation.
Require Import TT.Model.Str TT.Model.Pipeline TT.Model.C03Discover TT.Spec.C03Spec.
Require Import TT.Proofs.C03Proofs.
Import ListNotations.
Local Open Scope list_scope.

(* For every well-formed layout and EVERY spelling of the project path (no recorded class is
   left as a premise): under EVERY iteration order of the AST cache (files' ranges over all
   permutations of the cached files) the wrappers of commands.ts, read as
   (invoke name, Promise type), are a permutation of the specification: the annotated
   top-level functions of parsed .rs files without a target/.git directory component below
   the project path. Files that cannot be read or parsed contribute nothing and hide nothing. *)
Theorem C03_bijection : forall (root : str) (l : layout),
  layout_ok l = true ->
  forall files', Permutation files' (cache root l) ->
    Permutation (map wobs (emit (analyze_files files'))) (map spec_obs (annotated_spec l)).
Proof. exact bijection. Qed.

(* the run in walk order (what the extracted entry point computes) gives the list itself *)
Theorem C03_walk_order : forall (root : str) (l : layout),
  layout_ok l = true ->
  map wobs (emit (analyze root l)) = map spec_obs (annotated_spec l).
Proof. exact bijection_walk_order. Qed.

(* what the specification contains, read declaratively: exactly the functions f that stand
   at the top level (RFn, not inside RImpl or RMod) of a file that parses, whose name is
   stem.rs, none of whose directory components is target or .git, and that carry an
   attribute with path tauri::command or command *)
Theorem C03_spec_membership : forall (l : layout) (p : list str) (f : fn_def),
  layout_ok l = true ->
  In (p, f) (annotated_spec l) <->
  exists items, In (p, Parsed items) (walk l) /\ spec_accept p = true /\ In (RFn f) items /\ annotated f = true.
Proof. exact in_annotated_spec. Qed.

(* the acceptance test of the code (Path::extension equal to rs; no Component::Normal equal
   to target or .git among the directory components below the project path) is the test of
   the specification (name stem.rs with a non-empty stem; no excluded directory component),
   for every root and every component list - the substring argument that the unrepaired code
   needed (and that failed for a root below target or .git) is gone *)
Theorem C03_accepted_by_components : forall (root : str) (comps : list str),
  accepted root comps = spec_accept comps.
Proof. exact accepted_spec_accept. Qed.

(* a file that fails to parse, or that cannot be read as UTF-8, removes exactly its own
   wrappers: for any files before and after it in walk order, the run with the file parsed
   yields a ++ own ++ b and the run with the same file skipped yields a ++ b *)
Theorem C03_unparsable_isolated : forall (root : str) pre post (p : list str) (items : list ritem) (c : content),
  skipped c = true ->
  analyze_list root (pre ++ (p, Parsed items) :: post)
    = analyze_list root pre ++ own_cmds root p items ++ analyze_list root post /\
  analyze_list root (pre ++ (p, c) :: post) = analyze_list root pre ++ analyze_list root post.
Proof. exact skipped_isolated. Qed.

Theorem C03_unparsable_isolated_layout : forall (root : str) (l l' : layout) pre post (p : list str) items (c : content),
  skipped c = true ->
  walk l = pre ++ (p, Parsed items) :: post ->
  walk l' = pre ++ (p, c) :: post ->
  exists a b, analyze root l = a ++ own_cmds root p items ++ b /\ analyze root l' = a ++ b.
Proof. exact skipped_isolated_layout. Qed.

(* former C03-1 witness (root /tmp/x/target/proj/src): the command now has its wrapper *)
Theorem C03_root_path_fixed :
  layout_ok w_layout1 = true /\
  map wobs (emit (analyze w_root w_layout1)) = [(L "hello", L "Promise<string>")] /\
  map spec_obs (annotated_spec w_layout1) = [(L "hello", L "Promise<string>")].
Proof. exact root_fixed. Qed.

(* former C03-2 witness (fixtures/latin1.rs is not UTF-8): the other file keeps its wrapper *)
Theorem C03_notutf8_fixed :
  layout_ok w_layout2 = true /\
  map wobs (emit (analyze (L "src") w_layout2)) = [(L "hello", L "Promise<string>")] /\
  map spec_obs (annotated_spec w_layout2) = [(L "hello", L "Promise<string>")].
Proof. exact notutf8_fixed. Qed.

(* the run-time oracle decides exactly: every exported function calls invoke once with a
   string literal, and the (invoke name, return type) pairs are a permutation of the expected ones *)
Theorem C03_oracle_exact : forall expected obs,
  c03_ok expected obs = true <->
  exists ws pairs, obs = Some ws /\ mapM one_invoke ws = Some pairs /\ Permutation pairs expected.
Proof. exact c03_ok_iff. Qed.

(* the build-script route (BuildSystem::generate_at_build_time run again and again into one
   output directory, the source tree changing or not between the runs; a run either rewrites
   commands.ts, or leaves it on a generation-cache hit, or removes it when no command is
   left): after EVERY run of EVERY history, whatever the output directory held before, the
   wrappers of commands.ts are those the specification asks for the tree of that run *)
Theorem C03_build_history : forall (root : str) (ls : list layout) (st : option (list cmd)),
  Forall (fun l => layout_ok l = true) ls ->
  map (map wobs) (build_history root st ls) = map (fun l => map spec_obs (annotated_spec l)) ls.
Proof. exact build_history_spec. Qed.

(* both routes (the CLI and the build script), forced or not, mixed in one history into one
   output directory, trees returning to earlier ones: outside the recorded class C03-3 (a
   CLI run that discovers no command while wrappers of an earlier run are there), after
   EVERY run the wrappers are those of the specification for the tree of that run *)
Theorem C03_history : forall (root : str) (steps : list step) (st : option (list cmd)),
  Forall (fun s => layout_ok (s_tree s) = true) steps ->
  kf_cli_stale root st steps = false ->
  map (map wobs) (history root st steps) = map (fun s => map spec_obs (annotated_spec (s_tree s))) steps.
Proof. exact history_spec. Qed.

(* C03-3: the CLI leaves a stale commands.ts when the last command is gone *)
Theorem C03_cli_stale_refuted :
  Forall (fun s => layout_ok (s_tree s) = true) w_stale_steps /\
  kf_cli_stale (L "src") None w_stale_steps = true /\
  map (map wobs) (history (L "src") None w_stale_steps) = [[(L "hello", L "Promise<string>")]; [(L "hello", L "Promise<string>")]] /\
  map (fun s => map spec_obs (annotated_spec (s_tree s))) w_stale_steps = [[(L "hello", L "Promise<string>")]; []].
Proof. exact cli_stale_refuted. Qed.

(* ---- non-vacuity ---- *)
Definition ex_fn (name : string) (attrs : list (list str)) : fn_def :=
  {| fn_name := L name; fn_attrs := attrs; fn_async := false; fn_params := [];
     fn_ret := Some (QPath [] (L "Result") true [QPath [] (L "User") false []; QPath [] (L "String") false []]) |}.
Definition ex_layout : layout :=
  [ NFile (L "main.rs") (Parsed [RFn (ex_fn "a" [[L "inline"]; [L "tauri"; L "command"]]);
                                 RFn (ex_fn "helper" [[L "my"; L "command"]]);
                                 RImpl [ex_fn "method" [[L "command"]]];
                                 RMod [RFn (ex_fn "nested" [[L "tauri"; L "command"]])]; ROther]);
    NFile (L "x.rs.bak") (Parsed [RFn (ex_fn "bak" [[L "command"]])]);
    NDir (L "target") [NDir (L "debug") [NFile (L "d.rs") (Parsed [RFn (ex_fn "decoy" [[L "command"]])])]];
    NDir (L "sub") [NDir (L ".git") [NFile (L "g.rs") (Parsed [RFn (ex_fn "decoy2" [[L "command"]])])];
                    NDir (L "y.rs") [NFile (L "b.rs") (Parsed [RFn (ex_fn "b" [[L "command"]; [L "doc"]])])];
                    NFile (L "broken.rs") Unparsable;
                    NFile (L "latin1.rs") NotUtf8;
                    NFile (L "notes.txt") NotUtf8];
    NDir (L "targets") [NFile (L "c.rs") (Parsed [RFn (ex_fn "a" [[L "tauri"; L "command"]])])];
    (* symbolic links: to a regular file (counts, under the name of the link), to a directory,
       to nothing, with a name that is not stem.rs, below target *)
    NLink (L "shared.rs") (LFile (Parsed [RFn (ex_fn "shared" [[L "command"]])]));
    NLink (L "dirlink.rs") LDir;
    NLink (L "gone.rs") LDangling;
    NLink (L "alias.txt") (LFile (Parsed [RFn (ex_fn "alias" [[L "command"]])]));
    NDir (L ".git") [NLink (L "hook.rs") (LFile (Parsed [RFn (ex_fn "hook" [[L "command"]])]))] ].

Example C03_ex_premises : layout_ok ex_layout = true.
Proof. vm_compute. reflexivity. Qed.
(* the same result for a root below target/ and .git/ *)
Example C03_ex_result :
  map (fun r => map wobs (emit (analyze (L r) ex_layout))) ["./proj/src/"; "/w/target/p/.git/src"]%string = repeat [(L "a", L "Promise<types.User>"); (L "b", L "Promise<types.User>"); (L "a", L "Promise<types.User>"); (L "shared", L "Promise<types.User>")] 2.
Proof. vm_compute. reflexivity. Qed.
Example C03_ex_isolated :
  walk [NFile (L "a.rs") (Parsed [RFn (ex_fn "a" [[L "command"]])]); NFile (L "b.rs") (Parsed [RFn (ex_fn "b" [[L "command"]])])]
  = [] ++ ([L "a.rs"], Parsed [RFn (ex_fn "a" [[L "command"]])]) :: [([L "b.rs"], Parsed [RFn (ex_fn "b" [[L "command"]])])].
Proof. reflexivity. Qed.
Example C03_ex_isolated_unreadable :
  skipped NotUtf8 = true /\
  walk [NFile (L "a.rs") NotUtf8; NFile (L "b.rs") (Parsed [RFn (ex_fn "b" [[L "command"]])])]
  = [] ++ ([L "a.rs"], NotUtf8) :: [([L "b.rs"], Parsed [RFn (ex_fn "b" [[L "command"]])])].
Proof. split; reflexivity. Qed.
(* the wrapper text after the repairs of other properties that C03 reads through: a raw
   identifier is invoked by its Rust name, the array branch of add_types_prefix qualifies
   the element type only, types split at top-level commas *)
Definition Q (n : string) (args : list qty) : qty := QPath [] (L n) (match args with [] => false | _ => true end) args.
Definition fn (name : string) (ret : qty) : fn_def :=
  {| fn_name := L name; fn_attrs := [[L "command"]]; fn_async := false; fn_params := []; fn_ret := Some ret |}.
Example C03_ex_patched_rendering :
  map wobs (emit (analyze (L "src") [NFile (L "m.rs") (Parsed [
      RFn (fn "r#type" (Q "Vec" [Q "Option" [Q "String" []]]));
      RFn (fn "b" (Q "Vec" [Q "Vec" [Q "User" []]]));
      RFn (fn "c" (Q "Result" [Q "HashMap" [Q "String" []; Q "User" []]; Q "String" []]));
      RFn (fn "d" (QTuple [Q "HashMap" [Q "String" []; Q "i32" []]; Q "bool" []]))])]))
  = [(L "type", L "Promise<string | null[]>"); (L "b", L "Promise<types.User[][]>");
     (L "c", L "Promise<Record<string, User>>"); (L "d", L "Promise<[Record<string, number>, boolean]>")].
Proof. vm_compute. reflexivity. Qed.
(* a history with a cache hit (second run), a regeneration, a run without commands and a
   return to the first tree; the stale state given at the start is overwritten *)
Example C03_ex_history :
  let l1 := [NFile (L "a.rs") (Parsed [RFn (ex_fn "a" [[L "command"]])])] in
  let l2 := l1 ++ [NFile (L "b.rs") (Parsed [RFn (ex_fn "b" [[L "command"]])])] in
  let stale := Some [{| c_file := [L "old.rs"]; c_fn := ex_fn "old" [[L "command"]] |}] in
  build_run (L "src") (build_run (L "src") stale l1) l1 = build_run (L "src") stale l1 /\
  map (map (fun w => w_invoke w)) (build_history (L "src") stale [l1; l1; l2; []; l1])
  = [[L "a"]; [L "a"]; [L "a"; L "b"]; []; [L "a"]].
Proof. vm_compute. split; reflexivity. Qed.
(* plain run on tree A, forced run on tree B, plain run on exactly A again (the forced run has
   saved the cache, so the third run is no hit), over both routes; premises of C03_history *)
Example C03_ex_force_history :
  let a := [NFile (L "a.rs") (Parsed [RFn (ex_fn "a" [[L "command"]])])] in
  let b := [NFile (L "a.rs") (Parsed [RFn (ex_fn "b" [[L "command"]]); RFn (ex_fn "c" [[L "command"]])])] in
  let steps := [ {| s_route := RCli; s_force := false; s_tree := a |}; {| s_route := RCli; s_force := true; s_tree := b |};
                 {| s_route := RCli; s_force := false; s_tree := a |}; {| s_route := RBuild; s_force := false; s_tree := a |};
                 {| s_route := RBuild; s_force := true; s_tree := [] |}; {| s_route := RCli; s_force := false; s_tree := [] |} ] in
  kf_cli_stale (L "src") None steps = false /\
  map (map (fun w => w_invoke w)) (history (L "src") None steps) = [[L "a"]; [L "b"; L "c"]; [L "a"]; [L "a"]; []; []].
Proof. vm_compute. split; reflexivity. Qed.
(* prologues: a shebang line, a byte order mark, both, inner attributes and comments are fine
   for syn::parse_file; a shebang after a blank line or after the items began, a byte order mark
   after the shebang and a frontmatter block make the file unparsable (skipped, alone) *)
Definition pf (n : string) (p : list pro) : node := NFile (L n) (Source p [RFn (ex_fn n [[L "command"]])]).
Example C03_ex_prologues :
  let l := [pf "a.rs" [PShebang]; pf "b.rs" [PBom]; pf "c.rs" [PBom; PShebang; PBlank; PInnerAttr; PComment];
            pf "d.rs" [PBlank; PShebang]; pf "e.rs" [PShebang; PBom]; pf "f.rs" [PFrontmatter]; pf "g.rs" [PInnerAttr; PShebang];
            pf "h.rs" [PDocInner; PComment]] in
  layout_ok l = true /\ layout_ok [pf "x.rs" [PBom; PBom]] = false /\
  map (fun w => w_invoke w) (emit (analyze (L "src") l)) = [L "a.rs"; L "b.rs"; L "c.rs"; L "h.rs"].
Proof. vm_compute. repeat split; reflexivity. Qed.
(* the template text of Model/Pipeline.v for these commands, lexed and parsed by the
   specification parser, reads back as the wrapper records of the abstract model *)
Example C03_ex_tokens_read_back :
  let cs := [ex_fn "get_user" [[L "command"]]; ex_fn "save" [[L "tauri"; L "command"]]] in
  option_map (fun ws => map (fun w => (wo_invokes w, wo_ret w)) ws)
             (option_map wrappers_of (TsModule.p_items 1000 (commands_toks cs) []))
  = Some (map (fun f => ([Some (fn_name f)], canon_type (promise_of f))) cs).
Proof. vm_compute. reflexivity. Qed.

Print Assumptions C03_bijection.
Print Assumptions C03_walk_order.
Print Assumptions C03_spec_membership.
Print Assumptions C03_accepted_by_components.
Print Assumptions C03_unparsable_isolated.
Print Assumptions C03_unparsable_isolated_layout.
Print Assumptions C03_root_path_fixed.
Print Assumptions C03_notutf8_fixed.
Print Assumptions C03_oracle_exact.
Print Assumptions C03_build_history.
Print Assumptions C03_history.
Print Assumptions C03_cli_stale_refuted.
