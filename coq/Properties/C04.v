(* C04 - the object passed to invoke has exactly the keys Tauri deserialises.
   Only statements, [exact], Examples and [Print Assumptions] live here.
   Model: Model/C04Case.v (apply_to_field as called), Model/C04Model.v (injected-parameter filter,
   channel extraction, Option detection, the five template shapes, resolution of the invoke
   argument to its keys). Specification: Spec/C04TauriCase.v. Proofs: Proofs/CamelSpike.v,
   Proofs/C04Proofs.v. *)
From Coq Require Import List Bool Permutation String.
Require Import TT.Model.Str TT.Model.C04Case TT.Model.C04Model TT.Spec.C04TauriCase.
Require Import TT.Proofs.CamelSpike TT.Proofs.C04Proofs.
Import ListNotations.

(* serde-rename-rule's apply_to_field(CamelCase), with its [..1] and [1..] slices, returns - without
   panicking - Tauri's name (split on underscores, drop empty words, capitalise all but the first)
   for every name over [a-z0-9_] that contains a non-underscore *)
Theorem C04_camel_agrees : forall s : str,
  forallb snake_char s = true -> has_letter s = true -> camel_b s = Ok (tauri_camel s).
Proof. exact camel_agrees. Qed.

(* the call-site guard of apply_naming_convention (repair C15-fix-C15-camel-call-site-guard) keeps that name *)
Theorem C04_camel_guard_agrees : forall s : str,
  forallb snake_char s = true -> has_letter s = true -> camel_guard s = tauri_camel s.
Proof. exact camel_guard_agrees. Qed.

(* each of the eight configurable rules, as the generator applies it, gives the specified name *)
Theorem C04_rule_agrees : forall (r : rule) (s : str),
  forallb snake_char s = true -> (r = RCamel -> has_letter s = true) -> apply_rule r s = Ok (spec_name r s).
Proof. exact rule_agrees. Qed.

(* for every spelling the quantifier lists, outside the one remaining spelling class (bare Window), the analysis
   classifies a parameter type as Tauri does: injected (no key), channel (a key), value (a key) *)
Theorem C04_kinds : forall t : aty,
  ty_dom t = true -> ty_bare_window t = false ->
  match spec_kind t with
  | KInjected => is_injected t = true /\ channel_of t = false
  | KChannel => is_injected t = true /\ channel_of t = true
  | KValue => is_injected t = false /\ channel_of t = false
  end.
Proof. exact kinds_ok. Qed.

(* main statement, both modes: generation does not panic, the invoke argument resolves, and its keys are
   exactly one per parameter Tauri fills from the frontend (channels included, injected ones excluded),
   named by Tauri's rule / the configured case *)
Theorem C04_keys : forall (cf : cfg) (m : mode) (c : cmd),
  cmd_dom c = true -> kf_any cf c = false ->
  exists g l, generate cf m c = Ok g /\ invoke_keys g = Some l /\
              Permutation (map (fun e => fst (fst e)) l) (map fst (spec_keys cf c)).
Proof. exact keys_ok_thm. Qed.

(* ... and a key is omittable by the caller iff the Rust parameter is an Option (never for a channel) *)
Theorem C04_optional : forall (cf : cfg) (m : mode) (c : cmd),
  cmd_dom c = true -> kf_any cf c = false ->
  exists g l, generate cf m c = Ok g /\ invoke_keys g = Some l /\ Permutation (kb_of l) (spec_keys cf c).
Proof. exact optional_ok_thm. Qed.

(* both modes deliver the same (key, omittable) pairs to invoke - for every command and configuration,
   inside the recorded classes as well; a panic happens in both modes or in neither *)
Theorem C04_modes_agree : forall (cf : cfg) (c : cmd),
  match generate cf Plain c, generate cf Zod c with
  | Ok gp, Ok gz => exists lp lz, invoke_keys gp = Some lp /\ invoke_keys gz = Some lz /\ kb_of lp = kb_of lz
  | Panic, Panic => True
  | _, _ => False
  end.
Proof. exact modes_agree. Qed.

(* Zod mode: exactly the value keys pass through the schema, exactly the channel keys are re-attached unvalidated *)
Theorem C04_zod_split : forall (cf : cfg) (c : cmd),
  cmd_dom c = true -> kf_any cf c = false ->
  exists g vs cs, generate cf Zod c = Ok g /\ invoke_keys g = Some (tag Validated vs ++ tag Raw cs) /\
                  map fst vs = spec_value_keys cf c /\ map fst cs = spec_chan_keys cf c.
Proof. exact zod_split_thm. Qed.

(* project level: whatever else the files contain (helpers, other commands, names that are prefixes, suffixes or
   infixes of one another, the same name in another file), every command gets exactly its own keys *)
Theorem C04_project_keys : forall (cf : cfg) (m : mode) (p : project),
  project_dom p = true ->
  forall c r, In (c, r) (generate_project cf m p) -> kf_any cf c = false ->
  exists g l, r = Ok g /\ invoke_keys g = Some l /\ Permutation (kb_of l) (spec_keys cf c).
Proof. exact project_keys_thm. Qed.
(* ... and the commands something is generated for are exactly the attributed functions, in file order *)
Theorem C04_project_commands : forall (cf : cfg) (m : mode) (p : project),
  map fst (generate_project cf m p) = flat_map commands_of p.
Proof. exact project_commands. Qed.

(* histories of runs into one output directory: after EVERY run (forced or not, whatever came before) every
   command has exactly the keys the CURRENT sources and settings demand *)
Theorem C04_history_keys : forall h : list run_step,
  (forall s, In s h -> project_dom (r_project s) = true) ->
  forall s out, In (s, out) (combine h (run_history h)) ->
  forall c r, In (c, r) out -> kf_any (r_cfg s) c = false ->
  exists g l, r = Ok g /\ invoke_keys g = Some l /\ Permutation (kb_of l) (spec_keys (r_cfg s) c).
Proof. exact history_keys_thm. Qed.

(* since the guard, generation never panics: every command, configuration string and mode *)
Theorem C04_never_panics : forall (cf : cfg) (m : mode) (c : cmd), exists g, generate cf m c = Ok g.
Proof. exact never_panics. Qed.

(* the run-time oracle accepts what C04_optional describes *)
Theorem C04_oracle_accepts : forall (cf : cfg) (m : mode) (c : cmd),
  cmd_dom c = true -> kf_any cf c = false ->
  exists g l, generate cf m c = Ok g /\ invoke_keys g = Some l /\ optional_ok cf c l = true.
Proof. exact oracle_accepts. Qed.

(* the four recorded classes: an in-domain witness lying in that class only, on which the faithful
   model delivers a wrong key set in both modes *)
Theorem C04_bare_window_refuted :
  cmd_dom w_window = true /\ only_class 0 cfg_default w_window = true /\
  bad cfg_default Plain w_window = true /\ bad cfg_default Zod w_window = true.
Proof. exact refuted_bare_window. Qed.
Theorem C04_macro_case_refuted :
  cmd_dom w_macro = true /\ only_class 1 cfg_default w_macro = true /\
  bad cfg_default Plain w_macro = true /\ bad cfg_default Zod w_macro = true.
Proof. exact refuted_macro_case. Qed.
(* a parameter named with underscores only under camelCase: no panic any more, but the key is the
   name itself where Tauri (heck) deserialises the empty string *)
Theorem C04_underscore_name_refuted :
  cmd_dom w_underscore = true /\ only_class 2 cfg_default w_underscore = true /\
  bad cfg_default Plain w_underscore = true /\ bad cfg_default Zod w_underscore = true /\
  spec_keys cfg_default w_underscore = [([], false); (L "userId", false)] /\
  option_map kb_of (match generate cfg_default Plain w_underscore with Ok g => invoke_keys g | Panic => None end)
    = Some [(L "__", false); (L "userId", false)].
Proof. exact refuted_underscore_name. Qed.
(* a parameter Tauri fills that is bound by the wildcard or a destructuring pattern gets no key *)
Theorem C04_pattern_refuted :
  cmd_dom w_pattern = true /\ only_class 3 cfg_default w_pattern = true /\
  bad cfg_default Plain w_pattern = true /\ bad cfg_default Zod w_pattern = true /\
  spec_keys cfg_default w_pattern = [(L "point", false); ([], false); (L "speed", false)] /\
  option_map kb_of (match generate cfg_default Plain w_pattern with Ok g => invoke_keys g | Panic => None end)
    = Some [(L "speed", false)].
Proof. exact refuted_pattern. Qed.
(* repaired (C04-2-ipc-channel): the former witness is outside every class and satisfies the property *)
Theorem C04_ipc_channel_fixed :
  cmd_dom w_ipc_channel = true /\ kf_any cfg_default w_ipc_channel = false /\
  good cfg_default Plain w_ipc_channel = true /\ good cfg_default Zod w_ipc_channel = true /\
  spec_keys cfg_default w_ipc_channel = [(L "onEvent", false); (L "jobId", false)].
Proof. exact fixed_ipc_channel. Qed.

(* repaired (C04-3-request-with-lifetime): Request<'_> and ipc::Request<'_> are injected; the former witness passes *)
Theorem C04_short_request_fixed :
  cmd_dom w_request = true /\ kf_any cfg_default w_request = false /\
  good cfg_default Plain w_request = true /\ good cfg_default Zod w_request = true /\
  spec_keys cfg_default w_request = [(L "userId", false)] /\
  cmd_dom w_request_ipc = true /\ good cfg_default Plain w_request_ipc = true /\ good cfg_default Zod w_request_ipc = true.
Proof. exact fixed_short_request. Qed.

(* non-vacuity: a command mixing every kind of parameter meets the premises, and the result is not trivial *)
Definition ex_cmd : cmd := {| c_name := L "stream_items"; c_macro_case := None;
  c_params := [ mkp "app_handle" (APath [STauri] NAppHandle None);
                mkp "_user_id" (plain_t NOther);
                mkp "on__event_2" (APath [STauri; SIpc] NChannel (Some [GType]));
                mkp "db" (APath [] NState (Some [GLife; GType]));
                mkp "page_size" (APath [] NOption (Some [GType]));
                mkp "win" (APath [] NWindow (Some [GType]));
                mkp "req" (APath [STauri; SIpc] NRequest (Some [GLife]));
                mkp "log_ch" (APath [SIpc] NChannel (Some [GType]));
                mkp "raw_req" (APath [] NRequest (Some [GLife]));
                {| p_name := L "w"; p_ty := APath [] NState (Some [GLife; GType]); p_pat := PatWild |} ] |}.
Example C04_ex_premises :
  cmd_dom ex_cmd = true /\ kf_any cfg_default ex_cmd = false /\
  kf_any {| default_case := L "SCREAMING-KEBAB-CASE" |} ex_cmd = false.
Proof. vm_compute. auto. Qed.
Example C04_ex_keys :
  spec_keys cfg_default ex_cmd = [(L "userId", false); (L "onEvent2", false); (L "pageSize", true); (L "logCh", false)] /\
  option_map kb_of (match generate cfg_default Zod ex_cmd with Ok g => invoke_keys g | Panic => None end)
    = Some [(L "userId", false); (L "pageSize", true); (L "onEvent2", false); (L "logCh", false)].
Proof. vm_compute. auto. Qed.
Example C04_ex_camel : forallb snake_char (L "a__b_1c_") = true /\ has_letter (L "a__b_1c_") = true /\
  tauri_camel (L "a__b_1c_") = L "aB1c" /\ camel_b (L "__") = Panic /\ camel_guard (L "__") = L "__" /\
  tauri_snake (L "_a__b_") = L "a_b".
Proof. vm_compute. repeat split; reflexivity. Qed.
Example C04_ex_project :
  project_dom ex_project = true /\
  map (fun cr => (c_name (fst cr),
                  match snd cr with Ok g => option_map kb_of (invoke_keys g) | Panic => None end))
      (generate_project cfg_default Zod ex_project)
  = [ (L "start_download", Some [(L "url", false); (L "onProgress", false)]);
      (L "download", Some [(L "fileId", false); (L "destPath", true)]) ].
Proof. exact ex_project_ok. Qed.
Example C04_ex_history :
  let x := {| r_cfg := cfg_default; r_mode := Zod; r_project := ex_project; r_force := false |} in
  let y := {| r_cfg := {| default_case := L "snake_case" |}; r_mode := Zod; r_project := ex_project; r_force := true |} in
  project_dom ex_project = true /\
  map (map (fun cr => match snd cr with Ok g => option_map kb_of (invoke_keys g) | Panic => None end)) (run_history [x; y; x])
  = [ [Some [(L "url", false); (L "onProgress", false)]; Some [(L "fileId", false); (L "destPath", true)]];
      [Some [(L "url", false); (L "on_progress", false)]; Some [(L "file_id", false); (L "dest_path", true)]];
      [Some [(L "url", false); (L "onProgress", false)]; Some [(L "fileId", false); (L "destPath", true)]] ].
Proof. vm_compute. split; reflexivity. Qed.
(* a channel parameter changes its owner between two unforced runs (and moves back): each run delivers the keys of its own state *)
Example C04_ex_history_move :
  let ch := APath [] NChannel (Some [GType]) in
  let pj (pa pb : list param) : project :=
    [ [ {| f_cmd := {| c_name := L "start_job"; c_macro_case := None; c_params := mkp "job_id" (plain_t NOther) :: pa |};
           f_is_command := true |};
        {| f_cmd := {| c_name := L "watch_job"; c_macro_case := None; c_params := mkp "job_id" (plain_t NOther) :: pb |};
           f_is_command := true |} ] ] in
  let x := {| r_cfg := cfg_default; r_mode := Zod; r_project := pj [mkp "on_progress" ch] []; r_force := false |} in
  let y := {| r_cfg := cfg_default; r_mode := Zod; r_project := pj [] [mkp "on_progress" ch]; r_force := false |} in
  project_dom (r_project x) = true /\ project_dom (r_project y) = true /\
  map (map (fun cr => match snd cr with Ok g => option_map kb_of (invoke_keys g) | Panic => None end)) (run_history [x; y; x])
  = [ [Some [(L "jobId", false); (L "onProgress", false)]; Some [(L "jobId", false)]];
      [Some [(L "jobId", false)]; Some [(L "jobId", false); (L "onProgress", false)]];
      [Some [(L "jobId", false); (L "onProgress", false)]; Some [(L "jobId", false)]] ].
Proof. vm_compute. repeat split; reflexivity. Qed.
Example C04_ex_kinds : ty_dom (APath [] NState (Some [GLife; GType])) = true /\
  spec_kind (APath [] NState (Some [GLife; GType])) = KInjected /\ spec_kind (APath [] NState None) = KValue.
Proof. vm_compute. auto. Qed.

Print Assumptions C04_camel_agrees.
Print Assumptions C04_camel_guard_agrees.
Print Assumptions C04_rule_agrees.
Print Assumptions C04_kinds.
Print Assumptions C04_keys.
Print Assumptions C04_optional.
Print Assumptions C04_modes_agree.
Print Assumptions C04_zod_split.
Print Assumptions C04_project_keys.
Print Assumptions C04_project_commands.
Print Assumptions C04_history_keys.
Print Assumptions C04_never_panics.
Print Assumptions C04_oracle_accepts.
Print Assumptions C04_bare_window_refuted.
Print Assumptions C04_macro_case_refuted.
Print Assumptions C04_underscore_name_refuted.
Print Assumptions C04_pattern_refuted.
Print Assumptions C04_ipc_channel_fixed.
Print Assumptions C04_short_request_fixed.
