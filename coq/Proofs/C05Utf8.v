(* C05: names with non-ASCII letters. Strings are byte lists (UTF-8); every byte >= 128 is a plain
   character for the printer/parser lemmas and is not a bracket, so the hypotheses wf and nobr of
   C05_parse_faithful admit every UTF-8 encoded identifier: the parser theorem covers them. *)
From Coq Require Import String Ascii.
From Coq Require Import List Arith Bool.
Require Import TT.Model.Str TT.Model.TypeParse TT.Proofs.TypeParseProofs TT.Model.C05Parse TT.Proofs.C05ParseProofs.
Import ListNotations.

Lemma high_byte_plain_nb c : (128 <=? nat_of_ascii c) = true -> plain c /\ nb c.
Proof.
  intros H. unfold plain, nb.
  destruct c as [b0 b1 b2 b3 b4 b5 b6 b7];
    destruct b0, b1, b2, b3, b4, b5, b6, b7; (vm_compute in H; discriminate H) || (repeat split; reflexivity).
Qed.

Definition high_or_ident (c : ascii) : bool :=
  (128 <=? nat_of_ascii c) || negb (special c || Ascii.eqb c "["%char || Ascii.eqb c "]"%char).
Lemma utf8_name_ok n : n <> [] -> forallb high_or_ident n = true -> ident n /\ Forall nb n.
Proof.
  intros Hne H. rewrite forallb_forall in H. split; [split; [exact Hne|]|]; apply Forall_forall; intros c Hc; specialize (H c Hc);
    unfold high_or_ident in H; apply orb_true_iff in H as [H|H].
  - apply high_byte_plain_nb; exact H.
  - apply negb_true_iff in H. apply orb_false_elim in H as [H _]. apply orb_false_elim in H as [H _]. exact H.
  - apply high_byte_plain_nb; exact H.
  - apply negb_true_iff in H. apply orb_false_elim in H as [H H2]. apply orb_false_elim in H as [_ H1]. split; assumption.
Qed.
