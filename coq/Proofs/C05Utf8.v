(* C05: names with non-ASCII letters. Strings are byte lists (UTF-8); every byte >= 128 is a plain
   character for the printer/parser lemmas and is not a bracket, so the hypotheses wf and nobr of
   C05_parse_faithful admit every UTF-8 encoded identifier: the parser theorem covers them. *)
From Coq Require Import String Ascii.
From Coq Require Import List Arith Bool.
Require Import TT.Model.Str TT.Model.TypeParse TT.Proofs.TypeParseProofs TT.Model.C05Parse TT.Proofs.C05ParseProofs.
Import ListNotations.

Lemma high_byte_plain_nb c : (128 <=? nat_of_ascii c) = true -> plain c /\ nb c.
Proof.
  intros H. unfold plain, nb.
  destruct c as [b0 b1 b2 b3 b4 b5 b6 b7];
    destruct b0, b1, b2, b3, b4, b5, b6, b7; (vm_compute in H; discriminate H) || (repeat split; reflexivity).
Qed.

Definition high_or_ident (c : ascii) : bool :=
  (128 <=? nat_of_ascii c) || negb (special c || Ascii.eqb c "["%char || Ascii.eqb c "]"%char).
Lemma utf8_name_ok n : n <> [] -> forallb high_or_ident n = true -> ident n /\ Forall nb n.
Proof.
  intros Hne H. rewrite forallb_forall in H. split; [split; [exact Hne|]|]; apply Forall_forall; intros c Hc; specialize (H c Hc);
    unfold high_or_ident in H; apply orb_true_iff in H as [H|H].
  - apply high_byte_plain_nb; exact H.
  - apply negb_true_iff in H. apply orb_false_elim in H as [H _]. apply orb_false_elim in H as [H _]. exact H.
  - apply high_byte_plain_nb; exact H.
  - apply negb_true_iff in H. apply orb_false_elim in H as [H H2]. apply orb_false_elim in H as [_ H1]. split; assumption.
Qed.

(* ---- the TypeScript side (round 7). Model/Render.is_idc, the identifier class of the specification
   lexer and of the domain predicate dom_b, admits every byte >= 128. So a name made of UTF-8 bytes
   >= 128 and ASCII letters, digits, _ and $ is a legal leaf of dom_b, and the site theorems apply to the
   real bytes: no renaming to ASCII is involved. ---- *)
Require Import TT.Spec.TsType TT.Model.Render TT.Model.C05Emit TT.Spec.C05Spec TT.Spec.C05Known.
Require Import TT.Proofs.C05PrefixProofs.

Definition low_idc (c : ascii) : bool :=
  let n := nat_of_ascii c in
  (((65 <=? n) && (n <=? 90)) || ((97 <=? n) && (n <=? 122)) || ((48 <=? n) && (n <=? 57)) || (n =? 95) || (n =? 36))%nat.
Definition high_or_idc (c : ascii) : bool := (128 <=? nat_of_ascii c) || low_idc c.

Lemma high_or_idc_is_idc c : high_or_idc c = is_idc c.
Proof. unfold high_or_idc, is_idc, low_idc. cbv zeta. apply orb_comm. Qed.

Lemma utf8_ident_b n : n <> [] -> forallb high_or_idc n = true -> ident_b n = true.
Proof.
  intros Hne H. unfold ident_b. apply andb_true_iff. split.
  - destruct n; [congruence | reflexivity].
  - clear Hne. induction n as [|c r IH]; [reflexivity|]. cbn [forallb] in *.
    apply andb_true_iff in H as [Hc Hr]. rewrite <- high_or_idc_is_idc, Hc, (IH Hr). reflexivity.
Qed.

Lemma utf8_name_dom n : n <> [] -> forallb high_or_idc n = true ->
  reserved n = false -> one_of n table_names = false -> dom_b (RPath n []) = true.
Proof.
  intros Hne H Hr Ht. unfold dom_b. cbn [dom_m lookup]. rewrite (utf8_ident_b n Hne H), Hr, Ht. reflexivity.
Qed.

Theorem utf8_names_ts n : n <> [] -> forallb high_or_idc n = true ->
  reserved n = false -> one_of n table_names = false ->
  dom_b (RPath n []) = true /\
  forall s md, site_is_type s md = true -> kf_C05 s md [] (RPath n []) = false ->
  exists text, emit_type s md [] (RPath n []) = Some text /\
               observe (site_is_type s md) text = Some (expected s [] (RPath n [])).
Proof.
  intros Hne H Hr Ht. pose proof (utf8_name_dom n Hne H Hr Ht) as Hd. split; [exact Hd|].
  intros s md Hty Hk. apply sound_ts_sites; try constructor; auto.
Qed.
