(* C01: reflection lemmas for the run-time oracle wf_module_b (Spec/C01Wf.v) against the Prop-level specification
   Spec/C01WfProp.v: literal bodies (str_body_ok = the inductive grammar StrBody), tokens, items, the module. *)
From Coq Require Import String Ascii.
From Coq Require Import List Arith Bool Lia.
Require Import TT.Model.Str TT.Spec.TsLex TT.Spec.TsModule TT.Spec.TsObs TT.Spec.C01Wf TT.Spec.C01WfProp.
Import ListNotations.
Local Open Scope list_scope.
Local Open Scope char_scope.

Lemma eqb_false_ne (a b : ascii) : Ascii.eqb a b = false -> a <> b.
Proof. intros H E. subst b. rewrite Ascii.eqb_refl in H. discriminate. Qed.
Lemma ne_eqb_false (a b : ascii) : a <> b -> Ascii.eqb a b = false.
Proof. intros H. destruct (Ascii.eqb a b) eqn:E; [|reflexivity]. apply Ascii.eqb_eq in E. contradiction. Qed.

(* unfolding equation for a body that starts with a backslash *)
Lemma sbo_bs q e r' : BS <> q ->
  str_body_ok q (BS :: e :: r') =
  (if Ascii.eqb e "x" then match r' with h1 :: h2 :: r'' => is_hex h1 && is_hex h2 && str_body_ok q r'' | _ => false end
   else if Ascii.eqb e "u" then
     match r' with
     | h1 :: h2 :: h3 :: h4 :: r'' =>
         if Ascii.eqb h1 "{" then str_body_ok q r' else is_hex h1 && is_hex h2 && is_hex h3 && is_hex h4 && str_body_ok q r''
     | _ => false end
   else if is_digit e then (n_of e =? 48)%nat && (match r' with d :: _ => negb (is_digit d) | [] => true end) && str_body_ok q r'
   else if is_line_term e then false else str_body_ok q r').
Proof. intros Hq. cbn [str_body_ok]. change (is_line_term BS) with false. cbv iota. rewrite (ne_eqb_false _ _ Hq).
  change (Ascii.eqb BS "\") with true. cbv iota. reflexivity. Qed.
Lemma sbo_plain q c r : is_line_term c = false -> c <> q -> c <> BS -> str_body_ok q (c :: r) = str_body_ok q r.
Proof. intros Hl Hq Hb. cbn [str_body_ok]. rewrite Hl, (ne_eqb_false _ _ Hq). unfold BS in Hb. rewrite (ne_eqb_false _ _ Hb). reflexivity. Qed.

Lemma digit_zero e : is_digit e = true -> (n_of e =? 48)%nat = true -> e = "0".
Proof. intros _ H. apply Nat.eqb_eq in H. unfold n_of in H. rewrite <- (ascii_nat_embedding e), H. reflexivity. Qed.

Theorem str_body_sound q : forall n s, List.length s <= n -> str_body_ok q s = true -> StrBody q s.
Proof. induction n as [|n IH]; intros s Hn H.
  - destruct s; [constructor|cbn in Hn; lia].
  - destruct s as [|c r]; [constructor|]. cbn [List.length] in Hn.
    destruct (Ascii.eqb c BS) eqn:Eb.
    + apply Ascii.eqb_eq in Eb. subst c.
      assert (BS <> q) as Hq.
      { intros E. subst q. cbn [str_body_ok] in H. change (is_line_term BS) with false in H. rewrite Ascii.eqb_refl in H. discriminate. }
      destruct r as [|e r']; [cbn [str_body_ok] in H; change (is_line_term BS) with false in H; rewrite (ne_eqb_false _ _ Hq) in H; discriminate|].
      rewrite (sbo_bs q e r' Hq) in H. cbn [List.length] in Hn.
      destruct (Ascii.eqb e "x") eqn:Ex.
      { apply Ascii.eqb_eq in Ex. subst e. destruct r' as [|h1 [|h2 r'']]; try discriminate.
        apply andb_true_iff in H as [H H3]. apply andb_true_iff in H as [H1 H2]. cbn [List.length] in Hn.
        apply SB_hex; try assumption. apply IH; [lia|exact H3]. }
      destruct (Ascii.eqb e "u") eqn:Eu.
      { apply Ascii.eqb_eq in Eu. subst e. destruct r' as [|h1 [|h2 [|h3 [|h4 r'']]]]; try discriminate. cbn [List.length] in Hn.
        destruct (Ascii.eqb h1 "{") eqn:Ebr.
        - apply Ascii.eqb_eq in Ebr. subst h1. apply SB_ubrace; [exact Hq|]. apply IH; [cbn [List.length]; lia|exact H].
        - apply andb_true_iff in H as [H H5]. apply andb_true_iff in H as [H H4]. apply andb_true_iff in H as [H H3]. apply andb_true_iff in H as [H1 H2].
          apply SB_u4; try assumption; [apply eqb_false_ne; exact Ebr|]. apply IH; [lia|exact H5]. }
      destruct (is_digit e) eqn:Ed.
      { apply andb_true_iff in H as [H H3]. apply andb_true_iff in H as [H1 H2]. rewrite (digit_zero e Ed H1).
        apply SB_zero; [exact Hq| |apply IH; [lia|exact H3]].
        destruct r' as [|d r'']; [exact Logic.I|]. cbn [no_digit_next]. apply negb_true_iff in H2. exact H2. }
      destruct (is_line_term e) eqn:El; [discriminate|].
      apply SB_simple; try assumption; [apply eqb_false_ne; exact Ex|apply eqb_false_ne; exact Eu|]. apply IH; [lia|exact H].
    + cbn [str_body_ok] in H. destruct (is_line_term c) eqn:El; [discriminate|]. destruct (Ascii.eqb c q) eqn:Eq; [discriminate|].
      unfold BS in Eb. rewrite Eb in H.
      apply SB_plain; [exact El|apply eqb_false_ne; exact Eq|apply eqb_false_ne; exact Eb|]. apply IH; [lia|exact H]. Qed.

Theorem str_body_complete q s : StrBody q s -> str_body_ok q s = true.
Proof. induction 1 as [|c r Hl Hq Hb _ IH|h1 h2 r Hq H1 H2 _ IH|h1 h2 h3 h4 r Hq Hbr H1 H2 H3 H4 _ IH|h2 h3 h4 r Hq _ IH|r Hq Hd _ IH|e r Hq Hx Hu Hd Hl _ IH].
  - reflexivity.
  - rewrite sbo_plain; assumption.
  - rewrite (sbo_bs q _ _ Hq). change (Ascii.eqb "x" "x") with true. cbv iota. rewrite H1, H2, IH. reflexivity.
  - rewrite (sbo_bs q _ _ Hq). change (Ascii.eqb "u" "x") with false. change (Ascii.eqb "u" "u") with true. cbv iota.
    rewrite (ne_eqb_false _ _ Hbr), H1, H2, H3, H4, IH. reflexivity.
  - rewrite (sbo_bs q _ _ Hq). change (Ascii.eqb "u" "x") with false. change (Ascii.eqb "u" "u") with true. cbv iota.
    change (Ascii.eqb "{" "{") with true. cbv iota. exact IH.
  - rewrite (sbo_bs q _ _ Hq). change (Ascii.eqb "0" "x") with false. change (Ascii.eqb "0" "u") with false. change (is_digit "0") with true. cbv iota.
    change (n_of "0" =? 48)%nat with true. rewrite IH. destruct r as [|d r']; [reflexivity|]. cbn [no_digit_next] in Hd. rewrite Hd. reflexivity.
  - rewrite (sbo_bs q _ _ Hq). rewrite (ne_eqb_false _ _ Hx), (ne_eqb_false _ _ Hu), Hd, Hl. exact IH. Qed.

(* the boolean literal test is the grammar *)
Theorem str_body_reflect q s : str_body_ok q s = true <-> StrBody q s.
Proof. split; [apply (str_body_sound q (List.length s)); apply le_n|apply str_body_complete]. Qed.

Theorem tok_ok_reflect t : tok_ok t = true <-> TokOk t.
Proof. destruct t; cbn [tok_ok TokOk]; try (split; auto; fail).
  - apply str_body_reflect.
  - split; [discriminate|contradiction]. Qed.

Lemma forallb_Forall_iff {A} (f : A -> bool) (Q : A -> Prop) l : (forall x, f x = true <-> Q x) -> (forallb f l = true <-> Forall Q l).
Proof. intros H. induction l as [|x l IH]; [split; [constructor|reflexivity]|]. cbn [forallb]. rewrite andb_true_iff, IH, H.
  split; [intros [A1 A2]; constructor; assumption|intros HF; inversion HF; subst; split; assumption]. Qed.

Theorem item_ok_reflect it : item_ok it = true <-> ItemOk it.
Proof. destruct it as [ty names star from|from|n tps ext ms ix|n tps t|n e|a n ps r body]; cbn [item_ok ItemOk].
  - rewrite andb_true_iff, (forallb_Forall_iff _ (fun n => is_binding_name (snd n) = true)) by (intros; reflexivity).
    destruct star; [reflexivity|]. split; [intros [A1 _]; split; [exact A1|exact Logic.I]|intros [A1 _]; split; [exact A1|reflexivity]].
  - split; auto.
  - rewrite !andb_true_iff.
    rewrite (forallb_Forall_iff _ (fun p => is_binding_name p = true)) by (intros; reflexivity).
    rewrite (forallb_Forall_iff member_ok (fun m => key_ok (fst (fst m)) = true /\ ty_ok (snd m) = true)) by (intros x; unfold member_ok; apply andb_true_iff).
    rewrite (forallb_Forall_iff index_ok (fun i => is_binding_name (fst (fst i)) = true /\ ty_ok (snd (fst i)) = true /\ ty_ok (snd i) = true))
      by (intros x; unfold index_ok; rewrite !andb_true_iff; tauto).
    destruct ext; [tauto|]. split; [intros [[[[A1 A2] _] A4] A5]; auto|intros [A1 [A2 [_ [A4 A5]]]]; auto].
  - rewrite !andb_true_iff. rewrite (forallb_Forall_iff _ (fun p => is_binding_name p = true)) by (intros; reflexivity). tauto.
  - rewrite andb_true_iff. reflexivity.
  - rewrite !andb_true_iff.
    rewrite (forallb_Forall_iff param_ok (fun p => is_binding_name (fst (fst p)) = true /\ ty_ok (snd p) = true)) by (intros x; unfold param_ok; apply andb_true_iff).
    destruct r; [tauto|]. split; [intros [[[A1 A2] _] A4]; auto|intros [A1 [A2 [_ A4]]]; auto]. Qed.

(* the run-time oracle of the check is the Prop-level module predicate *)
Theorem wf_module_reflect m toks : wf_module_b m toks = true <-> WfModule m toks.
Proof. unfold wf_module_b, WfModule. rewrite andb_true_iff.
  rewrite (forallb_Forall_iff tok_ok TokOk toks tok_ok_reflect), (forallb_Forall_iff item_ok ItemOk m item_ok_reflect). reflexivity. Qed.

Lemma str_body_example : StrBody """" (L "a\""b\x41\u{1F600}\0") /\ ~ StrBody """" (L "a\7") /\ ~ StrBody "'" (L "it's").
Proof. split; [apply str_body_reflect; reflexivity|]. split; intros H; apply str_body_reflect in H; discriminate. Qed.

(* ---------------------------------------------------------------- ty_ok = TyOk *)
Lemma sum_in {A} (f : A -> nat) l x : In x l -> f x <= list_sum (map f l).
Proof. unfold list_sum. induction l as [|y l IH]; intros H; [destruct H|]. cbn [map fold_right]. destruct H as [->|H]; [lia|]. specialize (IH H). lia. Qed.
Lemma forallb_Forall_in {A} (f : A -> bool) (Q : A -> Prop) l : (forall x, In x l -> (f x = true <-> Q x)) -> (forallb f l = true <-> Forall Q l).
Proof. intros H. rewrite forallb_forall, Forall_forall. split; intros H1 x Hx; apply (H x Hx), H1, Hx. Qed.

Lemma tsize_pos t : 1 <= tsize t.
Proof. destruct t; simpl; lia. Qed.
Lemma ty_ok_reflect_n : forall n t, tsize t <= n -> (ty_ok t = true <-> TyOk t).
Proof. induction n as [|n IH]; intros t Hn; [pose proof (tsize_pos t); lia|].
  destruct t as [p args|t|ts|ts|s|p|ps r|ms ix]; cbn [tsize] in Hn; cbn [ty_ok].
  - rewrite andb_true_iff. rewrite (forallb_Forall_in ty_ok TyOk args).
    + split; [intros [H1 H2]; constructor; assumption|intros H; inversion H; subst; split; assumption].
    + intros x Hx. apply IH. pose proof (sum_in tsize args x Hx). lia.
  - rewrite (IH t) by lia. split; [intros H; constructor; exact H|intros H; inversion H; subst; assumption].
  - rewrite (forallb_Forall_in ty_ok TyOk ts).
    + split; [intros H; constructor; exact H|intros H; inversion H; subst; assumption].
    + intros x Hx. apply IH. pose proof (sum_in tsize ts x Hx). lia.
  - rewrite (forallb_Forall_in ty_ok TyOk ts).
    + split; [intros H; constructor; exact H|intros H; inversion H; subst; assumption].
    + intros x Hx. apply IH. pose proof (sum_in tsize ts x Hx). lia.
  - split; [intros _; constructor|reflexivity].
  - split; [intros H; constructor; exact H|intros H; inversion H; subst; assumption].
  - rewrite andb_true_iff. rewrite (IH r) by lia.
    rewrite (forallb_Forall_in _ (fun p : str * bool * ty => is_binding_name (fst (fst p)) = true /\ TyOk (snd p)) ps).
    + split; [intros [H1 H2]; constructor; assumption|intros H; inversion H; subst; split; assumption].
    + intros x Hx. rewrite andb_true_iff. rewrite (IH (snd x)); [reflexivity|].
      pose proof (sum_in (fun p : str * bool * ty => tsize (snd p)) ps x Hx). cbn beta in *. lia.
  - rewrite andb_true_iff.
    rewrite (forallb_Forall_in _ (fun m : key * bool * ty => key_ok (fst (fst m)) = true /\ TyOk (snd m)) ms).
    + rewrite (forallb_Forall_in _ (fun i : str * ty * ty => is_binding_name (fst (fst i)) = true /\ TyOk (snd (fst i)) /\ TyOk (snd i)) ix).
      * split; [intros [H1 H2]; constructor; assumption|intros H; inversion H; subst; split; assumption].
      * intros x Hx. rewrite !andb_true_iff.
        pose proof (sum_in (fun i : str * ty * ty => tsize (snd (fst i)) + tsize (snd i)) ix x Hx) as Hs. cbn beta in Hs.
        rewrite (IH (snd (fst x))) by lia. rewrite (IH (snd x)) by lia. tauto.
    + intros x Hx. rewrite andb_true_iff. rewrite (IH (snd x)); [reflexivity|].
      pose proof (sum_in (fun m : key * bool * ty => tsize (snd m)) ms x Hx). cbn beta in *. lia. Qed.
Theorem ty_ok_reflect t : ty_ok t = true <-> TyOk t.
Proof. apply (ty_ok_reflect_n (tsize t)). apply le_n. Qed.
Lemma ty_ok_example : TyOk (TyUnion [TyArr (TyRef [L "types"; L "User"] []); TyRef [L "null"] []]) /\ ~ TyOk (TyRef [L "delete"] []).
Proof. split; [apply ty_ok_reflect; vm_compute; reflexivity|]. intros H. apply ty_ok_reflect in H. vm_compute in H. discriminate. Qed.
