(* C02: the boolean oracle of Spec/C02Closed.v decides the Prop-level definitions. *)
From Coq Require Import String Ascii.
From Coq Require Import List Arith Bool.
Require Import TT.Model.Str TT.Spec.TsLex TT.Spec.TsModule TT.Spec.TsObs TT.Spec.C02Closed.
Import ListNotations.
Local Open Scope list_scope.

Lemma str_eqb_eq : forall a b : str, str_eqb a b = true <-> a = b.
Proof. intros a b. unfold str_eqb. destruct (list_eq_dec ascii_dec a b) as [E|N]; split; intro H.
  - exact E.
  - reflexivity.
  - discriminate.
  - contradiction. Qed.
Lemma str_eqb_refl : forall a : str, str_eqb a a = true.
Proof. intros a. apply str_eqb_eq. reflexivity. Qed.

Lemma mem_In : forall n l, mem n l = true <-> In n l.
Proof. intros n l. unfold mem. rewrite existsb_exists. split.
  - intros [x [Hx He]]. apply str_eqb_eq in He. subst. exact Hx.
  - intros H. exists n. split; [exact H|apply str_eqb_refl]. Qed.
Lemma mem_false_not_In : forall n l, mem n l = false <-> ~ In n l.
Proof. intros n l. rewrite <- mem_In. destruct (mem n l); split; intro H; auto; try discriminate. exfalso. apply H. reflexivity. Qed.

Lemma memp_In : forall x l, memp x l = true <-> In x l.
Proof. intros [a b] l. unfold memp. rewrite existsb_exists. split.
  - intros [[c d] [Hx He]]. unfold pair_eqb in He. cbn [fst snd] in He. apply andb_true_iff in He. destruct He as [H1 H2].
    apply str_eqb_eq in H1. apply str_eqb_eq in H2. subst. exact Hx.
  - intros H. exists (a, b). split; [exact H|]. unfold pair_eqb. cbn [fst snd]. rewrite !str_eqb_refl. reflexivity. Qed.

Lemma resolves_b_iff : forall tex m r, resolves_b tex m r = true <-> resolves tex m r.
Proof. intros tex m [n|a x]; unfold resolves_b, resolves.
  - rewrite !orb_true_iff, !mem_In. tauto.
  - rewrite andb_true_iff, memp_In, mem_In. tauto. Qed.

Lemma module_closed_b_iff : forall tex m, module_closed_b tex m = true <-> module_closed tex m.
Proof. intros tex m. unfold module_closed_b, module_closed. rewrite forallb_forall. split; intros H r Hr.
  - apply resolves_b_iff. apply H. exact Hr.
  - apply resolves_b_iff. apply H. exact Hr. Qed.

Lemma has_dup_false_NoDup : forall l, has_dup l = false <-> NoDup l.
Proof. induction l as [|x r IH]; cbn [has_dup].
  - split; [constructor|reflexivity].
  - rewrite orb_false_iff. fold (mem x r). rewrite mem_false_not_In, IH. split.
    + intros [H1 H2]. constructor; assumption.
    + intros H. inversion H; subst. split; assumption. Qed.

Lemma dups_nil_NoDup : forall l, dups l = [] <-> NoDup l.
Proof. induction l as [|x r IH]; cbn [dups].
  - split; [constructor|reflexivity].
  - fold (mem x r). destruct (mem x r) eqn:E.
    + split; [discriminate|]. intros H. inversion H; subst. apply mem_In in E. contradiction.
    + rewrite IH. apply mem_false_not_In in E. split.
      * intros H. constructor; assumption.
      * intros H. inversion H; subst. assumption. Qed.

Lemma incl_b_iff : forall a b, incl_b a b = true <-> (forall x, In x a -> In x b).
Proof. intros a b. unfold incl_b. rewrite forallb_forall. split; intros H x Hx.
  - apply mem_In. apply H. exact Hx.
  - apply mem_In. apply H. exact Hx. Qed.

Lemma index_exact_b_iff : forall fs mi, index_exact_b fs mi = true <-> index_exact fs mi.
Proof. intros fs mi. unfold index_exact_b, index_exact. rewrite !andb_true_iff, !incl_b_iff, negb_true_iff, has_dup_false_NoDup.
  split.
  - intros [[H1 H2] H3]. split; [|exact H3]. intros s. split; [apply H1|apply H2].
  - intros [H H3]. split; [split|exact H3]; intros s Hs; apply H; exact Hs. Qed.

Theorem closed_b_iff : forall fs, closed_b fs = true <-> closed fs.
Proof. intros fs. unfold closed_b, closed. destruct (f_types fs) as [| |mt] eqn:Et.
  1,2: split; [discriminate|intros [mt [mc [mi [H _]]]]; discriminate].
  destruct (f_commands fs) as [| |mc] eqn:Ec.
  1,2: split; [discriminate|intros [mt' [mc [mi [_ [H _]]]]]; discriminate].
  destruct (f_index fs) as [| |mi] eqn:Ei.
  1,2: split; [discriminate|intros [mt' [mc' [mi [_ [_ [H _]]]]]]; discriminate].
  rewrite !andb_true_iff, !module_closed_b_iff, index_exact_b_iff. split.
  - intros [[[[H1 H2] H3] H4] H5]. exists mt, mc, mi.
    split; [reflexivity|]. split; [reflexivity|]. split; [reflexivity|].
    split; [exact H1|]. split; [exact H2|]. split; [exact H3|]. split; [|exact H5].
    destruct (f_events fs) as [| |me] eqn:Ee.
    + left. reflexivity.
    + discriminate.
    + right. exists me. split; [reflexivity|]. apply module_closed_b_iff. exact H4.
  - intros [mt' [mc' [mi' [E1 [E2 [E3 [H1 [H2 [H3 [H4 H5]]]]]]]]]].
    inversion E1; inversion E2; inversion E3; subst mt' mc' mi'.
    split; [|exact H5]. split; [|].
    + split; [split; [exact H1|exact H2]|exact H3].
    + destruct H4 as [Ha|[me [Ee Hm]]].
      * rewrite Ha. reflexivity.
      * rewrite Ee. apply module_closed_b_iff. exact Hm. Qed.

Lemma fobs_nodup_b_iff : forall f, fobs_nodup_b f = true <-> fobs_nodup f.
Proof. intros [| |m]; cbn [fobs_nodup_b fobs_nodup]; try tauto. rewrite negb_true_iff. apply has_dup_false_NoDup. Qed.

Theorem nodup_b_iff : forall fs, nodup_b fs = true <-> exports_nodup fs.
Proof. intros fs. unfold nodup_b, exports_nodup. rewrite !andb_true_iff, !fobs_nodup_b_iff. tauto. Qed.

Theorem c02_ok_iff : forall fs, c02_ok fs = true <-> closed fs /\ exports_nodup fs.
Proof. intros fs. unfold c02_ok. rewrite andb_true_iff, closed_b_iff, nodup_b_iff. tauto. Qed.
