(* C17: faults after the open (Model/C17Trunc.v): invariant over histories, the fault theorem for every prefix length,
   recovery outside the removal-failed class, and the witness inside it. *)
From Coq Require Import List Arith Lia Bool.
Require Import TT.Model.Str TT.Model.C08Fingerprint TT.Model.C08Run TT.Model.C17History TT.Model.C17Trunc.
Require Import TT.Proofs.C08RunProofs TT.Proofs.C08FpProofs TT.Proofs.C17HistoryProofs.
Import ListNotations.

Section TruncProofs.
  Variables proj cfg schedT fnameT content fpT : Type.
  Variable fn_eqb : fnameT -> fnameT -> bool.
  Variable fpt_eqb : fpT -> fpT -> bool.
  Variable gfiles : schedT -> proj -> cfg -> list (fnameT * content).
  Variable gfp : schedT -> proj -> cfg -> fpT.
  Variable ghas_commands : proj -> bool.
  Variable cfg_force : cfg -> bool.
  Variable cut : nat -> content -> content.
  Hypothesis fn_eqb_spec : forall a b, fn_eqb a b = true <-> a = b.
  Hypothesis fpt_eqb_spec : forall a b, fpt_eqb a b = true <-> a = b.
  Hypothesis files_fun : forall w s c, NoDup (map fst (gfiles w s c)).

  (* the presence test is on: the machine since C08-9 *)
  Notation state := (state proj cfg fnameT content fpT).
  Notation run := (run proj cfg schedT fnameT content fpT fn_eqb fpt_eqb gfiles gfp ghas_commands cfg_force true).
  Notation run17 := (run17 proj cfg schedT fnameT content fpT fn_eqb fpt_eqb gfiles gfp ghas_commands cfg_force true cut).
  Notation step17 := (step17 proj cfg schedT fnameT content fpT fn_eqb fpt_eqb gfiles gfp ghas_commands cfg_force true).
  Notation step17t := (step17t proj cfg schedT fnameT content fpT fn_eqb fpt_eqb gfiles gfp ghas_commands cfg_force true cut).
  Notation cache_hit := (cache_hit proj cfg schedT fnameT content fpT fpt_eqb gfiles gfp true).
  Notation kf_rmfail := (kf_rmfail proj cfg schedT fnameT content fpT fpt_eqb gfiles gfp).
  Notation write_all := (write_all fnameT content fn_eqb).
  Notation upd := (upd fnameT content fn_eqb).
  Notation unwrite := (unwrite fnameT content fn_eqb).
  Notation leave_cut := (leave_cut fnameT content fn_eqb cut).
  Notation present := (present fnameT content).
  Notation up_to_date := (up_to_date proj cfg schedT fnameT content fpT gfiles).
  Notation Inv17 := (Inv17 proj cfg schedT fnameT content fpT gfiles gfp).
  Notation fault_index := (fault_index).

  (* ---- shape of a run with the refined faults: result, sources, configuration and record are those of the run with
     the whole-write fault at the same index; unless that run fails the states are equal ---- *)
  Lemma run17_shape w flag ft st :
    let rs := run w flag (option_map fault_index ft) st in
    fst (run17 w flag ft st) = fst rs /\
    s_src (snd (run17 w flag ft st)) = s_src (snd rs) /\ s_cfg (snd (run17 w flag ft st)) = s_cfg (snd rs) /\
    s_cache (snd (run17 w flag ft st)) = s_cache (snd rs) /\
    (fst rs <> Failure -> run17 w flag ft st = rs).
  Proof. destruct ft as [[k|k n b]|]; cbn [option_map C17Trunc.fault_index C17Trunc.run17]; try (repeat split; reflexivity).
    destruct (run w flag (Some k) st) as [r0 st0]. cbn [fst snd].
    destruct r0; try (repeat split; reflexivity).
    destruct b; cbn [fst snd s_src s_cfg s_cache]; repeat split; try reflexivity; intros H; congruence. Qed.

  (* a run that fails: the failing write is one of the plan, the record is kept, nothing is left under the name *)
  Lemma run_failure_inv w flag k st st1 : run w flag (Some k) st = (Failure, st1) ->
    let plan := gfiles w (s_src st) (s_cfg st) in
    ghas_commands (s_src st) = true /\ k < length plan /\
    st1 = {| s_src := s_src st; s_cfg := s_cfg st;
             s_out := unwrite (nth_error plan k) (write_all (firstn k plan) (s_out st)); s_cache := s_cache st |}.
  Proof. intros Hrun plan. unfold C08Run.run in Hrun.
    destruct (ghas_commands (s_src st)) eqn:Hc; cbn [negb] in Hrun; [|discriminate].
    destruct (negb _ && _); [discriminate|]. fold plan in Hrun.
    destruct (k <? length plan) eqn:Ek; [|discriminate].
    apply Nat.ltb_lt in Ek. inversion Hrun. auto. Qed.

  Lemma present_unwrite plan k o : k < length plan -> present (unwrite (nth_error plan k) o) plan = false.
  Proof. intros Hk. destruct (nth_error plan k) as [[f x]|] eqn:En; [|apply nth_error_None in En; lia].
    destruct (present _ plan) eqn:Ep; [|reflexivity]. exfalso.
    apply (present_true fnameT content _ _ Ep f x (nth_error_In _ _ En)).
    cbn [C08Run.unwrite]. apply (upd_same fnameT content fn_eqb fn_eqb_spec). Qed.

  Lemma hit_needs_record w (t : state) : cache_hit w t = true ->
    exists h, s_cache t = Some h /\ h = gfp w (s_src t) (s_cfg t) /\ present (s_out t) (gfiles w (s_src t) (s_cfg t)) = true.
  Proof. unfold C08Run.cache_hit. destruct (s_cache t) as [h|]; [|discriminate].
    destruct (fpt_eqb h _) eqn:E; [|discriminate]. apply fpt_eqb_spec in E. intros Hp. exists h. auto. Qed.

  (* a miss means regeneration *)
  Lemma miss_regenerates w (t : state) : ghas_commands (s_src t) = true -> cache_hit w t = false ->
    forall r2 st2, run w false None t = (r2, st2) ->
      r2 = Success /\ up_to_date w st2 /\ s_cache st2 = Some (gfp w (s_src t) (s_cfg t)).
  Proof. intros Hc Hm r2 st2 Hrun.
    destruct (recovery_outcomes proj cfg schedT fnameT content fpT fn_eqb fpt_eqb gfiles gfp ghas_commands cfg_force true
                fn_eqb_spec files_fun w t r2 st2 Hc Hrun) as [H|(_ & _ & Hh)]; [exact H|congruence]. Qed.

  Lemma upd_upd o f a b g : upd (upd o f a) f b g = upd o f b g.
  Proof. unfold C08Run.upd. destruct (fn_eqb g f); reflexivity. Qed.

  (* ---- the fault theorem for the post-open fault, every index k, every prefix length n, removal succeeding or not:
     the run is due to an edit or a missing record (the record does not equal the current fingerprint) ---- *)
  Theorem fault17_post : forall w st k n b r st1,
    run17 w false (Some (FPost k n b)) st = (r, st1) -> r <> NoCommands -> r <> UpToDate ->
    s_cache st <> Some (gfp w (s_src st) (s_cfg st)) ->
    let plan := gfiles w (s_src st) (s_cfg st) in
    s_src st1 = s_src st /\ s_cfg st1 = s_cfg st /\
    (k < length plan -> r = Failure /\ s_cache st1 = s_cache st /\
       (forall f, s_out st1 f = (if b then unwrite (nth_error plan k) (write_all (firstn k plan) (s_out st)) f
                                 else leave_cut n (nth_error plan k) (write_all (firstn k plan) (s_out st)) f))) /\
    (length plan <= k -> r = Success /\ s_cache st1 = None /\ up_to_date w st1) /\
    cache_hit w st1 = false /\
    (forall r2 st2, run w false None st1 = (r2, st2) ->
       r2 = Success /\ up_to_date w st2 /\ s_cache st2 = Some (gfp w (s_src st) (s_cfg st))).
  Proof. intros w st k n b r st1 Hrun Hn1 Hn2 Hmis plan.
    assert (Hmiss : forall t : state, s_src t = s_src st -> s_cfg t = s_cfg st ->
              (s_cache t = s_cache st \/ s_cache t = None) -> cache_hit w t = false).
    { intros t Es Ec Hca. destruct (cache_hit w t) eqn:Eh; [|reflexivity]. exfalso.
      destruct (hit_needs_record w t Eh) as (h & Hh & Hfp & _). rewrite Es, Ec in Hfp. subst h.
      destruct Hca as [Hca|Hca]; rewrite Hca in Hh; [apply Hmis; exact Hh|discriminate]. }
    cbn [C17Trunc.run17] in Hrun. unfold C08Run.run in Hrun.
    destruct (ghas_commands (s_src st)) eqn:Hc; cbn [negb fst snd] in Hrun; [|inversion Hrun; subst; congruence].
    destruct (negb _ && _); cbn [fst snd] in Hrun; [inversion Hrun; subst; congruence|].
    fold plan in Hrun.
    assert (Hfin : forall t : state, s_src t = s_src st -> s_cfg t = s_cfg st ->
              (s_cache t = s_cache st \/ s_cache t = None) ->
              cache_hit w t = false /\
              (forall r2 st2, run w false None t = (r2, st2) ->
                 r2 = Success /\ up_to_date w st2 /\ s_cache st2 = Some (gfp w (s_src st) (s_cfg st)))).
    { intros t Es Ec Hca. split; [apply Hmiss; assumption|]. intros r2 st2 Hr2.
      rewrite <- Es, <- Ec. apply (miss_regenerates w t); [rewrite Es; exact Hc|apply Hmiss; assumption|exact Hr2]. }
    destruct (k <? length plan) eqn:Ek; cbn [fst snd] in Hrun.
    - apply Nat.ltb_lt in Ek.
      destruct b; inversion Hrun; subst r st1; clear Hrun; cbn [s_src s_cfg s_cache s_out].
      + split; [reflexivity|]. split; [reflexivity|]. split. { intros _. split; [reflexivity|]. split; reflexivity. }
        split. { intros Hle. lia. }
        apply Hfin; [reflexivity|reflexivity|left; reflexivity].
      + split; [reflexivity|]. split; [reflexivity|]. split.
        { intros _. split; [reflexivity|]. split; [reflexivity|]. intros f.
          destruct (nth_error plan k) as [[g x]|]; cbn [C17Trunc.leave_cut C08Run.unwrite]; [apply upd_upd|reflexivity]. }
        split. { intros Hle. lia. }
        apply Hfin; [reflexivity|reflexivity|left; reflexivity].
    - apply Nat.ltb_ge in Ek. inversion Hrun; subst r st1; clear Hrun. cbn [s_src s_cfg s_cache s_out].
      split; [reflexivity|]. split; [reflexivity|]. split. { intros Hlt. lia. }
      split. { intros _. split; [reflexivity|]. split; [reflexivity|].
               intros f x Hin. cbn [s_src s_cfg s_out] in *.
               apply (write_all_in fnameT content fn_eqb fn_eqb_spec); [apply files_fun|exact Hin]. }
      apply Hfin; [reflexivity|reflexivity|right; reflexivity]. Qed.

  (* ---- recovery after any failed run - forced or not, whatever the record, open or post-open fault, every prefix
     length - outside the class kf_rmfail: the file whose write failed is absent, the presence test (or the record
     test) refuses the hit, and the next non-forced run regenerates everything ---- *)
  Theorem fault17_recovery : forall w flag ft st st1,
    run17 w flag (Some ft) st = (Failure, st1) -> kf_rmfail w ft st = false ->
    s_src st1 = s_src st /\ s_cfg st1 = s_cfg st /\ s_cache st1 = s_cache st /\
    cache_hit w st1 = false /\
    forall r2 st2, run w false None st1 = (r2, st2) ->
      r2 = Success /\ up_to_date w st2 /\ s_cache st2 = Some (gfp w (s_src st) (s_cfg st)).
  Proof. intros w flag ft st st1 Hrun Hkf.
    assert (Hopen : forall k st0, run w flag (Some k) st = (Failure, st0) ->
              s_src st0 = s_src st /\ s_cfg st0 = s_cfg st /\ s_cache st0 = s_cache st /\ cache_hit w st0 = false /\
              ghas_commands (s_src st0) = true).
    { intros k st0 Hr. destruct (run_failure_inv w flag k st st0 Hr) as (Hc & Hk & Hst). subst st0.
      cbn [s_src s_cfg s_cache]. split; [reflexivity|]. split; [reflexivity|]. split; [reflexivity|]. split; [|exact Hc].
      unfold C08Run.cache_hit. cbn [s_src s_cfg s_cache s_out]. destruct (s_cache st) as [h|]; [|reflexivity].
      destruct (fpt_eqb h _); [|reflexivity]. apply present_unwrite. exact Hk. }
    assert (Hend : s_src st1 = s_src st /\ s_cfg st1 = s_cfg st /\ s_cache st1 = s_cache st /\ cache_hit w st1 = false /\
                   ghas_commands (s_src st1) = true).
    { destruct ft as [k|k n b]; cbn [C17Trunc.run17] in Hrun.
      - apply (Hopen k st1 Hrun).
      - destruct (run w flag (Some k) st) as [r0 st0] eqn:E0. cbn [fst snd] in Hrun.
        destruct r0; try discriminate.
        destruct b.
        + inversion Hrun; subst st1. apply (Hopen k st0 E0).
        + inversion Hrun; subst st1; clear Hrun. cbn [s_src s_cfg s_cache].
          destruct (Hopen k st0 E0) as (Es & Ec & Eca & _ & Hc).
          destruct (run_failure_inv w flag k st st0 E0) as (_ & Hk & _).
          split; [exact Es|]. split; [exact Ec|]. split; [exact Eca|]. split; [|exact Hc].
          cbn [C17Trunc.kf_rmfail] in Hkf. apply Nat.ltb_lt in Hk. rewrite Hk in Hkf. cbn [andb] in Hkf.
          unfold C08Run.cache_hit. cbn [s_src s_cfg s_cache s_out]. rewrite Es, Ec, Eca.
          destruct (s_cache st) as [h|]; [|reflexivity]. rewrite Hkf. reflexivity. }
    destruct Hend as (Es & Ec & Eca & Hm & Hc).
    split; [exact Es|]. split; [exact Ec|]. split; [exact Eca|]. split; [exact Hm|].
    intros r2 st2 Hr2. rewrite <- Es, <- Ec. apply (miss_regenerates w st1 Hc Hm r2 st2 Hr2). Qed.

  (* ---- the invariant of Proofs/C17HistoryProofs.v is kept by every step with the refined faults ---- *)
  Lemma Inv17_step17t s h : Inv17 s -> Inv17 (step17t s h).
  Proof. destruct s as [[st g] d]. destruct h as [e w flag ft]. intros HI.
    pose proof (Inv17_step proj cfg schedT fnameT content fpT fn_eqb fpt_eqb gfiles gfp ghas_commands cfg_force true
                  fn_eqb_spec files_fun (st, g, d) (H17 proj cfg schedT e w flag (option_map fault_index ft)) HI) as HS.
    unfold C17History.step17 in HS. unfold C17Trunc.step17t.
    set (st0 := edited proj cfg fnameT content fpT e st) in *.
    destruct (run17_shape w flag ft st0) as (Hr & _ & _ & Hca & Heq). cbv zeta in Hr, Hca, Heq.
    destruct (fst (run w flag (option_map fault_index ft) st0)) eqn:Er.
    - rewrite Heq by discriminate. rewrite Er. exact HS.
    - rewrite Heq by discriminate. rewrite Er. exact HS.
    - rewrite Heq by discriminate. rewrite Er. exact HS.
    - rewrite Hr. intros h Hh. rewrite Hca in Hh. destruct (HS h Hh) as (g0 & Hg & Hfp & _).
      exists g0. split; [exact Hg|]. split; [exact Hfp|]. discriminate. Qed.

  Theorem Inv17_history17t : forall steps s, Inv17 s -> Inv17 (fold_left step17t steps s).
  Proof. induction steps as [|h steps IH]; intros s H; cbn [fold_left]; [exact H|]. apply IH. apply Inv17_step17t. exact H. Qed.
End TruncProofs.

(* ---------------- the concrete machine ---------------- *)
Require Import TT.Proofs.C08Examples.

Lemma Inv17_history17t_c steps p c : Inv17_c (fold_left step17t_c steps (init17 p c)).
Proof. apply (Inv17_history17t project config sched fname tree tree fname_eqb tree_eqb files fp has_commands g_force cut_tree
                fname_eqb_spec files_nodup). apply Inv17_init. Qed.

(* inside the class: generation; forced run whose first write fails after the open with nothing written and whose
   removal fails too - types.ts stays behind empty, the record still matches; the next run answers up to date *)
Lemma c17_rmfail_witness :
  let st1 := snd (run17_c w1 false None (init_state p0 c0)) in
  let ft := FPost 0 0 false in
  let r2 := run17_c w1 true (Some ft) st1 in
  let r3 := run17_c w1 false None (snd r2) in
  kf_C17_rmfail w1 ft st1 = true /\ fst r2 = Failure /\
  s_out (snd r2) Types = option_map (cut_tree 0) (s_out st1 Types) /\ s_out (snd r2) Types <> s_out st1 Types /\
  fst r3 = UpToDate /\ all_current w1 (snd r3) = false.
Proof. vm_compute. repeat split. discriminate. Qed.

(* outside the class, same history with the removal succeeding, and an edit followed by a post-open fault at the second
   write, cut after one unit, removal failing: premises of fault17_recovery and fault17_post on concrete inputs *)
Lemma c17_trunc_example :
  let st1 := snd (run17_c w1 false None (init_state p0 c0)) in
  let r2 := run17_c w1 true (Some (FPost 0 0 true)) st1 in
  let r3 := run17_c w1 false None (snd r2) in
  let st1e := edited project config fname tree tree (Some (p_field_type, c0)) st1 in
  let r4 := run17_c w1 false (Some (FPost 1 1 false)) st1e in
  let r5 := run17_c w1 false None (snd r4) in
  kf_C17_rmfail w1 (FPost 0 0 true) st1 = false /\ fst r2 = Failure /\ s_out (snd r2) Types = None /\
  fst r3 = Success /\ all_current w1 (snd r3) = true /\
  kf_C17_rmfail w1 (FPost 1 1 false) st1e = false /\ fst r4 = Failure /\ s_out (snd r4) Commands <> None /\
  s_cache st1e <> Some (fp w1 (s_src st1e) (s_cfg st1e)) /\
  fst r5 = Success /\ all_current w1 (snd r5) = true.
Proof. vm_compute. repeat split; discriminate. Qed.

Definition steps17t_example : list hstep17t_c :=
  [H17t _ _ _ None w1 false None; H17t _ _ _ None w1 true (Some (FPost 0 0 false));
   H17t _ _ _ (Some (p_field_type, c0)) w1 false (Some (FPost 1 1 false)); H17t _ _ _ None w1 false (Some (FOpen 9))].
Lemma history17t_example :
  let '(st, g, d) := fold_left step17t_c steps17t_example (init17 p0 c0) in
  d = false /\ s_cache st = None /\ all_current w1 st = true.
Proof. vm_compute. repeat split. Qed.
