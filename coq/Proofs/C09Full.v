(* C09: the final form - domain predicate, complement of the syntactic classes, acyclic type graph. *)
From Coq Require Import String Ascii.
From Coq Require Import List Arith Lia Bool.
Require Import TT.Model.Base TT.Model.Str TT.Model.C07TypeParse TT.Model.C07Harvest TT.Model.C07Worklist TT.Model.C07Reach TT.Model.Topo.
Require Import TT.Spec.C07Spec TT.Spec.C09Spec.
Require Import TT.Proofs.TopoProofs TT.Proofs.C20Extra TT.Proofs.C07Lift TT.Proofs.C09Proofs TT.Proofs.C09Acyclic.
Import ListNotations.

Theorem zod_order_full o p out : ord_ok o -> in_domain p = true ->
  kf_c07_field_result p = false -> kf_c07_odd_name p = false -> kf_c07_inline_mod p = false ->
  kf_c07_payload_expr p = false ->
  acyclic (spec_graph p) -> emitted_zod o p = Some out ->
  NoDup out /\ forall u v, In u out -> In v out -> In v (schema_refs p u) -> idx_before out v u.
Proof.
  intros Ho Hdom K5 K6 K7 K8 Hac He.
  apply (zod_order_spec o p out Ho (agree_from_classes p Hdom K5 K6 K7 K8) Hac); auto.
  exact (edges_recorded_from_classes p Hdom K5 K6 K7).
Qed.
