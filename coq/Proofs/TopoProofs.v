From Coq Require Import List Arith Lia Bool.
Require Import TT.Model.Base TT.Model.Topo.
Import ListNotations.

Section Topo.
Context {node : Type} {ED : EqDec node}.
Local Notation graph := (Topo.graph node).
Local Notation state := (Topo.state node).

(* ---------- spec ---------- *)
Definition edge (g : graph) (a b : node) : Prop := In b (deps g a).
Inductive reach (g : graph) : node -> node -> Prop :=
| reach_refl a : reach g a a
| reach_step a b c : edge g a b -> reach g b c -> reach g a c.

Lemma reach_trans g a b c : reach g a b -> reach g b c -> reach g a c.
Proof. induction 1; eauto using reach. Qed.
Lemma reach_edge g a b : edge g a b -> reach g a b.
Proof. intros; eauto using reach. Qed.

Definition before (v u : node) (l : list node) : Prop :=
  exists l1 l2 l3, l = l1 ++ v :: l2 ++ u :: l3.

Lemma before_app_r v u l a : before v u l -> before v u (l ++ a).
Proof. intros (l1 & l2 & l3 & ->). exists l1, l2, (l3 ++ a).
  rewrite <- !app_assoc. simpl. rewrite <- !app_assoc. reflexivity. Qed.

Lemma before_snoc v u l : In v l -> before v u (l ++ [u]).
Proof. intros H. apply in_split in H as (l1 & l2 & ->). exists l1, l2, [].
  rewrite <- app_assoc. reflexivity. Qed.

Lemma memb_true x l : memb x l = true <-> In x l.
Proof. unfold memb. destruct (in_dec eq_dec x l); split; auto; discriminate. Qed.
Lemma memb_false x l : memb x l = false <-> ~ In x l.
Proof. unfold memb. destruct (in_dec eq_dec x l); split; auto; try discriminate; tauto. Qed.

Lemma rem_notin x l : ~ In x l -> rem x l = l.
Proof. induction l as [|y l IH]; simpl; intros H; auto.
  destruct (eq_dec x y) as [->|]. - exfalso; apply H; auto.
  - f_equal. apply IH. tauto. Qed.
Lemma rem_cons_same x l : ~ In x l -> rem x (x :: l) = l.
Proof. intros. simpl. destruct (eq_dec x x); [|congruence]. apply rem_notin; auto. Qed.

Lemma NoDup_app_snoc (l : list node) x : NoDup l -> ~ In x l -> NoDup (l ++ [x]).
Proof. intros Hn Hx. induction Hn as [|y l Hy Hn IH]; simpl.
  - constructor; auto. constructor.
  - constructor. + rewrite in_app_iff. simpl. intros [|[|[]]]; auto. apply Hx; left; auto.
    + apply IH. intro; apply Hx; right; auto. Qed.

(* ---------- invariant ---------- *)
Record Inv (g : graph) (S V G : list node) : Prop := {
  inv_vs : forall x, In x V <-> In x S;
  inv_nd : NoDup S;
  inv_succ : forall u v, In u S -> edge g u v -> In v S \/ In v G;
  inv_ord : forall u v, In u S -> edge g u v -> ~ reach g v u -> before v u S;
  inv_disj : forall x, In x S -> ~ In x G
}.

Record Post (g : graph) (n : node) (S V G S' V' G' : list node) : Prop := {
  post_G : G' = G;
  post_app : exists A, S' = S ++ A /\ (forall x, In x A -> reach g n x);
  post_inv : Inv g S' V' G;
  post_n : In n S' \/ In n G
}.

Definition fold_visit f g := 
  (fun (acc : option state) d => match acc with None => None | Some s => visit f g d s end).

Lemma fold_none f g l : fold_left (fold_visit f g) l None = None.
Proof. induction l; simpl; auto. Qed.

Lemma visit_post : forall fuel g n S V G S' V' G',
  Inv g S V G -> (forall x, In x G -> reach g x n) ->
  visit fuel g n (S, V, G) = Some (S', V', G') ->
  Post g n S V G S' V' G'.
Proof.
  induction fuel as [|f IH]; intros g n S V G S' V' G' HI HG Hv; [discriminate|].
  simpl in Hv.
  destruct (memb n G) eqn:EG.
  { inversion Hv; subst. apply memb_true in EG. constructor; auto.
    exists []. rewrite app_nil_r. split; auto. intros ? []. }
  destruct (memb n V) eqn:EV.
  { inversion Hv; subst. apply memb_true in EV. constructor; auto.
    - exists []. rewrite app_nil_r. split; auto. intros ? [].
    - left. apply HI; auto. }
  apply memb_false in EG. apply memb_false in EV.
  assert (HnS : ~ In n S) by (intro; apply EV; apply HI; auto).
  (* the fold over deps *)
  assert (Hfold : forall ds S0 V0 G0 S1 V1 G1,
            (forall d, In d ds -> edge g n d) ->
            Inv g S0 V0 (n :: G) -> G0 = n :: G ->
            fold_left (fold_visit f g) ds (Some (S0, V0, G0)) = Some (S1, V1, G1) ->
            G1 = n :: G /\ Inv g S1 V1 (n :: G) /\
            (exists A, S1 = S0 ++ A /\ forall x, In x A -> reach g n x) /\
            (forall d, In d ds -> In d S1 \/ In d (n :: G))).
  { induction ds as [|d ds IHd]; intros S0 V0 G0 S1 V1 G1 Hed HI0 -> Hf; simpl in Hf.
    - inversion Hf; subst. split; [reflexivity|]. split; [assumption|]. split.
      + exists []; rewrite app_nil_r; split; auto. intros ? [].
      + intros ? [].
    - destruct (visit f g d (S0, V0, n :: G)) as [[[Sa Va] Ga]|] eqn:Evd.
      2:{ rewrite fold_none in Hf. discriminate. }
      assert (Pd : Post g d S0 V0 (n :: G) Sa Va Ga).
      { eapply IH; eauto. intros x [<-|Hx].
        - apply reach_edge. apply Hed. left; auto.
        - eapply reach_trans. apply HG; auto. apply reach_edge. apply Hed; left; auto. }
      destruct Pd as [-> (A & -> & HA) HIa Hd].
      specialize (IHd (S0 ++ A) Va (n :: G) S1 V1 G1).
      destruct IHd as (HG1 & HI1 & (B & -> & HB) & Hds); auto.
      { intros; apply Hed; right; auto. }
      split; [assumption|]. split; [assumption|]. split.
      + exists (A ++ B). rewrite app_assoc. split; auto.
        intros x Hx. apply in_app_or in Hx as [Hx|Hx].
        * eapply reach_trans. apply reach_edge. apply Hed. left; reflexivity. apply HA; auto.
        * apply HB; auto.
      + intros d' [<-|Hd']; auto.
        destruct Hd as [Hd|Hd]; auto. left. apply in_or_app; auto. }
  destruct (fold_left _ (deps g n) _) as [[[S2 V2] G2]|] eqn:Ef; [|discriminate].
  inversion Hv; subst; clear Hv.
  assert (HI0 : Inv g S V (n :: G)).
  { destruct HI. constructor; auto.
    - intros u v Hu He. destruct (inv_succ0 u v Hu He); auto. right; right; auto.
    - intros x Hx [<-|Hx']; auto. eapply inv_disj0; eauto. }
  fold (fold_visit f g) in Ef.
  destruct (Hfold (deps g n) S V (n :: G) S2 V2 G2) as (-> & HI2 & (A & -> & HA) & Hds); auto.
  assert (HnS2 : ~ In n (S ++ A)).
  { intro Hn. eapply (inv_disj _ _ _ _ HI2); eauto. left; auto. }
  constructor.
  - apply rem_cons_same; auto.
  - exists (A ++ [n]). rewrite app_assoc. split; auto.
    intros x Hx. apply in_app_or in Hx as [Hx|[<-|[]]]; auto. constructor.
  - destruct HI2. constructor.
    + intros x. simpl. rewrite in_app_iff. simpl. rewrite inv_vs0. tauto.
    + apply NoDup_app_snoc; auto.
    + intros u v Hu He. apply in_app_or in Hu as [Hu|[<-|[]]].
      * destruct (inv_succ0 u v Hu He) as [|[<-|]]; auto.
        -- left; apply in_or_app; auto.
        -- left; apply in_or_app; right; left; auto.
      * destruct (Hds v He) as [|[<-|]]; auto.
        -- left; apply in_or_app; auto.
        -- left; apply in_or_app; right; left; auto.
    + intros u v Hu He Hnr. apply in_app_or in Hu as [Hu|[<-|[]]].
      * apply before_app_r. apply inv_ord0; auto.
      * destruct (Hds v He) as [Hv|[<-|Hv]].
        -- apply before_snoc; auto.
        -- exfalso; apply Hnr; constructor.
        -- exfalso; apply Hnr; apply HG; auto.
    + intros x Hx HxG. apply in_app_or in Hx as [Hx|[<-|[]]]; auto.
      eapply inv_disj0; eauto. right; auto.
  - left. apply in_or_app; right; left; auto.
Qed.



(* ---------- visiting is restored; fuel suffices ---------- *)
Lemma visit_G : forall fuel g n S V G S' V' G',
  visit fuel g n (S, V, G) = Some (S', V', G') -> G' = G.
Proof.
  induction fuel as [|f IH]; intros g n S V G S' V' G' Hv; [discriminate|].
  simpl in Hv. destruct (memb n G) eqn:EG; [inversion Hv; auto|].
  destruct (memb n V) eqn:EV; [inversion Hv; auto|].
  apply memb_false in EG.
  assert (Hfold : forall ds S0 V0 S1 V1 G1,
            fold_left (fold_visit f g) ds (Some (S0, V0, n :: G)) = Some (S1, V1, G1) -> G1 = n :: G).
  { induction ds as [|d ds IHd]; intros S0 V0 S1 V1 G1 Hf; simpl in Hf.
    - inversion Hf; auto.
    - destruct (visit f g d (S0, V0, n :: G)) as [[[Sa Va] Ga]|] eqn:Evd.
      + apply IH in Evd. subst Ga. eapply IHd; eauto.
      + rewrite fold_none in Hf. discriminate. }
  fold (fold_visit f g) in Hv.
  destruct (fold_left _ (deps g n) _) as [[[S2 V2] G2]|] eqn:Ef; [|discriminate].
  apply Hfold in Ef. subst G2. inversion Hv; subst. apply rem_cons_same; auto.
Qed.


Lemma deps_incl g req n : incl (deps g n) (universe g req).
Proof. unfold universe. intros x Hx. apply in_or_app. right.
  induction g as [|[k ds] g IH]; simpl in *; [contradiction|].
  destruct (eq_dec n k); [right; apply in_or_app; left; auto|].
  right. apply in_or_app. right. auto. Qed.

Lemma visit_total : forall fuel g req n S V G,
  NoDup G -> incl G (universe g req) -> In n (universe g req) ->
  length (universe g req) - length G < fuel ->
  visit fuel g n (S, V, G) <> None.
Proof.
  induction fuel as [|f IH]; intros g req n S V G Hnd Hinc Hn Hf; [lia|].
  simpl. destruct (memb n G) eqn:EG; [discriminate|]. destruct (memb n V) eqn:EV; [discriminate|].
  apply memb_false in EG.
  assert (Hnd' : NoDup (n :: G)) by (constructor; auto).
  assert (Hinc' : incl (n :: G) (universe g req)) by (intros x [<-|Hx]; auto).
  pose proof (NoDup_incl_length Hnd' Hinc') as Hlen. simpl in Hlen.
  assert (Hfold : forall ds S0 V0, incl ds (universe g req) ->
            fold_left (fold_visit f g) ds (Some (S0, V0, n :: G)) <> None).
  { induction ds as [|d ds IHd]; intros S0 V0 Hds; simpl; [discriminate|].
    destruct (visit f g d (S0, V0, n :: G)) as [[[Sa Va] Ga]|] eqn:Evd.
    - pose proof (visit_G _ _ _ _ _ _ _ _ _ Evd). subst Ga. apply IHd. intros x Hx; apply Hds; right; auto.
    - exfalso. eapply (IH g req d S0 V0 (n :: G)); eauto. apply Hds; left; auto. simpl. lia. }
  fold (fold_visit f g).
  destruct (fold_left _ (deps g n) _) as [[[S2 V2] G2]|] eqn:Ef; [discriminate|].
  exfalso. exact (Hfold (deps g n) S V (deps_incl g req n) Ef).
Qed.

(* ---------- top level ---------- *)
Definition top_step (fuel : nat) (g : graph) :=
  fun (acc : option state) r => match acc with
    | None => None
    | Some (s, v, vi) => if memb r v then Some (s, v, vi) else visit fuel g r (s, v, vi)
    end.

Lemma top_none fuel g l : fold_left (top_step fuel g) l None = None.
Proof. induction l; simpl; auto. Qed.

Lemma Inv_empty g : Inv g [] [] [].
Proof. constructor; simpl; try tauto. constructor. Qed.

Lemma reach_closed g S : (forall u v, In u S -> edge g u v -> In v S) ->
  forall a b, reach g a b -> In a S -> In b S.
Proof. intros Hc a b Hr. induction Hr; eauto. Qed.

Lemma top_inv fuel g : forall req0 req S V S' V' G',
  Inv g S V [] -> (forall x, In x S -> exists r, In r req0 /\ reach g r x) ->
  incl req req0 ->
  fold_left (top_step fuel g) req (Some (S, V, [])) = Some (S', V', G') ->
  G' = [] /\ Inv g S' V' [] /\ (forall x, In x S' -> exists r, In r req0 /\ reach g r x) /\
  (forall x, In x S -> In x S') /\ (forall r, In r req -> In r S').
Proof.
  induction req as [|r req IH]; intros S V S' V' G' HI Hreach Hinc Hf; simpl in Hf.
  - inversion Hf; subst. split; [reflexivity|]. split; [assumption|]. split; [assumption|]. split; [auto|]. intros ? [].
  - destruct (memb r V) eqn:Er.
    + apply memb_true in Er. destruct (IH S V S' V' G') as (HG & HI' & Hr' & Hmono & Hreq); auto.
      { intros x Hx; apply Hinc; right; auto. }
      split; [assumption|]. split; [assumption|]. split; [assumption|]. split; [assumption|].
      intros x [<-|Hx]; auto. apply Hmono. apply HI; auto.
    + destruct (visit fuel g r (S, V, [])) as [[[Sa Va] Ga]|] eqn:Ev; [|rewrite top_none in Hf; discriminate].
      assert (P : Post g r S V [] Sa Va Ga) by (eapply visit_post; eauto; intros ? []).
      destruct P as [-> (A & -> & HA) HIa Hn].
      destruct (IH (S ++ A) Va S' V' G') as (HG & HI' & Hr' & Hmono & Hreq); auto.
      { intros x Hx. apply in_app_or in Hx as [Hx|Hx]; auto. exists r. split; auto. apply Hinc; left; auto. }
      { intros x Hx; apply Hinc; right; auto. }
      split; [assumption|]. split; [assumption|]. split; [assumption|]. split.
      * intros x Hx. apply Hmono. apply in_or_app; auto.
      * intros x [<-|Hx]; auto. apply Hmono. destruct Hn as [|[]]; auto.
Qed.

Lemma before_index : forall l v u, NoDup l -> before v u l ->
  exists i j, nth_error l i = Some v /\ nth_error l j = Some u /\ i < j.
Proof. intros l v u _ (l1 & l2 & l3 & ->). exists (length l1), (length l1 + S (length l2)). repeat split.
  - rewrite nth_error_app2 by lia. rewrite Nat.sub_diag. reflexivity.
  - rewrite nth_error_app2 by lia. replace (length l1 + S (length l2) - length l1) with (S (length l2)) by lia.
    simpl. rewrite nth_error_app2 by lia. rewrite Nat.sub_diag. reflexivity.
  - lia. Qed.

(* ================= C20, type-ordering routine ================= *)
Theorem topo_total : forall g req, exists out, topo_sort (S (length (universe g req))) g req = Some out.
Proof.
  intros g req. unfold topo_sort. fold (top_step (Datatypes.S (length (universe g req))) g).
  assert (H : forall F, length (universe g req) < F -> forall l S0 V0, incl l req -> fold_left (top_step F g) l (Some (S0, V0, [])) <> None).
  { intros F HF. induction l as [|r l IH]; intros S0 V0 Hl; simpl; [discriminate|].
    destruct (memb r V0). - apply IH. intros x Hx; apply Hl; right; auto.
    - destruct (visit F g r (S0, V0, [])) as [[[Sa Va] Ga]|] eqn:Ev.
      + pose proof (visit_G _ _ _ _ _ _ _ _ _ Ev); subst Ga. apply IH. intros x Hx; apply Hl; right; auto.
      + exfalso. eapply (visit_total F g req r S0 V0 []); eauto. constructor. intros ? [].
        unfold universe. apply in_or_app; left. apply Hl; left; auto. simpl. lia. }
  specialize (H (Datatypes.S (length (universe g req))) (Nat.lt_succ_diag_r _)).
  destruct (fold_left _ req _) as [[[s v] vi]|] eqn:E; [eauto|]. exfalso. eapply H; eauto. apply incl_refl.
Qed.

Theorem topo_correct : forall fuel g req out, topo_sort fuel g req = Some out ->
  NoDup out /\
  (forall n, In n out <-> exists r, In r req /\ reach g r n) /\
  (forall u v, In u out -> edge g u v -> ~ reach g v u ->
     exists i j, nth_error out i = Some v /\ nth_error out j = Some u /\ i < j).
Proof.
  intros fuel g req out H. unfold topo_sort in H. fold (top_step fuel g) in H.
  destruct (fold_left _ req _) as [[[s v] vi]|] eqn:E; [|discriminate]. inversion H; subst out; clear H.
  destruct (top_inv fuel g req req [] [] s v vi) as (-> & HI & Hr & _ & Hreq); auto.
  { apply Inv_empty. } { intros ? []. } { apply incl_refl. }
  split; [apply HI|]. split.
  - intros n; split; auto. intros (r & Hr1 & Hr2).
    eapply (reach_closed g s); eauto.
    intros u w Hu He. destruct (inv_succ _ _ _ _ HI u w Hu He) as [|[]]; auto.
  - intros u w Hu He Hn. apply before_index. apply HI. apply (inv_ord _ _ _ _ HI); auto.
Qed.

End Topo.
