(* C18: computed witness for the prefix class and the bounded sweep of the relational oracle over the
   model (all constructor spines to depth 1 here, depth 2 in C18Sweep2.v over the leaves String, i32, PathBuf, Uuid, DateTime<Utc>,
   User; table PathBuf -> string, Uuid -> number, DateTime<Utc> -> boolean). *)
From Coq Require Import String Ascii.
From Coq Require Import List Arith Bool.
Require Import TT.Model.Str TT.Model.TypeParse TT.Model.Render TT.Model.C05Emit.
Require Import TT.Spec.C05Spec TT.Spec.C05Known TT.Spec.C18Spec TT.Spec.C18Known TT.Proofs.TypeParseProofs.
Require Import TT.Proofs.StrFacts TT.Proofs.C05Sweep.
Import ListNotations.
Local Open Scope string_scope.

Definition datetime_utc : rty := RPath (L "DateTime") [lf "Utc"].
Definition leaves18 : list rty := [lf "String"; lf "i32"; lf "PathBuf"; lf "Uuid"; datetime_utc; lf "User"].
Definition filler18 (j : nat) : rty := nth (j mod 4) [lf "String"; lf "PathBuf"; lf "bool"; lf "User"] (lf "String").
Definition table18 : mapping := [(L "PathBuf", L "string"); (L "Uuid", L "number"); (L "DateTime<Utc>", L "boolean")].

Definition build18 (c : con) (pos : nat) (inner : rty) : option rty :=
  let args := map (fun j => if Nat.eqb j pos then inner
                            else if is_map_con c && Nat.eqb j 0 then lf "String" else filler18 j) (seq 0 (arity c)) in
  if is_map_con c && negb (match args with k :: _ => key_ok k | [] => false end) then None else
  Some (match c with CPath n _ => RPath (L n) args | CTuple _ => RTuple args | CRef => match args with a :: _ => RRef a | [] => RTuple [] end end).
Definition next18 (level : list rty) : list rty :=
  flat_map (fun c => flat_map (fun pos => flat_map (fun u => match build18 c pos u with Some t => [t] | None => [] end) level)
                              (seq 0 (arity c))) cons_all.
Definition spines18_2 : list rty := leaves18 ++ next18 leaves18 ++ next18 (next18 leaves18).

Definition spines18_1 : list rty := leaves18 ++ next18 leaves18.

Definition subst_at (m : mapping) (s : site) (md : mode) (t : rty) : bool :=
  match emit_type s md m t, emit_type s md [] t with
  | Some w, Some wo => kf_C18 s md m t || c18_full_ok s md m t w wo
  | _, _ => false
  end.

Lemma sweep18_depth1 : sweep (subst_at table18) spines18_1 = true /\ forallb (dom_m table18) spines18_1 = true.
Proof. vm_compute. split; reflexivity. Qed.

(* the three repaired classes: on the old witnesses the relational oracle now accepts the model's
   two texts (model = patched code) *)
Definition w18_prefix : rty := RPath (L "Vec") [RPath (L "Vec") [lf "PathBuf"]].
Lemma prefix_on_target_repaired :
  dom_m table18 w18_prefix = true /\
  emit_type SReturn MNone [] w18_prefix = Some (L "types.PathBuf[][]") /\
  emit_type SReturn MNone table18 w18_prefix = Some (L "string[][]") /\
  c18_ok true table18 w18_prefix (L "string[][]") (L "types.PathBuf[][]") = true /\
  c18_ok true table18 w18_prefix (L "types.string[][]") (L "types.PathBuf[][]") = false.
Proof. vm_compute. repeat split; reflexivity. Qed.

Definition w18_tuple : rty := RTuple [lf "i32"; RPath (L "HashMap") [lf "String"; lf "PathBuf"]].
Lemma tuple_comma_repaired :
  emit_type SField MNone table18 w18_tuple = Some (L "[number, Record<string, string>]") /\
  emit_type SField MNone [] w18_tuple = Some (L "[number, Record<string, PathBuf>]") /\
  c18_ok true table18 w18_tuple (L "[number, Record<string, string>]") (L "[number, Record<string, PathBuf>]") = true.
Proof. vm_compute. repeat split; reflexivity. Qed.

Definition w18_result : rty := RPath (L "Result") [RTuple [lf "PathBuf"; lf "i32"]; lf "String"].
Lemma result_comma_repaired :
  emit_type SField MNone table18 w18_result = Some (L "[string, number]") /\
  emit_type SField MNone [] w18_result = Some (L "[PathBuf, number]") /\
  c18_ok true table18 w18_result (L "[string, number]") (L "[PathBuf, number]") = true.
Proof. vm_compute. repeat split; reflexivity. Qed.

Lemma sweep18_premises_example :
  exists t, In t spines18_1 /\ tts t = L "Option<Uuid>" /\ kf_C18 SReturn MZod table18 t = false.
Proof.
  assert (H : existsb (fun x => str_eqb (tts x) (L "Option<Uuid>") && negb (kf_C18 SReturn MZod table18 x)) spines18_1 = true)
    by (vm_compute; reflexivity).
  apply existsb_exists in H. destruct H as (x & Hin & Hp). apply andb_true_iff in Hp as [Hn Hk].
  exists x. split; [exact Hin|]. split; [apply str_eqb_eq; exact Hn | apply negb_true_iff; exact Hk].
Qed.

(* the absolute clause sees what the relational clause cannot: a mapped name in map-key position that
   is printed as string with and without the table (seeded regression C18-1) *)
Definition w18_key : rty := RPath (L "HashMap") [lf "Uuid"; lf "String"].
Lemma map_key_absolute :
  emit_type SField MNone table18 w18_key = Some (L "Record<number, string>") /\
  c18_full_ok SField MNone table18 w18_key (L "Record<number, string>") (L "Record<Uuid, string>") = true /\
  c18_ok true table18 w18_key (L "Record<string, string>") (L "Record<string, string>") = true /\
  c18_full_ok SField MNone table18 w18_key (L "Record<string, string>") (L "Record<string, string>") = false.
Proof. vm_compute. repeat split; reflexivity. Qed.
