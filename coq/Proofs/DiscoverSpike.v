From Coq Require Import String Ascii.
From Coq Require Import List Arith Lia Bool.
Import ListNotations.
Local Open Scope char_scope.
Local Open Scope list_scope.

Definition str := list ascii.
Definition slash : ascii := "/".
Definition slashfree (c : str) : Prop := ~ In slash c.

(* path string of a file below the root: root/c1/c2/.../file  (components never contain '/') *)
Definition flat (comps : list str) : str := flat_map (fun c => slash :: c) comps.
Definition full_path (root : str) (comps : list str) : str := root ++ flat comps.

(* substring occurrence *)
Definition occurs (p s : str) : Prop := exists a b, s = a ++ p ++ b.
Ltac lnorm := simpl; repeat (rewrite <- app_assoc; simpl).

Lemma slashfree_prefix : forall (c a' : str) X Y, slashfree c -> c ++ X = a' ++ slash :: Y -> exists a'', a' = c ++ a''.
Proof. induction c as [|x c IH]; intros a' X Y Hc E; [exists a'; reflexivity|].
  destruct a' as [|y a']; simpl in E.
  - inversion E; subst. exfalso. apply Hc. left; auto.
  - inversion E; subst. destruct (IH a' X Y) as (a'' & ->); auto. { intro H; apply Hc; right; auto. } exists a''. reflexivity. Qed.

Lemma slashfree_eq : forall (c t : str) X Y, slashfree c -> slashfree t -> (X = [] \/ exists X', X = slash :: X') ->
  c ++ X = t ++ slash :: Y -> c = t /\ X = slash :: Y.
Proof. induction c as [|x c IH]; intros t X Y Hc Ht HX E.
  - destruct t as [|y t]; simpl in E.
    + auto.
    + destruct HX as [->|(X' & ->)]; [discriminate|]. inversion E; subst. exfalso. apply Ht. left; auto.
  - destruct t as [|y t]; simpl in E.
    + inversion E; subst. exfalso. apply Hc. left; auto.
    + inversion E; subst. destruct (IH t X Y) as [-> ->]; auto.
      intro H; apply Hc; right; auto. intro H; apply Ht; right; auto. Qed.

Lemma flat_head comps : flat comps = [] \/ exists X', flat comps = slash :: X'.
Proof. destruct comps; simpl; eauto. Qed.

Section Dir.
Variable d : str.                       (* "target" or ".git" *)
Hypothesis d_sf : slashfree d.
Definition pat : str := slash :: d ++ [slash].

(* in the part below the root, "/d/" occurs exactly when a directory component (not the last one) is d *)
Lemma occurs_flat comps : Forall slashfree comps ->
  (occurs pat (flat comps) <-> exists pre post, post <> [] /\ comps = pre ++ d :: post).
Proof. intros Hsf. split.
  - induction Hsf as [|c r Hc Hr IH]; intros (a & b & E).
    + destruct a; discriminate.
    + simpl in E. destruct a as [|x a'].
      * unfold pat in E. simpl in E. inversion E as [E'].
        rewrite <- app_assoc in E'. simpl in E'.
        destruct (slashfree_eq c d (flat r) b Hc d_sf (flat_head r) E') as [-> Er].
        exists [], r. split; auto. intro; subst; discriminate.
      * simpl in E. inversion E as [[Ex E']]; subst x.
        destruct (slashfree_prefix c a' (flat r) (d ++ [slash] ++ b) Hc) as (a'' & ->).
        { rewrite E'. unfold pat. simpl. rewrite <- !app_assoc. reflexivity. }
        rewrite <- app_assoc in E'. apply app_inv_head in E'.
        destruct (IH (ex_intro _ a'' (ex_intro _ b E'))) as (pre & post & Hne & ->).
        exists (c :: pre), post. split; auto.
  - intros (pre & post & Hne & ->). destruct post as [|p post]; [congruence|].
    exists (flat pre), (p ++ flat post). unfold flat. rewrite flat_map_app. simpl. unfold pat.
    simpl. rewrite <- !app_assoc. simpl. reflexivity.
Qed.

(* the implementation tests the FULL path string, root included *)
Theorem accepted_spec root comps : Forall slashfree comps -> ~ occurs pat (root ++ [slash]) ->
  (occurs pat (full_path root comps) <-> exists pre post, post <> [] /\ comps = pre ++ d :: post).
Proof. intros Hsf Hroot. rewrite <- occurs_flat by auto. unfold full_path. split.
  - intros (a & b & E). apply app_eq_app in E as (l & [[Er Ep]|[Ea Ef]]).
    2:{ exists l, b. exact Ef. }
    destruct l as [|x l'].
    + simpl in Ep. exists [], b. simpl. symmetry. exact Ep.
    + exfalso. apply Hroot. unfold pat in Ep. simpl in Ep. inversion Ep as [[Ex Ep']]. subst x.
      rewrite <- app_assoc in Ep'. apply app_eq_app in Ep' as (m & [[Ed Efl]|[El Eb]]).
      * (* d = l' ++ m *)
        destruct m as [|y m'].
        -- rewrite app_nil_r in Ed. subst l'. exists a, []. rewrite Er. unfold pat. rewrite app_nil_r. lnorm. reflexivity.
        -- exfalso. destruct comps as [|c r]; simpl in Efl; [discriminate|]. inversion Efl; subst y.
           apply d_sf. rewrite Ed. apply in_or_app; right; left; reflexivity.
      * (* l' = d ++ m *)
        destruct m as [|y m'].
        -- rewrite app_nil_r in El. subst l'. exists a, []. rewrite Er. unfold pat. rewrite app_nil_r. lnorm. reflexivity.
        -- simpl in Eb. inversion Eb; subst y. exists a, (m' ++ [slash]). rewrite Er, El. unfold pat. lnorm. reflexivity.
  - intros (a & b & E). exists (root ++ a), b. rewrite E. rewrite <- app_assoc. reflexivity.
Qed.
End Dir.
