(* Proofs for C12: walker completeness over the documented placements, legality and
   distinctness of listener identifiers, the listener bijection on event lists outside the
   recorded classes, the payload string under symbol-table agreement, no events - no file,
   and computed witnesses for every recorded class. *)
From Coq Require Import String Ascii.
From Coq Require Import List Arith Lia Bool.
Require Import TT.Model.Str TT.Model.TypeParse TT.Spec.TsLex TT.Spec.TsModule TT.Spec.TsObs TT.Model.Pipeline TT.Model.Events TT.Spec.C12Spec.
Require Import TT.Proofs.StrFacts.
Import ListNotations.
Local Open Scope list_scope.

(* ------------------------------------------------------------------ walker completeness *)
Lemma doc_receiver_is_emitter r : doc_receiver r = true -> is_emitter r = true.
Proof.
  destruct r as [r0 m0 a0|segs|b nm| | | | | | | | | | | | | |]; cbn [doc_receiver is_emitter]; try discriminate; auto.
  destruct segs as [|a [|b r]]; try discriminate. intro H. exact H.
Qed.

Lemma emit_call_event m args n p sy :
  emit_call m args = Some (n, p) -> is_emit_name m = true /\ emit_event m args sy = [(n, infer_payload p sy)].
Proof.
  unfold emit_call, is_emit_name, emit_event, emit_args.
  destruct (str_eqb m (L "emit")) eqn:E1.
  - apply str_eqb_eq in E1. subst m.
    replace (str_eqb (L "emit") (L "emit_to")) with false by (vm_compute; reflexivity).
    destruct args as [|a0 [|a1 rest]]; try discriminate.
    + destruct a0 as [| | |l0| | | | | | | | | | | | |]; try discriminate. destruct l0; discriminate.
    + destruct a0 as [| | |l0| | | | | | | | | | | | |]; try discriminate. destruct l0; try discriminate.
      intro H. inversion H. subst. split; [reflexivity|]. reflexivity.
  - destruct (str_eqb m (L "emit_to")) eqn:E2; [|discriminate].
    destruct args as [|a0 [|a1 [|a2 rest]]]; try discriminate.
    + destruct a1 as [| | |l0| | | | | | | | | | | | |]; try discriminate. destruct l0; discriminate.
    + destruct a1 as [| | |l0| | | | | | | | | | | | |]; try discriminate. destruct l0; try discriminate.
      intro H. inversion H. subst. split; [reflexivity|]. reflexivity.
Qed.

Definition finds (n : str) (l : evs) : Prop := exists t, In (n, t) l.
Lemma finds_app_l n a b : finds n a -> finds n (a ++ b).
Proof. intros [t H]. exists t. apply in_or_app. auto. Qed.
Lemma finds_app_r n a b : finds n b -> finds n (a ++ b).
Proof. intros [t H]. exists t. apply in_or_app. auto. Qed.

Section Generic.
  Variable W : expr -> symtab -> evs * symtab.
  Lemma walk_stmts_finds n ss s :
    In s ss -> (forall sy, finds n (fst (walk_stmt W s sy))) -> forall sy, finds n (fst (walk_stmts W ss sy)).
  Proof.
    induction ss as [|s0 r IH]; intros Hin Hs sy; [destruct Hin|].
    cbn [walk_stmts]. destruct (walk_stmt W s0 sy) as [a s1] eqn:E1. destruct (walk_stmts W r s1) as [b s2] eqn:E2.
    cbn [fst]. destruct Hin as [->|Hin].
    - apply finds_app_l. specialize (Hs sy). rewrite E1 in Hs. exact Hs.
    - apply finds_app_r. specialize (IH Hin Hs s1). rewrite E2 in IH. exact IH.
  Qed.
  Lemma walk_list_finds n es a :
    In a es -> (forall sy, finds n (fst (W a sy))) -> forall sy, finds n (fst (walk_list W es sy)).
  Proof.
    induction es as [|x r IH]; intros Hin Hs sy; [destruct Hin|].
    cbn [walk_list]. destruct (W x sy) as [ea s1] eqn:E1. destruct (walk_list W r s1) as [b s2] eqn:E2.
    cbn [fst]. destruct Hin as [->|Hin].
    - apply finds_app_l. specialize (Hs sy). rewrite E1 in Hs. exact Hs.
    - apply finds_app_r. specialize (IH Hin Hs s1). rewrite E2 in IH. exact IH.
  Qed.
End Generic.

Scheme EmitsAt_min := Minimality for EmitsAt Sort Prop
  with EmitsIn_min := Minimality for EmitsIn Sort Prop.
Combined Scheme Emits_mutind from EmitsAt_min, EmitsIn_min.

Lemma walk_method_eq recv m args sy :
  fst (walk_expr (XMethod recv m args) sy) =
  (if is_emit_name m && is_emitter recv then emit_event m args sy else []) ++
  fst (walk_expr recv sy) ++ fst (walk_list walk_expr args (snd (walk_expr recv sy))).
Proof.
  cbn [walk_expr]. destruct (walk_expr recv sy) as [a s1]. cbn [fst snd].
  destruct (walk_list walk_expr args s1) as [b s2]. reflexivity.
Qed.
Lemma walk_if_eq th el sy :
  fst (walk_expr (XIf th el) sy) =
  fst (walk_stmts walk_expr th sy) ++
  match el with Some x => fst (walk_expr x (snd (walk_stmts walk_expr th sy))) | None => [] end.
Proof.
  cbn [walk_expr]. destruct (walk_stmts walk_expr th sy) as [a s1]. cbn [fst snd].
  destruct el as [x|]; [destruct (walk_expr x s1) as [b s2]; reflexivity|]. cbn [fst]. rewrite app_nil_r. reflexivity.
Qed.

Lemma walker_complete_mut :
  (forall e n p, EmitsAt e n p -> forall sy, finds n (fst (walk_expr e sy))) /\
  (forall ss n p, EmitsIn ss n p -> forall sy, finds n (fst (walk_stmts walk_expr ss sy))).
Proof.
  apply Emits_mutind.
  - intros r m args n p Hr Hc sy. rewrite walk_method_eq.
    destruct (emit_call_event m args n p sy Hc) as [Hm He]. rewrite Hm, (doc_receiver_is_emitter r Hr), He.
    exists (infer_payload p sy). left. reflexivity.
  - intros r m args n p _ IH sy. rewrite walk_method_eq. apply finds_app_r, finds_app_l, IH.
  - intros ss n p _ IH sy. exact (IH sy).
  - intros ss n p _ IH sy. exact (IH sy).
  - intros ss n p _ IH sy. exact (IH sy).
  - intros ss n p _ IH sy. exact (IH sy).
  - intros th el n p _ IH sy. rewrite walk_if_eq. apply finds_app_l, IH.
  - intros th x n p _ IH sy. rewrite walk_if_eq. apply finds_app_r, IH.
  - intros arms a n p Hin _ IH sy. change (walk_expr (XMatch arms) sy) with (walk_list walk_expr arms sy).
    eapply walk_list_finds; eauto.
  - intros x n p _ IH sy. exact (IH sy).
  - intros x n p _ IH sy. exact (IH sy).
  - intros ss e n p Hin _ IH. eapply walk_stmts_finds; [exact Hin|]. intro sy. exact (IH sy).
  - intros ss pt i n p Hin _ IH. eapply walk_stmts_finds; [exact Hin|]. intro sy. cbn [walk_stmt]. apply IH.
Qed.

Theorem walker_complete : forall params body n p,
  EmitsIn body n p -> exists t, In (n, t) (fn_events_p params body).
Proof. intros params body n p H. unfold fn_events_p. exact (proj2 walker_complete_mut body n p H _). Qed.

(* project level: every documented emit of every top-level function of every file has an event *)
Theorem project_complete : forall (p : project) f d n pl,
  In f (p_files p) -> In d f -> EmitsIn (fd_body d) n pl -> exists t, In (n, t) (project_events p).
Proof.
  intros p f d n pl Hf Hd He. destruct (walker_complete (fd_params d) (fd_body d) n pl He) as [t Ht].
  exists t. unfold project_events. apply in_flat_map. exists f. split; [exact Hf|].
  unfold file_events. apply in_flat_map. exists d. split; [exact Hd|exact Ht].
Qed.

(* ------------------------------------------------------------------ identifiers *)
Definition san (c : ascii) : ascii := if alnum c then c else "_"%char.

Lemma san_facts : forall c, is_us (san c) = true \/ (is_id_char (up (san c)) = true /\ is_id_char (san c) = true).
Proof.
  intros [b0 b1 b2 b3 b4 b5 b6 b7].
  destruct b0, b1, b2, b3, b4, b5, b6, b7; vm_compute; auto.
Qed.

Lemma pascal_id_chars : forall s cap, forallb is_id_char (pascal cap (sanitize s)) = true.
Proof.
  induction s as [|c s IH]; intros cap; [reflexivity|].
  change (sanitize (c :: s)) with (san c :: sanitize s). cbn [pascal].
  destruct (san_facts c) as [Hu|[Hup Hid]].
  - rewrite Hu. apply IH.
  - destruct (is_us (san c)); [apply IH|].
    destruct cap; cbn [forallb]; rewrite ?Hup, ?Hid; cbn [andb]; apply IH.
Qed.

(* since C12-fix-dedup-and-identifier: for EVERY event name *)
Theorem listener_name_legal : forall n, is_legal_binding_name (listener_name n) = true.
Proof.
  intros n. unfold is_legal_binding_name, listener_name.
  apply andb_true_iff. split.
  - change (L "on" ++ pascal true (sanitize n)) with ("o"%char :: "n"%char :: pascal true (sanitize n)).
    cbn [is_ts_identifier forallb]. rewrite (pascal_id_chars n true). reflexivity.
  - change (L "on" ++ pascal true (sanitize n)) with ("o"%char :: "n"%char :: pascal true (sanitize n)).
    unfold is_reserved. apply negb_true_iff. apply not_true_iff_false. intro Hex.
    apply existsb_exists in Hex. destruct Hex as [w [Hw He]]. apply str_eqb_eq in He.
    cbn [reserved_words In] in Hw.
    repeat (destruct Hw as [<-|Hw]; [vm_compute in He; discriminate He|]). destruct Hw.
Qed.

(* ------------------------------------------------------------------ the listener records of an event list *)
Record mlistener := { ml_ident : str; ml_event : str; ml_payload : str }.
(* create_event_contexts: one record per distinct name, the first event of that name wins *)
Definition model_listeners (l : evs) : list mlistener :=
  map (fun e => {| ml_ident := listener_name (fst e); ml_event := fst e; ml_payload := payload_ts (snd e) |}) (dedup_first l).

(* first occurrences of a list of names *)
Fixpoint first_names (l : list str) : list str :=
  match l with [] => [] | x :: r => x :: filter (fun y => negb (str_eqb y x)) (first_names r) end.
Lemma map_fst_filter (e : str * str) (l : evs) :
  map fst (filter (fun x => negb (str_eqb (fst x) (fst e))) l) = filter (fun y => negb (str_eqb y (fst e))) (map fst l).
Proof. induction l as [|x r IH]; [reflexivity|]. cbn [filter map]. destruct (negb (str_eqb (fst x) (fst e))); cbn [map]; rewrite IH; reflexivity. Qed.
Lemma dedup_first_names (l : evs) : map fst (dedup_first l) = first_names (map fst l).
Proof. induction l as [|e r IH]; [reflexivity|]. cbn [dedup_first map first_names]. rewrite map_fst_filter, IH. reflexivity. Qed.
Lemma first_names_in l n : In n (first_names l) <-> In n l.
Proof.
  induction l as [|x r IH]; [tauto|]. cbn [first_names In]. rewrite filter_In, IH. split.
  - intros [H|[H _]]; auto.
  - intros [H|H]; [auto|]. destruct (list_eq_dec ascii_dec n x) as [E|N]; [left; congruence|].
    right. split; [exact H|]. apply negb_true_iff. apply str_eqb_neq. exact N.
Qed.
Lemma first_names_nodup l : NoDup (first_names l).
Proof.
  induction l as [|x r IH]; [constructor|]. cbn [first_names]. constructor.
  - intro H. apply filter_In in H. destruct H as [_ H]. rewrite str_eqb_refl in H. discriminate H.
  - apply NoDup_filter. exact IH.
Qed.
(* the first event of a name is the one that is kept *)
Lemma dedup_first_head e r : exists r', dedup_first (e :: r) = e :: r'.
Proof. eexists. reflexivity. Qed.

Lemma nodup_map_inj {A B} (f : A -> B) : forall l, NoDup l ->
  (forall x y, In x l -> In y l -> f x = f y -> x = y) -> NoDup (map f l).
Proof.
  induction l as [|x r IH]; intros Hn Hinj; [constructor|]. inversion Hn as [|? ? Hx Hr]; subst. cbn [map]. constructor.
  - intro Hin. apply in_map_iff in Hin. destruct Hin as [y [Hy Hyin]].
    assert (y = x) by (apply Hinj; [right; exact Hyin|left; reflexivity|exact Hy]). subst. contradiction.
  - apply IH; [exact Hr|]. intros a b Ha Hb. apply Hinj; right; assumption.
Qed.

Theorem listeners_partial : forall (l : evs),
  let names := map fst l in
  (forall n, In n names -> kf_collision names n = false) ->
  let ls := model_listeners l in
  (* one listener per distinct name (however often it is emitted), subscribed to exactly that name *)
  map ml_event ls = first_names names /\ NoDup (map ml_event ls) /\
  (forall n, In n names -> exists x, In x ls /\ ml_event x = n /\ forall y, In y ls -> ml_event y = n -> y = x) /\
  (* legal (for every name) and pairwise distinct function identifiers *)
  (forall x, In x ls -> is_legal_binding_name (ml_ident x) = true) /\
  NoDup (map ml_ident ls).
Proof.
  intros l names Hcol ls.
  assert (Hev : map ml_event ls = first_names names).
  { unfold ls, model_listeners, names. rewrite map_map. cbn [ml_event]. rewrite <- dedup_first_names. reflexivity. }
  assert (Hnd : NoDup (first_names names)) by apply first_names_nodup.
  assert (Hidents : map ml_ident ls = map listener_name (first_names names)).
  { unfold ls, model_listeners, names. rewrite map_map. cbn [ml_ident]. rewrite <- dedup_first_names, map_map. reflexivity. }
  split; [exact Hev|]. split; [rewrite Hev; exact Hnd|]. split; [|split].
  - intros n Hn. apply first_names_in in Hn. rewrite <- Hev in Hn. apply in_map_iff in Hn. destruct Hn as [x [Hx Hin]].
    exists x. split; [exact Hin|]. split; [exact Hx|]. intros y Hy Hyn.
    clear - Hnd Hev Hin Hy Hx Hyn. subst n. rewrite <- Hev in Hnd. clear Hev.
    induction ls as [|z r IH]; [destruct Hin|]. cbn [map] in Hnd. inversion Hnd as [|? ? Hz Hr]; subst.
    destruct Hin as [->|Hin], Hy as [->|Hy]; auto.
    + exfalso. apply Hz. rewrite <- Hyn. apply in_map. exact Hy.
    + exfalso. apply Hz. rewrite Hyn. apply in_map. exact Hin.
  - intros x Hx. unfold ls, model_listeners in Hx. apply in_map_iff in Hx. destruct Hx as [e [<- He]]. cbn [ml_ident].
    apply listener_name_legal.
  - rewrite Hidents. apply nodup_map_inj; [exact Hnd|]. intros a b Ha Hb Hab.
    apply (proj1 (first_names_in _ _)) in Ha. apply (proj1 (first_names_in _ _)) in Hb.
    destruct (list_eq_dec ascii_dec a b) as [E|N]; [exact E|]. exfalso.
    specialize (Hcol b Hb). unfold kf_collision in Hcol.
    assert (existsb (fun m => negb (str_eqb m b) && str_eqb (listener_name m) (listener_name b)) names = true) as Hex.
    { apply existsb_exists. exists a. split; [exact Ha|]. apply andb_true_iff. split.
      - apply negb_true_iff. apply str_eqb_neq. exact N.
      - apply str_eqb_eq. exact Hab. }
    congruence.
Qed.

(* ------------------------------------------------------------------ payload string under agreement *)
Definition agree_on (env : renv) (sy : symtab) : Prop :=
  forall x t, rlookup x env = Some (KEv t) -> lookup x sy = Some (type_name t).

Theorem payload_simple_partial : forall p env sy t,
  evident_type p env = Some t -> agree_on env sy ->
  infer_payload p sy = type_name t \/ (t = QTuple [] /\ infer_payload p sy = L "()").
Proof.
  induction p as [r IHr m args|segs|b nm|l|path|u IHu|f args|es|ss|th el|arms|ss|ss|ss|x|x|]; intros env sy t Hev Hag;
    cbn [evident_type] in Hev; try discriminate Hev.
  - (* x.clone() *) cbn [infer_payload]. destruct (str_eqb m (L "clone")); [|discriminate Hev]. eapply IHr; eauto.
  - (* variable *) destruct segs as [|x [|y r]]; try discriminate Hev.
    destruct (rlookup x env) as [[t0| |]|] eqn:E; try discriminate Hev. inversion Hev; subst t0.
    cbn [infer_payload]. rewrite (Hag x t E). left. reflexivity.
  - (* literal *) destruct l; inversion Hev; subst; left; reflexivity.
  - (* struct expression *) destruct path as [|a r]; [discriminate Hev|]. inversion Hev; subst. left. reflexivity.
  - (* &x *) cbn [infer_payload]. eapply IHu; eauto.
  - (* unit *) destruct es; [|discriminate Hev]. inversion Hev; subst. right. split; reflexivity.
Qed.

(* ------------------------------------------------------------------ no events, no file *)
Theorem no_events_no_file : forall p, project_events p = [] ->
  o_events_ts (generate p) = None /\ o_index_reexports_events (generate p) = false.
Proof. intros p H. unfold generate. rewrite H. destruct (p_has_command p); split; reflexivity. Qed.

Theorem events_file_written : forall p, project_events p <> [] -> p_has_command p = true ->
  o_events_ts (generate p) = Some (events_text (map_events (p_mappings p) (project_events p))) /\ o_index_reexports_events (generate p) = true.
Proof.
  intros p H Hc. unfold generate. rewrite Hc. destruct (project_events p) as [|e r]; [congruence|]. split; reflexivity.
Qed.

(* a body without any documented emit yields no site, hence the oracle demands no module *)
Theorem no_sites_oracle : forall p ev ix, project_sites p = [] ->
  oracle (project_sites p) ev ix = [] <-> (ev = None /\ reexports_events ix = Some false).
Proof.
  intros p ev ix H. rewrite H. unfold oracle, oracle_m. cbn [site_names map dedup].
  destruct ev as [e|]; destruct (reexports_events ix) as [[|]|]; cbn; split; intros; try discriminate; auto;
    try (destruct H0; discriminate); try (destruct H0 as [_ H0]; discriminate).
Qed.

(* ------------------------------------------------------------------ whole-model judgement and witnesses *)
Definition model_index (o : output) : option str :=
  if o_generated o then Some (if o_index_reexports_events o then L "export * from './events';" else []) else None.
Definition model_complaints (p : project) : list complaint :=
  oracle_m (p_mappings p) (project_sites p) (o_events_ts (generate p)) (model_index (generate p)).
(* the full statement: NOT asserted (see level_note); kept visible *)
Definition C12_full_statement : Prop :=
  forall p, in_domain p = true -> kf_project p = false -> model_complaints p = [].

Definition mk1 (body : list stmt) (cmd : bool) : project :=
  {| p_files := [[{| fd_params := map (fun q => (Some (fst q), snd q)) worker_params; fd_body := body |}]]; p_has_command := cmd; p_mappings := [] |}.
Definition ok_ (e : expr) : stmt := SExpr (M0 e "ok").
Definition worker_project : project := mk1 worker_body true.

(* witnesses, one per remaining class: in the domain, inside exactly that class, and the oracle complains *)
Definition w_collide := mk1 [ok_ (emit app "a-b" (XLit LInt)); ok_ (emit app "a_b" (XLit LInt))] true.
Definition w_collide2 := mk1 [ok_ (emit app "a:b" (XLit LInt)); ok_ (emit app "a/b" (XLit LInt))] true.
Definition w_name := mk1 [SLet (PIdent (L "data")) (Some (XCall (V "compute") [])); ok_ (emit app "computed" (V "data"))] true.
Definition w_lastseg := mk1 [ok_ (emit app "items" (V "items"))] true.
Definition w_ctor := mk1 [SLet (PIdent (L "v")) (Some (XCall (XPath [L "Vec"; L "new"]) [])); ok_ (emit app "fresh" (V "v"))] true.
Definition w_scope := mk1 [SLet (PIdent (L "p")) (Some (XCall (V "compute") [])); ok_ (emit app "shadowed" (V "p"))] true.
Definition w_nocmd := mk1 [ok_ (emit app "tick" (XLit LInt))] false.
(* witnesses of the repaired defects: they now satisfy the property *)
Definition w_dup := mk1 [ok_ (emit app "tick" (XLit LInt)); ok_ (emit app "tick" (XLit LInt))] true.
Definition w_dup2 := mk1 [ok_ (emit app "tick" (XLit LInt)); ok_ (emit (V "window") "tick" (S_ "other payload"))] true.
Definition w_ident := mk1 [ok_ (emit app "user:created/now" (XLit LInt))] true.
Definition w_tuple := mk1 [ok_ (emit app "pair" (XTuple [V "n"; S_ "x"]))] true.
Definition w_path := mk1 [ok_ (emit app "status" (XPath [L "Status"; L "Active"]))] true.

Definition witness (w : project) (cls : string) : Prop :=
  in_domain w = true /\ classes_of w = [L cls] /\ model_complaints w <> [] /\
  forallb (explained w) (model_complaints w) = true.
Definition repaired (w : project) : Prop :=
  in_domain w = true /\ classes_of w = [] /\ model_complaints w = [].
Lemma witness_collide : witness w_collide "kf_collision". Proof. vm_compute. repeat split; congruence. Qed.
Lemma witness_collide2 : witness w_collide2 "kf_collision". Proof. vm_compute. repeat split; congruence. Qed.
Lemma witness_name : witness w_name "kf_name_fallback". Proof. vm_compute. repeat split; congruence. Qed.
Lemma witness_lastseg : witness w_lastseg "kf_last_segment". Proof. vm_compute. repeat split; congruence. Qed.
Lemma witness_ctor : witness w_ctor "kf_ctor_guess". Proof. vm_compute. repeat split; congruence. Qed.
Lemma witness_scope : witness w_scope "kf_scope". Proof. vm_compute. repeat split; congruence. Qed.
Lemma witness_nocmd : witness w_nocmd "kf_no_command". Proof. vm_compute. repeat split; congruence. Qed.
Lemma repaired_dup : repaired w_dup /\ repaired w_dup2. Proof. vm_compute. repeat split; reflexivity. Qed.
Lemma repaired_ident : repaired w_ident /\ listener_name (L "user:created/now") = L "onUserCreatedNow". Proof. vm_compute. repeat split; reflexivity. Qed.
Lemma repaired_tuple : repaired w_tuple. Proof. vm_compute. repeat split; reflexivity. Qed.
Lemma repaired_path : repaired w_path. Proof. vm_compute. repeat split; reflexivity. Qed.

Theorem full_statement_needs_classes :
  exists p, in_domain p = true /\ model_complaints p <> [].
Proof. exists w_collide. destruct witness_collide as [H [_ [H2 _]]]. split; assumption. Qed.
