(* C15 - the boundary calculus: offsets returned by find of a pattern whose first byte is not a
   continuation byte are char boundaries; an offset just after an ASCII byte is a char boundary
   of a well-formed string; pieces of well-formed strings are well formed. *)
From Coq Require Import String Ascii.
From Coq Require Import List Arith Bool NArith Lia.
Require Import TT.Model.C15Utf8.
Import ListNotations.
Local Open Scope list_scope.

(* ---- outcomes ---- *)
Definition safe {A} (o : outcome A) : Prop := match o with Ok _ => True | _ => False end.
Lemma safe_ok {A} (o : outcome A) : safe o -> exists a, o = Ok a.
Proof. destruct o; simpl; try contradiction. eauto. Qed.
Lemma safe_not_panic {A} (o : outcome A) : safe o -> o <> Panic /\ o <> OutOfFuel.
Proof. destruct o; simpl; try contradiction. split; discriminate. Qed.
Lemma safe_bind {A B} (x : outcome A) (f : A -> outcome B) :
  safe x -> (forall a, x = Ok a -> safe (f a)) -> safe (bind x f).
Proof. destruct x; simpl; try contradiction. intros _ H. apply H. reflexivity. Qed.
Lemma bind_ok {A B} (x : outcome A) (f : A -> outcome B) a : x = Ok a -> bind x f = f a.
Proof. intros ->. reflexivity. Qed.

(* ---- bytes ---- *)
Lemma ascii_not_cont b : is_ascii b = true -> is_cont b = false.
Proof. unfold is_ascii, is_cont. intros H. apply N.ltb_lt in H. apply andb_false_iff. left. apply N.leb_gt. lia. Qed.
Lemma cont_not_ascii b : is_cont b = true -> is_ascii b = false.
Proof. intros H. destruct (is_ascii b) eqn:E; auto. apply ascii_not_cont in E. congruence. Qed.

Definition all_bytes : list ascii := map ascii_of_nat (seq 0 256).
Lemma all_bytes_complete c : In c all_bytes.
Proof. unfold all_bytes. apply in_map_iff. exists (nat_of_ascii c). split. apply ascii_nat_embedding.
  apply in_seq. pose proof (nat_ascii_bounded c). lia. Qed.
Lemma byte_sweep (P : ascii -> bool) : forallb P all_bytes = true -> forall c, P c = true.
Proof. intros H c. exact (proj1 (forallb_forall _ _) H c (all_bytes_complete c)). Qed.

(* ---- wf ---- *)
Lemma wf_tail b r : wf (b :: r) = true -> wf r = true.
Proof. cbn [wf]. intros H. apply andb_true_iff in H. tauto. Qed.
Lemma wf_head b c r : wf (b :: c :: r) = true -> is_ascii b = true -> is_cont c = false.
Proof. cbn [wf]. intros H Ha. apply andb_true_iff in H as [H _]. rewrite Ha in H. simpl in H.
  destruct (is_cont c); simpl in H; congruence. Qed.
Lemma wf_skipn n : forall s, wf s = true -> wf (skipn n s) = true.
Proof. induction n as [|n IH]; intros s H; [exact H|]. destruct s as [|b r]; [exact H|]. simpl. apply IH. eapply wf_tail; eauto. Qed.
Lemma wf_firstn n : forall s, wf s = true -> wf (firstn n s) = true.
Proof. induction n as [|n IH]; intros s H; [reflexivity|]. destruct s as [|b r]; [reflexivity|].
  cbn [firstn]. pose proof (IH r (wf_tail _ _ H)) as Hr. cbn [wf]. rewrite Hr, andb_true_r.
  destruct n as [|n]; [destruct r; reflexivity|]. destruct r as [|c r']; [reflexivity|]. cbn [firstn].
  cbn [wf] in H. apply andb_true_iff in H. tauto. Qed.
Lemma wf_adj : forall s i b c, wf s = true -> nth_error s i = Some b -> nth_error s (S i) = Some c ->
  is_ascii b = true -> is_cont c = false.
Proof. induction s as [|x s IH]; intros i b c H Hb Hc Ha; [destruct i; discriminate|].
  destruct i as [|i].
  - simpl in Hb. injection Hb as ->. destruct s as [|y s']; [discriminate|]. simpl in Hc. injection Hc as ->.
    eapply wf_head; eauto.
  - simpl in Hb, Hc. eapply IH; eauto. eapply wf_tail; eauto. Qed.

Lemma utf8_head_not_cont b r : utf8 (b :: r) = true -> is_cont b = false.
Proof. cbn [utf8]. unfold width, is_cont. destruct (byte_n b <? 128)%N eqn:E1.
  - intros _. apply N.ltb_lt in E1. apply andb_false_iff. left. apply N.leb_gt. lia.
  - destruct (byte_n b <? 192)%N eqn:E2; [discriminate|]. intros _. apply andb_false_iff. right. reflexivity. Qed.
Lemma width_ascii b : width b = 1 -> is_ascii b = true.
Proof. unfold width, is_ascii. destruct (byte_n b <? 128)%N; auto.
  destruct (byte_n b <? 192)%N; [discriminate|]. destruct (byte_n b <? 224)%N; [discriminate|].
  destruct (byte_n b <? 240)%N; [discriminate|]. destruct (byte_n b <? 248)%N; discriminate. Qed.
Lemma width_not_ascii b : width b <> 1 -> is_ascii b = false.
Proof. unfold width, is_ascii. destruct (byte_n b <? 128)%N; auto. congruence. Qed.

(* every Rust str is wf *)
Lemma utf8_wf_len : forall n s, List.length s <= n -> utf8 s = true -> wf s = true.
Proof. induction n as [|n IH]; intros s Hl H.
  - destruct s; [reflexivity|simpl in Hl; lia].
  - destruct s as [|b r]; [reflexivity|]. simpl in Hl.
    assert (Hcase : width b = 1 \/ width b <> 1) by (destruct (Nat.eq_dec (width b) 1); auto).
    destruct Hcase as [W|W].
    + cbn [utf8] in H. rewrite W in H. cbn [wf]. rewrite (IH r) by (auto; lia). rewrite andb_true_r.
      destruct r as [|c r']; [reflexivity|]. rewrite (utf8_head_not_cont _ _ H). rewrite andb_false_r. reflexivity.
    + pose proof (width_not_ascii b W) as Hna.
      assert (Hgen : forall r', wf r' = true -> r = r' \/ (exists c1, r = c1 :: r' /\ is_cont c1 = true)
                \/ (exists c1 c2, r = c1 :: c2 :: r' /\ is_cont c1 = true /\ is_cont c2 = true)
                \/ (exists c1 c2 c3, r = c1 :: c2 :: c3 :: r' /\ is_cont c1 = true /\ is_cont c2 = true /\ is_cont c3 = true) ->
                wf (b :: r) = true).
      { intros r' Hr' [->|[(c1 & -> & H1)|[(c1 & c2 & -> & H1 & H2)|(c1 & c2 & c3 & -> & H1 & H2 & H3)]]];
          cbn [wf]; rewrite ?Hna, ?(cont_not_ascii _ H1); cbn [andb negb];
          try rewrite (cont_not_ascii _ H2); try rewrite (cont_not_ascii _ H3); cbn [andb negb]; rewrite ?Hr';
          repeat match goal with |- context [match ?l with _ => _ end] => destruct l end; reflexivity. }
      cbn [utf8] in H. destruct (width b) as [|[|[|[|[|w]]]]] eqn:Ew; try discriminate; try congruence.
      * destruct r as [|c1 r1]; [discriminate|]. apply andb_true_iff in H as [H1 H].
        apply (Hgen r1); [apply IH; auto; simpl in Hl; lia|]. right. left. eauto.
      * destruct r as [|c1 [|c2 r2]]; try discriminate. apply andb_true_iff in H as [H12 H]. apply andb_true_iff in H12 as [H1 H2].
        apply (Hgen r2); [apply IH; auto; simpl in Hl; lia|]. right. right. left. exists c1, c2. auto.
      * destruct r as [|c1 [|c2 [|c3 r3]]]; try discriminate. apply andb_true_iff in H as [H123 H].
        apply andb_true_iff in H123 as [H12 H3]. apply andb_true_iff in H12 as [H1 H2].
        apply (Hgen r3); [apply IH; auto; simpl in Hl; lia|]. right. right. right. exists c1, c2, c3. auto. Qed.
Lemma utf8_wf s : utf8 s = true -> wf s = true.
Proof. apply (utf8_wf_len (List.length s)). lia. Qed.

(* ---- nth_error ---- *)
Lemma nth_error_skipn {A} : forall a (s : list A) i, nth_error (skipn a s) i = nth_error s (a + i).
Proof. induction a as [|a IH]; intros s i; [reflexivity|]. destruct s as [|x s]; [destruct i; reflexivity|]. simpl. apply IH. Qed.
Lemma nth_error_firstn {A} : forall n (s : list A) i, i < n -> nth_error (firstn n s) i = nth_error s i.
Proof. induction n as [|n IH]; intros s i H; [lia|]. destruct s as [|x s]; [reflexivity|]. destruct i as [|i]; [reflexivity|]. simpl. apply IH. lia. Qed.
Lemma nth_error_lt {A} (s : list A) i x : nth_error s i = Some x -> i < List.length s.
Proof. intros H. apply nth_error_Some. congruence. Qed.

(* ---- boundaries ---- *)
Lemma boundary_0 s : boundary s 0 = true.
Proof. reflexivity. Qed.
Lemma boundary_len s : boundary s (List.length s) = true.
Proof. unfold boundary. destruct (List.length s =? 0) eqn:E; [reflexivity|]. rewrite Nat.leb_refl. apply Nat.eqb_refl. Qed.
Lemma boundary_at s i b : nth_error s i = Some b -> is_cont b = false -> boundary s i = true.
Proof. intros Hn Hc. unfold boundary. destruct (i =? 0); [reflexivity|].
  pose proof (nth_error_lt _ _ _ Hn) as Hl. destruct (List.length s <=? i) eqn:E; [apply Nat.leb_le in E; lia|].
  rewrite Hn, Hc. reflexivity. Qed.
Lemma boundary_succ s i b : wf s = true -> nth_error s i = Some b -> is_ascii b = true -> boundary s (S i) = true.
Proof. intros Hw Hn Ha. pose proof (nth_error_lt _ _ _ Hn) as Hl.
  destruct (nth_error s (S i)) as [c|] eqn:Ec.
  - apply (boundary_at s (S i) c Ec). exact (wf_adj s i b c Hw Hn Ec Ha).
  - apply nth_error_None in Ec. replace (S i) with (List.length s) by lia. apply boundary_len. Qed.

Lemma slice_from_ok s a : a <= List.length s -> boundary s a = true -> slice_from s a = Ok (skipn a s).
Proof. intros Hl Hb. unfold slice_from. rewrite Hb. apply Nat.leb_le in Hl. rewrite Hl. reflexivity. Qed.
Lemma slice_to_ok s b : b <= List.length s -> boundary s b = true -> slice_to s b = Ok (firstn b s).
Proof. intros Hl Hb. unfold slice_to. rewrite Hb. apply Nat.leb_le in Hl. rewrite Hl. reflexivity. Qed.
Lemma slice_ok s a b : a <= b -> b <= List.length s -> boundary s a = true -> boundary s b = true ->
  slice s a b = Ok (firstn (b - a) (skipn a s)).
Proof. intros H1 H2 Ha Hb. unfold slice. rewrite Ha, Hb. apply Nat.leb_le in H1, H2. rewrite H1, H2. reflexivity. Qed.
(* slicing just after an ASCII byte / at a non-continuation byte *)
Lemma slice_from_after s i b : wf s = true -> nth_error s i = Some b -> is_ascii b = true ->
  slice_from s (S i) = Ok (skipn (S i) s).
Proof. intros Hw Hn Ha. apply slice_from_ok. apply nth_error_lt in Hn. lia. eapply boundary_succ; eauto. Qed.
Lemma slice_from_at s i b : nth_error s i = Some b -> is_cont b = false -> slice_from s i = Ok (skipn i s).
Proof. intros Hn Hc. apply slice_from_ok. apply nth_error_lt in Hn. lia. eapply boundary_at; eauto. Qed.
Lemma slice_to_at s i b : nth_error s i = Some b -> is_cont b = false -> slice_to s i = Ok (firstn i s).
Proof. intros Hn Hc. apply slice_to_ok. apply nth_error_lt in Hn. lia. eapply boundary_at; eauto. Qed.

(* ---- searching ---- *)
Lemma starts_nth : forall p s j, starts p s = true -> j < List.length p -> nth_error s j = nth_error p j.
Proof. induction p as [|a p IH]; intros s j H Hj; [simpl in Hj; lia|]. destruct s as [|b s]; [discriminate|].
  simpl in H. apply andb_true_iff in H as [He H]. apply Ascii.eqb_eq in He. subst b.
  destruct j as [|j]; [reflexivity|]. simpl. apply IH; auto. simpl in Hj. lia. Qed.
Lemma starts_len : forall p s, starts p s = true -> List.length p <= List.length s.
Proof. induction p as [|a p IH]; intros s H; [simpl; lia|]. destruct s as [|b s]; [discriminate|].
  simpl in H. apply andb_true_iff in H as [_ H]. simpl. apply IH in H. lia. Qed.
Lemma find_starts : forall pat s i, find pat s = Some i -> starts pat (skipn i s) = true /\ i <= List.length s.
Proof. intros pat. induction s as [|b s IH]; intros i H.
  - cbn [find] in H. destruct (starts pat []) eqn:E; [|discriminate]. injection H as <-. auto.
  - cbn [find] in H. destruct (starts pat (b :: s)) eqn:E.
    + injection H as <-. simpl. split; auto. lia.
    + destruct (find pat s) as [j|] eqn:Ej; [|discriminate]. simpl in H. injection H as <-.
      destruct (IH j eq_refl) as [H1 H2]. simpl. split; auto. lia. Qed.
Lemma find_nth pat s i j : find pat s = Some i -> j < List.length pat -> nth_error s (i + j) = nth_error pat j.
Proof. intros H Hj. destruct (find_starts _ _ _ H) as [Hs _]. rewrite <- nth_error_skipn. apply starts_nth; auto. Qed.
Lemma find_char_nth c : forall s i, find_char c s = Some i -> nth_error s i = Some c.
Proof. induction s as [|b s IH]; intros i H; [discriminate|]. cbn [find_char] in H. destruct (Ascii.eqb b c) eqn:E.
  - injection H as <-. apply Ascii.eqb_eq in E. subst. reflexivity.
  - destruct (find_char c s) as [j|]; [|discriminate]. simpl in H. injection H as <-. simpl. auto. Qed.
Lemma ends_with_char_nth c s : ends_with_char c s = true ->
  nth_error s (List.length s - 1) = Some c /\ 1 <= List.length s.
Proof. unfold ends_with_char. destruct (rev s) as [|c' t] eqn:E; [discriminate|]. intros H. apply Ascii.eqb_eq in H. subst c'.
  assert (Hs : s = rev t ++ [c]). { rewrite <- (rev_involutive s), E. reflexivity. }
  rewrite Hs. rewrite app_length, rev_length. simpl. split; [|lia].
  rewrite nth_error_app2 by (rewrite rev_length; lia). rewrite rev_length. replace (List.length t + 1 - 1 - List.length t) with 0 by lia. reflexivity. Qed.

(* ---- trimming returns pieces ---- *)
Lemma skipn_add {A} : forall b a (s : list A), skipn a (skipn b s) = skipn (b + a) s.
Proof. induction b as [|b IH]; intros a s; [reflexivity|]. destruct s as [|x s]; [destruct a; reflexivity|]. simpl. apply IH. Qed.
Lemma trim_go_skipn len : forall fuel s, exists k, trim_go len fuel s = skipn k s.
Proof. induction fuel as [|f IH]; intros s; [exists 0; reflexivity|]. cbn [trim_go]. destruct (len s) as [|k]; [exists 0; reflexivity|].
  destruct (IH (skipn (S k) s)) as [k' ->]. exists (S k + k'). rewrite skipn_add. reflexivity. Qed.
Lemma trim_start_skipn s : exists k, trim_start s = skipn k s.
Proof. apply trim_go_skipn. Qed.
Lemma trim_end_firstn s : exists k, trim_end s = firstn k s.
Proof. unfold trim_end. destruct (trim_go_skipn ws_len_rev (List.length s) (rev s)) as [k ->].
  rewrite skipn_rev, rev_involutive. eauto. Qed.
Lemma wf_trim_start s : wf s = true -> wf (trim_start s) = true.
Proof. destruct (trim_start_skipn s) as [k ->]. apply wf_skipn. Qed.
Lemma wf_trim s : wf s = true -> wf (trim s) = true.
Proof. intros H. unfold trim. destruct (trim_end_firstn (trim_start s)) as [k ->]. apply wf_firstn, wf_trim_start, H. Qed.
Lemma len_trim_start s : List.length (trim_start s) <= List.length s.
Proof. destruct (trim_start_skipn s) as [k ->]. rewrite skipn_length. lia. Qed.
Lemma len_trim s : List.length (trim s) <= List.length s.
Proof. unfold trim. destruct (trim_end_firstn (trim_start s)) as [k ->]. rewrite firstn_length. pose proof (len_trim_start s). lia. Qed.
Lemma trim_start_is_skipn s : trim_start s = skipn (List.length s - List.length (trim_start s)) s.
Proof. destruct (trim_start_skipn s) as [k E]. rewrite E at 2. rewrite skipn_length.
  destruct (Nat.le_gt_cases k (List.length s)) as [Hk|Hk].
  - replace (List.length s - (List.length s - k)) with k by lia. exact E.
  - rewrite E. rewrite skipn_all2 by lia. replace (List.length s - (List.length s - k)) with (List.length s) by lia.
    rewrite skipn_all. reflexivity. Qed.

(* ---- split returns pieces ---- *)
Lemma split_head c : forall s, exists h t, split c s = h :: t.
Proof. induction s as [|b s IH]; [simpl; eauto|]. cbn [split]. destruct (Ascii.eqb b c); [eauto|]. destruct IH as (h & t & ->). eauto. Qed.
Lemma split_hd_prefix c : forall s h t x h', split c s = h :: t -> h = x :: h' -> exists s', s = x :: s'.
Proof. intros s h t x h' H ->. destruct s as [|b s]; [simpl in H; congruence|]. cbn [split] in H. destruct (Ascii.eqb b c); [congruence|].
  destruct (split c s); injection H as -> _; eauto. Qed.
Lemma split_pieces c : forall s, wf s = true ->
  Forall (fun p => wf p = true /\ List.length p <= List.length s) (split c s).
Proof. induction s as [|b s IH]; intros H; [repeat constructor|]. pose proof (IH (wf_tail _ _ H)) as IH'.
  cbn [split]. destruct (Ascii.eqb b c).
  - constructor; [split; [reflexivity|simpl; lia]|]. eapply Forall_impl; [|exact IH']. simpl. intros p [? ?]. split; auto.
  - destruct (split c s) as [|h t] eqn:E.
    + constructor; [|constructor]. split; [reflexivity|simpl; lia].
    + inversion IH' as [|? ? [Hh Hl] Ht]; subst. constructor.
      * split; [|simpl; lia]. cbn [wf]. rewrite Hh, andb_true_r. destruct h as [|x h']; [reflexivity|].
        destruct (split_hd_prefix c s _ _ x h' E eq_refl) as [s' ->].
        destruct (is_ascii b) eqn:Ea; [|reflexivity]. rewrite (wf_head _ _ _ H Ea). reflexivity.
      * eapply Forall_impl; [|exact Ht]. simpl. intros p [? ?]. split; auto. Qed.
