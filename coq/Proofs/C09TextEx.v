(* C09, text level: the sample project of Spec/C09Known.v printed as a module of constant texts (keys alpha,
   beta, .. since the project model has no field names); its premises hold and the oracle accepts what the
   specification lexer and parser read from the texts. *)
From Coq Require Import String Ascii.
From Coq Require Import List Arith Lia Bool.
Require Import TT.Model.Base TT.Model.Str TT.Model.C07TypeParse TT.Model.C07Harvest TT.Model.C07Worklist TT.Model.C07Reach TT.Model.Topo.
Require TT.Model.TypeParse TT.Model.C10Zod TT.Model.C10ZodText TT.Spec.C10Check TT.Proofs.C10ObjectText TT.Proofs.C10ParseEx.
Require Import TT.Spec.TsLex TT.Spec.TsModule TT.Spec.TsObs TT.Spec.C07Spec TT.Spec.C07Known TT.Spec.C09Spec TT.Spec.C09Known TT.Model.C09Module TT.Model.C09Text.
Require Import TT.Proofs.StrFacts TT.Proofs.C09Text.
Import ListNotations.
Local Open Scope list_scope.

Definition dflt : TT.Model.TypeParse.tstruct := TT.Model.TypeParse.TPrim [].
Definition mk_members (ks l : list str) : list Z.member :=
  map (fun kt => Z.Build_member (fst kt) false
                   (match parse_type_structure (snd kt) with Some t => conv t | None => dflt end)) (combine ks l).
Definition keys4 : list str := [L "alpha"; L "beta"; L "gamma"; L "delta"].
Definition gen_sdef (p : project) (n : str) : Z.sdef :=
  Z.Build_sdef n (mk_members keys4 (match field_strings p n with Some l => l | None => [] end)).
Definition gen_cdef (c : fndef) : Z.cdef :=
  Z.Build_cdef (pascal true (fn_name c)) (mk_members keys4 (map tstr (cmd_params c))) [].
Definition sample_out : list str := match emitted_zod o_default sample_dag with Some o => o | None => [] end.
Definition sample_struct_text (n : str) : str :=
  if str_eqb n (L "Status") then L "z.enum([""On"", ""Off""])" else ZT.struct_schema_text [] (gen_sdef sample_dag n).
Definition sample_tm : list (str * str) :=
  map (fun n => (schema_name n, sample_struct_text n)) sample_out
  ++ map (fun c => (params_const c, ZT.param_schema_text [] (gen_cdef c))) (with_params sample_dag).

Lemma Forall2_map_in {A B} (R : A -> B -> Prop) (f : A -> B) l : (forall x, In x l -> R x (f x)) -> Forall2 R l (map f l).
Proof.
  induction l as [|a l IH]; intros H; [constructor|]. cbn [map]. constructor; [apply H; left; reflexivity|].
  apply IH. intros x Hx. apply H. right. exact Hx.
Qed.

Ltac lines_ok :=
  apply Forall_forall; let f := fresh "f" in let Hf := fresh "Hf" in intros f Hf; vm_compute in Hf;
  repeat (destruct Hf as [<-|Hf]; [unfold line_ok, OT.field_line_ok;
            (split; [vm_compute; reflexivity|split; [vm_compute; reflexivity|apply Nat.ltb_lt; vm_compute; reflexivity]])|]);
  destruct Hf.

Lemma sample_user_text :
  struct_sdef sample_dag (L "User") (gen_sdef sample_dag (L "User")) /\
  Forall line_ok (Z.s_fields (gen_sdef sample_dag (L "User"))) /\
  text_ids (ZT.struct_schema_text [] (gen_sdef sample_dag (L "User"))) = [L "z"; L "ProfileSchema"; L "z"; L "z"; L "z"; L "ItemSchema"; L "PlainSchema"].
Proof.
  split; [eexists; split; vm_compute; reflexivity|]. split; [lines_ok|vm_compute; reflexivity].
Qed.

Lemma sample_module_text : module_text o_default sample_dag sample_tm.
Proof.
  exists sample_out, (map (fun n => (schema_name n, sample_struct_text n)) sample_out),
         (map (fun c => (params_const c, ZT.param_schema_text [] (gen_cdef c))) (with_params sample_dag)).
  split; [vm_compute; reflexivity|]. split; [reflexivity|]. split.
  - apply Forall2_map_in. intros n Hn. split; [reflexivity|]. cbn [snd]. vm_compute in Hn.
    repeat (destruct Hn as [<-|Hn];
      [first [ right; split; vm_compute; reflexivity
             | lazymatch goal with |- struct_const_text _ ?k _ => left; exists (gen_sdef sample_dag k) end; split; [eexists; split; vm_compute; reflexivity|split; [lines_ok|vm_compute; reflexivity]] ]|]).
    destruct Hn.
  - apply Forall2_map_in. intros c Hc. split; [reflexivity|]. cbn [snd]. exists (gen_cdef c). vm_compute in Hc.
    repeat (destruct Hc as [<-|Hc]; [split; [vm_compute; reflexivity|split; [lines_ok|reflexivity]]|]).
    destruct Hc.
Qed.

Lemma sample_module_text_run : List.length sample_tm = 9 /\ decl_before_use (text_consts sample_tm) = true.
Proof. split; vm_compute; reflexivity. Qed.
