(* C11, scanning half continued: several validators in one attribute (email / url flags around a canonical
   length / range validator), attributes made of flags only, and the loop over several #[validate] attributes. *)
From Coq Require Import String Ascii List Arith Lia Bool NArith.
Require Import TT.Model.Str TT.Model.C11Validator TT.Spec.C11Spec TT.Proofs.C11Proofs TT.Proofs.C11Scan.
Import ListNotations.
Local Open Scope char_scope.
Local Open Scope list_scope.

(* ------------------------------------------------------------------ token printing of comma separated items *)
Definition nj (l : list tt) : bool := forallb (fun t => negb (joint_of t)) l.
Lemma tok_go_app : forall l first m, nj l = true -> l <> [] ->
  tok_go first false (l ++ m) = tok_go first false l ++ tok_go false false m.
Proof. induction l as [|x l IH]; intros first m Hn Hne; [contradiction|].
  cbn [nj forallb] in Hn. apply andb_true_iff in Hn as [Hx Hl]. apply negb_true_iff in Hx.
  cbn [app tok_go]. rewrite Hx. destruct l as [|y l].
  - cbn [app tok_go]. rewrite app_nil_r, <- app_assoc. reflexivity.
  - rewrite (IH false m Hl ltac:(discriminate)). rewrite <- !app_assoc. reflexivity. Qed.
Lemma tok_go_false : forall l, l <> [] -> tok_go false false l = L " " ++ tok_go true false l.
Proof. intros [|x l] H; [contradiction|reflexivity]. Qed.
Lemma join_cons : forall sep (x : str) xs, xs <> [] -> join sep (x :: xs) = x ++ sep ++ join sep xs.
Proof. intros sep x [|y ys] H; [contradiction|reflexivity]. Qed.
Lemma sep_toks_ne : forall l ls, l <> [] -> sep_toks comma (l :: ls) <> [].
Proof. intros l [|l2 ls] H; cbn [sep_toks]; [exact H|]. destruct l; [contradiction|discriminate]. Qed.
Lemma items_join : forall ls, (forall l, In l ls -> nj l = true /\ l <> []) ->
  tok_string (sep_toks comma ls) = join (L " , ") (map tok_string ls).
Proof. induction ls as [|l ls IH]; intros H; [reflexivity|]. destruct ls as [|l2 ls]; [reflexivity|].
  destruct (H l (or_introl eq_refl)) as [Hn Hne].
  assert (H2 : forall x, In x (l2 :: ls) -> nj x = true /\ x <> []) by (intros x Hx; apply H; right; exact Hx).
  change (sep_toks comma (l :: l2 :: ls)) with (l ++ comma :: sep_toks comma (l2 :: ls)).
  unfold tok_string at 1. rewrite tok_go_app by assumption.
  change (tok_go false false (comma :: sep_toks comma (l2 :: ls))) with (L " ," ++ tok_go false false (sep_toks comma (l2 :: ls))).
  rewrite tok_go_false by (apply sep_toks_ne; apply (H2 l2); left; reflexivity).
  fold (tok_string (sep_toks comma (l2 :: ls))). rewrite (IH H2).
  change (map tok_string (l :: l2 :: ls)) with (tok_string l :: map tok_string (l2 :: ls)).
  rewrite join_cons by discriminate. unfold tok_string at 1. rewrite <- ?app_assoc. reflexivity. Qed.

Definition item_text (i : item) : str := tok_string (item_toks i).
Lemma item_toks_ok : forall i, nj (item_toks i) = true /\ item_toks i <> [].
Proof. intros [a|a|[a|]|[a|]|n [kv|]]; split; try reflexivity; discriminate. Qed.
Lemma items_tokens_join : forall items, items_tokens items = join (L " , ") (map item_text items).
Proof. intros items. unfold items_tokens. rewrite items_join.
  - rewrite map_map. reflexivity.
  - intros l Hl. apply in_map_iff in Hl as [i [<- _]]. apply item_toks_ok. Qed.

(* prefix items and suffix items around a distinguished one *)
Definition pfx (xs : list str) : str := flat_map (fun x => x ++ L " , ") xs.
Definition sfx (ys : list str) : str := flat_map (fun y => L " , " ++ y) ys.
Lemma join_mid_sfx : forall M ys, join (L " , ") (M :: ys) = M ++ sfx ys.
Proof. intros M ys. revert M. induction ys as [|y ys IH]; intros M; [cbn [join sfx flat_map]; rewrite app_nil_r; reflexivity|].
  rewrite join_cons by discriminate. rewrite IH. cbn [sfx flat_map]. rewrite <- !app_assoc. reflexivity. Qed.
Lemma join_around : forall xs M ys, join (L " , ") (xs ++ M :: ys) = pfx xs ++ M ++ sfx ys.
Proof. induction xs as [|x xs IH]; intros M ys; [apply join_mid_sfx|].
  cbn [app]. rewrite join_cons by (destruct xs; discriminate). rewrite IH. cbn [pfx flat_map]. rewrite <- !app_assoc. reflexivity. Qed.

(* ------------------------------------------------------------------ side items: email / url flags and other validators *)
Inductive flag := FE | FU.
Definition ftext (f : flag) : str := match f with FE => L "email" | FU => L "url" end.
Definition fitem (f : flag) : item := match f with FE => IEmail None | FU => IUrl None end.
Definition flag_eqb (a b : flag) : bool := match a, b with FE, FE | FU, FU => true | _, _ => false end.
(* an item beside the length / range validator: a flag, or any other validator of the validator crate
   ( custom (function = ..), must_match (other = ..), required, nested, .. ) *)
Inductive side := SdF (f : flag) | SdO (name : str) (kv : option (list (str * str))).
Definition sitem (s : side) : item := match s with SdF f => fitem f | SdO n kv => IOther n kv end.
Definition stext (s : side) : str := item_text (sitem s).
(* the exact side condition under which another validator is inert: its PRINTED text contains none of the four
   keywords parse_validator_attributes searches the whole token string for *)
Definition scan_kws : list string := ["email"; "url"; "length"; "range"]%string.
Definition inert (X : str) : bool := forallb (fun kw => negb (contains kw X)) scan_kws.
Definition side_ok (s : side) : bool := match s with SdF _ => true | SdO n kv => inert (item_text (IOther n kv)) end.
Definition sflag (g : flag) (s : side) : bool := match s with SdF f => flag_eqb g f | SdO _ _ => false end.
Definition has_flag (g : flag) (l : list side) : bool := existsb (sflag g) l.
Definition sides_ok (l : list side) : Prop := forallb side_ok l = true.
Definition is_some {A} (o : option A) : bool := match o with Some _ => true | None => false end.
Lemma is_some_pre : forall x o, is_some (pre x o) = is_some o.
Proof. intros x [[a b]|]; reflexivity. Qed.
Lemma pre_pre : forall x y o, pre x (pre y o) = pre (x ++ y) o.
Proof. intros x y [[a b]|]; cbn [pre]; [rewrite app_assoc|]; reflexivity. Qed.
Lemma pre_nil : forall o, pre [] o = o.
Proof. intros [[a b]|]; reflexivity. Qed.

Definition lr_kw (p : string) : Prop := p = "length"%string \/ p = "range"%string.
Lemma inert_fs : forall X, inert X = true -> forall kw, In kw scan_kws -> fs (L kw) X = None.
Proof. intros X H kw Hin. unfold inert in H. rewrite forallb_forall in H. specialize (H kw Hin). apply negb_true_iff in H.
  unfold contains in H. rewrite find_sub_fs in H. destruct (fs (L kw) X); [discriminate|reflexivity]. Qed.
(* K1: a side item does not contain length / range *)
Lemma side_no_lr : forall p, lr_kw p -> forall s, side_ok s = true -> fs (L p) (stext s) = None.
Proof. intros p Hp [f|n kv] Hs.
  - destruct Hp as [-> | ->]; destruct f; vm_compute; reflexivity.
  - cbn [side_ok] in Hs. unfold stext. cbn [sitem]. apply (inert_fs _ Hs). destruct Hp as [-> | ->]; cbn; tauto. Qed.
(* K2: it contains email / url exactly when it is that flag *)
Lemma side_flag_none : forall g s, side_ok s = true -> sflag g s = false -> fs (ftext g) (stext s) = None.
Proof. intros g [f|n kv] Hs Hg.
  - cbn [sflag] in Hg. destruct g, f; try discriminate Hg; vm_compute; reflexivity.
  - cbn [side_ok] in Hs. unfold stext. cbn [sitem]. destruct g; apply (inert_fs _ Hs); cbn; tauto. Qed.
Lemma side_flag_here : forall g s, sflag g s = true -> stext s = ftext g.
Proof. intros g [f|n kv] Hg; [|discriminate Hg]. cbn [sflag] in Hg. destruct g, f; try discriminate Hg; reflexivity. Qed.

(* the separator [ , ] cannot overlap a keyword *)
Lemma fs_skip1 : forall pat q y, has q pat = false -> pat <> [] -> fs pat (q :: y) = pre [q] (fs pat y).
Proof. intros pat q y Hq Hne. rewrite fs_unfold. destruct pat as [|a p]; [contradiction|]. cbn [starts].
  unfold has in Hq. cbn [existsb] in Hq. apply orb_false_iff in Hq as [Hqa _]. rewrite Ascii.eqb_sym in Hqa. rewrite Hqa. reflexivity. Qed.
Definition kw_pat (pat : str) : Prop := has " " pat = false /\ has "," pat = false /\ pat <> [].
Lemma fs_sep : forall pat Y, kw_pat pat -> fs pat (L " , " ++ Y) = pre (L " , ") (fs pat Y).
Proof. intros pat Y [H1 [H2 H3]]. cbn [L list_ascii_of_string app].
  rewrite (fs_skip1 pat " ") by assumption. rewrite (fs_skip1 pat ",") by assumption. rewrite (fs_skip1 pat " ") by assumption.
  rewrite !pre_pre. reflexivity. Qed.
Lemma fs_item_sep : forall pat X Y, kw_pat pat -> fs pat X = None ->
  fs pat (X ++ L " , " ++ Y) = pre (X ++ L " , ") (fs pat Y).
Proof. intros pat X Y Hk Hn. pose proof Hk as [H1 _]. cbn [L list_ascii_of_string app].
  rewrite (fs_app_q X pat " " _ Hn H1). change (" " :: "," :: " " :: Y) with (L " , " ++ Y). rewrite (fs_sep pat Y Hk), pre_pre. reflexivity. Qed.
Lemma fs_sep_item : forall pat X, kw_pat pat -> fs pat X = None -> fs pat (L " , " ++ X) = None.
Proof. intros pat X Hk Hn. rewrite (fs_sep pat X Hk), Hn. reflexivity. Qed.
Lemma lr_pat : forall p, lr_kw p -> kw_pat (L p).
Proof. intros p [-> | ->]; repeat split; discriminate. Qed.
Lemma flag_pat : forall g, kw_pat (ftext g).
Proof. intros [|]; repeat split; discriminate. Qed.

Lemma pfx_skip : forall p, lr_kw p -> forall fl X, sides_ok fl ->
  fs (L p) (pfx (map stext fl) ++ X) = pre (pfx (map stext fl)) (fs (L p) X).
Proof. intros p Hp fl X. induction fl as [|f fl IH]; intros Hok; [cbn [map pfx flat_map app]; rewrite pre_nil; reflexivity|].
  unfold sides_ok in Hok. cbn [forallb] in Hok. apply andb_true_iff in Hok as [Hf Hok].
  cbn [map pfx flat_map]. fold (pfx (map stext fl)). rewrite <- !app_assoc.
  rewrite fs_item_sep by (auto using lr_pat, side_no_lr).
  rewrite (IH Hok), pre_pre. rewrite <- !app_assoc. reflexivity. Qed.
Lemma sfx_shape : forall (ys : list str), sfx ys = [] \/ exists y, sfx ys = " " :: y.
Proof. intros [|f fl]; [left; reflexivity|right]. cbn [sfx flat_map app L list_ascii_of_string]. eexists. reflexivity. Qed.
Lemma sfx_none : forall p, lr_kw p -> forall fl, sides_ok fl -> fs (L p) (sfx (map stext fl)) = None.
Proof. intros p Hp fl. induction fl as [|f fl IH]; intros Hok; [destruct Hp as [-> | ->]; reflexivity|].
  unfold sides_ok in Hok. cbn [forallb] in Hok. apply andb_true_iff in Hok as [Hf Hok].
  cbn [map sfx flat_map]. fold (sfx (map stext fl)). rewrite <- app_assoc.
  rewrite fs_sep by (apply lr_pat; exact Hp).
  destruct (sfx_shape (map stext fl)) as [E | [y E]].
  - rewrite E, app_nil_r, (side_no_lr p Hp f Hf). reflexivity.
  - pose proof (IH Hok) as Hs. rewrite E in *. rewrite fs_app_q by (auto using side_no_lr; destruct Hp as [-> | ->]; reflexivity).
    rewrite Hs. reflexivity. Qed.

Lemma fs_here : forall p X, fs p (p ++ X) = Some ([], X).
Proof. intros p X. rewrite fs_unfold, starts_app, skipn_app_len. reflexivity. Qed.
Lemma flag_pfx : forall g fl X, sides_ok fl ->
  is_some (fs (ftext g) (pfx (map stext fl) ++ X)) = has_flag g fl || is_some (fs (ftext g) X).
Proof. intros g fl X. induction fl as [|f fl IH]; intros Hok; [reflexivity|].
  unfold sides_ok in Hok. cbn [forallb] in Hok. apply andb_true_iff in Hok as [Hf Hok].
  cbn [map pfx flat_map has_flag existsb]. fold (pfx (map stext fl)). fold (has_flag g fl). rewrite <- !app_assoc.
  destruct (sflag g f) eqn:E.
  - rewrite (side_flag_here g f E), fs_here. reflexivity.
  - rewrite fs_item_sep by (auto using flag_pat, side_flag_none).
    rewrite is_some_pre, (IH Hok). reflexivity. Qed.
Lemma flag_sfx : forall g fl, sides_ok fl -> is_some (fs (ftext g) (sfx (map stext fl))) = has_flag g fl.
Proof. intros g fl. induction fl as [|f fl IH]; intros Hok; [destruct g; reflexivity|].
  unfold sides_ok in Hok. cbn [forallb] in Hok. apply andb_true_iff in Hok as [Hf Hok].
  cbn [map sfx flat_map has_flag existsb]. fold (sfx (map stext fl)). fold (has_flag g fl). rewrite <- !app_assoc.
  rewrite fs_sep by apply flag_pat. rewrite is_some_pre.
  destruct (sflag g f) eqn:E.
  - rewrite (side_flag_here g f E), fs_here. reflexivity.
  - pose proof (IH Hok) as Hs. destruct (sfx_shape (map stext fl)) as [E2 | [y E2]]; rewrite E2 in *.
    + rewrite app_nil_r, (side_flag_none g f Hf E). cbn [orb]. rewrite <- Hs. destruct g; reflexivity.
    + rewrite fs_app_q by (auto using side_flag_none; destruct g; reflexivity). rewrite is_some_pre. exact Hs. Qed.
(* ------------------------------------------------------------------ one attribute: side items around a canonical validator *)
Definition mid (r : bool) (o : nat) (omin omax omsg : option str) : str :=
  L (kwof r) ++ L " (" ++ cont (pieces o omin omax omsg) ++ L ")".
Definition lr_items (pr : list side) (r : bool) (o : nat) (omin omax omsg : option str) (po : list side) : list item :=
  map sitem pr ++ canon_item r (canon_args o omin omax omsg) :: map sitem po.
Lemma tokens_lr : forall pr r o omin omax omsg po,
  items_tokens (lr_items pr r o omin omax omsg po) =
  pfx (map stext pr) ++ mid r o omin omax omsg ++ sfx (map stext po).
Proof. intros. unfold lr_items. rewrite items_tokens_join, map_app. cbn [map]. rewrite !map_map.
  replace (item_text (canon_item r (canon_args o omin omax omsg))) with (mid r o omin omax omsg)
    by (symmetry; apply tokens_canon).
  apply join_around. Qed.

Section Step.
Variable dispf : str -> option str.
Variables (pr po : list side) (r : bool) (o : nat) (omin omax omsg : option str).
Hypothesis (Hmin : okn omin) (Hmax : okn omax) (Hmsg : okm omsg) (Hpr : sides_ok pr) (Hpo : sides_ok po).
Local Notation C := (cont (pieces o omin omax omsg)).
Local Notation T := (pfx (map stext pr) ++ mid r o omin omax omsg ++ sfx (map stext po)).

Lemma kw_is_lr : forall b, lr_kw (kwof b).
Proof. intros [|]; [right|left]; reflexivity. Qed.
Lemma fs_kw_T : fs (L (kwof r)) T = Some (pfx (map stext pr), L " (" ++ C ++ L ")" ++ sfx (map stext po)).
Proof. unfold mid. rewrite pfx_skip by (auto using kw_is_lr). rewrite <- !app_assoc. rewrite fs_here. cbn [pre]. rewrite app_nil_r. reflexivity. Qed.
Lemma fs_okw_T : fs (L (kwof (negb r))) T = None.
Proof. rewrite pfx_skip by (auto using kw_is_lr).
  pose proof (no_kw_tokens (kwof (negb r)) r o omin omax omsg Hmin Hmax Hmsg ltac:(cbn; tauto)) as Hn. fold (mid r o omin omax omsg) in Hn.
  destruct (sfx_shape (map stext po)) as [-> | [y Hy]].
  - rewrite app_nil_r, Hn. reflexivity.
  - pose proof (sfx_none _ (kw_is_lr (negb r)) po Hpo) as Hs. rewrite Hy in *.
    rewrite fs_app_q by (auto; destruct r; reflexivity). rewrite Hs. reflexivity. Qed.
Lemma flag_T : forall g, is_some (fs (ftext g) T) = has_flag g (pr ++ po).
Proof. intros g. rewrite flag_pfx by exact Hpr. unfold has_flag. rewrite existsb_app. f_equal.
  assert (Hn : fs (ftext g) (mid r o omin omax omsg) = None).
  { destruct g; [apply (no_kw_tokens "email")|apply (no_kw_tokens "url")]; auto; cbn; tauto. }
  pose proof (flag_sfx g po Hpo) as Hs. destruct (sfx_shape (map stext po)) as [E | [y Hy]].
  - rewrite E in *. rewrite app_nil_r, Hn. destruct g; exact Hs.
  - rewrite Hy in *. rewrite fs_app_q by (auto; destruct g; reflexivity). rewrite is_some_pre. exact Hs. Qed.

Lemma parse_hit : forall numf, parse_constraint (kwof r) numf T =
  Ok (Some {| c_min := onum numf omin; c_max := onum numf omax; c_msg := option_map unescape omsg |}).
Proof. intros numf. unfold parse_constraint, contains, paren_content. rewrite !find_sub_fs, fs_kw_T.
  replace (L (kwof r) ++ L " (" ++ C ++ L ")" ++ sfx (map stext po))
    with ((L (kwof r) ++ L " ") ++ "(" :: (C ++ ")" :: sfx (map stext po))) by (rewrite <- app_assoc; reflexivity).
  rewrite after_char_app by (destruct r; reflexivity).
  rewrite find_char_app by (apply lacks_paren_cont; assumption). rewrite firstn_app_len.
  destruct (bounds_canon o omin omax omsg Hmin Hmax Hmsg) as [Bmin Bmax].
  rewrite Bmin, Bmax. rewrite message_canon by assumption. cbn [obind]. unfold onum. destruct omin, omax; reflexivity. Qed.
Lemma parse_miss : forall numf, parse_constraint (kwof (negb r)) numf T = Ok None.
Proof. intros numf. unfold parse_constraint, contains. rewrite find_sub_fs, fs_okw_T. reflexivity. Qed.

End Step.

(* what one such attribute does to the accumulated ValidatorAttributes *)
Definition lr_effect (dispf : str -> option str) (pr po : list side) (r : bool) (omin omax omsg : option str) (v : vattrs) : vattrs :=
  let c := {| c_min := onum (if r then dispf else parse_u64) omin;
              c_max := onum (if r then dispf else parse_u64) omax; c_msg := option_map unescape omsg |} in
  {| v_length := if r then v_length v else Some c; v_range := if r then Some c else v_range v;
     v_email := v_email v || has_flag FE (pr ++ po); v_url := v_url v || has_flag FU (pr ++ po) |}.
Lemma va_step_lr : forall dispf pr po r o omin omax omsg, okn omin -> okn omax -> okm omsg -> sides_ok pr -> sides_ok po -> forall v,
  va_step dispf v (pfx (map stext pr) ++ mid r o omin omax omsg ++ sfx (map stext po)) =
  Ok (lr_effect dispf pr po r omin omax omsg v).
Proof. intros dispf pr po r o omin omax omsg Hmin Hmax Hmsg Hpr Hpo v. unfold va_step, contains. rewrite !find_sub_fs.
  pose proof (flag_T pr po r o omin omax omsg Hmin Hmax Hmsg Hpr Hpo FE) as He.
  pose proof (flag_T pr po r o omin omax omsg Hmin Hmax Hmsg Hpr Hpo FU) as Hu. cbn [ftext] in He, Hu. unfold is_some in He, Hu.
  pose proof (parse_hit pr po r o omin omax omsg Hmin Hmax Hmsg Hpr) as Hh.
  pose proof (parse_miss pr po r o omin omax omsg Hmin Hmax Hmsg Hpr Hpo) as Hm.
  destruct r; cbn [kwof negb] in *; rewrite Hm, Hh; cbn [obind]; unfold lr_effect;
    match goal with |- context [fs (L "email") ?T] => destruct (fs (L "email") T), (fs (L "url") T) end;
    rewrite <- He, <- Hu; reflexivity. Qed.

(* ------------------------------------------------------------------ an attribute without length / range *)
Definition flags_effect (fl : list side) (v : vattrs) : vattrs :=
  {| v_length := v_length v; v_range := v_range v;
     v_email := v_email v || has_flag FE fl; v_url := v_url v || has_flag FU fl |}.
Lemma tokens_flags : forall fl, items_tokens (map sitem fl) =
  match fl with [] => [] | f :: fl' => stext f ++ sfx (map stext fl') end.
Proof. intros fl. rewrite items_tokens_join, map_map.
  destruct fl as [|f fl]; [reflexivity|]. cbn [map]. fold stext. rewrite <- (map_map sitem item_text). fold stext.
  rewrite (map_map sitem item_text). apply join_mid_sfx. Qed.
Lemma flags_no_lr : forall p, lr_kw p -> forall fl, sides_ok fl -> fs (L p) (items_tokens (map sitem fl)) = None.
Proof. intros p Hp fl Hok. rewrite tokens_flags. destruct fl as [|f fl]; [destruct Hp as [-> | ->]; reflexivity|].
  unfold sides_ok in Hok. cbn [forallb] in Hok. apply andb_true_iff in Hok as [Hf Hok].
  destruct (sfx_shape (map stext fl)) as [E | [y E]]; rewrite E.
  - rewrite app_nil_r. apply side_no_lr; assumption.
  - rewrite fs_app_q by (auto using side_no_lr; destruct Hp as [-> | ->]; reflexivity).
    rewrite <- E, (sfx_none p Hp fl Hok). reflexivity. Qed.
Lemma flags_flag : forall g fl, sides_ok fl -> is_some (fs (ftext g) (items_tokens (map sitem fl))) = has_flag g fl.
Proof. intros g fl Hok. rewrite tokens_flags. destruct fl as [|f fl]; [destruct g; reflexivity|].
  unfold sides_ok in Hok. cbn [forallb] in Hok. apply andb_true_iff in Hok as [Hf Hok].
  cbn [has_flag existsb]. fold (has_flag g fl). destruct (sflag g f) eqn:E.
  - rewrite (side_flag_here g f E), fs_here. reflexivity.
  - pose proof (flag_sfx g fl Hok) as Hs. destruct (sfx_shape (map stext fl)) as [E2 | [y E2]]; rewrite E2 in *.
    + rewrite app_nil_r, (side_flag_none g f Hf E). cbn [orb]. rewrite <- Hs. destruct g; reflexivity.
    + rewrite fs_app_q by (auto using side_flag_none; destruct g; reflexivity). rewrite is_some_pre. exact Hs. Qed.
Lemma va_step_flags : forall dispf fl v, sides_ok fl -> va_step dispf v (items_tokens (map sitem fl)) = Ok (flags_effect fl v).
Proof. intros dispf fl v Hok. unfold va_step, parse_constraint, contains. rewrite !find_sub_fs.
  rewrite (flags_no_lr "length" (or_introl eq_refl)), (flags_no_lr "range" (or_intror eq_refl)) by exact Hok. cbn [obind].
  pose proof (flags_flag FE fl Hok) as He. pose proof (flags_flag FU fl Hok) as Hu. cbn [ftext] in He, Hu. unfold is_some in He, Hu.
  unfold flags_effect. destruct (fs (L "email") _), (fs (L "url") _); rewrite <- He, <- Hu; reflexivity. Qed.

(* ------------------------------------------------------------------ the loop over the attributes of a field *)
Inductive sattr :=
| SLr (pr : list side) (r : bool) (o : nat) (omin omax omsg : option str) (po : list side)   (* #[validate(sides, length|range(..), sides)] *)
| SFlags (fl : list side)                                                                 (* #[validate(sides)], #[validate()] *)
| SPath                                                                                   (* #[validate] *)
| SOther.                                                                                 (* not a validate attribute *)
Definition attr_of (s : sattr) : attr :=
  match s with
  | SLr pr r o a b m po => AValidate (lr_items pr r o a b m po)
  | SFlags fl => AValidate (map sitem fl)
  | SPath => AValidatePath
  | SOther => ANotValidate end.
Definition sattr_ok (s : sattr) : Prop :=
  match s with
  | SLr pr _ _ a b m po => okn a /\ okn b /\ okm m /\ sides_ok pr /\ sides_ok po
  | SFlags fl => sides_ok fl
  | _ => True end.
Definition is_val (s : sattr) : bool := match s with SOther => false | _ => true end.
Definition effect (dispf : str -> option str) (v : vattrs) (s : sattr) : vattrs :=
  match s with
  | SLr pr r o a b m po => lr_effect dispf pr po r a b m v
  | SFlags fl => flags_effect fl v
  | _ => v end.

Lemma va_fold_loop : forall dispf ss v found, Forall sattr_ok ss ->
  va_fold dispf v found (map attr_view (map attr_of ss)) =
  Ok (if found || existsb is_val ss then Some (fold_left (effect dispf) ss v) else None).
Proof. intros dispf ss. induction ss as [|s ss IH]; intros v found Hok.
  - cbn [map va_fold existsb fold_left]. rewrite orb_false_r. reflexivity.
  - inversion Hok as [|? ? Hs Hss]; subst. cbn [map existsb fold_left]. destruct s as [pr r o a b m po|fl| |]; cbn [attr_of attr_view va_fold is_val effect].
    + destruct Hs as [Ha [Hb [Hm [Hpr Hpo]]]]. rewrite tokens_lr, va_step_lr by assumption. cbn [obind]. rewrite IH by exact Hss.
      rewrite orb_true_r. reflexivity.
    + rewrite va_step_flags by exact Hs. cbn [obind]. rewrite IH by exact Hss. rewrite orb_true_r. reflexivity.
    + rewrite IH by exact Hss. rewrite orb_true_r. reflexivity.
    + rewrite IH by exact Hss. rewrite orb_false_l. reflexivity. Qed.

(* ValidatorParser::parse_validator_attributes on ANY list of such attributes, in any order:
   no panic, and the result is the left fold of the per-attribute effects *)
Theorem loop_exact : forall dispf ss, Forall sattr_ok ss ->
  parse_validator_attributes dispf (map attr_of ss) =
  Ok (if existsb is_val ss then Some (fold_left (effect dispf) ss va_init) else None).
Proof. intros dispf ss H. unfold parse_validator_attributes. rewrite va_fold_loop by exact H. reflexivity. Qed.

(* later attributes only add: an attribute that declares no length leaves the length parsed so far alone
   (same for range); flags are never reset *)
Definition declares_length (s : sattr) : bool := match s with SLr _ false _ _ _ _ _ => true | _ => false end.
Definition declares_range (s : sattr) : bool := match s with SLr _ true _ _ _ _ _ => true | _ => false end.
Lemma effect_keeps : forall dispf s v,
  (declares_length s = false -> v_length (effect dispf v s) = v_length v) /\
  (declares_range s = false -> v_range (effect dispf v s) = v_range v) /\
  (v_email v = true -> v_email (effect dispf v s) = true) /\ (v_url v = true -> v_url (effect dispf v s) = true).
Proof. intros dispf [pr [|] o a b m po|fl| |] v; cbn [effect lr_effect flags_effect declares_length declares_range v_length v_range v_email v_url];
  repeat split; intros H; try reflexivity; try discriminate H; try (rewrite H; reflexivity); exact H. Qed.
Lemma fold_keeps : forall dispf ss v,
  (existsb declares_length ss = false -> v_length (fold_left (effect dispf) ss v) = v_length v) /\
  (existsb declares_range ss = false -> v_range (fold_left (effect dispf) ss v) = v_range v) /\
  (v_email v = true -> v_email (fold_left (effect dispf) ss v) = true) /\ (v_url v = true -> v_url (fold_left (effect dispf) ss v) = true).
Proof. intros dispf ss. induction ss as [|s ss IH]; intros v; [cbn [fold_left]; auto|].
  cbn [fold_left existsb]. destruct (IH (effect dispf v s)) as [I1 [I2 [I3 I4]]]. destruct (effect_keeps dispf s v) as [E1 [E2 [E3 E4]]].
  repeat split; intros H.
  - apply orb_false_iff in H as [Hs Hr]. rewrite (I1 Hr). apply E1. exact Hs.
  - apply orb_false_iff in H as [Hs Hr]. rewrite (I2 Hr). apply E2. exact Hs.
  - apply I3. apply E3. exact H.
  - apply I4. apply E4. exact H. Qed.
Theorem later_attrs_only_add : forall dispf ss1 ss2, Forall sattr_ok (ss1 ++ ss2) -> existsb is_val ss1 = true ->
  exists v1 v, parse_validator_attributes dispf (map attr_of ss1) = Ok (Some v1) /\
               parse_validator_attributes dispf (map attr_of (ss1 ++ ss2)) = Ok (Some v) /\
    (existsb declares_length ss2 = false -> v_length v = v_length v1) /\
    (existsb declares_range ss2 = false -> v_range v = v_range v1) /\
    (v_email v1 = true -> v_email v = true) /\ (v_url v1 = true -> v_url v = true).
Proof. intros dispf ss1 ss2 Hok Hv. pose proof Hok as Hok1. apply Forall_app in Hok1 as [Hok1 _].
  exists (fold_left (effect dispf) ss1 va_init), (fold_left (effect dispf) (ss1 ++ ss2) va_init).
  rewrite !loop_exact by assumption. rewrite existsb_app, Hv. cbn [orb]. split; [reflexivity|]. split; [reflexivity|].
  rewrite fold_left_app. apply fold_keeps. Qed.

(* the side condition is exact: a token string that does contain one of the four keywords is NOT inert -
   the flag is set, respectively the length / range slot is occupied, whatever else the attribute holds *)
Theorem keyword_not_inert : forall dispf v T v', va_step dispf v T = Ok v' ->
  (contains "email"%string T = true -> v_email v' = true) /\ (contains "url"%string T = true -> v_url v' = true) /\
  (contains "length"%string T = true -> v_length v' <> None) /\ (contains "range"%string T = true -> v_range v' <> None).
Proof. intros dispf v T v' H. unfold va_step in H.
  destruct (parse_constraint "length"%string parse_u64 T) as [|l] eqn:El; [discriminate H|].
  destruct (parse_constraint "range"%string dispf T) as [|r] eqn:Er; [discriminate H|]. cbn [obind] in H.
  inversion H; subst; clear H. cbn [v_email v_url v_length v_range].
  split; [intros Hc; rewrite Hc; apply orb_true_r|]. split; [intros Hc; rewrite Hc; apply orb_true_r|].
  split; intros Hc.
  - unfold parse_constraint in El. rewrite Hc in El. destruct (paren_content "length"%string T).
    + destruct (parse_message s) as [|m]; cbn [obind] in El; [discriminate El|]. inversion El; subst. discriminate.
    + inversion El; subst. discriminate.
  - unfold parse_constraint in Er. rewrite Hc in Er. destruct (paren_content "range"%string T).
    + destruct (parse_message s) as [|m]; cbn [obind] in Er; [discriminate Er|]. inversion Er; subst. discriminate.
    + inversion Er; subst. discriminate. Qed.

(* ... and a keyword inside one item of an attribute is a keyword inside the attribute's token string *)
Lemma starts_app_r : forall p x y, starts p x = true -> starts p (x ++ y) = true.
Proof. induction p as [|a p IH]; intros [|b x] y H; cbn [starts app] in *; try reflexivity; try discriminate H.
  apply andb_true_iff in H as [H1 H2]. rewrite H1, (IH x y H2). reflexivity. Qed.
Lemma fs_some_app_r : forall p x y, is_some (fs p x) = true -> is_some (fs p (x ++ y)) = true.
Proof. induction x as [|a x IH]; intros y H.
  - cbn [fs] in H. destruct p as [|c p]; [|discriminate H]. cbn [app]. rewrite fs_unfold. reflexivity.
  - rewrite fs_unfold in H. cbn [app]. rewrite fs_unfold. destruct (starts p (a :: x)) eqn:E.
    + change (a :: x ++ y) with ((a :: x) ++ y). rewrite (starts_app_r _ _ y E). reflexivity.
    + rewrite is_some_pre in H. destruct (starts p (a :: x ++ y)); [reflexivity|]. rewrite is_some_pre. apply IH. exact H. Qed.
Lemma fs_some_app_l : forall p a x, is_some (fs p x) = true -> is_some (fs p (a ++ x)) = true.
Proof. induction a as [|c a IH]; intros x H; [exact H|]. cbn [app]. rewrite fs_unfold.
  destruct (starts p (c :: a ++ x)); [reflexivity|]. rewrite is_some_pre. apply IH. exact H. Qed.
Lemma join_has : forall sep (X : str) xs, In X xs -> exists A B, join sep xs = A ++ X ++ B.
Proof. intros sep X. induction xs as [|x xs IH]; intros Hin; [contradiction|].
  destruct xs as [|x2 xs].
  - destruct Hin as [->|[]]. exists [], []. cbn [join app]. rewrite app_nil_r. reflexivity.
  - rewrite join_cons by discriminate. destruct Hin as [->|Hin].
    + exists [], (sep ++ join sep (x2 :: xs)). reflexivity.
    + destruct (IH Hin) as [A [B E]]. exists (x ++ sep ++ A), B. rewrite E, <- !app_assoc. reflexivity. Qed.
Theorem keyword_in_item : forall fl s (kw : string), In s fl -> contains kw (stext s) = true ->
  contains kw (items_tokens (map sitem fl)) = true.
Proof. intros fl s kw Hin Hc. rewrite items_tokens_join, map_map.
  destruct (join_has (L " , ") (stext s) (map (fun x => item_text (sitem x)) fl)) as [A [B E]].
  { apply in_map_iff. exists s. split; [reflexivity|exact Hin]. }
  rewrite E. unfold contains in *. rewrite find_sub_fs in *.
  assert (H : is_some (fs (L kw) (A ++ stext s ++ B)) = true).
  { apply fs_some_app_l, fs_some_app_r. destruct (fs (L kw) (stext s)); [reflexivity|discriminate Hc]. }
  destruct (fs (L kw) (A ++ stext s ++ B)); [reflexivity|discriminate H]. Qed.
