(* C11, scanning half continued: several validators in one attribute (email / url flags around a canonical
   length / range validator), attributes made of flags only, and the loop over several #[validate] attributes. *)
From Coq Require Import String Ascii List Arith Lia Bool NArith.
Require Import TT.Model.Str TT.Model.C11Validator TT.Spec.C11Spec TT.Proofs.C11Proofs TT.Proofs.C11Scan.
Import ListNotations.
Local Open Scope char_scope.
Local Open Scope list_scope.

(* ------------------------------------------------------------------ token printing of comma separated items *)
Definition nj (l : list tt) : bool := forallb (fun t => negb (joint_of t)) l.
Lemma tok_go_app : forall l first m, nj l = true -> l <> [] ->
  tok_go first false (l ++ m) = tok_go first false l ++ tok_go false false m.
Proof. induction l as [|x l IH]; intros first m Hn Hne; [contradiction|].
  cbn [nj forallb] in Hn. apply andb_true_iff in Hn as [Hx Hl]. apply negb_true_iff in Hx.
  cbn [app tok_go]. rewrite Hx. destruct l as [|y l].
  - cbn [app tok_go]. rewrite app_nil_r, <- app_assoc. reflexivity.
  - rewrite (IH false m Hl ltac:(discriminate)). rewrite <- !app_assoc. reflexivity. Qed.
Lemma tok_go_false : forall l, l <> [] -> tok_go false false l = L " " ++ tok_go true false l.
Proof. intros [|x l] H; [contradiction|reflexivity]. Qed.
Lemma join_cons : forall sep (x : str) xs, xs <> [] -> join sep (x :: xs) = x ++ sep ++ join sep xs.
Proof. intros sep x [|y ys] H; [contradiction|reflexivity]. Qed.
Lemma sep_toks_ne : forall l ls, l <> [] -> sep_toks comma (l :: ls) <> [].
Proof. intros l [|l2 ls] H; cbn [sep_toks]; [exact H|]. destruct l; [contradiction|discriminate]. Qed.
Lemma items_join : forall ls, (forall l, In l ls -> nj l = true /\ l <> []) ->
  tok_string (sep_toks comma ls) = join (L " , ") (map tok_string ls).
Proof. induction ls as [|l ls IH]; intros H; [reflexivity|]. destruct ls as [|l2 ls]; [reflexivity|].
  destruct (H l (or_introl eq_refl)) as [Hn Hne].
  assert (H2 : forall x, In x (l2 :: ls) -> nj x = true /\ x <> []) by (intros x Hx; apply H; right; exact Hx).
  change (sep_toks comma (l :: l2 :: ls)) with (l ++ comma :: sep_toks comma (l2 :: ls)).
  unfold tok_string at 1. rewrite tok_go_app by assumption.
  change (tok_go false false (comma :: sep_toks comma (l2 :: ls))) with (L " ," ++ tok_go false false (sep_toks comma (l2 :: ls))).
  rewrite tok_go_false by (apply sep_toks_ne; apply (H2 l2); left; reflexivity).
  fold (tok_string (sep_toks comma (l2 :: ls))). rewrite (IH H2).
  change (map tok_string (l :: l2 :: ls)) with (tok_string l :: map tok_string (l2 :: ls)).
  rewrite join_cons by discriminate. unfold tok_string at 1. rewrite <- ?app_assoc. reflexivity. Qed.

Definition item_text (i : item) : str := tok_string (item_toks i).
Lemma item_toks_ok : forall i, nj (item_toks i) = true /\ item_toks i <> [].
Proof. intros [a|a|[a|]|[a|]|n [kv|]]; split; try reflexivity; discriminate. Qed.
Lemma items_tokens_join : forall items, items_tokens items = join (L " , ") (map item_text items).
Proof. intros items. unfold items_tokens. rewrite items_join.
  - rewrite map_map. reflexivity.
  - intros l Hl. apply in_map_iff in Hl as [i [<- _]]. apply item_toks_ok. Qed.

(* prefix items and suffix items around a distinguished one *)
Definition pfx (xs : list str) : str := flat_map (fun x => x ++ L " , ") xs.
Definition sfx (ys : list str) : str := flat_map (fun y => L " , " ++ y) ys.
Lemma join_mid_sfx : forall M ys, join (L " , ") (M :: ys) = M ++ sfx ys.
Proof. intros M ys. revert M. induction ys as [|y ys IH]; intros M; [cbn [join sfx flat_map]; rewrite app_nil_r; reflexivity|].
  rewrite join_cons by discriminate. rewrite IH. cbn [sfx flat_map]. rewrite <- !app_assoc. reflexivity. Qed.
Lemma join_around : forall xs M ys, join (L " , ") (xs ++ M :: ys) = pfx xs ++ M ++ sfx ys.
Proof. induction xs as [|x xs IH]; intros M ys; [apply join_mid_sfx|].
  cbn [app]. rewrite join_cons by (destruct xs; discriminate). rewrite IH. cbn [pfx flat_map]. rewrite <- !app_assoc. reflexivity. Qed.

(* ------------------------------------------------------------------ email / url flags *)
Inductive flag := FE | FU.
Definition ftext (f : flag) : str := match f with FE => L "email" | FU => L "url" end.
Definition fitem (f : flag) : item := match f with FE => IEmail None | FU => IUrl None end.
Definition flag_eqb (a b : flag) : bool := match a, b with FE, FE | FU, FU => true | _, _ => false end.
Definition has_flag (g : flag) (l : list flag) : bool := existsb (flag_eqb g) l.
Definition is_some {A} (o : option A) : bool := match o with Some _ => true | None => false end.
Lemma is_some_pre : forall x o, is_some (pre x o) = is_some o.
Proof. intros x [[a b]|]; reflexivity. Qed.
Lemma pre_pre : forall x y o, pre x (pre y o) = pre (x ++ y) o.
Proof. intros x y [[a b]|]; cbn [pre]; [rewrite app_assoc|]; reflexivity. Qed.
Lemma pre_nil : forall o, pre [] o = o.
Proof. intros [[a b]|]; reflexivity. Qed.

Definition lr_kw (p : string) : Prop := p = "length"%string \/ p = "range"%string.
Lemma pfx_skip : forall p, lr_kw p -> forall fl X,
  fs (L p) (pfx (map ftext fl) ++ X) = pre (pfx (map ftext fl)) (fs (L p) X).
Proof. intros p Hp fl X. induction fl as [|f fl IH]; [cbn [map pfx flat_map app]; rewrite pre_nil; reflexivity|].
  cbn [map pfx flat_map]. fold (pfx (map ftext fl)). rewrite <- !app_assoc.
  rewrite (app_assoc (ftext f) (L " , ")). rewrite fs_app_clean by (destruct Hp as [-> | ->]; destruct f; vm_compute; reflexivity).
  rewrite IH, pre_pre. rewrite <- !app_assoc. reflexivity. Qed.
Lemma sfx_shape : forall fl, sfx (map ftext fl) = [] \/ exists y, sfx (map ftext fl) = " " :: y.
Proof. intros [|f fl]; [left; reflexivity|right]. cbn [map sfx flat_map app L list_ascii_of_string]. eexists. reflexivity. Qed.
Lemma sfx_none : forall p, lr_kw p -> forall fl, fs (L p) (sfx (map ftext fl)) = None.
Proof. intros p Hp fl. induction fl as [|f fl IH]; [destruct Hp as [-> | ->]; reflexivity|].
  cbn [map sfx flat_map]. fold (sfx (map ftext fl)).
  destruct (sfx_shape fl) as [E | [y E]]; rewrite E in *.
  - rewrite app_nil_r. destruct Hp as [-> | ->]; destruct f; vm_compute; reflexivity.
  - rewrite fs_app_q by (destruct Hp as [-> | ->]; destruct f; vm_compute; reflexivity). rewrite IH. reflexivity. Qed.

Lemma fs_here : forall p X, fs p (p ++ X) = Some ([], X).
Proof. intros p X. rewrite fs_unfold, starts_app, skipn_app_len. reflexivity. Qed.
Lemma flag_pfx : forall g fl X,
  is_some (fs (ftext g) (pfx (map ftext fl) ++ X)) = has_flag g fl || is_some (fs (ftext g) X).
Proof. intros g fl X. induction fl as [|f fl IH]; [reflexivity|].
  cbn [map pfx flat_map has_flag existsb]. fold (pfx (map ftext fl)). fold (has_flag g fl). rewrite <- !app_assoc.
  destruct (flag_eqb g f) eqn:E.
  - assert (g = f) by (destruct g, f; try discriminate; reflexivity). subst f. rewrite fs_here. reflexivity.
  - rewrite (app_assoc (ftext f) (L " , ")).
    rewrite fs_app_clean by (destruct g, f; try discriminate E; vm_compute; reflexivity).
    rewrite is_some_pre, IH. reflexivity. Qed.
Lemma flag_sfx : forall g fl, is_some (fs (ftext g) (sfx (map ftext fl))) = has_flag g fl.
Proof. intros g fl. induction fl as [|f fl IH]; [destruct g; reflexivity|].
  cbn [map sfx flat_map has_flag existsb]. fold (sfx (map ftext fl)). fold (has_flag g fl). rewrite <- !app_assoc.
  rewrite fs_app_clean by (destruct g; vm_compute; reflexivity). rewrite is_some_pre.
  destruct (flag_eqb g f) eqn:E.
  - assert (g = f) by (destruct g, f; try discriminate; reflexivity). subst f. rewrite fs_here. reflexivity.
  - rewrite fs_app_clean by (destruct g, f; try discriminate E; vm_compute; reflexivity).
    rewrite is_some_pre, IH. reflexivity. Qed.
(* ------------------------------------------------------------------ one attribute: flags around a canonical validator *)
Definition mid (r : bool) (o : nat) (omin omax omsg : option str) : str :=
  L (kwof r) ++ L " (" ++ cont (pieces o omin omax omsg) ++ L ")".
Definition lr_items (pr : list flag) (r : bool) (o : nat) (omin omax omsg : option str) (po : list flag) : list item :=
  map fitem pr ++ canon_item r (canon_args o omin omax omsg) :: map fitem po.
Lemma tokens_lr : forall pr r o omin omax omsg po,
  items_tokens (lr_items pr r o omin omax omsg po) =
  pfx (map ftext pr) ++ mid r o omin omax omsg ++ sfx (map ftext po).
Proof. intros. unfold lr_items. rewrite items_tokens_join, map_app. cbn [map]. rewrite !map_map.
  replace (item_text (canon_item r (canon_args o omin omax omsg))) with (mid r o omin omax omsg)
    by (symmetry; apply tokens_canon).
  rewrite !(map_ext (fun x => item_text (fitem x)) ftext) by (intros [|]; reflexivity).
  apply join_around. Qed.

Section Step.
Variable dispf : str -> option str.
Variables (pr po : list flag) (r : bool) (o : nat) (omin omax omsg : option str).
Hypothesis (Hmin : okn omin) (Hmax : okn omax) (Hmsg : okm omsg).
Local Notation C := (cont (pieces o omin omax omsg)).
Local Notation T := (pfx (map ftext pr) ++ mid r o omin omax omsg ++ sfx (map ftext po)).

Lemma kw_is_lr : forall b, lr_kw (kwof b).
Proof. intros [|]; [right|left]; reflexivity. Qed.
Lemma fs_kw_T : fs (L (kwof r)) T = Some (pfx (map ftext pr), L " (" ++ C ++ L ")" ++ sfx (map ftext po)).
Proof. unfold mid. rewrite pfx_skip by apply kw_is_lr. rewrite <- !app_assoc. rewrite fs_here. cbn [pre]. rewrite app_nil_r. reflexivity. Qed.
Lemma fs_okw_T : fs (L (kwof (negb r))) T = None.
Proof. rewrite pfx_skip by apply kw_is_lr.
  pose proof (no_kw_tokens (kwof (negb r)) r o omin omax omsg Hmin Hmax Hmsg ltac:(cbn; tauto)) as Hn. fold (mid r o omin omax omsg) in Hn.
  destruct (sfx_shape po) as [-> | [y Hy]].
  - rewrite app_nil_r, Hn. reflexivity.
  - pose proof (sfx_none _ (kw_is_lr (negb r)) po) as Hs. rewrite Hy in *.
    rewrite fs_app_q by (auto; destruct r; reflexivity). rewrite Hs. reflexivity. Qed.
Lemma flag_T : forall g, is_some (fs (ftext g) T) = has_flag g (pr ++ po).
Proof. intros g. rewrite flag_pfx. unfold has_flag. rewrite existsb_app. f_equal.
  assert (Hn : fs (ftext g) (mid r o omin omax omsg) = None).
  { destruct g; [apply (no_kw_tokens "email")|apply (no_kw_tokens "url")]; auto; cbn; tauto. }
  pose proof (flag_sfx g po) as Hs. destruct (sfx_shape po) as [E | [y Hy]].
  - rewrite E in *. rewrite app_nil_r, Hn. destruct g; exact Hs.
  - rewrite Hy in *. rewrite fs_app_q by (auto; destruct g; reflexivity). rewrite is_some_pre. exact Hs. Qed.

Lemma parse_hit : forall numf, parse_constraint (kwof r) numf T =
  Ok (Some {| c_min := onum numf omin; c_max := onum numf omax; c_msg := omsg |}).
Proof. intros numf. unfold parse_constraint, contains, paren_content. rewrite !find_sub_fs, fs_kw_T.
  replace (L (kwof r) ++ L " (" ++ C ++ L ")" ++ sfx (map ftext po))
    with ((L (kwof r) ++ L " ") ++ "(" :: (C ++ ")" :: sfx (map ftext po))) by (rewrite <- app_assoc; reflexivity).
  rewrite after_char_app by (destruct r; reflexivity).
  rewrite find_char_app by (apply lacks_paren_cont; assumption). rewrite firstn_app_len.
  destruct (bounds_canon o omin omax omsg Hmin Hmax Hmsg) as [Bmin Bmax].
  rewrite Bmin, Bmax. rewrite message_canon by assumption. cbn [obind]. unfold onum. destruct omin, omax; reflexivity. Qed.
Lemma parse_miss : forall numf, parse_constraint (kwof (negb r)) numf T = Ok None.
Proof. intros numf. unfold parse_constraint, contains. rewrite find_sub_fs, fs_okw_T. reflexivity. Qed.

End Step.

(* what one such attribute does to the accumulated ValidatorAttributes *)
Definition lr_effect (dispf : str -> option str) (pr po : list flag) (r : bool) (omin omax omsg : option str) (v : vattrs) : vattrs :=
  let c := {| c_min := onum (if r then dispf else parse_u64) omin;
              c_max := onum (if r then dispf else parse_u64) omax; c_msg := omsg |} in
  {| v_length := if r then v_length v else Some c; v_range := if r then Some c else v_range v;
     v_email := v_email v || has_flag FE (pr ++ po); v_url := v_url v || has_flag FU (pr ++ po) |}.
Lemma va_step_lr : forall dispf pr po r o omin omax omsg, okn omin -> okn omax -> okm omsg -> forall v,
  va_step dispf v (pfx (map ftext pr) ++ mid r o omin omax omsg ++ sfx (map ftext po)) =
  Ok (lr_effect dispf pr po r omin omax omsg v).
Proof. intros dispf pr po r o omin omax omsg Hmin Hmax Hmsg v. unfold va_step, contains. rewrite !find_sub_fs.
  pose proof (flag_T pr po r o omin omax omsg Hmin Hmax Hmsg FE) as He.
  pose proof (flag_T pr po r o omin omax omsg Hmin Hmax Hmsg FU) as Hu. cbn [ftext] in He, Hu. unfold is_some in He, Hu.
  pose proof (parse_hit pr po r o omin omax omsg Hmin Hmax Hmsg) as Hh.
  pose proof (parse_miss pr po r o omin omax omsg Hmin Hmax Hmsg) as Hm.
  destruct r; cbn [kwof negb] in *; rewrite Hm, Hh; cbn [obind]; unfold lr_effect;
    match goal with |- context [fs (L "email") ?T] => destruct (fs (L "email") T), (fs (L "url") T) end;
    rewrite <- He, <- Hu; reflexivity. Qed.

(* ------------------------------------------------------------------ an attribute made of flags only *)
Definition flags_effect (fl : list flag) (v : vattrs) : vattrs :=
  {| v_length := v_length v; v_range := v_range v;
     v_email := v_email v || has_flag FE fl; v_url := v_url v || has_flag FU fl |}.
Lemma tokens_flags : forall fl, items_tokens (map fitem fl) =
  match fl with [] => [] | f :: fl' => ftext f ++ sfx (map ftext fl') end.
Proof. intros fl. rewrite items_tokens_join, map_map.
  rewrite (map_ext (fun x => item_text (fitem x)) ftext) by (intros [|]; reflexivity).
  destruct fl as [|f fl]; [reflexivity|]. cbn [map]. apply join_mid_sfx. Qed.
Lemma flags_no_lr : forall p, lr_kw p -> forall fl, fs (L p) (items_tokens (map fitem fl)) = None.
Proof. intros p Hp fl. rewrite tokens_flags. destruct fl as [|f fl]; [destruct Hp as [-> | ->]; reflexivity|].
  destruct (sfx_shape fl) as [E | [y E]]; rewrite E.
  - rewrite app_nil_r. destruct Hp as [-> | ->]; destruct f; vm_compute; reflexivity.
  - rewrite fs_app_q by (destruct Hp as [-> | ->]; destruct f; vm_compute; reflexivity).
    rewrite <- E, (sfx_none p Hp fl). reflexivity. Qed.
Lemma flags_flag : forall g fl, is_some (fs (ftext g) (items_tokens (map fitem fl))) = has_flag g fl.
Proof. intros g fl. rewrite tokens_flags. destruct fl as [|f fl]; [destruct g; reflexivity|].
  cbn [has_flag existsb]. fold (has_flag g fl). destruct (flag_eqb g f) eqn:E.
  - assert (g = f) by (destruct g, f; try discriminate; reflexivity). subst f. rewrite fs_here. reflexivity.
  - rewrite fs_app_clean by (destruct g, f; try discriminate E; vm_compute; reflexivity).
    rewrite is_some_pre. apply flag_sfx. Qed.
Lemma va_step_flags : forall dispf fl v, va_step dispf v (items_tokens (map fitem fl)) = Ok (flags_effect fl v).
Proof. intros dispf fl v. unfold va_step, parse_constraint, contains. rewrite !find_sub_fs.
  rewrite (flags_no_lr "length" (or_introl eq_refl)), (flags_no_lr "range" (or_intror eq_refl)). cbn [obind].
  pose proof (flags_flag FE fl) as He. pose proof (flags_flag FU fl) as Hu. cbn [ftext] in He, Hu. unfold is_some in He, Hu.
  unfold flags_effect. destruct (fs (L "email") _), (fs (L "url") _); rewrite <- He, <- Hu; reflexivity. Qed.

(* ------------------------------------------------------------------ the loop over the attributes of a field *)
Inductive sattr :=
| SLr (pr : list flag) (r : bool) (o : nat) (omin omax omsg : option str) (po : list flag)   (* #[validate(flags, length|range(..), flags)] *)
| SFlags (fl : list flag)                                                                 (* #[validate(flags)], #[validate()] *)
| SPath                                                                                   (* #[validate] *)
| SOther.                                                                                 (* not a validate attribute *)
Definition attr_of (s : sattr) : attr :=
  match s with
  | SLr pr r o a b m po => AValidate (lr_items pr r o a b m po)
  | SFlags fl => AValidate (map fitem fl)
  | SPath => AValidatePath
  | SOther => ANotValidate end.
Definition sattr_ok (s : sattr) : Prop := match s with SLr _ _ _ a b m _ => okn a /\ okn b /\ okm m | _ => True end.
Definition is_val (s : sattr) : bool := match s with SOther => false | _ => true end.
Definition effect (dispf : str -> option str) (v : vattrs) (s : sattr) : vattrs :=
  match s with
  | SLr pr r o a b m po => lr_effect dispf pr po r a b m v
  | SFlags fl => flags_effect fl v
  | _ => v end.

Lemma va_fold_loop : forall dispf ss v found, Forall sattr_ok ss ->
  va_fold dispf v found (map attr_view (map attr_of ss)) =
  Ok (if found || existsb is_val ss then Some (fold_left (effect dispf) ss v) else None).
Proof. intros dispf ss. induction ss as [|s ss IH]; intros v found Hok.
  - cbn [map va_fold existsb fold_left]. rewrite orb_false_r. reflexivity.
  - inversion Hok as [|? ? Hs Hss]; subst. cbn [map existsb fold_left]. destruct s as [pr r o a b m po|fl| |]; cbn [attr_of attr_view va_fold is_val effect].
    + destruct Hs as [Ha [Hb Hm]]. rewrite tokens_lr, va_step_lr by assumption. cbn [obind]. rewrite IH by exact Hss.
      rewrite orb_true_r. reflexivity.
    + rewrite va_step_flags. cbn [obind]. rewrite IH by exact Hss. rewrite orb_true_r. reflexivity.
    + rewrite IH by exact Hss. rewrite orb_true_r. reflexivity.
    + rewrite IH by exact Hss. rewrite orb_false_l. reflexivity. Qed.

(* ValidatorParser::parse_validator_attributes on ANY list of such attributes, in any order:
   no panic, and the result is the left fold of the per-attribute effects *)
Theorem loop_exact : forall dispf ss, Forall sattr_ok ss ->
  parse_validator_attributes dispf (map attr_of ss) =
  Ok (if existsb is_val ss then Some (fold_left (effect dispf) ss va_init) else None).
Proof. intros dispf ss H. unfold parse_validator_attributes. rewrite va_fold_loop by exact H. reflexivity. Qed.

(* later attributes only add: an attribute that declares no length leaves the length parsed so far alone
   (same for range); flags are never reset *)
Definition declares_length (s : sattr) : bool := match s with SLr _ false _ _ _ _ _ => true | _ => false end.
Definition declares_range (s : sattr) : bool := match s with SLr _ true _ _ _ _ _ => true | _ => false end.
Lemma effect_keeps : forall dispf s v,
  (declares_length s = false -> v_length (effect dispf v s) = v_length v) /\
  (declares_range s = false -> v_range (effect dispf v s) = v_range v) /\
  (v_email v = true -> v_email (effect dispf v s) = true) /\ (v_url v = true -> v_url (effect dispf v s) = true).
Proof. intros dispf [pr [|] o a b m po|fl| |] v; cbn [effect lr_effect flags_effect declares_length declares_range v_length v_range v_email v_url];
  repeat split; intros H; try reflexivity; try discriminate H; try (rewrite H; reflexivity); exact H. Qed.
Lemma fold_keeps : forall dispf ss v,
  (existsb declares_length ss = false -> v_length (fold_left (effect dispf) ss v) = v_length v) /\
  (existsb declares_range ss = false -> v_range (fold_left (effect dispf) ss v) = v_range v) /\
  (v_email v = true -> v_email (fold_left (effect dispf) ss v) = true) /\ (v_url v = true -> v_url (fold_left (effect dispf) ss v) = true).
Proof. intros dispf ss. induction ss as [|s ss IH]; intros v; [cbn [fold_left]; auto|].
  cbn [fold_left existsb]. destruct (IH (effect dispf v s)) as [I1 [I2 [I3 I4]]]. destruct (effect_keeps dispf s v) as [E1 [E2 [E3 E4]]].
  repeat split; intros H.
  - apply orb_false_iff in H as [Hs Hr]. rewrite (I1 Hr). apply E1. exact Hs.
  - apply orb_false_iff in H as [Hs Hr]. rewrite (I2 Hr). apply E2. exact Hs.
  - apply I3. apply E3. exact H.
  - apply I4. apply E4. exact H. Qed.
Theorem later_attrs_only_add : forall dispf ss1 ss2, Forall sattr_ok (ss1 ++ ss2) -> existsb is_val ss1 = true ->
  exists v1 v, parse_validator_attributes dispf (map attr_of ss1) = Ok (Some v1) /\
               parse_validator_attributes dispf (map attr_of (ss1 ++ ss2)) = Ok (Some v) /\
    (existsb declares_length ss2 = false -> v_length v = v_length v1) /\
    (existsb declares_range ss2 = false -> v_range v = v_range v1) /\
    (v_email v1 = true -> v_email v = true) /\ (v_url v1 = true -> v_url v = true).
Proof. intros dispf ss1 ss2 Hok Hv. pose proof Hok as Hok1. apply Forall_app in Hok1 as [Hok1 _].
  exists (fold_left (effect dispf) ss1 va_init), (fold_left (effect dispf) (ss1 ++ ss2) va_init).
  rewrite !loop_exact by assumption. rewrite existsb_app, Hv. cbn [orb]. split; [reflexivity|]. split; [reflexivity|].
  rewrite fold_left_app. apply fold_keeps. Qed.
