(* C12, string level, part 3: a custom payload type name N renders to types.N *)
From Coq Require Import String Ascii List Arith Lia Bool.
Require Import TT.Model.Str TT.Model.TypeParse TT.Model.Render TT.Model.Pipeline TT.Model.Events TT.Spec.C05Spec TT.Spec.C05Known.
Require Import TT.Proofs.StrFacts TT.Proofs.TypeParseProofs TT.Proofs.C05PrefixProofs.
Import ListNotations.
Local Open Scope list_scope.

Lemma starts_absent p s c : In c p -> ~ In c s -> starts p s = false.
Proof. intros Hp Hs. destruct (starts p s) eqn:E; [|reflexivity]. exfalso. apply Hs. exact (starts_in p s c E Hp). Qed.
Lemma atp_ident f n : idstr n -> builtin n = false -> Pipeline.atp (S f) n = L "types." ++ n.
Proof.
  intros Hs Hb.
  assert (N : forall c, is_idc c = false -> ~ In c n) by (intros c Hc; apply idstr_no; assumption).
  assert (G : name_in n ["void"; "string"; "number"; "boolean"; "any"; "unknown"; "null"; "undefined"]%string = false)
    by exact (builtin_false_globals n Hb).
  assert (S1 : Pipeline.strip_suffix (L "[]") n = None) by (apply (strip_suffix_absent (L "[]") n "]"%char); [right; left; reflexivity|apply N; reflexivity]).
  assert (S2 : Pipeline.strip_suffix (L " | null") n = None) by (apply (strip_suffix_absent (L " | null") n " "%char); [left; reflexivity|apply N; reflexivity]).
  assert (S3 : Pipeline.strip_suffix (L " | undefined") n = None) by (apply (strip_suffix_absent (L " | undefined") n " "%char); [left; reflexivity|apply N; reflexivity]).
  assert (T1 : starts (L "Record<") n = false) by (apply (starts_absent _ _ "<"%char); [cbn; tauto|apply N; reflexivity]).
  assert (T2 : starts (L "Map<") n = false) by (apply (starts_absent _ _ "<"%char); [cbn; tauto|apply N; reflexivity]).
  assert (T3 : starts (L "[") n = false) by (apply (starts_absent _ _ "["%char); [left; reflexivity|apply N; reflexivity]).
  assert (T4 : starts (L "types.") n = false) by (apply (starts_absent _ _ "."%char); [cbn; tauto|apply N; reflexivity]).
  cbn [Pipeline.atp]. rewrite G, S1, T1, T2, S2, S3, T3, T4. reflexivity.
Qed.

Theorem payload_ts_custom n : ident n -> idstr n -> prim_of n = None -> builtin n = false ->
  payload_ts n = L "types." ++ n.
Proof.
  intros Hi Hs Hp Hb. unfold payload_ts, parse_type_structure.
  assert (E : parse (S (List.length n)) (tts (RPath n [])) = Some (sem (RPath n []))).
  { apply parse_tts_faithful.
    - cbn [wf]. split; [exact Hi|]. split; [|exact Logic.I]. unfold arity_ok. cbn [List.length]. repeat split; intros; auto; lia.
    - cbn [kf_result_ok_has_comma existsb]. rewrite andb_false_r. reflexivity.
    - reflexivity.
    - cbn [height fold_right]. destruct Hi as [Hne _]. destruct n; [congruence|]. cbn [List.length]. lia. }
  rewrite tts_path_nil in E. rewrite E. cbn [sem]. rewrite Hp. cbn [render].
  unfold Pipeline.add_types_prefix. apply atp_ident; assumption.
Qed.
