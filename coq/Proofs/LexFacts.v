(* Reusable facts about the specification lexer TT.Spec.TsLex.lexm (stated over TsLex only):
   one-token steps (identifier, white space, punctuators, simple string literals) and their composition
   at token boundaries, with an existential remaining-fuel invariant so that no fuel-irrelevance lemma
   is needed.

   How to use.  [lexes P s ts] says: in front of any continuation r satisfying the boundary condition
   [P r], the string s is read as the tokens ts and lexing goes on with r.  Build it for pieces with
   [lexes_ident], [lexes_space], [lexes_single], [lexes_dot], [lexes_bar], [lexes_lt], [lexes_gt],
   [lexes_str], glue pieces with [lexes_app] (the side condition says that the second piece, followed by
   an admissible continuation, is an admissible continuation of the first), weaken the boundary with
   [lexes_weaken], and finish with [lexes_module]:  lex_module s = ts. *)
From Coq Require Import String Ascii.
From Coq Require Import List Arith Lia Bool.
Require Import TT.Model.Str TT.Spec.TsLex.
Import ListNotations.
Local Open Scope char_scope.
Local Open Scope list_scope.

(* ---------------- characters ---------------- *)
Lemma id_start_facts c : is_id_start c = true ->
  is_ws c = false /\ Ascii.eqb c "/" = false /\ is_digit c = false /\ Ascii.eqb c """" = false /\
  Ascii.eqb c "'" = false /\ Ascii.eqb c "`" = false /\ c <> "=".
Proof.
  intros H.
  assert (Hn : forall d, is_id_start d = false -> c <> d) by (intros d Hd ->; congruence).
  repeat split; try (apply Ascii.eqb_neq; apply Hn; reflexivity); try (apply Hn; reflexivity).
  - destruct (is_ws c) eqn:E; [|reflexivity]. exfalso. unfold is_ws, is_id_start, n_of in *.
    repeat (apply orb_true_iff in E; destruct E as [E|E]); apply Nat.eqb_eq in E;
      repeat (apply orb_true_iff in H; destruct H as [H|H]); try (apply andb_true_iff in H; destruct H as [H1 H2]; apply Nat.leb_le in H1, H2; lia);
      try (apply Nat.eqb_eq in H; lia); try (apply Nat.leb_le in H; lia).
  - destruct (is_digit c) eqn:E; [|reflexivity]. exfalso. unfold is_digit, is_id_start, n_of in *.
    apply andb_true_iff in E. destruct E as [A B]. apply Nat.leb_le in A, B.
    repeat (apply orb_true_iff in H; destruct H as [H|H]); try (apply andb_true_iff in H; destruct H as [H1 H2]; apply Nat.leb_le in H1, H2; lia);
      try (apply Nat.eqb_eq in H; lia); try (apply Nat.leb_le in H; lia).
Qed.

(* an identifier in the lexer's sense: a start character followed by identifier characters *)
Definition ident (n : str) : bool := match n with c :: r => is_id_start c && forallb is_id_char r | [] => false end.
(* the continuation does not extend an identifier *)
Definition bnd (r : str) : Prop := match r with [] => True | c :: _ => is_id_char c = false end.

Lemma span_id n r : forallb is_id_char n = true -> bnd r -> span is_id_char (n ++ r) = (n, r).
Proof.
  induction n as [|c n' IH]; intros Hn Hr.
  - cbn [app]. destruct r as [|c r']; [reflexivity|]. cbn [span]. cbn in Hr. rewrite Hr. reflexivity.
  - cbn [forallb] in Hn. apply andb_true_iff in Hn. destruct Hn as [Hc Hn]. cbn [app span]. rewrite Hc, IH by assumption. reflexivity.
Qed.

(* ---------------- one-token steps ---------------- *)
Lemma lex_ident n r f : ident n = true -> bnd r -> lexm (S f) (n ++ r) = KId n :: lexm f r.
Proof.
  intros Hid Hr. destruct n as [|c n']; [discriminate|]. cbn [ident] in Hid. apply andb_true_iff in Hid. destruct Hid as [Hc Hn].
  destruct (id_start_facts c Hc) as [H1 [H2 _]].
  cbn [app lexm]. rewrite H1, H2. cbn [andb]. rewrite Hc.
  change (c :: n' ++ r) with ((c :: n') ++ r). rewrite span_id; [reflexivity| |exact Hr].
  cbn [forallb]. unfold is_id_char at 1. rewrite Hc. exact Hn.
Qed.

Lemma lex_ws c r f : is_ws c = true -> lexm (S f) (c :: r) = lexm f r.
Proof. intros H. cbn [lexm]. rewrite H. reflexivity. Qed.
Lemma lex_space r f : lexm (S f) (" " :: r) = lexm f r. Proof. reflexivity. Qed.

Lemma lex_punct c r f : is_ws c = false -> Ascii.eqb c "/" = false -> is_id_start c = false -> is_digit c = false ->
  Ascii.eqb c """" = false -> Ascii.eqb c "'" = false -> Ascii.eqb c "`" = false ->
  try_punct (c :: r) = Some ([c], r) -> lexm (S f) (c :: r) = KP [c] :: lexm f r.
Proof. intros H1 H2 H3 H4 H5 H6 H7 H8. cbn [lexm]. rewrite H1, H2, H3, H4, H5, H6, H7, H8. reflexivity. Qed.

(* evaluate the comparisons of the punctuator tables with a concrete first character *)
Ltac eval_head c :=
  repeat match goal with |- context [Ascii.eqb ?a c] =>
    first [change (Ascii.eqb a c) with false | change (Ascii.eqb a c) with true] end.

(* punctuators that start no longer punctuator: always one token *)
Definition single (c : ascii) : bool := existsb (Ascii.eqb c) (L "{}()[];:,~%^@#").
Lemma try_single c r : single c = true -> try_punct (c :: r) = Some ([c], r).
Proof.
  unfold single. cbn [L list_ascii_of_string existsb]. intros H.
  repeat (apply orb_true_iff in H; destruct H as [H|H]); try discriminate; apply Ascii.eqb_eq in H; subst c;
    unfold try_punct, puncts3, puncts2, puncts1; cbn [find L list_ascii_of_string starts];
    match goal with |- context [?c :: r] => eval_head c end; reflexivity.
Qed.
Lemma lex_single c r f : single c = true -> lexm (S f) (c :: r) = KP [c] :: lexm f r.
Proof.
  intros H. pose proof (try_single c r H) as Ht. unfold single in H. cbn [L list_ascii_of_string existsb] in H.
  repeat (apply orb_true_iff in H; destruct H as [H|H]); try discriminate; apply Ascii.eqb_eq in H; subst c;
    apply lex_punct; try reflexivity; exact Ht.
Qed.

(* "." not followed by "..", "|" not followed by "|", "<" and ">" not followed by "=" / a doubled sign *)
Lemma try_dot c r : Ascii.eqb "." c = false -> try_punct ("." :: c :: r) = Some (["."], c :: r).
Proof.
  intros E. unfold try_punct, puncts3, puncts2, puncts1. cbn [find L list_ascii_of_string starts].
  eval_head ".". cbn [andb]. rewrite E. cbn [andb skipn existsb orb]. eval_head ".". reflexivity.
Qed.
Lemma try_bar c r : Ascii.eqb "|" c = false -> try_punct ("|" :: c :: r) = Some (["|"], c :: r).
Proof.
  intros E. unfold try_punct, puncts3, puncts2, puncts1. cbn [find L list_ascii_of_string starts].
  eval_head "|". cbn [andb]. rewrite E. cbn [andb skipn existsb orb]. eval_head "|". reflexivity.
Qed.
Lemma try_lt c r : Ascii.eqb "=" c = false -> Ascii.eqb "<" c = false -> try_punct ("<" :: c :: r) = Some (["<"], c :: r).
Proof.
  intros E1 E2. unfold try_punct, puncts3, puncts2, puncts1. cbn [find L list_ascii_of_string starts].
  eval_head "<". cbn [andb]. rewrite E1, E2. cbn [andb skipn existsb orb]. eval_head "<". reflexivity.
Qed.
Definition noeq (r : str) : Prop := Forall (fun c => c <> "=") r.
Lemma try_gt r : noeq r -> try_punct (">" :: r) = Some ([">"], r).
Proof.
  intros Hr. unfold try_punct, puncts3, puncts2, puncts1.
  destruct r as [|x r2].
  - reflexivity.
  - inversion Hr as [|? ? Hx Hr2]; subst.
    assert (Ascii.eqb "=" x = false) as E1 by (apply Ascii.eqb_neq; congruence).
    destruct r2 as [|y r3].
    + cbn [find L list_ascii_of_string starts]. eval_head ">". cbn [andb]. rewrite E1. cbn [andb].
      destruct (Ascii.eqb ">" x); cbn [andb skipn existsb orb]; eval_head ">"; reflexivity.
    + inversion Hr2 as [|? ? Hy _]; subst.
      assert (Ascii.eqb "=" y = false) as E2 by (apply Ascii.eqb_neq; congruence).
      cbn [find L list_ascii_of_string starts]. eval_head ">". cbn [andb]. rewrite E1, E2. cbn [andb].
      destruct (Ascii.eqb ">" x); cbn [andb skipn existsb orb]; eval_head ">"; reflexivity.
Qed.
Lemma lex_dot c r f : is_id_start c = true -> lexm (S f) ("." :: c :: r) = KP ["."] :: lexm f (c :: r).
Proof. intros Hc. apply lex_punct; try reflexivity. apply try_dot. apply Ascii.eqb_neq. intros <-. discriminate. Qed.
Lemma lex_bar_sp r f : lexm (S f) ("|" :: " " :: r) = KP ["|"] :: lexm f (" " :: r).
Proof. apply lex_punct; try reflexivity. Qed.
Lemma lex_lt c r f : is_id_start c = true -> lexm (S f) ("<" :: c :: r) = KP ["<"] :: lexm f (c :: r).
Proof.
  intros Hc. apply lex_punct; try reflexivity. destruct (id_start_facts c Hc) as [_ [_ [_ [_ [_ [_ Hne]]]]]].
  apply try_lt; apply Ascii.eqb_neq; [congruence|intros <-; discriminate].
Qed.
Lemma lex_gt r f : noeq r -> lexm (S f) (">" :: r) = KP [">"] :: lexm f r.
Proof. intros Hr. apply lex_punct; try reflexivity. apply try_gt; exact Hr. Qed.

(* a string literal whose body has no quote of its kind, no backslash and no newline *)
Definition plain_body (q : ascii) (b : str) : bool :=
  forallb (fun c => negb (Ascii.eqb c q) && negb (Ascii.eqb c "\") && negb (Nat.eqb (n_of c) 10)) b.
Lemma scan_str_plain q b r acc : plain_body q b = true -> scan_str q (b ++ q :: r) acc = Some (rev acc ++ b, r).
Proof.
  revert acc. induction b as [|c b' IH]; intros acc Hb.
  - cbn [app scan_str]. rewrite Ascii.eqb_refl. rewrite app_nil_r. reflexivity.
  - cbn [plain_body forallb] in Hb. apply andb_true_iff in Hb. destruct Hb as [Hc Hb].
    apply andb_true_iff in Hc. destruct Hc as [Hc H3]. apply andb_true_iff in Hc. destruct Hc as [H1 H2].
    apply negb_true_iff in H1, H2, H3. cbn [app scan_str]. rewrite H1, H3, H2. rewrite IH by exact Hb.
    cbn [rev]. rewrite <- app_assoc. reflexivity.
Qed.
Lemma lex_str q b r f : (q = """" \/ q = "'") -> plain_body q b = true ->
  lexm (S f) (q :: b ++ q :: r) = KStr q b :: lexm f r.
Proof. intros [-> | ->] Hb; cbn [lexm]; rewrite scan_str_plain by exact Hb; reflexivity. Qed.

(* ---------------- composition at token boundaries ---------------- *)
Definition lexes (P : str -> Prop) (s : str) (ts : list tk) : Prop :=
  forall r f, P r -> List.length (s ++ r) < f ->
  exists f', List.length r < f' /\ lexm f (s ++ r) = ts ++ lexm f' r.

Lemma lexes_nil P : lexes P [] [].
Proof. intros r f _ Hf. exists f. split; [exact Hf|reflexivity]. Qed.
Lemma lexes_weaken (P Q : str -> Prop) s ts : (forall r, Q r -> P r) -> lexes P s ts -> lexes Q s ts.
Proof. intros H Hl r f Hr Hf. apply Hl; auto. Qed.
(* lex (a ++ b) = lex a ++ lex b  when b, in front of an admissible continuation, is an admissible continuation of a *)
Lemma lexes_app (P Q : str -> Prop) a b ta tb :
  lexes P a ta -> lexes Q b tb -> (forall r, Q r -> P (b ++ r)) -> lexes Q (a ++ b) (ta ++ tb).
Proof.
  intros Ha Hb Hpq r f Hr Hf. rewrite <- app_assoc in *.
  destruct (Ha (b ++ r) f (Hpq r Hr) Hf) as [f1 [Hf1 E1]]. destruct (Hb r f1 Hr Hf1) as [f2 [Hf2 E2]].
  exists f2. split; [exact Hf2|]. rewrite E1, E2, app_assoc. reflexivity.
Qed.
Lemma lexes_module (P : str -> Prop) s ts : lexes P s ts -> P [] -> lex_module s = ts.
Proof.
  intros Hl Hp. unfold lex_module. destruct (Hl [] (S (List.length s)) Hp) as [f' [Hf' E]]; [rewrite app_nil_r; lia|].
  rewrite app_nil_r in E. rewrite E. destruct f' as [|f'']; [cbn in Hf'; lia|]. cbn [lexm]. apply app_nil_r.
Qed.

(* pieces *)
Lemma lexes_ident (P : str -> Prop) n : ident n = true -> (forall r, P r -> bnd r) -> lexes P n [KId n].
Proof.
  intros Hid Hb r f Hr Hf. destruct f as [|f]; [lia|]. exists f. split.
  - rewrite app_length in Hf. destruct n; [discriminate|]. cbn [List.length] in Hf. lia.
  - rewrite lex_ident; [reflexivity|exact Hid|apply Hb; exact Hr].
Qed.
Lemma lexes_step (P : str -> Prop) c ts :
  (forall r f, P r -> lexm (S f) (c :: r) = ts ++ lexm f r) -> lexes P [c] ts.
Proof.
  intros H r f Hr Hf. destruct f as [|f]; [lia|]. exists f. split; [cbn [app List.length] in Hf; lia|].
  cbn [app]. apply H. exact Hr.
Qed.
Lemma lexes_space P : lexes P [" "] [].
Proof. apply lexes_step. intros r f _. reflexivity. Qed.
Lemma lexes_single P c : single c = true -> lexes P [c] [KP [c]].
Proof. intros H. apply lexes_step. intros r f _. apply lex_single. exact H. Qed.
Lemma lexes_dot (P : str -> Prop) : (forall r, P r -> exists c r', r = c :: r' /\ is_id_start c = true) -> lexes P ["."] [KP ["."]].
Proof. intros H. apply lexes_step. intros r f Hr. destruct (H r Hr) as [c [r' [-> Hc]]]. apply lex_dot. exact Hc. Qed.
Lemma lexes_bar (P : str -> Prop) : (forall r, P r -> exists r', r = " " :: r') -> lexes P ["|"] [KP ["|"]].
Proof. intros H. apply lexes_step. intros r f Hr. destruct (H r Hr) as [r' ->]. apply lex_bar_sp. Qed.
Lemma lexes_lt (P : str -> Prop) : (forall r, P r -> exists c r', r = c :: r' /\ is_id_start c = true) -> lexes P ["<"] [KP ["<"]].
Proof. intros H. apply lexes_step. intros r f Hr. destruct (H r Hr) as [c [r' [-> Hc]]]. apply lex_lt. exact Hc. Qed.
Lemma lexes_gt (P : str -> Prop) : (forall r, P r -> noeq r) -> lexes P [">"] [KP [">"]].
Proof. intros H. apply lexes_step. intros r f Hr. apply lex_gt. apply H. exact Hr. Qed.
Lemma lexes_str (P : str -> Prop) q b : (q = """" \/ q = "'") -> plain_body q b = true -> lexes P (q :: b ++ [q]) [KStr q b].
Proof.
  intros Hq Hb r f _ Hf. destruct f as [|f]; [lia|]. exists f. split.
  - cbn [app List.length] in Hf. rewrite !app_length in Hf. cbn [List.length] in Hf. lia.
  - cbn [app]. rewrite <- app_assoc. cbn [app]. rewrite lex_str by assumption. reflexivity.
Qed.

(* no error token in a list made of identifiers, punctuators and strings *)
Definition clean_tk (t : tk) : bool := match t with KErr _ => false | _ => true end.
Lemma has_err_clean l : forallb clean_tk l = true -> has_err l = false.
Proof.
  unfold has_err. induction l as [|t r IH]; [reflexivity|]. cbn [forallb existsb]. intros H. apply andb_true_iff in H. destruct H as [Ht Hr].
  rewrite IH by exact Hr. destruct t; try reflexivity. discriminate.
Qed.
