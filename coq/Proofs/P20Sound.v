(* The run-time oracle of C20 (Spec/P20.v) decides exactly the Prop-level statement of the
   type-ordering half: topo_ok_b g req out = true  <->  topo_spec g req out.
   Core: the saturation [closure] computes reachability (potential argument for the fuel). *)
From Coq Require Import List Arith Lia Bool.
Require Import TT.Model.Base TT.Model.Topo TT.Model.Kahn TT.Spec.P20 TT.Proofs.TopoProofs TT.Proofs.C20Extra.
Import ListNotations.

Section P20Sound.
Context {node : Type} {ED : EqDec node}.
Local Notation graph := (Topo.graph node).
(* Spec/P20.v uses Kahn.memb (same definition as Topo.memb) *)
Local Notation memb := (@Kahn.memb node ED).
Lemma kmemb_true x l : memb x l = true <-> In x l.
Proof. unfold Kahn.memb. destruct (in_dec eq_dec x l); split; auto; discriminate. Qed.
Lemma kmemb_false x l : memb x l = false <-> ~ In x l.
Proof. unfold Kahn.memb. destruct (in_dec eq_dec x l); split; auto; try discriminate; tauto. Qed.

(* ---------- potential: pending work + out-lists of keys not yet visited ---------- *)
Fixpoint wsum (acc : list node) (g : graph) : nat :=
  match g with
  | [] => 0
  | (k, ds) :: g' => (if memb k acc then 0 else length ds) + wsum acc g'
  end.
Definition phi (g : graph) (acc todo : list node) : nat := length todo + wsum acc g.

Lemma memb_cons_other (n k : node) acc : n <> k -> memb k (n :: acc) = memb k acc.
Proof.
  intros Hn. destruct (memb k acc) eqn:E.
  - apply kmemb_true. right. apply kmemb_true. exact E.
  - apply kmemb_false. intros [H|H]; [congruence|]. apply kmemb_false in E. tauto.
Qed.

Lemma wsum_mono n acc g : wsum (n :: acc) g <= wsum acc g.
Proof.
  induction g as [|[k ds] g IH]; cbn [wsum]; [lia|].
  destruct (eq_dec n k) as [E|Hn].
  - subst k.
    assert (memb n (n :: acc) = true) as -> by (apply kmemb_true; left; reflexivity).
    destruct (memb n acc); lia.
  - rewrite (memb_cons_other n k acc Hn). lia.
Qed.

Lemma wsum_add n acc g : ~ In n acc -> wsum (n :: acc) g + length (deps g n) <= wsum acc g.
Proof.
  intros Hn. induction g as [|[k ds] g IH]; cbn [wsum deps]; [cbn [length]; lia|].
  destruct (eq_dec n k) as [E|Hk].
  - subst k.
    assert (memb n (n :: acc) = true) as -> by (apply kmemb_true; left; reflexivity).
    assert (memb n acc = false) as -> by (apply kmemb_false; exact Hn).
    pose proof (wsum_mono n acc g). lia.
  - rewrite (memb_cons_other n k acc Hk). lia.
Qed.

Lemma wsum_nil_le g : wsum [] g <= sum_len g.
Proof.
  induction g as [|[k ds] g IH]; cbn [wsum sum_len fold_right]; [lia|].
  unfold sum_len in IH. cbn [snd]. destruct (memb k []); lia.
Qed.

(* ---------- closure computes the set of nodes reachable from acc-closed + todo ---------- *)
Lemma closure_ok g : forall fuel acc todo,
  phi g acc todo < fuel ->
  (forall u v, In u acc -> edge g u v -> In v acc \/ In v todo) ->
  incl acc (closure fuel g acc todo) /\ incl todo (closure fuel g acc todo) /\
  (forall u v, In u (closure fuel g acc todo) -> edge g u v -> In v (closure fuel g acc todo)) /\
  (forall n, In n (closure fuel g acc todo) -> In n acc \/ exists r, In r todo /\ reach g r n).
Proof.
  induction fuel as [|f IH]; intros acc todo Hphi Hinv; [lia|].
  destruct todo as [|n rest]; cbn [closure].
  - split; [apply incl_refl|]. split; [intros x []|]. split.
    + intros u v Hu He. destruct (Hinv u v Hu He) as [H|[]]. exact H.
    + intros x Hx. left. exact Hx.
  - destruct (memb n acc) eqn:Em.
    + apply kmemb_true in Em.
      destruct (IH acc rest) as (Ha & Ht & Hc & Hs).
      * unfold phi in *. cbn [length] in Hphi. lia.
      * intros u v Hu He. destruct (Hinv u v Hu He) as [H|[H|H]]; [left; exact H| subst v; left; exact Em | right; exact H].
      * split; [exact Ha|]. split.
        { intros x [Hx|Hx]; [subst x; apply Ha; exact Em | apply Ht; exact Hx]. }
        split; [exact Hc|].
        intros x Hx. destruct (Hs x Hx) as [H|(r & Hr & Hrx)]; [left; exact H|].
        right. exists r. split; [right; exact Hr | exact Hrx].
    + apply kmemb_false in Em.
      destruct (IH (n :: acc) (deps g n ++ rest)) as (Ha & Ht & Hc & Hs).
      * unfold phi in *. cbn [length] in Hphi. rewrite app_length.
        pose proof (wsum_add n acc g Em). lia.
      * intros u v [Hu|Hu] He.
        { subst u. right. apply in_or_app. left. exact He. }
        { destruct (Hinv u v Hu He) as [H|[H|H]].
          - left. right. exact H.
          - left. left. exact H.
          - right. apply in_or_app. right. exact H. }
      * split; [intros x Hx; apply Ha; right; exact Hx|]. split.
        { intros x [Hx|Hx]; [subst x; apply Ha; left; reflexivity | apply Ht; apply in_or_app; right; exact Hx]. }
        split; [exact Hc|].
        intros x Hx. destruct (Hs x Hx) as [[H|H]|(r & Hr & Hrx)].
        { subst x. right. exists n. split; [left; reflexivity | apply reach_refl]. }
        { left. exact H. }
        { right. apply in_app_or in Hr as [Hr|Hr].
          - exists n. split; [left; reflexivity|]. eapply reach_step; [exact Hr | exact Hrx].
          - exists r. split; [right; exact Hr | exact Hrx]. }
Qed.

Theorem reach_from_spec g roots n :
  In n (reach_from g roots) <-> exists r, In r roots /\ reach g r n.
Proof.
  unfold reach_from.
  destruct (closure_ok g (S (length roots + sum_len g + sum_len g)) [] roots) as (_ & Ht & Hc & Hs).
  - unfold phi. pose proof (wsum_nil_le g). lia.
  - intros u v [].
  - split.
    + intros H. destruct (Hs n H) as [[]|H']. exact H'.
    + intros (r & Hr & Hrn). apply Ht in Hr.
      induction Hrn as [a|a b c He _ IHr]; [exact Hr|]. apply IHr. eapply Hc; eassumption.
Qed.

Lemma reach_b_spec g a b : reach_b g a b = true <-> reach g a b.
Proof.
  unfold reach_b. rewrite kmemb_true, reach_from_spec. split.
  - intros (r & [<-|[]] & H). exact H.
  - intros H. exists a. split; [left; reflexivity | exact H].
Qed.

(* ---------- list predicates ---------- *)
Lemma nodup_b_spec (l : list node) : nodup_b l = true <-> NoDup l.
Proof.
  induction l as [|x l IH]; cbn [nodup_b]; [split; [constructor|reflexivity]|].
  rewrite andb_true_iff, negb_true_iff, kmemb_false, IH. split.
  - intros [H1 H2]. constructor; assumption.
  - intros H. inversion H; subst. split; assumption.
Qed.

Lemma index_of_nth x (l : list node) : forall i, index_of x l = Some i -> nth_error l i = Some x.
Proof.
  induction l as [|y l IH]; cbn [index_of]; intros i H; [discriminate|].
  destruct (eq_dec x y) as [->|Hn].
  - injection H as <-. reflexivity.
  - destruct (index_of x l) as [j|]; [|discriminate]. injection H as <-. cbn [nth_error]. apply IH. reflexivity.
Qed.

Lemma nth_index_of x (l : list node) : NoDup l -> forall i, nth_error l i = Some x -> index_of x l = Some i.
Proof.
  induction 1 as [|y l Hy Hnd IH]; intros i H; [destruct i; discriminate|].
  cbn [index_of]. destruct i as [|i]; cbn [nth_error] in H.
  - injection H as ->. destruct (eq_dec x x); [reflexivity|congruence].
  - destruct (eq_dec x y) as [->|Hn].
    + exfalso. apply Hy. eapply nth_error_In. exact H.
    + rewrite (IH i H). reflexivity.
Qed.

Lemma before_b_idx v u (l : list node) : before_b v u l = true -> idx_before l v u.
Proof.
  unfold before_b, idx_before. destruct (index_of v l) as [i|] eqn:Ei; [|discriminate].
  destruct (index_of u l) as [j|] eqn:Ej; [|discriminate]. intros H. apply Nat.ltb_lt in H.
  exists i, j. split; [apply index_of_nth; exact Ei|]. split; [apply index_of_nth; exact Ej | exact H].
Qed.

Lemma idx_before_b v u (l : list node) : NoDup l -> idx_before l v u -> before_b v u l = true.
Proof.
  intros Hnd (i & j & Hi & Hj & Hlt). unfold before_b.
  rewrite (nth_index_of v l Hnd i Hi), (nth_index_of u l Hnd j Hj). apply Nat.ltb_lt. exact Hlt.
Qed.

(* ---------- the statement the oracle decides ---------- *)
Definition topo_spec (g : graph) (req out : list node) : Prop :=
  NoDup out /\
  (forall n, In n out <-> exists r, In r req /\ reach g r n) /\
  (forall u v, In u out -> edge g u v -> ~ reach g v u -> idx_before out v u).

Theorem topo_ok_b_spec g req out : topo_ok_b g req out = true <-> topo_spec g req out.
Proof.
  unfold topo_ok_b, topo_spec. rewrite !andb_true_iff, nodup_b_spec, !forallb_forall. split.
  - intros [[[Hnd Hsub] Hsup] Hord]. split; [exact Hnd|]. split.
    + intros n. split.
      * intros Hn. apply reach_from_spec. apply kmemb_true. apply Hsub. exact Hn.
      * intros Hn. apply kmemb_true. apply Hsup. apply reach_from_spec. exact Hn.
    + intros u v Hu He Hnr. specialize (Hord u Hu). rewrite forallb_forall in Hord.
      specialize (Hord v He). apply orb_true_iff in Hord as [H|H].
      * exfalso. apply Hnr. apply reach_b_spec. exact H.
      * apply before_b_idx. exact H.
  - intros (Hnd & Hex & Hord). split; [split; [split; [exact Hnd|]|]|].
    + intros n Hn. apply kmemb_true. apply reach_from_spec. apply Hex. exact Hn.
    + intros n Hn. apply kmemb_true. apply Hex. apply reach_from_spec. exact Hn.
    + intros u Hu. apply forallb_forall. intros v He.
      destruct (reach_b g v u) eqn:Er; [reflexivity|]. cbn [orb].
      apply idx_before_b; [exact Hnd|]. apply Hord; [exact Hu | exact He |].
      intros Hr. apply reach_b_spec in Hr. congruence.
Qed.

(* the model's own output always passes the oracle *)
Corollary topo_sort_passes_oracle fuel g req out :
  topo_sort fuel g req = Some out -> topo_ok_b g req out = true.
Proof.
  intros H. apply topo_ok_b_spec. pose proof (topo_correct _ _ _ _ H) as (H1 & H2 & H3).
  split; [exact H1|]. split; [exact H2|]. exact H3.
Qed.
End P20Sound.
