(* C05: the namespace-qualified sites (return types, event payloads). Two halves:
   B. the qualified rendering renderq (every custom name printed as types.N) denotes the qualified
      shape - the lemmas of RenderProofs.v re-proved for the qualified printer;
   A. add_types_prefix applied to the text of the default visitor IS the qualified rendering whenever
      the structure lies outside the pinned class kf_prefix_unqualified (pfx_class = 0). *)
From Coq Require Import String Ascii.
From Coq Require Import List Arith Lia Bool.
Require Import TT.Model.Str TT.Proofs.StrFacts TT.Model.TypeParse TT.Spec.TsType TT.Proofs.TsTypeProofs.
Require Import TT.Model.Render TT.Proofs.RenderProofs TT.Proofs.TypeParseProofs.
Require Import TT.Model.C05Emit TT.Spec.C05Spec TT.Spec.C05Known.
Import ListNotations.
Local Open Scope char_scope.
Local Open Scope list_scope.

(* ---------------- B. qualified rendering ---------------- *)
Fixpoint renderq (t : tstruct) : str :=
  match t with
  | TPrim p => p
  | TArr u => renderq u ++ L "[]"
  | TMap k v => L "Record<" ++ renderq k ++ L ", " ++ renderq v ++ L ">"
  | TSet u => renderq u ++ L "[]"
  | TTuple [] => L "void"
  | TTuple l => L "[" ++ join (L ", ") (map renderq l) ++ L "]"
  | TOpt u => renderq u ++ L " | null"
  | TRes u => renderq u
  | TCustom n => L "types." ++ n
  end.
Fixpoint toksq (t : tstruct) : list tok :=
  match t with
  | TPrim p => [TId p]
  | TArr u => toksq u ++ [TLBr; TRBr]
  | TMap k v => TId (L "Record") :: TLt :: toksq k ++ TComma :: toksq v ++ [TGt]
  | TSet u => toksq u ++ [TLBr; TRBr]
  | TTuple [] => [TId (L "void")]
  | TTuple l => TLBr :: sep_by TComma (map toksq l) ++ [TRBr]
  | TOpt u => toksq u ++ [TBar; TId (L "null")]
  | TRes u => toksq u
  | TCustom n => [TId (L "types"); TDot; TId n]
  end.
Fixpoint shapeq (t : tstruct) : tsty :=
  match t with
  | TPrim p => TsName p []
  | TArr u => TsArray (shapeq u)
  | TMap k v => TsApp (L "Record") [] (shapeq k) [shapeq v]
  | TSet u => TsArray (shapeq u)
  | TTuple [] => TsName (L "void") []
  | TTuple l => TsTuple (map shapeq l)
  | TOpt u => union_snoc (shapeq u) null_t
  | TRes u => shapeq u
  | TCustom n => TsName (L "types") [n]
  end.

Lemma renderq_tuple a l : renderq (TTuple (a :: l)) = "[" :: join (L ", ") (map renderq (a :: l)) ++ ["]"].
Proof. reflexivity. Qed.
Lemma toksq_tuple a l : toksq (TTuple (a :: l)) = TLBr :: sep_by TComma (map toksq (a :: l)) ++ [TRBr].
Proof. reflexivity. Qed.

Lemma renderq_map k v : renderq (TMap k v) = L "Record" ++ "<" :: (renderq k ++ "," :: " " :: (renderq v ++ [">"])).
Proof. simpl. repeat rewrite <- app_assoc. reflexivity. Qed.
Lemma toksq_map k v : toksq (TMap k v) = TId (L "Record") :: TLt :: toksq k ++ TComma :: toksq v ++ [TGt].
Proof. reflexivity. Qed.
Lemma lex_punct c t cur' r : is_idc c = false -> punct c = Some (Some t) -> cur' = [] ->
  lex_go cur' (c :: r) = LT t :: lex_go [] r.
Proof. intros H1 H2 ->. simpl. rewrite H1, H2. reflexivity. Qed.
Lemma lex_space r : lex_go [] (" " :: r) = lex_go [] r.
Proof. reflexivity. Qed.

Lemma lex_renderq : forall t, ts_ok t -> forall r, bnd r ->
  lex_go [] (renderq t ++ r) = map LT (toksq t) ++ lex_go [] r.
Proof.
  induction t as [p|u IH|k v IHk IHv|u IH|l IH|u IH|u IH|n] using ts_ind'; intros Hok r Hr; simpl in Hok.
  - simpl. apply lex_ident; auto.
  - simpl renderq. simpl toksq. rewrite <- app_assoc. rewrite IH by (auto; reflexivity).
    rewrite map_app. rewrite <- app_assoc. reflexivity.
  - destruct Hok as [Hk Hv]. rewrite renderq_map, toksq_map.
    rewrite <- app_assoc. rewrite lex_ident by (try apply idstr_L_Record; reflexivity).
    cbn [app]. rewrite (lex_punct "<" TLt) by reflexivity.
    rewrite <- app_assoc. rewrite IHk by (auto; reflexivity).
    cbn [app]. rewrite (lex_punct "," TComma) by reflexivity. rewrite lex_space.
    rewrite <- app_assoc. rewrite IHv by (auto; reflexivity).
    cbn [app]. rewrite (lex_punct ">" TGt) by reflexivity.
    cbn [map]. rewrite !map_app. cbn [map]. rewrite ?map_app. cbn [map app]. repeat (rewrite <- app_assoc; cbn [app]). reflexivity.
  - simpl renderq. simpl toksq. rewrite <- app_assoc. rewrite IH by (auto; reflexivity).
    rewrite map_app. rewrite <- app_assoc. reflexivity.
  - apply ts_ok_list in Hok. destruct l as [|a l].
    + simpl. apply (lex_ident (L "void")); auto. apply idstr_L_void.
    + rewrite renderq_tuple, toksq_tuple.
      (* induction over the elements *)
      assert (Hgen : forall es, es <> [] -> Forall (fun t => ts_ok t -> forall r, bnd r -> lex_go [] (renderq t ++ r) = map LT (toksq t) ++ lex_go [] r) es ->
                Forall ts_ok es -> forall r', bnd r' ->
                lex_go [] (join (L ", ") (map renderq es) ++ r') = map LT (sep_by TComma (map toksq es)) ++ lex_go [] r').
      { clear. induction es as [|e es IHes]; intros Hne HIH Hok r' Hr'; [congruence|].
        inversion HIH as [|? ? He HIH']; subst. inversion Hok as [|? ? Hoe Hok']; subst.
        destruct es as [|e' es].
        - change (map renderq [e]) with [renderq e]. change (map toksq [e]) with [toksq e].
          rewrite join_one, sep_by_one. apply He; auto.
        - change (map renderq (e :: e' :: es)) with (renderq e :: renderq e' :: map renderq es).
          change (map toksq (e :: e' :: es)) with (toksq e :: toksq e' :: map toksq es).
          rewrite join_cons2, sep_by_cons2. repeat rewrite <- app_assoc. rewrite He by (auto; reflexivity).
          change (lex_go [] (L ", " ++ join (L ", ") (renderq e' :: map renderq es) ++ r'))
            with (LT TComma :: lex_go [] (join (L ", ") (renderq e' :: map renderq es) ++ r')).
          change (renderq e' :: map renderq es) with (map renderq (e' :: es)).
          rewrite IHes by (auto; discriminate). rewrite map_app. cbn [map]. rewrite <- app_assoc. reflexivity. }
      cbn [app]. rewrite (lex_punct "[" TLBr) by reflexivity.
      rewrite <- app_assoc. cbn [app]. rewrite Hgen by (auto; try discriminate; reflexivity).
      rewrite (lex_punct "]" TRBr) by reflexivity.
      cbn [map]. rewrite map_app. cbn [map app]. repeat (rewrite <- app_assoc; cbn [app]). reflexivity.
  - change (renderq (TOpt u)) with (renderq u ++ " " :: "|" :: " " :: L "null").
    change (toksq (TOpt u)) with (toksq u ++ [TBar; TId (L "null")]).
    rewrite <- app_assoc. rewrite IH by (auto; reflexivity).
    cbn [app]. rewrite lex_space. rewrite (lex_punct "|" TBar) by reflexivity. rewrite lex_space.
    rewrite lex_ident by (auto; apply idstr_L_null).
    rewrite map_app. cbn [map]. repeat (rewrite <- app_assoc; cbn [app]). reflexivity.
  - simpl. apply IH; auto.
  - change (renderq (TCustom n)) with (L "types" ++ "." :: n). change (toksq (TCustom n)) with [TId (L "types"); TDot; TId n].
    rewrite <- app_assoc. rewrite lex_ident by (try (split; [discriminate|repeat constructor]); reflexivity).
    cbn [app]. rewrite (lex_punct "." TDot) by reflexivity. rewrite lex_ident by auto. reflexivity.
Qed.

Lemma is_union_shapeq u : is_union (shapeq u) = opt_like u.
Proof. induction u using ts_ind'; simpl; auto.
  - destruct l; reflexivity.
  - unfold union_snoc. destruct (shapeq u); reflexivity. Qed.





Lemma map_toksq_pr l : Forall (fun t => kf_union_under_seq t = false -> toksq t = pr (shapeq t)) l ->
  Forall (fun x => kf_union_under_seq x = false) l -> map toksq l = map pr (map shapeq l).
Proof. induction 1 as [|x xs Hx _ IH]; intros Hk; [reflexivity|]. inversion Hk; subst. cbn [map]. rewrite Hx by auto. f_equal. auto. Qed.

Lemma toksq_pr : forall t, kf_union_under_seq t = false -> toksq t = pr (shapeq t).
Proof. induction t as [p|u IH|k v IHk IHv|u IH|l IH|u IH|u IH|n] using ts_ind'; intros Hk; simpl in Hk.
  - reflexivity.
  - apply orb_false_elim in Hk as [Ho Hk]. simpl toksq. simpl shapeq. rewrite pr_array. unfold atom.
    rewrite is_union_shapeq, Ho. rewrite IH by auto. reflexivity.
  - apply orb_false_elim in Hk as [Hk1 Hk2]. rewrite toksq_map. simpl shapeq. rewrite pr_app_eq.
    cbn [flat_map app map]. rewrite sep_by_cons2, sep_by_one. rewrite IHk, IHv by auto.
    repeat (rewrite <- app_assoc; cbn [app]). reflexivity.
  - apply orb_false_elim in Hk as [Ho Hk]. simpl toksq. simpl shapeq. rewrite pr_array. unfold atom.
    rewrite is_union_shapeq, Ho. rewrite IH by auto. reflexivity.
  - destruct l as [|a l]; [reflexivity|]. rewrite toksq_tuple.
    change (shapeq (TTuple (a :: l))) with (TsTuple (map shapeq (a :: l))). rewrite pr_tuple_eq.
    apply existsb_false_Forall in Hk. rewrite (map_toksq_pr (a :: l)) by auto. reflexivity.
  - change (toksq (TOpt u)) with (toksq u ++ [TBar; TId (L "null")]). simpl shapeq. rewrite pr_union_snoc. rewrite IH by auto. reflexivity.
  - simpl. auto.
  - reflexivity.
Qed.

Lemma nf_shapeq : forall t, nf (shapeq t).
Proof. induction t as [p|u IH|k v IHk IHv|u IH|l IH|u IH|u IH|n] using ts_ind'; simpl; auto.
  - destruct l as [|a l]; [exact I|]. change (nf (TsTuple (map shapeq (a :: l)))).
    apply (proj2 (nf_list_iff nf (map shapeq (a :: l)))).
    clear -IH. induction IH; simpl; constructor; auto.
  - unfold union_snoc. destruct (shapeq u) eqn:E;
      try (split; [split; [exact IH|reflexivity] | split; [split; [exact I|reflexivity] | exact I]]).
    simpl in IH. destruct IH as (Ha & Hb & Hm). split; [tauto|]. split; [tauto|].
    apply (proj2 (nf_list_iff (fun x => nf x /\ is_union x = false) (more ++ [null_t]))).
    apply (proj1 (nf_list_iff (fun x => nf x /\ is_union x = false) more)) in Hm.
    apply Forall_app. split; auto. repeat constructor.
Qed.

Theorem renderq_denotes : forall t, ts_ok t -> kf_union_under_seq t = false ->
  ts_parse_str (renderq t) = Some (shapeq t).
Proof. intros t Hok Hk. unfold ts_parse_str, lex.
  rewrite <- (app_nil_r (renderq t)). rewrite lex_renderq by (auto; exact I). simpl lex_go. rewrite app_nil_r.
  assert (Hm : forall l, mapM (fun l => match l with LT t => Some t | LErr _ => None end) (map LT l) = Some l).
  { induction l; simpl; auto. rewrite IHl. reflexivity. }
  rewrite Hm. rewrite toksq_pr by auto. unfold ts_parse.
  rewrite <- (app_nil_r (pr (shapeq t))) at 2.
  rewrite parse_union_ok; auto. apply nf_shapeq. pose proof (size_le_len (shapeq t)). lia. exact I.
Qed.

(* ---- names: primitives are the four TypeScript primitives, declared names are not global names ---- *)
Local Open Scope string_scope.
Definition prim4 (p : str) : bool := one_of p ["void"; "string"; "number"; "boolean"].
Definition atp_globals : list string := ["void"; "string"; "number"; "boolean"; "any"; "unknown"; "null"; "undefined"].
Local Close Scope string_scope.
Fixpoint names_ok (t : tstruct) : Prop :=
  match t with
  | TPrim p => prim4 p = true
  | TCustom n => builtin n = false
  | TArr u | TSet u | TOpt u | TRes u => names_ok u
  | TMap k v => names_ok k /\ names_ok v
  | TTuple l => (fix go l := match l with [] => True | x :: l' => names_ok x /\ go l' end) l
  end.
Lemma names_ok_list l : (fix go l := match l with [] => True | x :: l' => names_ok x /\ go l' end) l <-> Forall names_ok l.
Proof. induction l; simpl; split; intros; auto. constructor; tauto. inversion H; subst; tauto. Qed.

Lemma prim4_builtin p : prim4 p = true -> builtin p = true /\ one_of p atp_globals = true.
Proof. unfold prim4, builtin, one_of, atp_globals. cbn [existsb]. intros H.
  repeat (apply orb_true_iff in H as [H|H]); rewrite H; cbn [orb]; rewrite ?orb_true_r; auto. Qed.
Lemma builtin_false_globals n : builtin n = false -> one_of n atp_globals = false.
Proof. unfold builtin, one_of, atp_globals. cbn [existsb]. intros H.
  repeat (apply orb_false_elim in H as [? H]).
  repeat match goal with Hx : str_eqb n _ = false |- _ => rewrite Hx; clear Hx end. reflexivity. Qed.

Lemma union_snoc_qualify a : qualify (union_snoc a null_t) = union_snoc (qualify a) null_t.
Proof. destruct a as [h [|x tl]| | | |]; cbn [qualify union_snoc]; try reflexivity.
  - destruct (builtin h); reflexivity.
  - rewrite map_app. reflexivity. Qed.

Lemma shapeq_qualify : forall t, names_ok t -> shapeq t = qualify (shape t).
Proof.
  induction t as [p|u IH|k v IHk IHv|u IH|l IH|u IH|u IH|n] using ts_ind'; intros Hn; cbn [names_ok] in Hn.
  - cbn [shapeq shape qualify]. destruct (prim4_builtin p Hn) as [-> _]. reflexivity.
  - cbn [shapeq shape qualify]. rewrite IH by auto. reflexivity.
  - destruct Hn as [Hk Hv]. cbn [shapeq shape qualify map]. rewrite IHk, IHv by auto. reflexivity.
  - cbn [shapeq shape qualify]. rewrite IH by auto. reflexivity.
  - apply names_ok_list in Hn. destruct l as [|a l]; [reflexivity|].
    change (shapeq (TTuple (a :: l))) with (TsTuple (map shapeq (a :: l))).
    change (shape (TTuple (a :: l))) with (TsTuple (map shape (a :: l))). cbn [qualify]. f_equal.
    rewrite map_map. apply map_ext_Forall. rewrite Forall_forall in *. intros x Hx. apply IH; auto.
  - cbn [shapeq shape]. rewrite union_snoc_qualify. rewrite IH by auto. reflexivity.
  - cbn [shapeq shape]. auto.
  - cbn [shapeq shape qualify]. rewrite Hn. reflexivity.
Qed.

Lemma renderq_nocustom : forall t, has_custom t = false -> renderq t = render t.
Proof.
  induction t as [p|u IH|k v IHk IHv|u IH|l IH|u IH|u IH|n] using ts_ind'; intros Hc; cbn [has_custom] in Hc;
    cbn [renderq render]; try (rewrite IH by auto); auto.
  - apply orb_false_elim in Hc as [Hk Hv]. rewrite IHk, IHv by auto. reflexivity.
  - destruct l as [|a l]; [reflexivity|]. apply existsb_false_Forall in Hc.
    assert (Hm : map renderq (a :: l) = map render (a :: l)).
    { apply map_ext_Forall. rewrite Forall_forall in *. intros x Hx. apply IH; auto. }
    change (renderq (TTuple (a :: l))) with (L "[" ++ join (L ", ") (map renderq (a :: l)) ++ L "]").
    change (render (TTuple (a :: l))) with (L "[" ++ join (L ", ") (map render (a :: l)) ++ L "]").
    rewrite Hm. reflexivity.
  - discriminate.
Qed.

(* ---------------- A. add_types_prefix on the text of the default visitor ---------------- *)
(* string facts *)
Lemma starts_in p : forall s c, starts p s = true -> In c p -> In c s.
Proof. induction p as [|a p IH]; intros s c H Hin; [destruct Hin|]. destruct s as [|b s]; [discriminate|].
  cbn [starts] in H. apply andb_true_iff in H as [Hab H]. apply Ascii.eqb_eq in Hab. subst b.
  destruct Hin as [<-|Hin]; [left; reflexivity | right; eapply IH; eauto]. Qed.
Lemma starts_app_l p : forall a b, starts p a = true -> starts p (a ++ b) = true.
Proof. induction p as [|x p IH]; intros a b H; [reflexivity|]. destruct a as [|y a]; [discriminate|].
  cbn [starts app] in *. apply andb_true_iff in H as [H1 H2]. rewrite H1, IH by auto. reflexivity. Qed.
Lemma starts_self p r : starts p (p ++ r) = true.
Proof. induction p; simpl; auto. rewrite Ascii.eqb_refl. auto. Qed.

Lemma strip_suffix_app suf x : strip_suffix suf (x ++ suf) = Some x.
Proof. unfold strip_suffix. rewrite rev_app_distr, starts_self. rewrite app_length.
  replace (List.length x + List.length suf - List.length suf) with (List.length x) by lia.
  rewrite firstn_app, firstn_all, Nat.sub_diag. simpl. rewrite app_nil_r. reflexivity. Qed.
Lemma strip_suffix_absent suf s c : In c suf -> ~ In c s -> strip_suffix suf s = None.
Proof. intros Hin Hn. unfold strip_suffix. destruct (starts (rev suf) (rev s)) eqn:E; [|reflexivity].
  exfalso. apply Hn. apply in_rev. eapply starts_in; eauto. apply in_rev in Hin. exact Hin. Qed.
Lemma strip_suffix_last suf x c c0 rs : rev suf = c0 :: rs -> c0 <> c -> strip_suffix suf (x ++ [c]) = None.
Proof. intros Hr Hne. unfold strip_suffix. rewrite rev_app_distr, Hr. cbn [rev app starts].
  destruct (Ascii.eqb_spec c0 c); [contradiction|reflexivity]. Qed.

Lemma idstr_no c n : idstr n -> is_idc c = false -> ~ In c n.
Proof. intros [_ H] Hc Hin. rewrite Forall_forall in H. rewrite (H c Hin) in Hc. discriminate. Qed.

(* what a text continues with after a type: nothing, [ or a blank *)
Definition istart (r : str) : Prop := match r with [] => True | c :: _ => is_idc c = false /\ c <> "<" end.

Lemma starts_tag_leaf p : Forall (fun c => is_idc c = true) p -> forall n r,
  Forall (fun c => is_idc c = true) n -> istart r -> starts (p ++ ["<"]) (n ++ r) = false.
Proof.
  induction 1 as [|a p Ha Hp IH]; intros n r Hn Hr.
  - destruct n as [|b n]; cbn [app starts].
    + destruct r as [|c r]; [reflexivity|]. destruct Hr as [_ Hc]. destruct (Ascii.eqb_spec "<" c); [congruence|reflexivity].
    + inversion Hn; subst. destruct (Ascii.eqb_spec "<" b); [subst b; discriminate|reflexivity].
  - destruct n as [|b n]; cbn [app starts].
    + destruct r as [|c r]; [reflexivity|]. destruct Hr as [Hc _].
      destruct (Ascii.eqb_spec a c); [subst c; congruence|reflexivity].
    + inversion Hn; subst. rewrite IH by auto. apply andb_false_r.
Qed.

Lemma idc_Record : Forall (fun c => is_idc c = true) (L "Record"). Proof. repeat constructor. Qed.
Lemma idc_Map : Forall (fun c => is_idc c = true) (L "Map"). Proof. repeat constructor. Qed.

Definition not_map (t : tstruct) : Prop := match spine_core t with TMap _ _ => False | _ => True end.

(* the text of a structure whose spine does not end in a map does not begin with Record< or Map< *)
Lemma no_record_start : forall t, ts_ok t -> not_map t -> forall r, istart r ->
  starts (L "Record<") (render t ++ r) = false /\ starts (L "Map<") (render t ++ r) = false.
Proof.
  induction t as [p|u IH|k v IHk IHv|u IH|l IH|u IH|u IH|n] using ts_ind'; intros Hok Hnm r Hr; cbn [ts_ok] in Hok.
  - cbn [render]. destruct Hok as [_ Hp]. split.
    + apply (starts_tag_leaf (L "Record") idc_Record); auto.
    + apply (starts_tag_leaf (L "Map") idc_Map); auto.
  - cbn [render]. rewrite <- app_assoc. apply IH; auto. cbn. split; [reflexivity|discriminate].
  - exfalso. exact Hnm.
  - cbn [render]. rewrite <- app_assoc. apply IH; auto. cbn. split; [reflexivity|discriminate].
  - destruct l as [|a l].
    + cbn [render]. split.
      * apply (starts_tag_leaf (L "Record") idc_Record); auto. repeat constructor.
      * apply (starts_tag_leaf (L "Map") idc_Map); auto. repeat constructor.
    + rewrite render_tuple. split; reflexivity.
  - cbn [render]. rewrite <- app_assoc. apply IH; auto. cbn. split; [reflexivity|discriminate].
  - cbn [render]. apply IH; auto.
  - cbn [render]. destruct Hok as [_ Hp]. split.
    + apply (starts_tag_leaf (L "Record") idc_Record); auto.
    + apply (starts_tag_leaf (L "Map") idc_Map); auto.
Qed.

(* the last character of a rendered type is never an opening bracket *)
Lemma join_last sep : forall (l : list str) z, exists y, join sep (l ++ [z]) = y ++ z.
Proof. induction l as [|x l IH]; intros z; [exists []; reflexivity|].
  destruct (IH z) as [y Hy]. destruct l as [|x' l].
  - exists (x ++ sep). cbn [app]. rewrite join_cons2, join_one. rewrite <- app_assoc. reflexivity.
  - change ((x :: x' :: l) ++ [z]) with (x :: (x' :: l) ++ [z]). 
    change ((x' :: l) ++ [z]) with (x' :: (l ++ [z])) in *. rewrite join_cons2. rewrite Hy.
    exists (x ++ sep ++ y). repeat rewrite <- app_assoc. reflexivity. Qed.

Lemma render_last : forall t, ts_ok t -> exists y d, render t = y ++ [d] /\ d <> "[".
Proof.
  induction t as [p|u IH|k v IHk IHv|u IH|l IH|u IH|u IH|n] using ts_ind'; intros Hok; cbn [ts_ok] in Hok.
  - destruct Hok as [Hne Hp]. destruct (exists_last Hne) as (y & d & E). exists y, d. split; [exact E|].
    intro; subst d. rewrite Forall_forall in Hp. specialize (Hp "[" ltac:(cbn [render]; rewrite E; apply in_or_app; right; left; reflexivity)). discriminate.
  - exists (render u ++ ["["]), "]". split; [cbn [render]; rewrite <- app_assoc; reflexivity | discriminate].
  - exists (L "Record<" ++ render k ++ L ", " ++ render v), ">". split; [cbn [render]; repeat rewrite <- app_assoc; reflexivity | discriminate].
  - exists (render u ++ ["["]), "]". split; [cbn [render]; rewrite <- app_assoc; reflexivity | discriminate].
  - destruct l as [|a l]; [exists (L "voi"), "d"; split; [reflexivity|discriminate]|].
    exists ("[" :: join (L ", ") (map render (a :: l))), "]". split; [rewrite render_tuple; reflexivity | discriminate].
  - exists (render u ++ L " | nul"), "l". split; [cbn [render]; rewrite <- app_assoc; reflexivity | discriminate].
  - cbn [render]. apply IH; auto.
  - destruct Hok as [Hne Hp]. destruct (exists_last Hne) as (y & d & E). exists y, d. split; [exact E|].
    intro; subst d. rewrite Forall_forall in Hp. specialize (Hp "[" ltac:(cbn [render]; rewrite E; apply in_or_app; right; left; reflexivity)). discriminate.
Qed.

Lemma atp_S f s : atp (S f) s =
  if one_of s atp_globals then s else
  match strip_suffix (L "[]") s with
  | Some base => atp f base ++ L "[]"
  | None =>
    if starts (L "Record<") s || starts (L "Map<") s then s else
    match strip_suffix (L " | null") s with
    | Some base => atp f base ++ L " | null"
    | None =>
      match strip_suffix (L " | undefined") s with
      | Some base => atp f base ++ L " | undefined"
      | None => if starts (L "[") s && ends_with "]" s then s
                else if starts (L "types.") s then s else L "types." ++ s
      end end end.
Proof. reflexivity. Qed.

Fixpoint sdepth (t : tstruct) : nat :=
  match t with TArr u | TSet u | TOpt u => S (sdepth u) | TRes u => sdepth u | _ => 0 end.

Lemma has_custom_spine : forall t, has_custom t = has_custom (spine_core t).
Proof. induction t using ts_ind'; cbn [has_custom spine_core]; auto. Qed.

Lemma record_start : forall t k v, spine_core t = TMap k v -> forall r, starts (L "Record<") (render t ++ r) = true.
Proof.
  induction t as [p|u IH|k0 v0 _ _|u IH|l _|u IH|u IH|n] using ts_ind'; intros k v Hs r; cbn [spine_core] in Hs; try discriminate.
  - cbn [render]. rewrite <- app_assoc. eapply IH; eauto.
  - cbn [render]. repeat rewrite <- app_assoc. apply starts_self.
  - cbn [render]. rewrite <- app_assoc. eapply IH; eauto.
  - cbn [render]. rewrite <- app_assoc. eapply IH; eauto.
  - cbn [render]. eapply IH; eauto.
Qed.

Lemma one_of_has s names c : In c s -> Forall (fun x => ~ In c (L x)) names -> one_of s names = false.
Proof. apply one_of_absent. Qed.

Lemma atp_render : forall t, ts_ok t -> names_ok t -> pfx_class t = 0 ->
  forall f, sdepth t < f -> atp f (render t) = renderq t.
Proof.
  induction t as [p|u IH|k v _ _|u IH|l _|u IH|u IH|n] using ts_ind'; intros Hok Hn Hp f Hf;
    cbn [ts_ok] in Hok; cbn [names_ok] in Hn; (destruct f as [|f]; [lia|]).
  - (* primitive *) rewrite atp_S. cbn [render renderq]. destruct (prim4_builtin p Hn) as [_ ->]. reflexivity.
  - (* array *) rewrite atp_S. cbn [render renderq].
    rewrite (one_of_absent _ _ "]") by (try (apply in_or_app; right; right; left; reflexivity); unfold atp_globals; absent).
    rewrite strip_suffix_app. rewrite IH; auto. cbn [sdepth] in Hf. lia.
  - (* map, no declared name inside *)
    unfold pfx_class in Hp. cbn [spine_core] in Hp. destruct (has_custom (TMap k v)) eqn:Hc; [discriminate|].
    rewrite renderq_nocustom by exact Hc. rewrite atp_S.
    assert (Hlast : render (TMap k v) = (L "Record<" ++ render k ++ L ", " ++ render v) ++ [">"])
      by (cbn [render]; repeat rewrite <- app_assoc; reflexivity).
    rewrite (one_of_absent _ _ "<") by (try (cbn [render]; right; right; right; right; right; right; left; reflexivity); unfold atp_globals; absent).
    rewrite Hlast at 1. rewrite (strip_suffix_last (L "[]") _ ">" "]" ["["]) by (try reflexivity; discriminate).
    assert (Hst : starts (L "Record<") (render (TMap k v)) = true) by (cbn [render]; apply starts_self).
    rewrite Hst. reflexivity.
  - (* set *) rewrite atp_S. cbn [render renderq].
    rewrite (one_of_absent _ _ "]") by (try (apply in_or_app; right; right; left; reflexivity); unfold atp_globals; absent).
    rewrite strip_suffix_app. rewrite IH; auto. cbn [sdepth] in Hf. lia.
  - (* tuple *)
    destruct l as [|a l]; [rewrite atp_S; reflexivity|].
    unfold pfx_class in Hp. cbn [spine_core] in Hp. destruct (has_custom (TTuple (a :: l))) eqn:Hc; [discriminate|].
    rewrite renderq_nocustom by exact Hc. rewrite atp_S. rewrite render_tuple.
    set (J := join (L ", ") (map render (a :: l))).
    apply (proj1 (ts_ok_list (a :: l))) in Hok.
    assert (HJ : exists y d, J = y ++ [d] /\ d <> "[").
    { assert (Hne : a :: l <> []) by discriminate. destruct (exists_last Hne) as (l' & z & E). unfold J. rewrite E.
      rewrite map_app. cbn [map]. destruct (join_last (L ", ") (map render l') (render z)) as [y0 Hy0]. rewrite Hy0.
      assert (Hz : ts_ok z) by (rewrite Forall_forall in Hok; apply Hok; rewrite E; apply in_or_app; right; left; reflexivity).
      destruct (render_last z Hz) as (y1 & d & E1 & Hd). exists (y0 ++ y1), d. rewrite E1, app_assoc. auto. }
    destruct HJ as (y & d & EJ & Hd).
    rewrite (one_of_absent _ _ "[") by (try (left; reflexivity); unfold atp_globals; absent).
    assert (Hs1 : strip_suffix (L "[]") ("[" :: J ++ ["]"]) = None).
    { unfold strip_suffix. change ("[" :: J ++ ["]"]) with (("[" :: J) ++ ["]"]). rewrite rev_app_distr.
      cbn [rev app L list_ascii_of_string]. rewrite EJ, rev_app_distr. cbn [rev app starts].
      rewrite Ascii.eqb_refl. destruct (Ascii.eqb_spec "[" d); [congruence|reflexivity]. }
    rewrite Hs1. cbn [L list_ascii_of_string starts Ascii.eqb Bool.eqb andb orb].
    change ("[" :: J ++ ["]"]) with (("[" :: J) ++ ["]"]).
    rewrite (strip_suffix_last (list_ascii_of_string " | null") _ "]" "l" (rev (list_ascii_of_string " | nul"))) by (try reflexivity; discriminate).
    rewrite (strip_suffix_last (list_ascii_of_string " | undefined") _ "]" "d" (rev (list_ascii_of_string " | undefine"))) by (try reflexivity; discriminate).
    rewrite ends_with_snoc. reflexivity.
  - (* option *)
    rewrite atp_S. cbn [render renderq].
    rewrite (one_of_absent _ _ " ") by (try (apply in_or_app; right; left; reflexivity); unfold atp_globals; absent).
    assert (Hl : render u ++ L " | null" = (render u ++ L " | nul") ++ ["l"]) by (rewrite <- app_assoc; reflexivity).
    rewrite Hl at 1. rewrite (strip_suffix_last (L "[]") _ "l" "]" ["["]) by (try reflexivity; discriminate).
    assert (Hcase : not_map u \/ exists k v, spine_core u = TMap k v)
      by (unfold not_map; destruct (spine_core u); eauto).
    destruct Hcase as [Hnm | (k & v & Hsc)].
    { destruct (no_record_start u Hok Hnm (L " | null")) as [H1 H2]; [cbn; split; [reflexivity|discriminate]|].
      rewrite H1, H2. cbn [orb]. rewrite strip_suffix_app. rewrite IH; auto.
      cbn [sdepth] in Hf. lia. }
    (* spine ends in a map: the text is left alone, and it mentions no declared name *)
    rewrite (record_start u k v Hsc). cbn [orb].
    assert (Hc : has_custom u = false).
    { rewrite has_custom_spine. unfold pfx_class in Hp. cbn [spine_core] in Hp. rewrite Hsc in *.
      destruct (has_custom (TMap k v)); [discriminate|reflexivity]. }
    rewrite renderq_nocustom by exact Hc. reflexivity.
  - (* result *) cbn [render renderq]. apply IH; auto.
  - (* declared name *)
    rewrite atp_S. cbn [render renderq]. rewrite (builtin_false_globals n Hn).
    rewrite (strip_suffix_absent (L "[]") n "[") by (try (left; reflexivity); apply idstr_no; auto).
    destruct Hok as [Hne Hid].
    assert (H1 : starts (L "Record<") n = false)
      by (rewrite <- (app_nil_r n); apply (starts_tag_leaf (L "Record") idc_Record); auto; exact I).
    assert (H2 : starts (L "Map<") n = false)
      by (rewrite <- (app_nil_r n); apply (starts_tag_leaf (L "Map") idc_Map); auto; exact I).
    rewrite H1, H2. cbn [orb].
    rewrite (strip_suffix_absent (L " | null") n " ") by (first [left; reflexivity | apply idstr_no; [split; auto | reflexivity]]).
    rewrite (strip_suffix_absent (L " | undefined") n " ") by (first [left; reflexivity | apply idstr_no; [split; auto | reflexivity]]).
    assert (H3 : starts (L "[") n = false).
    { destruct n as [|c n]; [congruence|]. inversion Hid; subst. cbn [L list_ascii_of_string starts].
      destruct (Ascii.eqb_spec "[" c); [subst c; discriminate | reflexivity]. }
    rewrite H3. cbn [andb].
    assert (H4 : starts (L "types.") n = false).
    { destruct (starts (L "types.") n) eqn:E; [|reflexivity]. exfalso.
      apply (idstr_no "." n (conj Hne Hid) eq_refl). eapply starts_in; eauto. right; right; right; right; right; left; reflexivity. }
    rewrite H4. reflexivity.
Qed.

(* ---------------- the qualified sites ---------------- *)
Require Import TT.Model.C05Parse TT.Proofs.C05ParseProofs TT.Proofs.C05Proofs.

Lemma sdepth_le_len : forall t, sdepth t <= List.length (render t).
Proof. induction t using ts_ind'; cbn [sdepth render]; try lia; rewrite ?app_length; cbn [List.length L list_ascii_of_string]; lia. Qed.

Definition targets_ok (m : mapping) : Prop := Forall (fun kv => prim4 (snd kv) = true) m.
Lemma lookup_prim4 m n target : targets_ok m -> lookup m n = Some target -> prim4 target = true.
Proof. induction 1 as [|[k v] m Hv Hm IH]; simpl; intros H; [discriminate|].
  destruct (str_eqb k n); [inversion H; subst; exact Hv | auto]. Qed.
Lemma prim_of_prim4 n p : prim_of n = Some p -> prim4 p = true.
Proof. unfold prim_of. intros H.
  repeat match type of H with (if ?c then _ else _) = _ => destruct c end; inversion H; subst; reflexivity. Qed.

Lemma dom_m_names_ok m : targets_ok m -> forall t, dom_m m t = true -> names_ok (msubst m (sem t)).
Proof.
  intros Hm. induction t as [n args IH|t IH|l IH] using rty_ind'; intros Hd.
  - cbn [dom_m] in Hd. destruct (lookup m (tts (RPath n args))) as [target|] eqn:Hl.
    + apply andb_true_iff in Hd as [Hd Hargs]. apply andb_true_iff in Hd as [Hd Hnp].
      apply andb_true_iff in Hd as [Hd Hnt]. apply negb_true_iff in Hnt. apply negb_true_iff in Hnp.
      assert (Hsem : sem (RPath n args) = TCustom (tts (RPath n args))).
      { destruct args as [|a rest].
        - cbn [sem]. unfold prim_of_b in Hnp. destruct (prim_of n); [discriminate|]. reflexivity.
        - rewrite sem_path_cons. apply not_table in Hnt as (H1 & H2 & H3 & H4 & H5 & H6 & H7).
          rewrite H1, H2, H3, H4, H5, H6, H7. reflexivity. }
      rewrite Hsem. cbn [msubst]. rewrite Hl. cbn [names_ok]. eapply lookup_prim4; eauto.
    + destruct args as [|a [|b [|c rest]]]; [| | |discriminate].
      * apply andb_true_iff in Hd as [Hd Hnt]. apply andb_true_iff in Hd as [Hd Hres].
        change (tts (RPath n [])) with n in Hl. cbn [sem].
        destruct (prim_of n) as [p|] eqn:Hp; cbn [msubst names_ok].
        -- eapply prim_of_prim4; eauto.
        -- rewrite Hl. cbn [names_ok]. apply negb_true_iff in Hres. unfold reserved in Hres.
           apply orb_false_elim in Hres as [Hb _]. exact Hb.
      * inversion IH as [|? ? IHa _]; subst. apply andb_true_iff in Hd as [Hn Hda]. specialize (IHa Hda).
        repeat (apply orb_true_iff in Hn as [Hn|Hn]); apply is_name_eq in Hn; subst n;
          rewrite sem_path_cons; names; cbn [orb msubst names_ok]; exact IHa.
      * inversion IH as [|? ? IHa IH']; subst. inversion IH' as [|? ? IHb _]; subst.
        apply andb_true_iff in Hd as [Hd Hdb]. apply andb_true_iff in Hd as [Hn Hda].
        specialize (IHa Hda). specialize (IHb Hdb).
        apply orb_true_iff in Hn as [Hn|Hn].
        -- apply andb_true_iff in Hn as [Hn _]. apply orb_true_iff in Hn as [Hn|Hn]; apply is_name_eq in Hn; subst n;
             rewrite sem_path_cons; names; cbn [orb msubst names_ok]; split; assumption.
        -- apply is_name_eq in Hn; subst n. rewrite sem_path_cons. names. cbn [orb msubst names_ok]. exact IHa.
  - cbn [dom_m] in Hd. cbn [sem]. auto.
  - cbn [dom_m] in Hd. rewrite forallb_forall in Hd. destruct l as [|a l]; [reflexivity|].
    change (sem (RTuple (a :: l))) with (TTuple (map sem (a :: l))).
    change (msubst m (TTuple (map sem (a :: l)))) with (TTuple (map (msubst m) (map sem (a :: l)))).
    change (names_ok (TTuple (map (msubst m) (map sem (a :: l)))))
      with ((fix go l := match l with [] => True | x :: l' => names_ok x /\ go l' end) (map (msubst m) (map sem (a :: l)))).
    apply names_ok_list. rewrite map_map. apply Forall_map. apply Forall_forall. intros x Hx.
    rewrite Forall_forall in IH. apply IH; auto.
Qed.

(* C05 / C18 at the namespace-qualified sites (return type, event payload), both modes, every type:
   outside the two remaining text classes the printed text denotes the qualified README shape *)
Theorem sound_prefix m t : mapping_ok m -> targets_ok m -> dom_m m t = true ->
  kf_union_under_seq (sem t) = false -> pfx_class (msubst m (sem t)) = 0 ->
  forall s md, site_qualified s = true ->
  exists text, emit_type s md m t = Some text /\ observe (site_is_type s md) text = Some (expected s m t).
Proof.
  intros Hm Ht Hd H3 Hp s md Hs.
  destruct (dom_m_facts m Hm t Hd) as (Hw & Hok & Hsh). pose proof (dom_m_nobr m t Hd) as Hb.
  pose proof (dom_m_names_ok m Ht t Hd) as Hn.
  exists (renderq (msubst m (sem t))). unfold emit_type, emit_str. rewrite (parse_faithful t Hw Hb). cbn [option_map].
  assert (Hatp : add_types_prefix (render_m m (sem t)) = renderq (msubst m (sem t))).
  { unfold add_types_prefix. rewrite render_m_msubst. apply atp_render; auto.
    pose proof (sdepth_le_len (msubst m (sem t))). lia. }
  assert (Hden : ts_parse_str (renderq (msubst m (sem t))) = Some (qualify (rshape m t))).
  { rewrite renderq_denotes by (auto; rewrite kf_union_msubst; exact H3).
    rewrite shapeq_qualify by exact Hn. rewrite Hsh. reflexivity. }
  destruct s; try discriminate Hs; destruct md; cbn [emit_ts site_is_type observe expected site_qualified];
    rewrite Hatp; auto.
Qed.

(* ---------------- all sites whose text is a TypeScript type (8 of the 10 site x mode pairs) ---------------- *)
Lemma pfx_class_01 t : pfx_class t = 0 \/ pfx_class t = 1.
Proof. unfold pfx_class. destruct (spine_core t) as [| | | |[|? ?]| | |]; auto; destruct (has_custom _); auto. Qed.

Theorem sound_ts_sites m t s md : mapping_ok m -> targets_ok m -> dom_m m t = true ->
  site_is_type s md = true -> kf_C05 s md m t = false ->
  exists text, emit_type s md m t = Some text /\ observe (site_is_type s md) text = Some (expected s m t).
Proof.
  intros Hm Ht Hd Hty Hk. unfold kf_C05, all_classes in Hk. cbn [existsb in_class] in Hk. rewrite Hty in Hk.
  cbn [andb negb] in Hk. apply orb_false_elim in Hk as [H3 Hk]. apply orb_false_elim in Hk as [H5 _].
  rewrite kf_union_msubst in H3.
  destruct (site_qualified s) eqn:Hq.
  - cbn [andb] in H5. apply Nat.eqb_neq in H5.
    apply sound_prefix; auto. destruct (pfx_class_01 (msubst m (sem t))); [assumption|congruence].
  - apply sound_plain; auto. unfold plain_site. rewrite Hty, Hq. reflexivity.
Qed.
