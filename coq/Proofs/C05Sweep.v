(* C05: computed witnesses for every recorded class, a finite sweep of the model over all
   constructor spines to depth 1 (depth 2, the enumeration of the quick tier, is in C05Sweep2.v):
   outside the classes the specification accepts the model's text at every site in both modes,
   and inside the site-specific classes it rejects it. Evaluated by vm_compute. *)
From Coq Require Import String Ascii.
From Coq Require Import List Arith Bool.
Require Import TT.Model.Str TT.Model.TypeParse TT.Spec.TsType TT.Model.Render TT.Model.C05Emit.
Require Import TT.Spec.C05Spec TT.Spec.C05Known TT.Proofs.TypeParseProofs.
Import ListNotations.
Local Open Scope string_scope.

Definition lf (s : string) : rty := RPath (L s) [].
Definition leaves : list rty :=
  [lf "String"; RRef (lf "str"); lf "i32"; lf "u64"; lf "f64"; lf "bool"; RTuple []; lf "User"; lf "Status"].
Definition filler (j : nat) : rty := nth (j mod 4) [lf "String"; lf "i32"; lf "bool"; lf "User"] (lf "String").

Inductive con := CPath (n : string) (arity : nat) | CTuple (arity : nat) | CRef.
Definition cons_all : list con :=
  [CPath "Option" 1; CPath "Vec" 1; CPath "HashSet" 1; CPath "BTreeSet" 1; CPath "HashMap" 2; CPath "BTreeMap" 2;
   CTuple 2; CTuple 3; CTuple 4; CPath "Result" 2; CPath "Result" 1; CRef].
Definition arity (c : con) : nat := match c with CPath _ a | CTuple a => a | CRef => 1 end.
Definition is_map_con (c : con) : bool :=
  match c with CPath n _ => str_eqb (L n) (L "HashMap") || str_eqb (L n) (L "BTreeMap") | _ => false end.

Definition build (c : con) (pos : nat) (inner : rty) : option rty :=
  let args := map (fun j => if Nat.eqb j pos then inner
                            else if is_map_con c && Nat.eqb j 0 then lf "String" else filler j) (seq 0 (arity c)) in
  if is_map_con c && negb (match args with k :: _ => key_ok k | [] => false end) then None else
  Some (match c with CPath n _ => RPath (L n) args | CTuple _ => RTuple args | CRef => match args with a :: _ => RRef a | [] => RTuple [] end end).

Definition next_level (level : list rty) : list rty :=
  flat_map (fun c => flat_map (fun pos => flat_map (fun u => match build c pos u with Some t => [t] | None => [] end) level)
                              (seq 0 (arity c))) cons_all.
Fixpoint spines (d : nat) : list rty :=
  match d with 0 => leaves | S d' => spines d' ++ next_level (nth d' (levels d') []) end
with levels (d : nat) : list (list rty) :=
  match d with 0 => [leaves] | S d' => levels d' ++ [next_level (nth d' (levels d') [])] end.

Definition sites_all := [SParam; SReturn; SField; SChannel; SEvent].
Definition modes_all := [MNone; MZod].

(* outside every class the specification accepts what the model prints *)
Definition sound_at (s : site) (md : mode) (t : rty) : bool :=
  match emit_type s md [] t with
  | Some text => kf_C05 s md [] t || c05_ok s md [] t text
  | None => false
  end.
(* inside a class the specification rejects what the model prints (the classes are exact) *)
Definition exact_at (s : site) (md : mode) (t : rty) : bool :=
  match emit_type s md [] t with
  | Some text => negb (kf_C05 s md [] t && c05_ok s md [] t text)
  | None => false
  end.
Definition sweep (f : site -> mode -> rty -> bool) (l : list rty) : bool :=
  forallb (fun t => forallb (fun s => forallb (fun md => f s md t) modes_all) sites_all) l.

Lemma sweep_sound_depth1 : sweep sound_at (spines 1) = true.
Proof. vm_compute. reflexivity. Qed.
Lemma sweep_exact_depth1 : sweep exact_at (spines 1) = true.
Proof. vm_compute. reflexivity. Qed.
Lemma sweep_domain_depth1 : forallb dom_b (spines 1) = true /\ List.length (spines 1) = 196.
Proof. vm_compute. split; reflexivity. Qed.
