(* C10 deepening round 7: the specification lexer and expression parser read the object schema tree
   z.object({ k: e, ... })  from the text the two Zod templates print for a schema constant (one entry per
   field / parameter, each followed by a comma, hence a trailing comma before the closing brace). *)
From Coq Require Import String Ascii.
From Coq Require Import List Arith Lia Bool.
Require Import TT.Model.Str TT.Proofs.StrFacts TT.Model.TypeParse TT.Spec.TsLex TT.Spec.TsModule TT.Spec.TsObs.
Require Import TT.Spec.C10Shape TT.Model.C10Zod TT.Model.C10ZodText TT.Spec.C10Check TT.Proofs.C10Proofs TT.Proofs.C10Items.
Require Import TT.Proofs.C10ParseTy TT.Proofs.C10ParseEx TT.Proofs.C10LexEx TT.Proofs.LexFacts.
Import ListNotations.
Local Open Scope list_scope.

Definition prop_tc (p : option key * ex) : list tk := pprop pe p ++ [kp ","].
Definition ztoks (ps : list (option key * ex)) (rest : list tk) : list tk :=
  [KId (L "z"); kp "."; KId (L "object"); kp "("; kp "{"] ++ flat_map prop_tc ps ++ kp "}" :: kp ")" :: rest.

Section Tc.
  Variable f : nat.
  Let rec := p_expr f.
  Definition prop_rt (p : option key * ex) : Prop :=
    exists k, fst p = Some (KeyId k) /\ is_ts_identifier k = true /\
              forall rest, stope rest -> rec (pe (snd p) ++ rest) = Some (snd p, rest).

  Lemma p_props_tc : forall ps, Forall prop_rt ps -> forall n acc rest, 2 * List.length ps < n ->
    p_props rec n (flat_map prop_tc ps ++ kp "}" :: rest) acc = Some (rev acc ++ ps, rest).
  Proof.
    induction ps as [|p r IH]; intros HF n acc rest Hn.
    - destruct n; [lia|]. cbn [flat_map app p_props]. assert (tk_is "}" (kp "}") = true) as -> by reflexivity. rewrite app_nil_r. reflexivity.
    - inversion HF as [|? ? [k [Ek [Hk Hp]]] Hr]; subst. destruct n as [|[|n]]; [cbn in Hn; lia|cbn in Hn; lia|].
      destruct p as [ko e]. cbn [fst snd] in *. subst ko.
      cbn [flat_map]. unfold prop_tc at 1. unfold pprop. cbn [fst snd]. rewrite <- !app_assoc. cbn [app p_props].
      rewrite (tk_is_id "}" "}"%char) by auto. rewrite (tk_is_id "," ","%char) by auto. rewrite ident_not_dots by exact Hk.
      assert (tk_is ":" (kp ":") = true) as -> by reflexivity.
      rewrite Hp by (cbn; repeat split; reflexivity).
      assert (tk_is "}" (kp ",") = false) as -> by reflexivity. assert (tk_is "," (kp ",") = true) as -> by reflexivity.
      rewrite IH; [|exact Hr|cbn [List.length] in Hn; lia]. cbn [rev]. rewrite <- app_assoc. reflexivity.
  Qed.

  Lemma len_tc ps : Forall prop_rt ps -> 2 * List.length ps <= List.length (flat_map prop_tc ps).
  Proof.
    induction 1 as [|p r [k [Ek _]] Hr IH]; [cbn; lia|]. cbn [flat_map List.length]. rewrite app_length. unfold prop_tc at 1. unfold pprop. rewrite Ek.
    rewrite app_length. cbn [List.length]. lia.
  Qed.

  Lemma obj_tc ps rest : Forall prop_rt ps -> stope rest ->
    p_expr (S f) (kp "{" :: flat_map prop_tc ps ++ kp "}" :: rest) = Some (EObj ps, rest).
  Proof.
    intros HF Hs. cbn [p_expr]. unfold p_expr_body.
    assert (tk_is "-" (kp "{") || tk_is "!" (kp "{") || tk_is "+" (kp "{") = false) as -> by reflexivity.
    assert (tk_is "await" (kp "{") || tk_is "new" (kp "{") = false) as -> by reflexivity.
    unfold kp at 1. cbn [p_atom]. assert (tk_is "[" (KP (L "{")) = false) as -> by reflexivity.
    assert (tk_is "{" (KP (L "{")) = true) as -> by reflexivity.
    fold rec. rewrite (p_props_tc ps HF) with (acc := []).
    - cbn [rev app]. rewrite p_ops_stop by exact Hs. reflexivity.
    - rewrite app_length. cbn [List.length]. pose proof (len_tc ps HF). lia.
  Qed.
End Tc.

Lemma p_body_z rec r : p_expr_body rec (KId (L "z") :: kp "." :: r) = p_ops rec (S (S (List.length r))) (EId (L "z")) (kp "." :: r).
Proof. reflexivity. Qed.
Lemma p_ops_dot rec n e s r : p_ops rec (S n) e (kp "." :: KId s :: r) = p_ops rec n (EMember e s false) r.
Proof. reflexivity. Qed.
Lemma p_ops_call rec n e r : p_ops rec (S n) e (kp "(" :: r) =
  match p_exlist rec ")" (S (List.length r)) r [] with Some (args, r1) => p_ops rec n (ECall e [] args) r1 | None => None end.
Proof. reflexivity. Qed.
Lemma p_exlist_arg rec n r acc : p_exlist rec ")" (S n) (kp "{" :: r) acc =
  match rec (kp "{" :: r) with Some (e, r1) => p_exlist rec ")" n r1 (e :: acc) | None => None end.
Proof. reflexivity. Qed.
Lemma p_exlist_close rec n r acc : p_exlist rec ")" (S n) (kp ")" :: r) acc = Some (rev acc, r).
Proof. reflexivity. Qed.

Lemma zobject_tc f ps rest : Forall (prop_rt f) ps -> stope rest ->
  p_expr (S (S f)) (ztoks ps rest) = Some (zcall "object" [EObj ps], rest).
Proof.
  intros HF Hs. unfold ztoks.
  change (p_expr (S (S f)) ([KId (L "z"); kp "."; KId (L "object"); kp "("; kp "{"] ++ flat_map prop_tc ps ++ kp "}" :: kp ")" :: rest))
    with (p_expr_body (p_expr (S f)) (KId (L "z") :: kp "." :: KId (L "object") :: kp "(" :: kp "{" :: flat_map prop_tc ps ++ kp "}" :: kp ")" :: rest)).
  rewrite p_body_z, p_ops_dot. cbn [List.length]. rewrite p_ops_call, p_exlist_arg.
  rewrite (obj_tc f ps (kp ")" :: rest) HF) by (cbn; repeat split; reflexivity).
  cbn [List.length]. rewrite p_exlist_close. cbn [rev app].
  rewrite p_ops_stop by exact Hs. reflexivity.
Qed.

(* ---------------- the lexer reads these tokens from the template text ---------------- *)
Definition T : str -> Prop := fun _ => True.
Ltac olit k := apply (lexes_lit _ _ _ k); [cbn; lia|intros r f; reflexivity].

Lemma lexes_wsl (P : str -> Prop) w : forallb is_ws w = true -> lexes P w [].
Proof.
  induction w as [|c w IH]; intros H; [apply lexes_nil|]. cbn [forallb] in H. apply andb_true_iff in H. destruct H as [Hc Hw].
  intros r f Hr Hf. destruct f as [|f]; [lia|]. cbn [app List.length] in Hf. destruct (IH Hw r f Hr) as [f' [Hf' E]]; [lia|].
  exists f'. split; [exact Hf'|]. cbn [app]. rewrite lex_ws by exact Hc. exact E.
Qed.
Lemma lit_colon P : lexes P (L ": ") [kp ":"]. Proof. olit 2. Qed.
Lemma lit_comma1 P : lexes P (L ",") [kp ","]. Proof. olit 1. Qed.
Lemma lit_zobject P : lexes P (L "z.object({") [KId (L "z"); kp "."; KId (L "object"); kp "("; kp "{"]. Proof. olit 5. Qed.
Lemma lit_close_obj P : lexes P (nl ++ L "})") [kp "}"; kp ")"]. Proof. olit 3. Qed.

Definition entry := (str * str * ex)%type.          (* key, printed schema, its tree *)
Definition e_kv (e : entry) : str * str := (fst (fst e), snd (fst e)).
Definition e_prop (e : entry) : option key * ex := (Some (KeyId (fst (fst e))), snd e).
Definition ent_lex (e : entry) : Prop := ident (fst (fst e)) = true /\ lexes B (snd (fst e)) (pe (snd e)).
Definition ent_ok (f : nat) (e : entry) : Prop := ent_lex e /\ nfx (snd e) /\ enest (snd e) < f.

Lemma lex_line sep (e : entry) : forallb is_ws sep = true -> ent_lex e -> lexes T (zod_line sep (e_kv e)) (prop_tc (e_prop e)).
Proof.
  intros Hw [Hi Hl]. destruct e as [[k text] tree]. unfold zod_line, prop_tc, pprop, e_kv, e_prop. cbn [fst snd] in *.
  change ((KId k :: kp ":" :: pe tree) ++ [kp ","]) with ([] ++ [KId k] ++ [kp ":"] ++ pe tree ++ [kp ","]).
  apply (lexes_app T T); [apply lexes_wsl; exact Hw| |intros; exact I].
  apply (lexes_app B T); [apply lexes_ident; [exact Hi|intros r H; exact H]| |intros r _; reflexivity].
  apply (lexes_app T T); [apply lit_colon| |intros; exact I].
  apply (lexes_app B T); [exact Hl|apply lit_comma1|intros r _; reflexivity].
Qed.
Lemma lex_lines sep (es : list entry) : forallb is_ws sep = true -> Forall ent_lex es ->
  lexes T (flat_map (zod_line sep) (map e_kv es)) (flat_map prop_tc (map e_prop es)).
Proof.
  intros Hw. induction 1 as [|e r He Hr IH]; [apply lexes_nil|]. cbn [map flat_map].
  apply (lexes_app T T); [apply lex_line; assumption|exact IH|intros; exact I].
Qed.
Lemma lex_object lead sep (es : list entry) : forallb is_ws lead = true -> forallb is_ws sep = true -> Forall ent_lex es ->
  lexes T (zod_object_text lead sep (map e_kv es)) (ztoks (map e_prop es) []).
Proof.
  intros Hl Hs He. unfold zod_object_text, ztoks.
  change (flat_map prop_tc (map e_prop es) ++ [kp "}"; kp ")"]) with ([] ++ flat_map prop_tc (map e_prop es) ++ [kp "}"; kp ")"]).
  apply (lexes_app T T); [apply lit_zobject| |intros; exact I].
  apply (lexes_app T T); [apply lexes_wsl; exact Hl| |intros; exact I].
  apply (lexes_app T T); [apply lex_lines; assumption|apply lit_close_obj|intros; exact I].
Qed.

Lemma clean_prop_tc p : forallb clean_tk (prop_tc p) = true.
Proof.
  unfold prop_tc, pprop. destruct (fst p) as [[k|k|k]|]; try reflexivity. cbn [app forallb clean_tk kp andb]. rewrite forallb_app, clean_pe. reflexivity.
Qed.
Lemma clean_ztoks ps : forallb clean_tk (ztoks ps []) = true.
Proof.
  unfold ztoks. rewrite forallb_app. cbn [forallb clean_tk kp andb]. rewrite forallb_app. cbn [forallb clean_tk kp andb]. rewrite andb_true_r.
  induction ps as [|p r IH]; [reflexivity|]. cbn [flat_map]. rewrite forallb_app, clean_prop_tc, IH. reflexivity.
Qed.

(* the text of a schema constant's initialiser denotes the object schema tree *)
Theorem parse_object lead sep (es : list entry) : forallb is_ws lead = true -> forallb is_ws sep = true -> Forall (ent_ok 62) es ->
  parse_ex (zod_object_text lead sep (map e_kv es)) = Some (zcall "object" [EObj (map e_prop es)]).
Proof.
  intros Hl Hs He. assert (Forall ent_lex es) as Hlex by (apply Forall_forall; intros e Hin; rewrite Forall_forall in He; apply (He e Hin)).
  unfold parse_ex. rewrite (lexes_module T _ _ (lex_object lead sep es Hl Hs Hlex) I). rewrite has_err_clean by apply clean_ztoks.
  change pexpr with (p_expr (S (S 62))). rewrite zobject_tc; [reflexivity| |exact I].
  apply Forall_forall. intros p Hp. apply in_map_iff in Hp. destruct Hp as [e [<- Hin]]. rewrite Forall_forall in He.
  destruct (He e Hin) as [[Hi _] [Hn Hd]]. exists (fst (fst e)). split; [reflexivity|]. split; [exact Hi|].
  intros rest Hr. cbn [e_prop snd]. exact (proj1 (round_trip_ex (snd e) Hn) 62 rest Hd Hr).
Qed.

(* ---------------- the two templates ---------------- *)
Section WithMap.
  Variable m : mapping.
  Hypothesis Hm : map_ok m = true.
  Definition field_line_ok (f : member) : Prop :=
    is_ident_name (m_key f) = true /\ dom (m_ty f) = true /\ enest (zex_of m (m_ty f) false) < 62.

  Lemma ws_sep : forallb is_ws (nl ++ L "  ") = true. Proof. reflexivity. Qed.

  Theorem parse_struct_schema s : Forall field_line_ok (s_fields s) ->
    parse_ex (struct_schema_text m s) = Some (zcall "object" [EObj (map (zod_field m) (s_fields s))]).
  Proof.
    intros H. unfold struct_schema_text.
    pose (es := map (fun f => (m_key f, zod_field_text m f, snd (zod_field m f)) : entry) (s_fields s)).
    assert (map (fun f => (key_src (m_key f), zod_field_text m f)) (s_fields s) = map e_kv es) as ->.
    { unfold es. rewrite map_map. apply map_ext_in. intros f Hf. rewrite Forall_forall in H. destruct (H f Hf) as [Hk _].
      unfold e_kv, key_src. cbn [fst snd]. rewrite Hk. reflexivity. }
    assert (map (zod_field m) (s_fields s) = map e_prop es) as ->.
    { unfold es. rewrite map_map. apply map_ext_in. intros f Hf. rewrite Forall_forall in H. destruct (H f Hf) as [Hk _].
      unfold e_prop, zod_field, mk_key. cbn [fst snd]. rewrite Hk. reflexivity. }
    apply parse_object; [reflexivity|apply ws_sep|]. unfold es. apply Forall_forall. intros e He. apply in_map_iff in He.
    destruct He as [f [<- Hf]]. rewrite Forall_forall in H. destruct (H f Hf) as [Hk [Hd Hn]]. unfold ent_ok, ent_lex, zod_field_text, zod_field, build_schema. cbn [fst snd].
    repeat split; [exact Hk|apply LZ; assumption|apply nfx_zex; assumption|exact Hn].
  Qed.

  Lemma lex_param_text f : dom (m_ty f) = true -> lexes B (zod_param_text m f) (pe (snd (zod_param m f))).
  Proof.
    intros Hd. unfold zod_param_text, zod_param, build_param_schema. cbn [snd]. destruct (m_opt f).
    - rewrite pe_link. apply (lexes_app B B); [apply LZ; assumption|apply lit_optional|intros r _; reflexivity].
    - rewrite app_nil_r. apply LZ; assumption.
  Qed.
  Lemma nfx_param f : dom (m_ty f) = true -> nfx (snd (zod_param m f)).
  Proof.
    intros Hd. unfold zod_param. cbn [snd]. destruct (m_opt f); [|apply nfx_zex; assumption].
    unfold link. cbn [nfx]. split; [reflexivity|]. split; [|exact I]. cbn [nfx]. split; [apply chain_zex|].
    split; [apply nfx_zex; assumption|reflexivity].
  Qed.
  Lemma enest_param f n : 2 <= n -> enest (zex_of m (m_ty f) false) < n -> enest (snd (zod_param m f)) < n.
  Proof. intros H1 H. unfold zod_param. cbn [snd]. destruct (m_opt f); [|exact H]. unfold link. cbn [enest fold_right]. lia. Qed.

  Theorem parse_param_schema c : Forall field_line_ok (c_params c) ->
    parse_ex (param_schema_text m c) = Some (zcall "object" [EObj (map (zod_param m) (c_params c))]).
  Proof.
    intros H. unfold param_schema_text.
    pose (es := map (fun f => (m_key f, zod_param_text m f, snd (zod_param m f)) : entry) (c_params c)).
    assert (map (fun f => (key_src (m_key f), zod_param_text m f)) (c_params c) = map e_kv es) as ->.
    { unfold es. rewrite map_map. apply map_ext_in. intros f Hf. rewrite Forall_forall in H. destruct (H f Hf) as [Hk _].
      unfold e_kv, key_src. cbn [fst snd]. rewrite Hk. reflexivity. }
    assert (map (zod_param m) (c_params c) = map e_prop es) as ->.
    { unfold es. rewrite map_map. apply map_ext_in. intros f Hf. rewrite Forall_forall in H. destruct (H f Hf) as [Hk _].
      unfold e_prop, zod_param, mk_key. cbn [fst snd]. rewrite Hk. reflexivity. }
    apply parse_object; [apply ws_sep|reflexivity|]. unfold es. apply Forall_forall. intros e He. apply in_map_iff in He.
    destruct He as [f [<- Hf]]. rewrite Forall_forall in H. destruct (H f Hf) as [Hk [Hd Hn]]. unfold ent_ok, ent_lex. cbn [fst snd].
    repeat split; [exact Hk|apply lex_param_text; assumption|apply nfx_param; assumption|apply enest_param; [lia|exact Hn]].
  Qed.
End WithMap.
