(* C10: reflection of the run-time equality tests on syntax trees (used for corr: parser output = model tree). *)
From Coq Require Import String Ascii.
From Coq Require Import List Arith Lia Bool.
Require Import TT.Model.Str TT.Proofs.StrFacts TT.Spec.TsLex TT.Spec.TsModule TT.Spec.TsObs TT.Spec.C10Shape TT.Model.C10Zod TT.Spec.C10Check.
Require Import TT.Proofs.C10Proofs TT.Proofs.C10Items TT.Proofs.C10ParseTy TT.Proofs.C10LexTy TT.Proofs.C10ParseEx TT.Proofs.C10LexEx TT.Proofs.C10Depth TT.Proofs.C10LexVisit.
Import ListNotations.
Local Open Scope list_scope.

Lemma sx_eqb_eq : forall a b, sx_eqb a b = true <-> a = b.
Proof.
  fix IH 1. intros a b. destruct a as [x|l]; destruct b as [y|l']; cbn [sx_eqb]; try (split; discriminate).
  - rewrite str_eqb_eq. split; [intros ->; reflexivity|intros H; inversion H; reflexivity].
  - assert (forall l2, (fix go (l l' : list sx) : bool :=
                          match l, l' with [] , [] => true | x :: r, y :: r' => sx_eqb x y && go r r' | _, _ => false end) l l2 = true <-> l = l2) as Hgo.
    { clear l'. induction l as [|x r IHr]; intros l2; destruct l2 as [|y r']; try (split; discriminate); [split; reflexivity|].
      rewrite andb_true_iff, IH, IHr. split; [intros [-> ->]; reflexivity|intros H; inversion H; split; reflexivity]. }
    rewrite Hgo. split; [intros ->; reflexivity|intros H; inversion H; reflexivity].
Qed.
Lemma ty_eqb_iff a b : ty_eqb a b = true <-> sx_ty a = sx_ty b.
Proof. apply sx_eqb_eq. Qed.
Lemma ex_eqb_iff a b : ex_eqb a b = true <-> sx_ex a = sx_ex b.
Proof. apply sx_eqb_eq. Qed.
Lemma item_eqb_iff a b : item_eqb a b = true <-> sx_item a = sx_item b.
Proof. apply sx_eqb_eq. Qed.
Lemma ty_eqb_refl a : ty_eqb a a = true. Proof. apply ty_eqb_iff. reflexivity. Qed.
Lemma ex_eqb_refl a : ex_eqb a a = true. Proof. apply ex_eqb_iff. reflexivity. Qed.

(* the run-time denotation test of the correspondence check (and of the depth-2 sweep) succeeds on EVERY
   in-domain type of depth below 30: all four printed texts are read back as the model trees *)
Theorem den_ok_all m t : map_ok m = true -> dom t = true -> tsdepth t < 30 -> den_ok m t = true.
Proof.
  intros Hm Hd Hdep. assert (tsdepth t < 31) as Hdep' by lia. destruct (budgets m t false Hm Hdep') as [Hn He].
  unfold den_ok. rewrite (ziface_plain m t), (parse_plain m Hm t Hd Hn), (parse_visit m Hm t Hd (visit_budget m t Hdep)).
  unfold build_schema. rewrite (parse_build m Hm t false Hd He). rewrite ty_eqb_refl, ex_eqb_refl, ex_eqb_refl. reflexivity.
Qed.
