(* C07: from the domain predicate and the complement of the syntactic classes to the decidable
   premise agree_b of C07_exact (project level lifting of Proofs/C07Agree.v). *)
From Coq Require Import String Ascii.
From Coq Require Import List Arith Lia Bool.
Require Import TT.Model.Base TT.Model.Str TT.Proofs.StrFacts TT.Model.C07TypeParse TT.Proofs.C07TypeParseProofs TT.Model.C07Harvest TT.Proofs.C07HarvestProofs.
Require Import TT.Model.C07Worklist TT.Model.C07Reach TT.Spec.C07Spec TT.Proofs.WorklistSpike TT.Proofs.C07Concrete TT.Proofs.C07Agree.
Import ListNotations.
Local Open Scope list_scope.

Lemma find_ext {A} (f g : A -> bool) l : (forall x, In x l -> f x = g x) -> find f l = find g l.
Proof. induction l as [|a l IH]; intros H; simpl; auto. rewrite (H a) by (left; auto).
  destruct (g a); auto. apply IH. intros; apply H; right; auto. Qed.

Lemma in_flat_map_equiv {A} (f g : A -> list str) (l : list A) y :
  (forall a, In a l -> (In y (f a) <-> In y (g a))) -> (In y (flat_map f l) <-> In y (flat_map g l)).
Proof. intros H. rewrite !in_flat_map. split; intros (a & Ha & Hy); exists a; split; auto; apply (H a Ha); auto. Qed.

Lemma ok_sub y : forall q, In y (ok_names q) -> In y (leaf_names q).
Proof. induction q as [segs n angle args IH|t IH|ts IH] using cty_ind'; cbn [ok_names leaf_names].
  - destruct (str_eqb n (L "Result")).
    + destruct args as [|a rest]; [intros []|]. inversion IH; subst. intros H. right. simpl. apply in_or_app. left. auto.
    + intros [->|H]; [left; auto|right]. rewrite in_flat_map in *. destruct H as (a & Ha & Hy). exists a. split; auto.
      rewrite Forall_forall in IH. apply IH; auto.
  - auto.
  - intros H. rewrite in_flat_map in *. destruct H as (a & Ha & Hy). exists a. split; auto. rewrite Forall_forall in IH. apply IH; auto.
Qed.

Lemma lookup_sym_param v ps : lookup_sym v ps = option_map last_name (lookup_param v ps).
Proof. induction ps as [|[n t] r IH]; simpl; auto. rewrite IH. destruct (lookup_param v r); simpl; auto.
  destruct (str_eqb n v); auto. Qed.

Lemma bare_facts t : bare_named t = true -> exists n, is_ident n = true /\ last_name t = n /\ leaf_names t = [n].
Proof. destruct t as [segs n angle args|t|ts]; simpl; try discriminate.
  - destruct segs; [|discriminate]. destruct angle; [discriminate|]. destruct args; [|discriminate]. intros H. exists n. auto.
  - destruct t as [segs n angle args|t|ts]; try discriminate. destruct segs; [|discriminate]. destruct angle; [discriminate|].
    destruct args; [|discriminate]. intros H. exists n. auto.
Qed.

Definition bare (n : str) : cty := CPath [] n false [].
Lemma bare_agree n y : is_ident n = true -> good y ->
  (In y (extract_type_names n) <-> y = n) /\ (In y (ts_of n) <-> y = n).
Proof.
  intros Hid Hg.
  assert (Hok : ty_ok (bare n) = true). { unfold bare. cbn [ty_ok]. rewrite Hid. reflexivity. }
  destruct (readers_agree (bare n) y Hok Hg) as [A B].
  assert (Et : tstr (bare n) = n) by reflexivity. rewrite Et in A, B.
  destruct Hg as [Hc Hh]. assert (Hres : y <> L "Result"). { intros ->. vm_compute in Hh. discriminate. }
  split.
  - rewrite A. simpl. split; [intros [E|[]]; auto|intros ->; auto].
  - rewrite B. cbn [bare ok_names]. destruct (str_eqb n (L "Result")) eqn:ER.
    + apply str_eqb_eq in ER. subst n. simpl. split; [tauto|]. intros E. contradiction.
    + simpl. split; [intros [E|[]]; auto|intros ->; auto].
Qed.

Lemma smemb_iff_eqb y a b : (In y a <-> In y b) -> Bool.eqb (smemb y a) (smemb y b) = true.
Proof. intros H. destruct (smemb y a) eqn:Ea, (smemb y b) eqn:Eb; auto.
  - apply smemb_true in Ea. apply H in Ea. apply smemb_true in Ea. congruence.
  - apply smemb_true in Eb. apply H in Eb. apply smemb_true in Eb. congruence. Qed.
Lemma bool_iff_eqb (a b : bool) : (a = true <-> b = true) -> Bool.eqb a b = true.
Proof. destruct a, b; simpl; intros [H1 H2]; auto; try (symmetry; apply H2; reflexivity); try (apply H1; reflexivity). Qed.

Lemma find_app {A} (f : A -> bool) a b : find f (a ++ b) = match find f a with Some x => Some x | None => find f b end.
Proof. induction a as [|x a IH]; simpl; auto. destruct (f x); auto. Qed.
Lemma find_none_all {A} (f : A -> bool) l : (forall x, In x l -> f x = false) -> find f l = None.
Proof. induction l as [|x l IH]; intros H; simpl; auto. rewrite (H x) by (left; auto). apply IH. intros; apply H; right; auto. Qed.
(* definitions inside inline modules that the predicate rejects do not change a search *)
Lemma find_items (f : tdef -> bool) its :
  (forall d, In d (flat_map (fun it => match it with IMod ds => ds | _ => [] end) its) -> f d = false) ->
  find f (flat_map item_defs its) = find f (file_defs its).
Proof. unfold file_defs. induction its as [|it its IH]; intros H; simpl; auto. rewrite !find_app.
  assert (Hrest : find f (flat_map item_defs its) = find f (flat_map (fun it => match it with IDef d => [d] | _ => [] end) its)).
  { apply IH. intros d Hd. apply H. simpl. apply in_or_app. right. auto. }
  rewrite Hrest. destruct it as [d|g| |ds]; simpl; auto.
  rewrite (find_none_all f ds); auto. intros d Hd. apply H. simpl. apply in_or_app. left. auto. Qed.
Lemma find_files (f : tdef -> bool) (p : project) :
  (forall d, In d (nested_defs p) -> f d = false) -> find f (spec_defs p) = find f (defs p).
Proof. unfold spec_defs, defs, nested_defs. induction p as [|fl p IH]; intros H; simpl; auto. rewrite !find_app.
  rewrite (find_items f (snd fl)) by (intros d Hd; apply H; simpl; apply in_or_app; left; auto).
  rewrite IH by (intros d Hd; apply H; simpl; apply in_or_app; right; auto). reflexivity. Qed.

Section Lift.
Variable p : project.
Hypothesis Hdom : in_domain p = true.
Hypothesis K5 : kf_c07_field_result p = false.
Hypothesis K6 : kf_c07_odd_name p = false.
Hypothesis K7 : kf_c07_inline_mod p = false.

(* the conjuncts of the domain predicate *)
Lemma dom_parts :
  (forall t, In t (all_types p) -> ty_ok t = true) /\
  (forall d, In d (spec_defs p) -> is_ident (d_name d) = true /\ one_of (d_name d) known_heads = false /\
                              included d = serde_def d /\ (d_kind d = DTuple -> serde_def d = false)) /\
  (forall t, In t (input_types p) -> has_result2 (rty_of t) = false) /\
  (forall f, In f (all_fns p) ->
     forallb (fun e => match e with
                       | PVar v => match lookup_param v (fn_params f) with
                                   | Some t => bare_named t | None => is_ident v && negb (custom_name v) end
                       | PStruct n => is_ident n
                       | PVariant e v _ => is_ident e && is_ident v
                       | PNew segs n => is_ident n && forallb is_ident segs
                       | POther => false end) (fn_emits f) = true).
Proof.
  unfold in_domain in Hdom.
  apply andb_true_iff in Hdom as [Hd0 Hev]. apply andb_true_iff in Hd0 as [Hd0 Hin]. apply andb_true_iff in Hd0 as [Hd0 Hdefs].
  apply andb_true_iff in Hd0 as [Hd0 _]. apply andb_true_iff in Hd0 as [Hty _].
  rewrite forallb_forall in Hty, Hdefs, Hin, Hev. split; [exact Hty|]. split; [|split; [|exact Hev]].
  - intros d Hd. specialize (Hdefs d Hd).
    apply andb_true_iff in Hdefs as [H1 Ht]. apply andb_true_iff in H1 as [H1 Heq]. apply andb_true_iff in H1 as [Hid Hh].
    split; auto. split; [apply negb_true_iff in Hh; exact Hh|]. split; [apply eqb_prop; auto|].
    intros Ek. rewrite Ek in Ht. apply negb_true_iff in Ht. auto.
  - intros t Ht. specialize (Hin t Ht). apply negb_true_iff in Hin. auto.
Qed.

(* outside the class of payload expressions the tool cannot type: what an emit's payload can be *)
Lemma dom_events (K8 : kf_c07_payload_expr p = false) :
  forall f e, In f (all_fns p) -> In e (fn_emits f) ->
      match e with
      | PVar v => (exists t, lookup_param v (fn_params f) = Some t /\ bare_named t = true) \/
                  (lookup_param v (fn_params f) = None /\ is_ident v = true /\ custom_name v = false)
      | PStruct n => is_ident n = true
      | POther => False
      | PVariant _ _ _ => False
      | PNew segs n => segs = [] /\ is_ident n = true end.
Proof.
  intros f e Hf He. destruct dom_parts as (_ & _ & _ & Hev). specialize (Hev f Hf). rewrite forallb_forall in Hev. specialize (Hev e He).
  assert (Hk : match e with PVariant _ _ _ => false | PNew (_ :: _) _ => false | _ => true end = true).
  { unfold kf_c07_payload_expr in K8. apply existsb_false_Forall in K8. rewrite Forall_forall in K8. specialize (K8 f Hf).
    apply existsb_false_Forall in K8. rewrite Forall_forall in K8. specialize (K8 e He).
    destruct e as [| | | |[|]]; auto; discriminate. }
  destruct e as [v|n| |e0 v0 st|segs n]; auto; try discriminate.
  - destruct (lookup_param v (fn_params f)) as [t|]; [left; exists t; auto|].
    right. apply andb_true_iff in Hev as [H1 H2]. apply negb_true_iff in H2. auto.
  - destruct segs; [|discriminate]. apply andb_true_iff in Hev as [H1 _]. auto.
Qed.

Lemma lookup_same n : lookup p n = spec_lookup p n.
Proof. unfold lookup, spec_lookup. rewrite find_files.
  - apply find_ext. intros d Hd. destruct dom_parts as (_ & Hd' & _).
    destruct (Hd' d (defs_incl p d Hd)) as (_ & _ & -> & _). reflexivity.
  - intros d Hd. unfold kf_c07_inline_mod in K7. apply existsb_false_Forall in K7. rewrite Forall_forall in K7.
    rewrite (K7 d Hd). reflexivity. Qed.

Lemma defined_same n : resolvable p n = spec_defined p n.
Proof. unfold resolvable, field_strings, spec_defined. rewrite lookup_same. unfold spec_lookup.
  destruct (find _ (spec_defs p)) as [d|] eqn:E; auto. apply find_some in E as [Hin Hc]. apply andb_true_iff in Hc as [Hs _].
  destruct dom_parts as (_ & Hd' & _). destruct (Hd' d Hin) as (_ & _ & _ & Ht).
  destruct (d_kind d); auto. rewrite Ht in Hs; auto. Qed.

Lemma defined_good y : resolvable p y = true -> good y /\ is_ident y = true.
Proof. rewrite defined_same. unfold spec_defined, spec_lookup. destruct (find _ (spec_defs p)) as [d|] eqn:E; [|discriminate]. intros _.
  apply find_some in E as [Hin Hc]. apply andb_true_iff in Hc as [Hs Hn]. apply str_eqb_true in Hn. subst y.
  destruct dom_parts as (_ & Hd' & _). destruct (Hd' d Hin) as (Hid & Hh & _ & _). split; auto. split; auto.
  unfold kf_c07_odd_name in K6. apply existsb_false_Forall in K6. rewrite Forall_forall in K6. specialize (K6 d Hin).
  rewrite Hs in K6. simpl in K6. apply negb_false_iff in K6. auto. Qed.

Lemma in_flat_map_map2 {A B} (f : B -> list str) (g : A -> B) l y :
  In y (flat_map f (map g l)) <-> exists a, In a l /\ In y (f (g a)).
Proof. rewrite in_flat_map. split.
  - intros (b & Hb & Hy). apply in_map_iff in Hb as (a & <- & Ha). eauto.
  - intros (a & Ha & Hy). exists (g a). split; auto. apply in_map; auto. Qed.
Lemma in_concat_map {A} (h : A -> list str) l y : In y (concat (map h l)) <-> exists a, In a l /\ In y (h a).
Proof. rewrite in_concat. split.
  - intros (x & Hx & Hy). apply in_map_iff in Hx as (a & <- & Ha). eauto.
  - intros (a & Ha & Hy). exists (h a). split; auto. apply in_map; auto. Qed.

Lemma field_type_in d fs f : In d (defs p) -> serde_def d = true -> d_kind d = DStruct fs ->
  In f (filter (fun f => negb (f_skip f)) fs) -> In (f_ty f) (all_types p).
Proof. intros Hd Hs Hk Hf. unfold all_types. apply in_or_app. right. unfold field_types. apply in_flat_map.
  exists d. split.
  - apply filter_In. split; auto. destruct dom_parts as (_ & Hd' & _). destruct (Hd' d (defs_incl p d Hd)) as (_ & _ & -> & _). auto.
  - rewrite Hk. apply in_map. auto. Qed.

Lemma type_agree t y : In t (all_types p) -> good y ->
  (In y (extract_type_names (tstr t)) <-> In y (leaf_names t)) /\ (In y (ts_of (tstr t)) <-> In y (ok_names t)).
Proof. intros Ht Hg. destruct dom_parts as (Hty & _).
  destruct (readers_agree t y (Hty t Ht) Hg) as [A B]. split; auto. Qed.

Lemma fields_agree n y : resolvable p n = true -> good y ->
  (In y (deps_of p n) <-> In y (spec_succ p n)) /\ (In y (concat (raw_fields_ts p n)) <-> In y (spec_succ p n)).
Proof.
  intros Hn Hg. unfold deps_of, raw_fields_ts, field_strings, spec_succ. rewrite <- lookup_same. unfold lookup.
  destruct (find _ (defs p)) as [d|] eqn:E; [|simpl; tauto]. apply find_some in E as [Hin Hc]. apply andb_true_iff in Hc as [Hs _].
  assert (Hs' : serde_def d = true).
  { destruct dom_parts as (_ & Hd' & _). destruct (Hd' d (defs_incl p d Hin)) as (_ & _ & <- & _). auto. }
  clear Hs. rename Hs' into Hs.
  destruct (d_kind d) as [fs| | |] eqn:Ek; try (simpl; tauto).
  set (F := filter (fun f => negb (f_skip f)) fs).
  assert (HF : forall f, In f F -> In (f_ty f) (all_types p)) by (intros f Hf; eapply field_type_in; eauto).
  assert (Hr : forall f, In f F -> has_result2 (rty_of (f_ty f)) = false).
  { intros f Hf. unfold kf_c07_field_result in K5. apply existsb_false_Forall in K5. rewrite Forall_forall in K5. apply K5.
    unfold field_types. apply in_flat_map. exists d. split.
    - apply filter_In. split; auto. destruct dom_parts as (_ & Hd' & _). destruct (Hd' d (defs_incl p d Hin)) as (_ & _ & -> & _). auto.
    - rewrite Ek. apply in_map. auto. }
  split.
  - rewrite (in_flat_map_map2 extract_type_names (fun f => tstr (f_ty f)) F y). rewrite in_flat_map.
    split; intros (f & Hf & Hy); exists f; split; auto; apply (type_agree (f_ty f) y (HF f Hf) Hg); auto.
  - rewrite (in_concat_map (fun s => ts_of s)). rewrite in_flat_map. split.
    + intros (s & Hsin & Hy). apply in_map_iff in Hsin as (f & <- & Hf). exists f. split; auto.
      destruct dom_parts as (Hty & _).
      apply (ok_leaf y Hg (f_ty f) (Hty _ (HF f Hf)) (Hr f Hf)). apply (type_agree (f_ty f) y (HF f Hf) Hg). auto.
    + intros (f & Hf & Hy). exists (tstr (f_ty f)). split; [apply in_map_iff; exists f; split; auto|].
      destruct dom_parts as (Hty & _).
      apply (type_agree (f_ty f) y (HF f Hf) Hg). apply (ok_leaf y Hg (f_ty f) (Hty _ (HF f Hf)) (Hr f Hf)). auto.
Qed.

(* ---------- roots ---------- *)
Lemma cmd_type_in c t : In c (commands p) ->
  In t (cmd_channels c) \/ In t (cmd_params c) \/ fn_ret c = Some t -> In t (all_types p).
Proof. intros Hc Ht. unfold all_types. apply in_or_app. left. unfold root_types. apply in_flat_map. exists c. split; auto.
  rewrite !in_app_iff. destruct Ht as [H|[H|H]]; auto. right. right. rewrite H. left. auto. Qed.
Lemma input_type_plain c t y : In c (commands p) -> In t (cmd_channels c) \/ In t (cmd_params c) -> good y ->
  (In y (ts_of (tstr t)) <-> In y (leaf_names t)).
Proof. intros Hc Ht Hg.
  assert (Hall : In t (all_types p)) by (apply (cmd_type_in c); auto; tauto).
  assert (Hin : In t (input_types p)). { unfold input_types. apply in_flat_map. exists c. split; auto. apply in_or_app. tauto. }
  destruct dom_parts as (Hty & _ & Hres & _).
  rewrite (proj2 (type_agree t y Hall Hg)). apply ok_leaf; auto. Qed.

Lemma ts_unit : ts_of (L "()") = []. Proof. vm_compute. reflexivity. Qed.

Lemma roots_T y : good y -> (In y (used_roots p) <-> In y (command_roots p)).
Proof.
  intros Hg. unfold used_roots, command_roots. apply in_flat_map_equiv. intros c Hc.
  rewrite !in_app_iff.
  assert (HP : In y (flat_map (fun t => ts_of (tstr t)) (cmd_params c)) <-> In y (flat_map leaf_names (cmd_params c))).
  { apply in_flat_map_equiv. intros t Ht. apply (input_type_plain c); auto. }
  assert (HC : In y (flat_map (fun t => ts_of (tstr t)) (cmd_channels c)) <-> In y (flat_map leaf_names (cmd_channels c))).
  { apply in_flat_map_equiv. intros t Ht. apply (input_type_plain c); auto. }
  assert (HR : In y (ts_of (cmd_ret c)) <-> In y (match fn_ret c with Some t => ok_names t | None => [] end)).
  { unfold cmd_ret. destruct (fn_ret c) as [t|] eqn:Er; [|rewrite ts_unit; tauto].
    apply (type_agree t y); auto. apply (cmd_type_in c); auto. }
  tauto.
Qed.

Lemma harvest_in s y : In s (root_strings p) -> In y (extract_type_names s) -> In y (harvest_roots p).
Proof. intros Hs Hy. unfold harvest_roots. apply in_flat_map. exists s. auto. Qed.

Lemma roots_H (K8 : kf_c07_payload_expr p = false) y : good y -> In y (command_roots p) \/ In y (event_roots p) -> In y (harvest_roots p).
Proof.
  intros Hg [H|H].
  - unfold command_roots in H. apply in_flat_map in H as (c & Hc & Hy).
    assert (Hrs : forall s, In s (map tstr (cmd_channels c) ++ map tstr (cmd_params c) ++ [cmd_ret c]) -> In s (root_strings p)).
    { intros s Hs. unfold root_strings. apply in_or_app. left. apply in_flat_map. exists c. auto. }
    rewrite !in_app_iff in Hy. destruct Hy as [Hy|[Hy|Hy]].
    + apply in_flat_map in Hy as (t & Ht & Hy). apply (harvest_in (tstr t)).
      * apply Hrs. apply in_or_app. left. apply in_map. auto.
      * apply (type_agree t y); auto. apply (cmd_type_in c); auto.
    + apply in_flat_map in Hy as (t & Ht & Hy). apply (harvest_in (tstr t)).
      * apply Hrs. apply in_or_app. right. apply in_or_app. left. apply in_map. auto.
      * apply (type_agree t y); auto. apply (cmd_type_in c); auto.
    + destruct (fn_ret c) as [t|] eqn:Er; [|contradiction]. apply (harvest_in (tstr t)).
      * apply Hrs. apply in_or_app. right. apply in_or_app. right. unfold cmd_ret. rewrite Er. left. auto.
      * apply (type_agree t y); auto. { apply (cmd_type_in c); auto. } apply ok_sub. auto.
  - unfold event_roots in H. apply in_flat_map in H as (f & Hf & Hy). apply in_flat_map in Hy as (e & He & Hy).
    pose proof (dom_events K8) as Hev. specialize (Hev f e Hf He).
    assert (Hes : In (payload_type f e) (root_strings p)).
    { unfold root_strings. apply in_or_app. right. unfold events. apply in_flat_map. exists f. split; auto. apply in_map. auto. }
    destruct e as [v|n| |e0 v0 st|segs n]; [| |contradiction|contradiction|].
    3: { destruct Hev as [-> Hid]. cbn [payload_names] in Hy. destruct Hy as [<-|[]]. apply (harvest_in _ _ Hes). cbn [payload_type].
         apply (bare_agree n n Hid Hg). auto. }
    + destruct Hev as [(t & Hl & Hb)|(Hl & _ & _)]; [|cbn [payload_names] in Hy; rewrite Hl in Hy; contradiction].
      destruct (bare_facts t Hb) as (n & Hid & Hln & Hleaf).
      cbn [payload_names] in Hy. rewrite Hl, Hleaf in Hy. destruct Hy as [<-|[]].
      apply (harvest_in _ _ Hes). cbn [payload_type]. rewrite lookup_sym_param, Hl. cbn [option_map]. rewrite Hln.
      apply (bare_agree n n Hid Hg). auto.
    + cbn [payload_names] in Hy. destruct Hy as [<-|[]]. apply (harvest_in _ _ Hes). cbn [payload_type].
      apply (bare_agree n n Hev Hg). auto.
Qed.

Lemma events_T (K8 : kf_c07_payload_expr p = false) y : good y ->
  (existsb (fun e => smemb y (ts_of e)) (events p) = true <-> In y (event_roots p)).
Proof.
  intros Hg. rewrite existsb_exists. unfold events, event_roots. pose proof (dom_events K8) as Hev. split.
  - intros (s & Hs & Hy). apply smemb_true in Hy. apply in_flat_map in Hs as (f & Hf & Hs). apply in_map_iff in Hs as (e & <- & He).
    apply in_flat_map. exists f. split; auto. apply in_flat_map. exists e. split; auto.
    specialize (Hev f e Hf He). destruct e as [v|n| |e0 v0 st|segs n]; [| |contradiction|contradiction|].
    3: { destruct Hev as [-> Hid]. cbn [payload_type] in Hy. apply (bare_agree n y Hid Hg) in Hy. subst y. left. auto. }
    + destruct Hev as [(t & Hl & Hb)|(Hl & Hid & Hcn)].
      2: { exfalso. cbn [payload_type] in Hy. rewrite lookup_sym_param, Hl in Hy. cbn [option_map] in Hy.
           apply (bare_agree v y Hid Hg) in Hy. subst y. destruct Hg as [Hc _]. congruence. }
      destruct (bare_facts t Hb) as (n & Hid & Hln & Hleaf).
      cbn [payload_type] in Hy. rewrite lookup_sym_param, Hl in Hy. cbn [option_map] in Hy. rewrite Hln in Hy.
      apply (bare_agree n y Hid Hg) in Hy. subst y. cbn [payload_names]. rewrite Hl, Hleaf. left. auto.
    + cbn [payload_type] in Hy. apply (bare_agree n y Hev Hg) in Hy. subst y. left. auto.
  - intros H. apply in_flat_map in H as (f & Hf & Hy). apply in_flat_map in Hy as (e & He & Hy).
    exists (payload_type f e). split; [apply in_flat_map; exists f; split; auto; apply in_map; auto|].
    apply smemb_true. specialize (Hev f e Hf He). destruct e as [v|n| |e0 v0 st|segs n]; [| |contradiction|contradiction|].
    3: { destruct Hev as [-> Hid]. cbn [payload_names] in Hy. destruct Hy as [<-|[]]. cbn [payload_type]. apply (bare_agree n n Hid Hg). auto. }
    + destruct Hev as [(t & Hl & Hb)|(Hl & _ & _)]; [|cbn [payload_names] in Hy; rewrite Hl in Hy; contradiction].
      destruct (bare_facts t Hb) as (n & Hid & Hln & Hleaf).
      cbn [payload_names] in Hy. rewrite Hl, Hleaf in Hy. destruct Hy as [<-|[]].
      cbn [payload_type]. rewrite lookup_sym_param, Hl. cbn [option_map]. rewrite Hln. apply (bare_agree n n Hid Hg). auto.
    + cbn [payload_names] in Hy. destruct Hy as [<-|[]]. cbn [payload_type]. apply (bare_agree n n Hev Hg). auto.
Qed.

(* ---------- the decidable premise of C07_exact holds ---------- *)
Theorem agree_from_classes (K8 : kf_c07_payload_expr p = false) : agree_b p = true.
Proof.
  unfold agree_b. apply andb_true_iff. split; [apply andb_true_iff; split|].
  - apply forallb_forall. intros n _. rewrite defined_same. apply eqb_reflx.
  - apply forallb_forall. intros n Hn. apply forallb_forall. intros y Hy.
    unfold dnames in Hn, Hy. apply filter_In in Hn as [_ Hn]. apply filter_In in Hy as [_ Hy].
    destruct (defined_good y Hy) as [Hg _]. destruct (fields_agree n y Hn Hg) as [A B].
    apply andb_true_iff. split; apply smemb_iff_eqb; auto.
  - apply forallb_forall. intros y Hy. unfold dnames in Hy. apply filter_In in Hy as [_ Hy].
    destruct (defined_good y Hy) as [Hg _].
    apply andb_true_iff. split; [apply andb_true_iff; split|].
    + apply smemb_iff_eqb. apply roots_T; auto.
    + destruct (smemb y (command_roots p) || smemb y (event_roots p)) eqn:E; [|reflexivity]. simpl.
      apply smemb_true. apply (roots_H K8); auto. apply orb_true_iff in E as [E|E]; apply smemb_true in E; auto.
    + apply bool_iff_eqb. rewrite smemb_true. apply (events_T K8); auto.
Qed.
End Lift.

(* C09: outside the classes every schema reference to a defined type is a recorded dependency *)
Theorem edges_recorded_from_classes p : in_domain p = true ->
  kf_c07_field_result p = false -> kf_c07_odd_name p = false -> kf_c07_inline_mod p = false ->
  forallb (fun n => forallb (fun v => negb (resolvable p v) || smemb v (deps_of p n)) (concat (raw_fields_ts p n))) (dnames p) = true.
Proof.
  intros Hdom K5 K6 K7. apply forallb_forall. intros n Hn. apply forallb_forall. intros v Hv.
  unfold dnames in Hn. apply filter_In in Hn as [_ Hn].
  destruct (resolvable p v) eqn:Ev; [|reflexivity]. simpl.
  destruct (defined_good p Hdom K6 K7 v Ev) as [Hg _].
  destruct (fields_agree p Hdom K5 K7 n v Hn Hg) as [A B].
  apply smemb_true. apply A. apply B. exact Hv.
Qed.
