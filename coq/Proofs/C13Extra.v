(* C13: order independence outside the known classes, noise, the sorting repair, refutations. *)
From Coq Require Import List Arith Lia Bool Permutation.
Require Import TT.Model.Base TT.Model.Topo TT.Model.C13Order TT.Spec.C13Rel.
Require Import TT.Proofs.TopoProofs TT.Proofs.C13SortInv TT.Proofs.C13Proofs.
Import ListNotations.

(* ---------------- outside the classes ---------------- *)
Lemma commands_indep p w w' : kf_cmd_files p = false -> commands w p = commands w' p.
Proof. intros H. unfold commands. apply by_files_indep. exact H. Qed.
Lemma events_indep p w w' : kf_ev_files p = false -> events w p = events w' p.
Proof. intros H. unfold events. apply by_files_indep. exact H. Qed.

Theorem deterministic_commands : forall p zod w w', kf_cmd_files p = false -> commands_file zod w p = commands_file zod w' p.
Proof. intros p zod w w' H. unfold commands_file. rewrite (commands_indep p w w' H). reflexivity. Qed.
Theorem deterministic_events : forall p w w', kf_ev_files p = false ->
  events_file w p = events_file w' p /\ index_file w p = index_file w' p.
Proof. intros p w w' H. unfold events_file, index_file. rewrite (events_indep p w w' H). split; reflexivity. Qed.

Lemma param_decls_indep p w w' : kf_param_files p = false ->
  flat_map param_decl (commands w p) = flat_map param_decl (commands w' p) /\
  flat_map pschema_decl (commands w p) = flat_map pschema_decl (commands w' p).
Proof. intros H. unfold commands. rewrite !flat_map_flat_map. split.
  - apply by_files_indep. exact H.
  - apply by_files_indep. unfold kf_param_files in H. apply Nat.leb_gt in H. apply Nat.leb_gt.
    eapply Nat.le_lt_trans; [|exact H]. unfold count_files. apply filter_length_mono.
    intros f Hf. unfold file_cmds in *. induction (flat_map item_cmds (snd f)) as [|c l IH]; cbn [flat_map] in *; [discriminate|].
    unfold pschema_decl, param_decl in *. destruct (c_params c); cbn [orb app] in *; auto.
    destruct (c_chans c); cbn [app nonnil]; auto. Qed.

Lemma index_lookup p w : kf_dupdef p = false -> forall m, lookup (index w p) m = lookup (all_types p) m.
Proof. intros Hd m. apply lookup_perm; [|apply index_perm].
  eapply Permutation_NoDup; [apply Permutation_map, Permutation_sym, index_perm|]. apply has_dup_NoDup. exact Hd. Qed.
Lemma used_canon p w : kf_dupdef p = false -> Permutation (used (index w p) p) (used (all_types p) p).
Proof. intros Hd. apply used_perm; [apply index_lookup; auto| |]; intros x; tauto. Qed.

Theorem deterministic_types : forall p zod w w', kf_dupdef p = false -> kf_types_thm zod p = false ->
  types_file zod w p = types_file zod w' p.
Proof. intros p zod w w' Hd Hk. unfold kf_types_thm in Hk. apply orb_false_iff in Hk as [Hpf Hu].
  destruct (param_decls_indep p w w' Hpf) as [Hp1 Hp2].
  assert (Hl : forall m, lookup (index w p) m = lookup (index w' p) m) by (intros; rewrite !index_lookup; auto).
  unfold kf_used2 in Hu. apply Nat.leb_gt in Hu.
  unfold types_file. rewrite Hp1, Hp2. destruct zod.
  - f_equal. replace (zod_order w (index w p) p) with (zod_order w' (index w' p) p).
    + unfold type_decls_zod. apply flat_map_ext. intros a. rewrite Hl. reflexivity.
    + apply (perm_short_eq (used (all_types p) p)); auto.
      * eapply perm_trans; [apply zod_order_perm|apply used_canon; auto].
      * eapply perm_trans; [apply zod_order_perm|apply used_canon; auto].
  - f_equal. replace (order_by ident (w_used w) (used (index w p) p)) with (order_by ident (w_used w') (used (index w' p) p)).
    + unfold type_decls_plain. apply flat_map_ext. intros a. rewrite Hl. reflexivity.
    + apply (perm_short_eq (used (all_types p) p)); auto.
      * eapply perm_trans; [apply order_by_perm|apply used_canon; auto].
      * eapply perm_trans; [apply order_by_perm|apply used_canon; auto]. Qed.

Theorem deterministic : forall p zod w w', kf_dupdef p = false ->
  kf_cmd_files p = false -> kf_ev_files p = false -> kf_types_thm zod p = false ->
  gen zod w p = gen zod w' p.
Proof. intros p zod w w' Hd Hc He Ht. unfold gen. rewrite (commands_indep p w w' Hc).
  destruct (commands w' p); auto. f_equal.
  rewrite (deterministic_types p zod w w' Hd Ht), (deterministic_commands p zod w w' Hc).
  destruct (deterministic_events p w w' He) as [-> ->]. reflexivity. Qed.

(* ---------------- noise ---------------- *)
Lemma flat_map_filter_nil {A B} (h : A -> list B) (keep : A -> bool) l :
  (forall a, keep a = false -> h a = []) -> flat_map h (filter keep l) = flat_map h l.
Proof. intros H. induction l as [|a l IH]; cbn [filter flat_map]; auto. destruct (keep a) eqn:E; cbn [flat_map].
  rewrite IH; auto. rewrite (H a E), IH. reflexivity. Qed.
Lemma noise_contrib it : negb (is_noise it) = false -> item_cmds it = [] /\ item_events it = [] /\ item_types it = [].
Proof. destruct it as [c e|[|e l]| |]; cbn; intros H; try discriminate; auto. Qed.
Lemma denoise_file_same f : file_cmds (denoise_file f) = file_cmds f /\ file_events (denoise_file f) = file_events f /\
  file_types (denoise_file f) = file_types f.
Proof. unfold file_cmds, file_events, file_types, denoise_file. cbn [snd]. repeat split; apply flat_map_filter_nil; intros a Ha; apply noise_contrib; auto. Qed.
Lemma files_denoise w p : files_in_order w (denoise p) = map denoise_file (files_in_order w p).
Proof. unfold files_in_order, order_by, denoise. apply isort_map. intros a b. reflexivity. Qed.
Lemma flat_map_map_same {A B} (h : A -> list B) (g : A -> A) l : (forall a, h (g a) = h a) -> flat_map h (map g l) = flat_map h l.
Proof. intros H. induction l as [|a l IH]; cbn [map flat_map]; auto. rewrite H, IH. reflexivity. Qed.

Theorem noise : forall p zod w, gen zod w (denoise p) = gen zod w p.
Proof. intros p zod w.
  assert (Hc : commands w (denoise p) = commands w p).
  { unfold commands. rewrite files_denoise. apply flat_map_map_same. intros; apply denoise_file_same. }
  assert (He : events w (denoise p) = events w p).
  { unfold events. rewrite files_denoise. apply flat_map_map_same. intros; apply denoise_file_same. }
  assert (Hi : index w (denoise p) = index w p).
  { unfold index. rewrite files_denoise. apply flat_map_map_same. intros; apply denoise_file_same. }
  assert (Hcr : cmd_roots (denoise p) = cmd_roots p).
  { unfold cmd_roots, all_cmds, denoise. f_equal. apply flat_map_map_same. intros; apply denoise_file_same. }
  assert (Her : ev_roots (denoise p) = ev_roots p).
  { unfold ev_roots, all_events, denoise. f_equal. apply flat_map_map_same. intros; apply denoise_file_same. }
  assert (Hu : forall idx, used idx (denoise p) = used idx p) by (intros; unfold used; rewrite Hcr, Her; reflexivity).
  assert (Hz : forall idx, zod_order w idx (denoise p) = zod_order w idx p).
  { intros. unfold zod_order, zod_graph, discovered. rewrite Hu, Hcr, Her. reflexivity. }
  unfold gen, types_file, commands_file, events_file, index_file. rewrite Hc, He, Hi, Hu, Hz. reflexivity. Qed.

Corollary noise_equiv : forall p p' zod w, denoise p = denoise p' -> gen zod w p = gen zod w p'.
Proof. intros p p' zod w H. rewrite <- (noise p), <- (noise p'), H. reflexivity. Qed.

(* a file that holds nothing but noise *)
Lemma noise_file_contrib f : noise_file f = true -> file_cmds f = [] /\ file_events f = [] /\ file_types f = [].
Proof. unfold noise_file, file_cmds, file_events, file_types. intros H. rewrite forallb_forall in H.
  repeat split; apply flat_map_all_nil; intros it Hit; apply noise_contrib; rewrite (H it Hit); reflexivity. Qed.
Theorem noise_file_thm : forall f p zod w, noise_file f = true -> gen zod w (f :: p) = gen zod w p.
Proof. intros f p zod w H. destruct (noise_file_contrib f H) as (H1 & H2 & H3).
  assert (Hc : commands w (f :: p) = commands w p).
  { unfold commands, files_in_order, order_by. cbn [isort]. apply flat_map_insert_nil; auto. }
  assert (He : events w (f :: p) = events w p).
  { unfold events, files_in_order, order_by. cbn [isort]. apply flat_map_insert_nil; auto. }
  assert (Hi : index w (f :: p) = index w p).
  { unfold index, files_in_order, order_by. cbn [isort]. apply flat_map_insert_nil; auto. }
  assert (Hcr : cmd_roots (f :: p) = cmd_roots p) by (unfold cmd_roots, all_cmds; cbn [flat_map]; rewrite H1; reflexivity).
  assert (Her : ev_roots (f :: p) = ev_roots p) by (unfold ev_roots, all_events; cbn [flat_map]; rewrite H2; reflexivity).
  assert (Hu : forall idx, used idx (f :: p) = used idx p) by (intros; unfold used; rewrite Hcr, Her; reflexivity).
  assert (Hz : forall idx, zod_order w idx (f :: p) = zod_order w idx p).
  { intros. unfold zod_order, zod_graph, discovered. rewrite Hu, Hcr, Her. reflexivity. }
  unfold gen, types_file, commands_file, events_file, index_file. rewrite Hc, He, Hi, Hu, Hz. reflexivity. Qed.

(* ---------------- the repair ---------------- *)
Lemma ns_eq o l : sort_names (order_by ident o l) = sort_names l.
Proof. apply sort_names_invariant. apply order_by_perm. Qed.
Theorem sorted_fix : forall p zod w w', gen_fixed zod w p = gen_fixed zod w' p.
Proof. intros p zod w w'. unfold gen_fixed. f_equal. unfold repaired. rewrite !ns_eq.
  f_equal.
  - apply sort_names_invariant. apply Permutation_map. eapply perm_trans; [apply files_perm|apply Permutation_sym, files_perm].
  - apply map_ext. intros n. rewrite !ns_eq. reflexivity. Qed.

(* ---------------- refutations (computed witnesses) ---------------- *)
Definition mk_cmd (n : name) (roots : list name) : item :=
  ICmd {| c_name := n; c_roots := roots; c_params := negb (match roots with [] => true | _ => false end); c_chans := false |} [].
Definition mk_type (n : name) (deps : list name) (body : nat) : item :=
  IType {| t_name := n; t_deps := deps; t_body := body; t_enum := false |}.
Definition w_of (files : list name) : omega :=
  {| w_files := files; w_used := []; w_req := []; w_deps := []; w_res := []; w_dmap := [] |}.
Definition p_two_cmds : project := [(1, [mk_cmd 1 []]); (2, [mk_cmd 2 []])].
Definition p_dupdef : project := [(1, [mk_type 1 [] 0; mk_cmd 1 [1]]); (2, [mk_type 1 [] 1])].

Theorem order_independent_refuted :
  exists p w w', kf_dupdef p = false /\ kf_order false p = true /\ gen false w p <> gen false w' p.
Proof. exists p_two_cmds, (w_of [1; 2]), (w_of [2; 1]). split; [reflexivity|]. split; [reflexivity|].
  vm_compute. intros H. discriminate H. Qed.

Theorem content_refuted :
  exists p w w' o o', kf_dupdef p = true /\ gen false w p = Some o /\ gen false w' p = Some o' /\
    In (DType 1 0) (o_types o') /\ ~ In (DType 1 0) (o_types o).
Proof. exists p_dupdef, (w_of [1; 2]), (w_of [2; 1]).
  eexists. eexists. split; [reflexivity|]. split; [vm_compute; reflexivity|]. split; [vm_compute; reflexivity|].
  split. - left. reflexivity. - cbn [o_types]. intros [H|[H|[]]]; discriminate H. Qed.
