(* C13: order independence of the patched pipeline, noise, and the two remaining move-sensitivities. *)
From Coq Require Import List Arith Lia Bool Permutation.
Require Import TT.Model.Base TT.Model.Topo TT.Model.C13Order TT.Spec.C13Rel.
Require Import TT.Proofs.TopoProofs TT.Proofs.C13SortInv TT.Proofs.C13Proofs.
Import ListNotations.

(* ---------------- sorting before use ---------------- *)
Lemma ns_eq o l : sort_names (order_by ident o l) = sort_names l.
Proof. apply sort_names_invariant. apply order_by_perm. Qed.
Lemma repaired_indep p w w' : repaired w p = repaired w' p.
Proof. unfold repaired. rewrite !ns_eq. f_equal.
  - apply sort_names_invariant. apply Permutation_map. eapply perm_trans; [apply files_perm|apply Permutation_sym, files_perm].
  - apply map_ext. intros n. rewrite !ns_eq. reflexivity. Qed.
Theorem order_independent : forall p zod w w', gen zod w p = gen zod w' p.
Proof. intros p zod w w'. unfold gen. rewrite (repaired_indep p w w'). reflexivity. Qed.
Theorem viz_independent : forall p w w', viz w p = viz w' p.
Proof. intros p w w'. unfold viz. rewrite (repaired_indep p w w'). reflexivity. Qed.

(* flags: the bindings do not depend on them, the graph files appear exactly with --visualize-deps,
   and nothing depends on the hash orders *)
Theorem flags_thm : forall p zod fl fl' w w',
  option_map fst (run_files fl zod w p) = option_map fst (run_files fl' zod w' p) /\
  (forall o v, run_files fl zod w p = Some (o, v) -> (v <> None <-> f_visualize fl = true)) /\
  run_files fl zod w p = run_files fl zod w' p.
Proof. intros p zod fl fl' w w'. unfold run_files. rewrite (order_independent p zod w w'), (viz_independent p w w').
  destruct (gen zod w' p) as [o|]; cbn [option_map fst].
  - split; [reflexivity|]. split; [|reflexivity]. intros o0 v E. inversion E; subst.
    destruct (f_visualize fl); split; intros H; try reflexivity; try discriminate.
    exfalso. apply H. reflexivity.
  - split; [reflexivity|]. split; [|reflexivity]. intros o v E. discriminate. Qed.

(* the prior content of the output directory does not show in any generated file *)
Lemma find_app_in {A} (f : A -> bool) l l' : (exists x, In x l /\ f x = true) -> find f (l ++ l') = find f l.
Proof. intros (x & Hx & Fx). induction l as [|a l IH]; [contradiction|]. cbn [app find]. destruct (f a) eqn:E; auto.
  destruct Hx as [->|Hx]; [congruence|]. apply IH; auto. Qed.
Theorem prior_state : forall {C} (prior prior' fs : dir C) k, In k (map fst fs) ->
  read (write_all prior fs) k = read (write_all prior' fs) k.
Proof. intros C prior prior' fs k Hk. unfold read, write_all. apply in_map_iff in Hk as (kv & E & Hin).
  rewrite !find_app_in; auto; exists kv; split; auto; rewrite E; apply Nat.eqb_refl. Qed.

(* ---------------- noise ---------------- *)
Lemma flat_map_filter_nil {A B} (h : A -> list B) (keep : A -> bool) l :
  (forall a, keep a = false -> h a = []) -> flat_map h (filter keep l) = flat_map h l.
Proof. intros H. induction l as [|a l IH]; cbn [filter flat_map]; auto. destruct (keep a) eqn:E; cbn [flat_map].
  rewrite IH; auto. rewrite (H a E), IH. reflexivity. Qed.
Lemma noise_contrib it : negb (is_noise it) = false -> item_cmds it = [] /\ item_events it = [] /\ item_types it = [].
Proof. destruct it as [c e|[|e l]| |]; cbn; intros H; try discriminate; auto. Qed.
Lemma denoise_file_same f : file_cmds (denoise_file f) = file_cmds f /\ file_events (denoise_file f) = file_events f /\
  file_types (denoise_file f) = file_types f.
Proof. unfold file_cmds, file_events, file_types, denoise_file. cbn [snd]. repeat split; apply flat_map_filter_nil; intros a Ha; apply noise_contrib; auto. Qed.
Lemma files_denoise w p : files_in_order w (denoise p) = map denoise_file (files_in_order w p).
Proof. unfold files_in_order, order_by, denoise. apply isort_map. intros a b. reflexivity. Qed.
Lemma flat_map_map_same {A B} (h : A -> list B) (g : A -> A) l : (forall a, h (g a) = h a) -> flat_map h (map g l) = flat_map h l.
Proof. intros H. induction l as [|a l IH]; cbn [map flat_map]; auto. rewrite H, IH. reflexivity. Qed.

Lemma noise_raw : forall p zod w, gen_raw zod w (denoise p) = gen_raw zod w p.
Proof. intros p zod w.
  assert (Hc : commands w (denoise p) = commands w p).
  { unfold commands. rewrite files_denoise. apply flat_map_map_same. intros; apply denoise_file_same. }
  assert (He : events w (denoise p) = events w p).
  { unfold events. rewrite files_denoise. apply flat_map_map_same. intros; apply denoise_file_same. }
  assert (Hi : index w (denoise p) = index w p).
  { unfold index. rewrite files_denoise. apply flat_map_map_same. intros; apply denoise_file_same. }
  assert (Hcr : cmd_roots (denoise p) = cmd_roots p).
  { unfold cmd_roots, all_cmds, denoise. f_equal. apply flat_map_map_same. intros; apply denoise_file_same. }
  assert (Her : ev_roots (denoise p) = ev_roots p).
  { unfold ev_roots, all_events, denoise. f_equal. apply flat_map_map_same. intros; apply denoise_file_same. }
  assert (Hu : forall idx, used idx (denoise p) = used idx p) by (intros; unfold used; rewrite Hcr, Her; reflexivity).
  assert (Hz : forall idx, zod_order w idx (denoise p) = zod_order w idx p).
  { intros. unfold zod_order, zod_graph, discovered. rewrite Hu, Hcr, Her. reflexivity. }
  unfold gen_raw, types_file, commands_file, events_file, index_file. rewrite Hc, He, Hi, Hu, Hz. reflexivity. Qed.

Lemma repaired_denoise w p : repaired w (denoise p) = repaired w p.
Proof. unfold repaired.
  assert (Hn : names_of (denoise p) = names_of p).
  { unfold names_of, denoise. f_equal. apply flat_map_map_same. intros; apply denoise_file_same. }
  rewrite Hn. f_equal. f_equal. rewrite files_denoise, map_map. apply map_ext. intros f. reflexivity. Qed.

Theorem noise : forall p zod w, gen zod w (denoise p) = gen zod w p.
Proof. intros p zod w. unfold gen. rewrite repaired_denoise. apply noise_raw. Qed.
Corollary noise_equiv : forall p p' zod w, denoise p = denoise p' -> gen zod w p = gen zod w p'.
Proof. intros p p' zod w H. rewrite <- (noise p), <- (noise p'), H. reflexivity. Qed.

(* a file that holds nothing but noise *)
Lemma noise_file_contrib f : noise_file f = true -> file_cmds f = [] /\ file_events f = [] /\ file_types f = [].
Proof. unfold noise_file, file_cmds, file_events, file_types. intros H. rewrite forallb_forall in H.
  repeat split; apply flat_map_all_nil; intros it Hit; apply noise_contrib; rewrite (H it Hit); reflexivity. Qed.
Theorem noise_file_thm : forall f p zod w w', noise_file f = true -> kf_dupdef p = false -> kf_dupevent p = false ->
  out_perm (gen zod w p) (gen zod w' (f :: p)).
Proof. intros f p zod w w' H Hd He. destruct (noise_file_contrib f H) as (H1 & H2 & H3).
  unfold gen. apply raw_perm; auto.
  - unfold all_cmds. cbn [flat_map]. rewrite H1. apply Permutation_refl.
  - unfold all_events. cbn [flat_map]. rewrite H2. apply Permutation_refl.
  - unfold all_types. cbn [flat_map]. rewrite H3. apply Permutation_refl. Qed.

(* ---------------- witnesses ---------------- *)
Definition mk_cmd (n : name) (roots : list name) : item :=
  ICmd {| c_name := n; c_roots := roots; c_pnames := map (fun r => 100 + r) roots; c_cnames := [] |} [].
Definition mk_type (n : name) (deps : list name) (body : nat) : item :=
  IType {| t_name := n; t_deps := deps; t_body := body; t_enum := false; t_fields := [200 + body; 300] |}.
Definition mk_ev (e : name) (roots : list name) (pay : nat) : ev := {| e_name := e; e_roots := roots; e_pay := pay |}.
Definition w_of (files : list name) : omega :=
  {| w_files := files; w_used := []; w_req := []; w_deps := []; w_res := []; w_dmap := [] |}.
(* the old refutation witness of order independence: two files, one command each *)
Definition p_two_cmds : project := [(1, [mk_cmd 1 []]); (2, [mk_cmd 2 []])].
(* one type name in two files; p_dupdef_moved has the two definitions exchanged between the files *)
Definition p_dupdef : project := [(1, [mk_type 1 [] 0; mk_cmd 1 [1]]); (2, [mk_type 1 [] 1])].
Definition p_dupdef_moved : project := [(1, [mk_type 1 [] 1; mk_cmd 1 [1]]); (2, [mk_type 1 [] 0])].
(* one event name emitted with two payload types; p_dupevent_swapped has the two functions exchanged *)
Definition p_dupevent : project := [(1, [mk_cmd 1 []; IFn [mk_ev 1 [] 0]; IFn [mk_ev 1 [] 1]])].
Definition p_dupevent_swapped : project := [(1, [mk_cmd 1 []; IFn [mk_ev 1 [] 1]; IFn [mk_ev 1 [] 0]])].

Theorem move_dupdef_refuted :
  exists p p' w o o', Permutation (all_items p) (all_items p') /\ kf_dupdef p = true /\ kf_dupevent p = false /\
    gen false w p = Some o /\ gen false w p' = Some o' /\
    In (DType 1 0 [200; 300]) (o_types o') /\ ~ In (DType 1 0 [200; 300]) (o_types o).
Proof. exists p_dupdef, p_dupdef_moved, (w_of [2; 1]). eexists. eexists.
  split. { cbn. apply perm_trans with (l' := [mk_cmd 1 [1]; mk_type 1 [] 0; mk_type 1 [] 1]).
           apply perm_swap. apply perm_trans with (l' := [mk_cmd 1 [1]; mk_type 1 [] 1; mk_type 1 [] 0]).
           apply perm_skip. apply perm_swap. apply perm_swap. }
  split; [reflexivity|]. split; [reflexivity|]. split; [vm_compute; reflexivity|]. split; [vm_compute; reflexivity|].
  split. - left. reflexivity. - cbn [o_types]. intros [H|[H|[]]]; discriminate H. Qed.

Theorem move_dupevent_refuted :
  exists p p' w o o', Permutation (all_items p) (all_items p') /\ kf_dupdef p = false /\ kf_dupevent p = true /\
    gen false w p = Some o /\ gen false w p' = Some o' /\
    o_events o = Some [DListener 1 0] /\ o_events o' = Some [DListener 1 1].
Proof. exists p_dupevent, p_dupevent_swapped, (w_of [1]). eexists. eexists.
  split. { cbn. apply perm_skip. apply perm_swap. }
  split; [reflexivity|]. split; [reflexivity|]. split; [vm_compute; reflexivity|]. split; [vm_compute; reflexivity|].
  split; reflexivity. Qed.
