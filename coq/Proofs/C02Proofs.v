(* C02: the set-level model of the generator yields a closed module graph without duplicate
   exports, outside the recorded classes and when every mentioned custom name is declared. *)
From Coq Require Import String Ascii.
From Coq Require Import List Arith Bool.
Require Import TT.Model.Str TT.Model.C07TypeParse TT.Model.C07Harvest TT.Model.Pipeline.
Require Import TT.Spec.TsLex TT.Spec.TsModule TT.Spec.TsObs TT.Spec.C02Closed TT.Model.C02Model.
Require Import TT.Proofs.C02Reflect.
Import ListNotations.
Local Open Scope list_scope.

(* induction over TypeStructure with the tuple's list *)
Section TsInd.
  Variable P : tstruct -> Prop.
  Hypothesis Hprim : forall p, P (TPrim p).
  Hypothesis Harr : forall u, P u -> P (TArr u).
  Hypothesis Hmap : forall k v, P k -> P v -> P (TMap k v).
  Hypothesis Hset : forall u, P u -> P (TSet u).
  Hypothesis Htup : forall l, Forall P l -> P (TTuple l).
  Hypothesis Hopt : forall u, P u -> P (TOpt u).
  Hypothesis Hres : forall u, P u -> P (TRes u).
  Hypothesis Hcus : forall n, P (TCustom n).
  Fixpoint ts_ind' (t : tstruct) : P t :=
    match t with
    | TPrim p => Hprim p | TArr u => Harr u (ts_ind' u) | TMap k v => Hmap k v (ts_ind' k) (ts_ind' v)
    | TSet u => Hset u (ts_ind' u)
    | TTuple l => Htup l ((fix go l : Forall P l := match l with [] => Forall_nil _ | x :: l' => Forall_cons _ (ts_ind' x) (go l') end) l)
    | TOpt u => Hopt u (ts_ind' u) | TRes u => Hres u (ts_ind' u) | TCustom n => Hcus n
    end.
End TsInd.

(* ---------------- primitive leaves of parsed structures ---------------- *)
Fixpoint prims_ok (t : tstruct) : Prop :=
  match t with
  | TPrim s => In s prims4
  | TCustom _ => True
  | TArr u | TSet u | TOpt u | TRes u => prims_ok u
  | TMap k v => prims_ok k /\ prims_ok v
  | TTuple l => (fix go l := match l with [] => True | x :: r => prims_ok x /\ go r end) l
  end.
Lemma prims_ok_list : forall l, (fix go l := match l with [] => True | x :: r => prims_ok x /\ go r end) l <-> Forall prims_ok l.
Proof. induction l as [|x r IH]; split; intros H; auto.
  - destruct H as [Hx Hr]. constructor; [exact Hx|apply IH; exact Hr].
  - inversion H; subst. split; [assumption|apply IH; assumption]. Qed.

Lemma prim_of_ok : forall s p, prim_of s = Some p -> In p prims4.
Proof. intros s p. unfold prim_of.
  repeat match goal with |- context[if ?c then _ else _] => destruct c end; intros H; inversion H; subst; simpl; auto 6. Qed.

Lemma mapM_ok : forall (g : str -> option tstruct) l r,
  (forall x y, g x = Some y -> prims_ok y) -> mapM g l = Some r ->
  (fix go l := match l with [] => True | x :: r => prims_ok x /\ go r end) r.
Proof. intros g l. induction l as [|x l IH]; intros r Hg H; cbn [mapM] in H.
  - inversion H. exact Logic.I.
  - destruct (g x) eqn:Ex; [|discriminate]. destruct (mapM g l) eqn:El; [|discriminate]. inversion H; subst.
    split; [eapply Hg; eauto|]. apply IH; auto. Qed.

Lemma parse_prims_ok : forall f s t, parse f s = Some t -> prims_ok t.
Proof. induction f as [|f IH]; intros s t H; [discriminate|].
  cbn [parse] in H.
  repeat match type of H with
  | context[if ?c then _ else _] => destruct c
  | context[match ?x with _ => _ end] => destruct x eqn:?
  end; try discriminate; try (inversion H; subst; cbn [prims_ok]; eauto using prim_of_ok; fail).
  all: unfold option_map in H;
       repeat match type of H with context[match ?x with _ => _ end] => destruct x eqn:? end;
       try discriminate; inversion H; subst; cbn [prims_ok]; eauto.
  all: try (split; eauto).
  all: try (eapply mapM_ok; eauto).
  all: simpl; auto 6.
Qed.

Lemma pts_prims_ok : forall s, prims_ok (pts s).
Proof. intros s. unfold pts, parse_type_structure. destruct (parse (S (List.length s)) s) eqn:E.
  - eapply parse_prims_ok. exact E.
  - exact Logic.I. Qed.

(* ---------------- names of rendered types ---------------- *)
Definition maps_ok (m : list (str * str)) : Prop := forall k v, In (k, v) m -> mem v prims4 = true.
Lemma assoc_In : forall k l v, assoc k l = Some v -> exists k', In (k', v) l.
Proof. intros k l. induction l as [|[a b] r IH]; intros v H; cbn [assoc] in H; [discriminate|].
  destruct (str_eqb k a).
  - inversion H; subst. exists a. left. reflexivity.
  - destruct (IH _ H) as [k' Hk]. exists k'. right. exact Hk. Qed.

Lemma builtin_lit : forall s, mem s builtins = true -> In s builtins.
Proof. intros s. apply mem_In. Qed.
Lemma prims4_builtin : forall x, In x prims4 -> In x builtins.
Proof. intros x H. simpl in H. destruct H as [<-|[<-|[<-|[<-|[]]]]]; apply mem_In; reflexivity. Qed.

Lemma bn_sound : forall m t, maps_ok m -> prims_ok t ->
  forall x, In x (bn m t) -> In x builtins \/ In x (customs m t).
Proof. intros m t Hm. induction t as [p|u IH|k v IHk IHv|u IH|l IH|u IH|u IH|n] using ts_ind'; intros Hok x Hx.
  - cbn [bn] in Hx. destruct Hx as [<-|[]]. left. apply prims4_builtin. exact Hok.
  - cbn [bn customs prims_ok] in *. auto.
  - cbn [bn customs] in *. destruct Hok as [Hk Hv]. destruct Hx as [<-|Hx].
    + left. apply mem_In. reflexivity.
    + apply in_app_or in Hx. destruct Hx as [Hx|Hx].
      * destruct (IHk Hk _ Hx); auto. right. apply in_or_app. auto.
      * destruct (IHv Hv _ Hx); auto. right. apply in_or_app. auto.
  - cbn [bn customs prims_ok] in *. auto.
  - cbn [prims_ok] in Hok. apply prims_ok_list in Hok. destruct l as [|a r].
    + cbn [bn] in Hx. destruct Hx as [<-|[]]. left. apply mem_In. reflexivity.
    + cbn [bn] in Hx. cbn [customs]. apply in_flat_map in Hx. destruct Hx as [y [Hy Hxy]].
      rewrite Forall_forall in IH, Hok. destruct (IH y Hy (Hok y Hy) x Hxy) as [Hb|Hc]; auto.
      right. apply in_flat_map. exists y. auto.
  - cbn [bn customs prims_ok] in *. apply in_app_or in Hx. destruct Hx as [Hx|[<-|[]]]; auto.
    left. apply mem_In. reflexivity.
  - cbn [bn customs prims_ok] in *. auto.
  - cbn [bn customs] in *. destruct Hx as [<-|[]]. unfold mtext, mapped. destruct (assoc n m) as [v|] eqn:E.
    + left. destruct (assoc_In _ _ _ E) as [k' Hk]. apply prims4_builtin. apply mem_In. eapply Hm. exact Hk.
    + right. left. reflexivity. Qed.

Lemma zn_sound : forall m t, maps_ok m ->
  forall r, In r (zn m t) -> r = Bare (S_ "z") \/ exists n, In n (customs m t) /\ r = Bare (n ++ S_ "Schema").
Proof. intros m t Hm. induction t as [p|u IH|k v IHk IHv|u IH|l IH|u IH|u IH|n] using ts_ind'; intros r Hr.
  - cbn [zn] in Hr. destruct Hr as [<-|[]]. auto.
  - cbn [zn customs] in *. destruct Hr as [<-|Hr]; auto.
  - cbn [zn customs] in *. destruct Hr as [<-|Hr]; auto. apply in_app_or in Hr. destruct Hr as [Hr|Hr].
    + destruct (IHk _ Hr) as [H|[n [Hn E]]]; auto. right. exists n. split; auto. apply in_or_app. auto.
    + destruct (IHv _ Hr) as [H|[n [Hn E]]]; auto. right. exists n. split; auto. apply in_or_app. auto.
  - cbn [zn customs] in *. destruct Hr as [<-|Hr]; auto.
  - cbn [zn customs] in *. destruct Hr as [<-|Hr]; auto. apply in_flat_map in Hr. destruct Hr as [y [Hy Hry]].
    rewrite Forall_forall in IH. destruct (IH y Hy r Hry) as [H|[n [Hn E]]]; auto.
    right. exists n. split; auto. apply in_flat_map. exists y. auto.
  - cbn [zn customs] in *. destruct Hr as [<-|Hr]; auto.
  - cbn [zn customs] in *. destruct Hr as [<-|Hr]; auto.
  - cbn [zn customs] in *. unfold mapped. destruct (assoc n m) as [v|] eqn:E.
    + destruct (assoc_In _ _ _ E) as [k' Hk]. rewrite (Hm _ _ Hk) in Hr. destruct Hr as [<-|[]]. auto.
    + destruct Hr as [<-|[]]. right. exists n. split; [left; reflexivity|reflexivity]. Qed.

(* ---------------- premises unpacked ---------------- *)
Section Closed.
  Variable p : proj.
  Variable zod : bool.
  Hypothesis Hwf : wf p = true.
  Hypothesis Hrd : refs_declared p = true.
  Hypothesis Hkf : kf_C02 p zod = false.
  Let m := pj_maps p.

  Lemma zod_cases : zod = true \/ zod = false.
  Proof. destruct zod; auto. Qed.

  Lemma Hmaps : maps_ok m.
  Proof. unfold wf in Hwf. rewrite !andb_true_iff in Hwf. destruct Hwf as [[[_ H] _] _].
    rewrite forallb_forall in H. intros k v Hin. apply (H (k, v)). exact Hin. Qed.

  Lemma declared : forall t n, In t (decl_site_ts p) -> In n (customs m t) -> In n (used p).
  Proof. intros t n Ht Hn. unfold refs_declared in Hrd. apply andb_true_iff in Hrd. destruct Hrd as [H _].
    rewrite forallb_forall in H. specialize (H t Ht). rewrite forallb_forall in H. apply mem_In. apply H. exact Hn. Qed.
  Lemma declared_ev : forall t n, In t (event_site_ts p) -> In n (customs m t) -> In n prims8 \/ In n (used p).
  Proof. intros t n Ht Hn. unfold refs_declared in Hrd. apply andb_true_iff in Hrd. destruct Hrd as [_ H].
    rewrite forallb_forall in H. specialize (H t Ht). rewrite forallb_forall in H. specialize (H n Hn).
    apply orb_true_iff in H. destruct H as [H|H]; [left|right]; apply mem_In; exact H. Qed.

  Lemma kf_parts : kf_prefix p = false /\ kf_dup_listener p = false /\ kf_collision p zod = false.
  Proof. unfold kf_C02 in Hkf. rewrite !orb_false_iff in Hkf. tauto. Qed.

  Lemma clean : forall t, In t (prefixed_ts p) -> atp_clean m t = true.
  Proof. intros t Ht. destruct kf_parts as [H _]. unfold kf_prefix in H.
    destruct (atp_clean m t) eqn:E; [reflexivity|]. exfalso.
    assert (existsb (fun t => negb (atp_clean (pj_maps p) t)) (prefixed_ts p) = true) as Hc.
    { apply existsb_exists. exists t. split; [exact Ht|]. fold m. rewrite E. reflexivity. }
    rewrite Hc in H. discriminate. Qed.

  Lemma first_by_name_incl : forall l seen e, In e (first_by_name seen l) -> In e l.
  Proof. induction l as [|x r IH]; intros seen e H; cbn [first_by_name] in H; [destruct H|].
    destruct (mem (fst x) seen).
    - right. eapply IH. exact H.
    - destruct H as [<-|H]; [left; reflexivity|right; eapply IH; exact H]. Qed.
  Lemma levents_events : forall e, In e (levents p) -> In e (events p).
  Proof. intros e H. unfold levents in H. eapply first_by_name_incl. exact H. Qed.

  (* ---------------- sites ---------------- *)
  Lemma site_cmd : forall c t, In c (cmds p) -> In t (cmd_site_ts c) -> In t (decl_site_ts p).
  Proof. intros c t Hc Ht. unfold decl_site_ts. apply in_or_app. left. apply in_flat_map. exists c. auto. Qed.
  Lemma site_param : forall c x, In c (cmds p) -> In x (vparams c) -> In (pts (qtts (snd x))) (decl_site_ts p).
  Proof. intros c x Hc Hx. apply (site_cmd c); [exact Hc|]. unfold cmd_site_ts. apply in_or_app. left.
    apply in_map_iff. exists x. auto. Qed.
  Lemma site_ret : forall c, In c (cmds p) -> In (ret_ts c) (decl_site_ts p).
  Proof. intros c Hc. apply (site_cmd c); [exact Hc|]. unfold cmd_site_ts. apply in_or_app. right. apply in_or_app. left. left. reflexivity. Qed.
  Lemma site_chan : forall c ch, In c (cmds p) -> In ch (chans c) -> In (pts (qtts (snd ch))) (decl_site_ts p).
  Proof. intros c ch Hc Hx. apply (site_cmd c); [exact Hc|]. unfold cmd_site_ts. apply in_or_app. right. apply in_or_app. right.
    apply in_map_iff. exists ch. auto. Qed.
  Lemma site_field : forall n f, In n (used p) -> In f (fields_of p n) -> In (field_ts f) (decl_site_ts p).
  Proof. intros n f Hn Hf. unfold decl_site_ts. apply in_or_app. right. apply in_flat_map. exists n.
    split; [exact Hn|]. apply in_map_iff. exists f. auto. Qed.
  Lemma site_event : forall e, In e (levents p) -> In (pts (snd e)) (event_site_ts p).
  Proof. intros e He. apply levents_events in He. unfold event_site_ts. apply in_map_iff. exists e. auto. Qed.
  Lemma pre_ret : forall c, In c (cmds p) -> In (ret_ts c) (prefixed_ts p).
  Proof. intros c Hc. unfold prefixed_ts. apply in_or_app. left. apply in_map_iff. exists c. auto. Qed.
  Lemma pre_event : forall e, In e (levents p) -> In (pts (snd e)) (prefixed_ts p).
  Proof. intros e He. unfold prefixed_ts. apply in_or_app. right. apply in_map_iff. exists e. auto. Qed.

  (* ---------------- what types.ts exports ---------------- *)
  Definition tex := ms_exports (types_sum p zod).
  Lemma params_exported : forall c, In c (cmds p) -> has_pc c = true -> In (tname c ++ S_ "Params") tex.
  Proof. intros c Hc Hpc. unfold tex, types_sum. destruct zod; cbn [ms_exports].
    - apply in_or_app. right. apply in_or_app. right. apply in_flat_map. exists c. split; [exact Hc|]. rewrite Hpc. left. reflexivity.
    - apply in_or_app. right. apply in_flat_map. exists c. split; [exact Hc|]. rewrite Hpc. left. reflexivity. Qed.
  Lemma pschema_exported : zod = true -> forall c, In c (cmds p) -> has_p c = true -> In (tname c ++ S_ "ParamsSchema") tex.
  Proof. intros Hz c Hc Hp. unfold tex, types_sum. rewrite Hz. cbn [ms_exports].
    apply in_or_app. right. apply in_or_app. left. apply in_flat_map. exists c. split; [exact Hc|]. rewrite Hp. left. reflexivity. Qed.
  Lemma schema_exported : zod = true -> forall n, In n (used p) -> In (n ++ S_ "Schema") tex.
  Proof. intros Hz n Hn. unfold tex, types_sum. rewrite Hz. cbn [ms_exports]. apply in_or_app. left. apply in_flat_map. exists n.
    split; [exact Hn|]. left; reflexivity. Qed.
  Lemma custom_exported : forall n, In n (used p) -> In n tex.
  Proof. intros n Hn. unfold tex, types_sum. destruct zod; cbn [ms_exports].
    - apply in_or_app. left. apply in_flat_map. exists n. split; [exact Hn|]. right. left. reflexivity.
    - apply in_or_app. left. exact Hn. Qed.

  Lemma has_c_in : forall c ch, In ch (chans c) -> has_c c = true.
  Proof. intros c ch H. unfold has_c. destruct (chans c); [destruct H|reflexivity]. Qed.
  Lemma any_chan_in : forall c ch, In c (cmds p) -> In ch (chans c) -> any_chan p = true.
  Proof. intros c ch Hc H. unfold any_chan. apply existsb_exists. exists c. split; [exact Hc|]. eapply has_c_in. exact H. Qed.

  (* a bare name of a type text in type position: built-in or an exported declaration *)
  Lemma bare_type_name : forall t x, In t (decl_site_ts p) -> prims_ok t -> In x (bn m t) -> In x builtins \/ In x tex.
  Proof. intros t x Ht Hok Hx. destruct (bn_sound m t Hmaps Hok x Hx) as [Hb|Hc]; [left; exact Hb|].
    right. apply custom_exported. eapply declared; eauto. Qed.

  Lemma chan_refs_resolve : forall c r, In c (cmds p) -> In r (chan_refs p c) -> resolves tex (types_sum p zod) r.
  Proof. intros c r Hc Hr. unfold chan_refs in Hr. apply in_flat_map in Hr. destruct Hr as [ch [Hch Hr]].
    destruct Hr as [<-|Hr].
    - cbn [resolves]. right. left. unfold types_sum. rewrite (any_chan_in c ch Hc Hch).
      destruct zod; cbn [ms_imports opt_l]; [right; left; reflexivity|left; reflexivity].
    - apply in_map_iff in Hr. destruct Hr as [x [<- Hx]]. cbn [resolves]. fold m in Hx.
      destruct (bare_type_name (pts (qtts (snd ch))) x) as [Hb|He]; auto.
      + eapply site_chan; eauto.
      + apply pts_prims_ok. Qed.

  (* add_types_prefix qualifies no name it lists as primitive *)
  Lemma atp_qual_not_prim : forall t rs a n, atp_refs m t = Some rs -> In (Qual a n) rs -> mem n prims8 = false.
  Proof. induction t as [s|u IH|k v IHk IHv|u IH|l IH|u IH|u IH|c] using ts_ind'; intros rs a n E Hin; cbn [atp_refs] in E.
    - inversion E; subst. unfold leaf_refs in Hin. destruct (mem s prims8) eqn:Es; destruct Hin as [H|[]]; inversion H; subst. exact Es.
    - eapply IH; eauto.
    - inversion E; subst. change (In (Qual a n) (map Bare (S_ "Record" :: bn m k ++ bn m v))) in Hin.
      apply in_map_iff in Hin. destruct Hin as [x [H _]]. discriminate.
    - eapply IH; eauto.
    - destruct l; inversion E; subst.
      + destruct Hin as [H|[]]. discriminate.
      + apply in_map_iff in Hin. destruct Hin as [x [H _]]. discriminate.
    - destruct (leftmost_map u).
      + inversion E; subst. apply in_map_iff in Hin. destruct Hin as [x [H _]]. discriminate.
      + destruct (atp_refs m u) as [l'|] eqn:Eu; [|discriminate]. inversion E; subst. apply in_app_or in Hin.
        destruct Hin as [H|[H|[]]]; [eapply IH; eauto|discriminate].
    - eapply IH; eauto.
    - inversion E; subst. unfold leaf_refs in Hin. destruct (mem (mtext m c) prims8) eqn:Es; destruct Hin as [H|[]]; inversion H; subst. exact Es. Qed.

  (* a prefixed site: every reference resolves in a module that imports * as types from ./types *)
  Lemma prefixed_resolves : forall t (M : msum) r, In t (prefixed_ts p) ->
    (forall n, In n (customs m t) -> In n prims8 \/ In n (used p)) ->
    In (S_ "types", types_spec) (ms_star M) ->
    In r (match atp_refs m t with Some l => l | None => [] end) -> resolves tex M r.
  Proof. intros t M r Hpre Hdecl Hstar Hr. pose proof (clean t Hpre) as Hc. unfold atp_clean in Hc.
    destruct (atp_refs m t) as [rs|] eqn:E; [|discriminate]. rewrite forallb_forall in Hc. specialize (Hc r Hr).
    destruct r as [n|a n].
    - cbn [resolves]. right. right. apply mem_In. exact Hc.
    - apply andb_true_iff in Hc. destruct Hc as [Ha Hn]. apply str_eqb_eq in Ha. subst a. apply mem_In in Hn.
      cbn [resolves]. split; [exact Hstar|]. apply custom_exported.
      destruct (Hdecl n Hn) as [Hp|Hu]; [|exact Hu]. exfalso.
      pose proof (atp_qual_not_prim t rs _ n E Hr) as Hnp. apply mem_In in Hp. rewrite Hp in Hnp. discriminate. Qed.

  Ltac builtin := cbn [resolves]; right; right; apply mem_In; reflexivity.

  (* ---------------- types.ts ---------------- *)
  Lemma types_closed : module_closed tex (types_sum p zod).
  Proof. intros r Hr. unfold types_sum in Hr. destruct zod_cases as [Ez|Ez]; rewrite Ez in Hr; cbn [ms_refs] in Hr.
    - (* Zod mode *)
      assert (forall x, In (Bare x) [Bare (S_ "z")] -> resolves tex (types_sum p zod) (Bare x)) as Hz.
      { intros x [H|[]]. inversion H; subst. cbn [resolves]. right. left. unfold types_sum. rewrite Ez. cbn [ms_imports]. left. reflexivity. }
      apply in_app_or in Hr. destruct Hr as [Hr|Hr].
      + apply in_flat_map in Hr. destruct Hr as [n [Hn Hr]].
        destruct Hr as [<-|Hr]; [apply Hz; left; reflexivity|]. apply in_app_or in Hr. destruct Hr as [Hr|Hr].
        * apply in_flat_map in Hr. destruct Hr as [f [Hf Hr]]. fold m in Hr.
          destruct (zn_sound m (field_ts f) Hmaps r Hr) as [->|[n' [Hn' ->]]]; [apply Hz; left; reflexivity|].
          cbn [resolves]. left. apply schema_exported; [exact Ez|]. eapply declared; [eapply site_field; eauto|exact Hn'].
        * destruct Hr as [<-|[<-|[]]]; [apply Hz; left; reflexivity|]. cbn [resolves]. left. apply schema_exported; auto.
      + apply in_app_or in Hr. destruct Hr as [Hr|Hr].
        * apply in_flat_map in Hr. destruct Hr as [c [Hc Hr]]. destruct (has_p c) eqn:Hp; [|destruct Hr]. cbn [opt_l] in Hr.
          destruct Hr as [<-|Hr]; [apply Hz; left; reflexivity|]. apply in_flat_map in Hr. destruct Hr as [x [Hx Hr]]. fold m in Hr.
          destruct (zn_sound m _ Hmaps r Hr) as [->|[n' [Hn' ->]]]; [apply Hz; left; reflexivity|].
          cbn [resolves]. left. apply schema_exported; [exact Ez|]. eapply declared; [eapply site_param; eauto|exact Hn'].
        * apply in_flat_map in Hr. destruct Hr as [c [Hc Hr]]. apply in_app_or in Hr. destruct Hr as [Hr|Hr].
          -- destruct (has_p c) eqn:Hp; [|destruct Hr]. cbn [opt_l] in Hr. destruct Hr as [<-|[<-|[]]]; [apply Hz; left; reflexivity|].
             cbn [resolves]. left. apply pschema_exported; auto.
          -- apply in_app_or in Hr. destruct Hr as [Hr|Hr].
             ++ eapply chan_refs_resolve; eauto.
             ++ destruct (has_c c && negb (has_p c)); [|destruct Hr]. destruct Hr as [<-|[<-|[]]]; builtin.
    - (* plain mode *)
      apply in_app_or in Hr. destruct Hr as [Hr|Hr].
      + apply in_flat_map in Hr. destruct Hr as [n [Hn Hr]]. apply in_flat_map in Hr. destruct Hr as [f [Hf Hr]].
        apply in_map_iff in Hr. destruct Hr as [x [<- Hx]]. fold m in Hx. cbn [resolves].
        destruct (bare_type_name (field_ts f) x) as [Hb|He]; auto.
        * eapply site_field; eauto.
        * unfold field_ts. apply pts_prims_ok.
      + apply in_flat_map in Hr. destruct Hr as [c [Hc Hr]]. destruct (has_pc c) eqn:Hpc; [|destruct Hr]. cbn [opt_l] in Hr.
        apply in_app_or in Hr. destruct Hr as [Hr|Hr].
        * apply in_flat_map in Hr. destruct Hr as [x [Hx Hr]]. apply in_map_iff in Hr. destruct Hr as [y [<- Hy]]. fold m in Hy. cbn [resolves].
          destruct (bare_type_name (pts (qtts (snd x))) y) as [Hb|He]; auto.
          -- eapply site_param; eauto.
          -- apply pts_prims_ok.
        * apply in_app_or in Hr. destruct Hr as [Hr|Hr].
          -- eapply chan_refs_resolve; eauto.
          -- destruct Hr as [<-|[<-|[]]]; builtin. Qed.

  (* ---------------- commands.ts ---------------- *)
  Lemma commands_star : In (S_ "types", types_spec) (ms_star (commands_sum p zod)).
  Proof. unfold commands_sum. cbn [ms_star]. left. reflexivity. Qed.
  Lemma commands_import : forall x, In x [S_ "invoke"; S_ "types"] -> In x (ms_imports (commands_sum p zod)).
  Proof. intros x Hx. unfold commands_sum. cbn [ms_imports]. destruct Hx as [<-|[<-|[]]].
    - left. reflexivity.
    - right. apply in_or_app. right. apply in_or_app. right. left. reflexivity. Qed.

  Lemma commands_closed : module_closed tex (commands_sum p zod).
  Proof. intros r Hr. unfold commands_sum in Hr. cbn [ms_refs] in Hr. apply in_app_or in Hr. destruct Hr as [Hr|Hr].
    - destruct zod_cases as [Ez|Ez]; rewrite Ez in Hr; [|destruct Hr]. cbn [opt_l] in Hr. destruct Hr as [<-|[<-|[<-|[]]]]; try builtin.
      cbn [resolves]. right. left. unfold commands_sum. rewrite Ez. cbn [ms_imports]. right. apply in_or_app. right. apply in_or_app. left. left. reflexivity.
    - apply in_flat_map in Hr. destruct Hr as [c [Hc Hr]]. apply in_app_or in Hr. destruct Hr as [Hr|Hr].
      { destruct (has_pc c) eqn:Hpc; [|destruct Hr]. destruct Hr as [<-|[]]. cbn [resolves]. split; [apply commands_star|]. apply params_exported; auto. }
      apply in_app_or in Hr. destruct Hr as [Hr|Hr].
      { destruct zod_cases as [Ez|Ez]; rewrite Ez in Hr; [|destruct Hr]. destruct Hr as [<-|[]]. cbn [resolves]. left. unfold commands_sum. rewrite Ez. cbn [ms_exports opt_l app]. left. reflexivity. }
      apply in_app_or in Hr. destruct Hr as [Hr|Hr].
      { destruct Hr as [<-|[]]. builtin. }
      apply in_app_or in Hr. destruct Hr as [Hr|Hr].
      { unfold ret_refs in Hr. fold m in Hr. eapply prefixed_resolves; eauto using pre_ret, commands_star.
        intros n Hn. right. eapply declared; [apply site_ret; exact Hc|exact Hn]. }
      apply in_app_or in Hr. destruct Hr as [Hr|Hr].
      { destruct zod_cases as [Ez|Ez]; rewrite Ez in Hr; [|destruct Hr]. destruct (has_p c) eqn:Hp; [|destruct Hr]. cbn [andb opt_l] in Hr. destruct Hr as [<-|[<-|[]]].
        - cbn [resolves]. split; [apply commands_star|]. apply pschema_exported; auto.
        - cbn [resolves]. right. left. unfold commands_sum. rewrite Ez. cbn [ms_imports]. right. apply in_or_app. right. apply in_or_app. left. left. reflexivity. }
      destruct Hr as [<-|[]]. cbn [resolves]. right. left. apply commands_import. left. reflexivity. Qed.

  (* ---------------- events.ts ---------------- *)
  Lemma events_closed : module_closed tex (events_sum p).
  Proof. intros r Hr. unfold events_sum in Hr. cbn [ms_refs] in Hr. apply in_flat_map in Hr. destruct Hr as [e [He Hr]].
    apply in_app_or in Hr. destruct Hr as [Hr|Hr].
    - unfold ev_refs in Hr. fold m in Hr. eapply prefixed_resolves; eauto using pre_event.
      + intros n Hn. eapply declared_ev; [apply site_event; exact He|exact Hn].
      + unfold events_sum. cbn [ms_star]. left. reflexivity.
    - destruct Hr as [<-|[<-|[<-|[<-|[]]]]]; try builtin.
      + cbn [resolves]. right. left. unfold events_sum. cbn [ms_imports]. right. left. reflexivity.
      + cbn [resolves]. right. left. unfold events_sum. cbn [ms_imports]. left. reflexivity. Qed.

  (* ---------------- index.ts ---------------- *)
  Lemma index_closed : module_closed tex (index_sum p).
  Proof. intros r Hr. unfold index_sum in Hr. cbn [ms_refs] in Hr. destruct Hr. Qed.
  Lemma index_ok : index_exact (gen p zod) (index_sum p).
  Proof. apply index_exact_b_iff. unfold index_exact_b, written, gen, index_sum. cbn [f_types f_commands f_events f_index ms_reexports].
    destruct (has_events p); cbn [opt_l app]; reflexivity. Qed.

  Theorem model_closed : closed (gen p zod).
  Proof. exists (types_sum p zod), (commands_sum p zod), (index_sum p).
    split; [reflexivity|]. split; [reflexivity|]. split; [reflexivity|].
    split; [apply types_closed|]. split; [apply commands_closed|]. split; [apply index_closed|].
    split; [|apply index_ok].
    unfold gen. cbn [f_events]. destruct (has_events p).
    - right. exists (events_sum p). split; [reflexivity|apply events_closed].
    - left. reflexivity. Qed.

  Theorem model_nodup : exports_nodup (gen p zod).
  Proof. destruct kf_parts as [_ [Hl Hc]]. unfold kf_collision in Hc. apply orb_false_iff in Hc. destruct Hc as [Ht Hcm].
    unfold exports_nodup, gen. cbn [f_types f_commands f_events f_index fobs_nodup].
    split; [apply has_dup_false_NoDup; exact Ht|]. split; [apply has_dup_false_NoDup; exact Hcm|]. split.
    - destruct (has_events p); cbn [fobs_nodup]; [|exact Logic.I]. apply has_dup_false_NoDup. unfold events_sum. cbn [ms_exports]. exact Hl.
    - unfold index_sum. cbn [ms_exports]. constructor. Qed.
End Closed.

Theorem C02_model_closed : forall p zod, wf p = true -> refs_declared p = true -> kf_C02 p zod = false ->
  closed (gen p zod) /\ exports_nodup (gen p zod).
Proof. intros p zod Hwf Hrd Hkf. split; [apply model_closed|apply model_nodup]; assumption. Qed.

(* a sufficient syntactic condition for plain-mode types.ts: distinct Params names that are not type names *)
Lemma NoDup_app_intro : forall (a b : list str), NoDup a -> NoDup b -> (forall x, In x a -> ~ In x b) -> NoDup (a ++ b).
Proof. induction a as [|x a IH]; intros b Ha Hb Hd; [exact Hb|]. cbn [app]. inversion Ha; subst. constructor.
  - intros H. apply in_app_or in H. destruct H as [H|H]; [contradiction|]. apply (Hd x); [left; reflexivity|exact H].
  - apply IH; auto. intros y Hy. apply Hd. right. exact Hy. Qed.
Lemma dedup_NoDup : forall l, NoDup (dedup l).
Proof. induction l as [|x r IH]; cbn [dedup]; [constructor|]. destruct (mem x r) eqn:E; [exact IH|].
  constructor; [|exact IH]. intros H. apply mem_false_not_In in E. apply E. clear -H.
  induction r as [|y r IHr]; cbn [dedup] in H; [destruct H|]. destruct (mem y r) eqn:E.
  - right. apply IHr. exact H.
  - destruct H as [<-|H]; [left; reflexivity|right; apply IHr; exact H]. Qed.
Lemma used_NoDup : forall p, NoDup (used p).
Proof. intros p. unfold used. apply dedup_NoDup. Qed.

Theorem types_exports_nodup_plain : forall p,
  NoDup (flat_map (fun c => opt_l (has_pc c) [tname c ++ S_ "Params"]) (cmds p)) ->
  (forall c, In c (cmds p) -> has_pc c = true -> ~ In (tname c ++ S_ "Params") (used p)) ->
  NoDup (ms_exports (types_sum p false)).
Proof. intros p Hn Hd. unfold types_sum. cbn [ms_exports]. apply NoDup_app_intro; [apply used_NoDup|exact Hn|].
  intros x Hx Hin. apply in_flat_map in Hin. destruct Hin as [c [Hc Hin]]. destruct (has_pc c) eqn:E; [|destruct Hin].
  destruct Hin as [<-|[]]. apply (Hd c Hc E). exact Hx. Qed.
