(* C09: order of the schema constants. The emitted list is the depth-first topological order of the
   recorded dependency graph (C20: topo_correct, topo_acyclic_transitive) filtered to the declared
   types; if every schema reference is a recorded dependency and the graph is acyclic, every
   referenced declared schema precedes its user, for every iteration order. *)
From Coq Require Import String Ascii.
From Coq Require Import List Arith Lia Bool.
Require Import TT.Model.Base TT.Model.Str TT.Model.C07TypeParse TT.Model.C07Harvest TT.Model.C07Worklist TT.Model.C07Reach TT.Model.Topo.
Require Import TT.Spec.C07Spec TT.Spec.C09Spec.
Require Import TT.Proofs.TopoProofs TT.Proofs.C20Extra TT.Proofs.WorklistSpike TT.Proofs.C07Proofs TT.Proofs.C07Concrete.
Import ListNotations.

Lemma deps_map (f : str -> list str) : forall l u, In u l -> deps (map (fun n => (n, f n)) l) u = f u.
Proof. induction l as [|a l IH]; intros u Hu; [contradiction|]. simpl.
  destruct (eq_dec u a) as [->|Hne]; auto. apply IH. destruct Hu as [->|]; auto. contradiction. Qed.

Lemma idx_split (l : list str) v u : idx_before l v u -> exists l1 l2 l3, l = l1 ++ v :: l2 ++ u :: l3.
Proof.
  intros (i & j & Hi & Hj & Hij). apply nth_error_split in Hi as (l1 & r & -> & Hl1).
  rewrite nth_error_app2 in Hj by lia. rewrite Hl1 in Hj.
  destruct (j - i) as [|k] eqn:E; [lia|]. simpl in Hj.
  apply nth_error_split in Hj as (l2 & l3 & -> & _). exists l1, l2, l3. reflexivity.
Qed.
Lemma split_idx (l1 l2 l3 : list str) v u : idx_before (l1 ++ v :: l2 ++ u :: l3) v u.
Proof. exists (List.length l1), (List.length l1 + S (List.length l2)). repeat split.
  - rewrite nth_error_app2 by lia. rewrite Nat.sub_diag. reflexivity.
  - rewrite nth_error_app2 by lia. replace (List.length l1 + S (List.length l2) - List.length l1) with (S (List.length l2)) by lia.
    simpl. rewrite nth_error_app2 by lia. rewrite Nat.sub_diag. reflexivity.
  - lia. Qed.
Lemma idx_before_filter (P : str -> bool) l v u : idx_before l v u -> P v = true -> P u = true ->
  idx_before (filter P l) v u.
Proof. intros H Hv Hu. apply idx_split in H as (l1 & l2 & l3 & ->).
  rewrite filter_app. simpl. rewrite Hv. rewrite filter_app. simpl. rewrite Hu. apply split_idx. Qed.

(* a rank function decreasing along every edge certifies acyclicity *)
Lemma rank_acyclic (g : Topo.graph str) (rank : str -> nat) :
  (forall u v, edge g u v -> rank v < rank u) -> acyclic g.
Proof. intros H. assert (Hr : forall a b, reach1 g a b -> rank b < rank a).
  { induction 1 as [a b He|a b c He Hr IH]; [apply H; auto|]. specialize (H _ _ He). lia. }
  intros n Hn. specialize (Hr _ _ Hn). lia. Qed.
Lemma rank_check (g : Topo.graph str) (rank : str -> nat) :
  forallb (fun kd => forallb (fun v => rank v <? rank (fst kd)) (snd kd)) g = true ->
  forall u v, edge g u v -> rank v < rank u.
Proof. unfold edge. induction g as [|[k ds] g IH]; intros Hc u v He; simpl in *; [contradiction|].
  apply andb_true_iff in Hc as [H1 H2]. destruct (eq_dec u k) as [->|Hne].
  - rewrite forallb_forall in H1. apply Nat.ltb_lt. apply H1; auto.
  - apply IH; auto. Qed.

Lemma NoDup_app_intro (a b : list str) : NoDup a -> NoDup b -> (forall x, In x a -> In x b -> False) -> NoDup (a ++ b).
Proof. induction a as [|x a IH]; simpl; intros Ha Hb Hd; auto. inversion Ha; subst. constructor.
  - rewrite in_app_iff. intros [H|H]; auto. apply (Hd x); auto.
  - apply IH; auto. intros y Hy1 Hy2. apply (Hd y); auto. Qed.

Lemma ord_ok_obs seen : NoDup seen -> ord_ok (o_obs seen).
Proof. intros Hnd s k l. unfold o_obs. split.
  - apply NoDup_app_intro.
    + apply NoDup_filter; auto.
    + apply NoDup_filter. apply NoDup_nodup.
    + intros x H1 H2. apply filter_In in H1 as [H1 _]. apply filter_In in H2 as [_ H2].
      apply negb_true_iff in H2. apply (WorklistSpike.memb_false str str_dec) in H2. contradiction.
  - intros x. rewrite in_app_iff, !filter_In. unfold dedup. rewrite nodup_In. rewrite smemb_true.
    destruct (smemb x seen) eqn:E.
    + apply smemb_true in E. simpl. split; [intros [[_ H]|[H _]]; auto|intros H; left; auto].
    + simpl. split; [intros [[_ H]|[H _]]; auto|intros H; right; auto].
Qed.

Lemma insert_in x l y : In y (insert_str x l) <-> y = x \/ In y l.
Proof. induction l as [|a l IH]; simpl; [intuition|]. destruct (str_leb x a); simpl; [intuition|]. rewrite IH. intuition. Qed.
Lemma insert_nodup x l : NoDup l -> ~ In x l -> NoDup (insert_str x l).
Proof. induction l as [|a l IH]; simpl; intros Hnd Hx; [constructor; auto|]. destruct (str_leb x a); [constructor; auto|].
  inversion Hnd; subst. constructor.
  - rewrite insert_in. intros [->|H]; [apply Hx; left; auto|contradiction].
  - apply IH; auto. Qed.
Lemma sort_in l y : In y (sort_str l) <-> In y l.
Proof. induction l as [|a l IH]; simpl; [tauto|]. rewrite insert_in, IH. intuition. Qed.
Lemma sort_nodup l : NoDup l -> NoDup (sort_str l).
Proof. induction l as [|a l IH]; simpl; intros H; [constructor|]. inversion H; subst. apply insert_nodup; auto.
  rewrite sort_in. auto. Qed.
Lemma ord_ok_sorted : ord_ok o_sorted.
Proof. intros s k l. unfold o_sorted, dedup. split; [apply sort_nodup, NoDup_nodup|]. intros x. rewrite sort_in. apply nodup_In. Qed.

Section Order.
Variable o : orders.
Hypothesis Ho : ord_ok o.
Variable p : project.

Lemma declared_sub disc decl : discovered o p = Some disc -> C07Reach.declared o p = Some decl ->
  forall x, In x decl -> In x disc /\ resolvable p x = true.
Proof.
  intros Hd Hdecl. unfold C07Reach.declared in Hdecl. rewrite Hd in Hdecl.
  destruct (used_types o p disc) as [used|]; [|discriminate].
  destruct (mapM (event_closure o p disc) (events p)) as [closures|]; [|discriminate].
  inversion Hdecl; subst decl; clear Hdecl.
  unfold discovered in Hd.
  destruct (work_exact str str_dec _ _ _ (resolvable_indexed p) _ _ _ Hd) as [Hnd Hin].
  destruct (Ho S_STRUCTS [] disc) as [Hpnd Hpin].
  assert (Hb : NoDup (filter (fun n => smemb n used) (o S_STRUCTS [] disc))) by (apply NoDup_filter; auto).
  destruct (add_events_spec str str_dec disc closures _ Hb) as [_ Hin'].
  intros x Hx. apply Hin' in Hx.
  assert (Hxd : In x disc).
  { destruct Hx as [Hx|[Hx _]]; auto. apply filter_In in Hx as [Hx _]. apply Hpin; auto. }
  split; auto. apply Hin in Hxd. apply Hxd.
Qed.

Theorem zod_order disc out :
  discovered o p = Some disc -> acyclic (dep_graph o p disc) -> edges_recorded_b p = true ->
  emitted_zod o p = Some out ->
  NoDup out /\ forall u v, In u out -> In v out -> In v (schema_refs p u) -> idx_before out v u.
Proof.
  intros Hd Hac Hrec He. unfold emitted_zod in He. rewrite Hd in He.
  destruct (C07Reach.declared o p) as [decl|] eqn:Edecl; [|discriminate].
  destruct (topo_sort _ _ _) as [sorted|] eqn:Et; [|discriminate]. inversion He; subst out; clear He.
  destruct (topo_correct _ _ _ _ Et) as (Hnd & _ & _).
  split; [apply NoDup_filter; auto|].
  intros u v Hu Hv Href. apply filter_In in Hu as [Hus Hud]. apply filter_In in Hv as [Hvs Hvd].
  apply idx_before_filter; auto.
  apply smemb_true in Hud. apply smemb_true in Hvd.
  destruct (declared_sub disc decl Hd Edecl u Hud) as [Hudisc Hur].
  destruct (declared_sub disc decl Hd Edecl v Hvd) as [_ Hvr].
  apply (topo_acyclic_transitive _ _ _ _ Hac Et); auto.
  constructor 1. unfold edge, dep_graph. rewrite (deps_map (fun n => o S_GRAPH n (deps_of p n))) by auto.
  apply (proj2 (Ho S_GRAPH u (deps_of p u)) v).
  unfold edges_recorded_b in Hrec. rewrite forallb_forall in Hrec.
  assert (Hun : In u (dnames p)). { unfold dnames. apply filter_In. split; auto. apply resolvable_in; auto. }
  specialize (Hrec u Hun). rewrite forallb_forall in Hrec. specialize (Hrec v Href).
  rewrite Hvr in Hrec. simpl in Hrec. apply smemb_true; auto.
Qed.
End Order.
