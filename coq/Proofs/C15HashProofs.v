(* C15 - facts about the hash text and the cache-hit path (Model/C15Hash.v). *)
From Coq Require Import String Ascii List Arith Bool NArith Lia.
Require Import TT.Model.C15Utf8 TT.Model.C15Hash.
Import ListNotations.

(* a fixed-width cut panics on every text shorter than the width (Rust: end index out of bounds) *)
Lemma abbrev_short_panics : forall w text, List.length text < w -> abbrev_b w text = Panic.
Proof.
  intros w text H. unfold abbrev_b, slice_to.
  assert (E : (w <=? List.length text) = false) by (apply Nat.leb_gt; exact H).
  rewrite E. reflexivity.
Qed.

(* the cache-hit path returns whatever the hash texts are: it never cuts them *)
Lemma cache_hit_returns : forall verbose previous current, exists st, cache_hit_b verbose previous current = Ok st.
Proof.
  intros verbose previous current. unfold cache_hit_b.
  destruct (negb (c_version previous =? 1)%N); [eexists; reflexivity|].
  destruct (str_eqb (c_combined previous) (c_combined current)); eexists; reflexivity.
Qed.

(* the printed lines of a hit do not depend on the hash texts *)
Lemma cache_hit_message_fixed : forall verbose p c p' c' l l',
  cache_hit_b verbose p c = Ok (UpToDate l) -> cache_hit_b verbose p' c' = Ok (UpToDate l') -> l = l'.
Proof.
  intros verbose p c p' c' l l'. unfold cache_hit_b.
  destruct (negb (c_version p =? 1)%N); [discriminate|].
  destruct (str_eqb (c_combined p) (c_combined c)); [|discriminate].
  destruct (negb (c_version p' =? 1)%N); [discriminate|].
  destruct (str_eqb (c_combined p') (c_combined c')); [|discriminate].
  intros H1 H2. inversion H1. inversion H2. reflexivity.
Qed.

(* the recorded project state: command cmd_102398 alone, default settings, combined hash 0x31e0567420c *)
Definition hash_witness : N := 3427474555404%N.

Lemma hex_witness_text : hex hash_witness = L "31e0567420c".
Proof. vm_compute. reflexivity. Qed.

Lemma hex_zero : hex 0 = L "0".
Proof. vm_compute. reflexivity. Qed.

Lemma hex_max : hex (2 ^ 64 - 1) = L "ffffffffffffffff".
Proof. vm_compute. reflexivity. Qed.

(* a twelve-digit abbreviation of that text panics, although the value is a valid u64 *)
Lemma abbrev_witness_panics : (hash_witness < 2 ^ 64)%N /\ abbrev_b 12 (hex hash_witness) = Panic.
Proof. split; [vm_compute; reflexivity|]. vm_compute. reflexivity. Qed.

(* ... while the cache-hit path of the code returns on it *)
Lemma cache_hit_witness :
  let c := {| c_version := 1; c_commands := hex 10111213; c_structs := hex 7; c_config := hex 0;
              c_combined := hex hash_witness; c_events := [] |} in
  cache_hit_b true c c = Ok (UpToDate [L "Cache hit - no changes detected, skipping generation"; L "TypeScript bindings are up to date"]).
Proof. vm_compute. reflexivity. Qed.
