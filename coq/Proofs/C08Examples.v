(* Concrete projects, witness histories and computed facts for C08 / C14 / C17. *)
From Coq Require Import String Ascii List Arith Lia Bool.
Require Import TT.Model.Str TT.Model.C08Fingerprint TT.Model.C08Run.
Require Import TT.Proofs.C08RunProofs TT.Proofs.C08FpProofs TT.Proofs.SortInvSpike.
Import ListNotations.
Local Open Scope string_scope.

Definition ex_path := L "src-tauri/lib.rs".
Definition ex_field (rn : option str) (v : option str) : field :=
  {| f_name := L "user_name"; f_type := L "String"; f_opt := false; f_pub := true; f_rename := rn; f_valid := v |}.
Definition ex_struct (rn : option str) (ra : option str) (v : option str) : struct :=
  {| s_name := L "User"; s_file := ex_path; s_enum := false; s_fields := [ex_field rn v]; s_rename_all := ra |}.
Definition ex_cmd_at (line : string) (ra : option str) (prn : option str) : command :=
  {| c_name := L "get_user"; c_file := ex_path; c_line := L line;
     c_params := [{| p_name := L "user_id"; p_type := L "u32"; p_opt := false; p_rename := prn |}];
     c_ret := L "User"; c_async := false; c_chans := []; c_rename_all := ra |}.
Definition ex_cmd := ex_cmd_at "10".
Definition ex_proj (s : struct) (k : command) (ev : str) : project :=
  [{| sf_path := ex_path; sf_cmds := [k]; sf_structs := [s]; sf_events := [{| e_name := ev; e_payload := L "String" |}]; sf_ndefs := L "1" |}].
Definition ex_cfg (lib : string) (viz : bool) : config :=
  {| g_lib := L lib; g_private := false; g_maps := None; g_pcase := L "camelCase"; g_fcase := L "snake_case";
     g_viz := viz; g_force := false; g_ppath := L "src-tauri" |}.
Definition v1 := Some (L "length(min = 1)").
Definition v2 := Some (L "length(min = 3)").
Definition p0 := ex_proj (ex_struct None None v1) (ex_cmd None None) (L "ping").
Definition c0 := ex_cfg "none" false.
Definition cz := ex_cfg "zod" false.
Definition w1 : sched := {| w_files := [0]; w_maps := [] |}.

Definition final (p : project) (c : config) (ops : list cop) := fold_left (stepG_c true) ops (init_state p c, None).

(* a history ending in a cache hit over files that are not current *)
Definition refutes (cls : list nat) (p : project) (c : config) (ops : list cop) : Prop :=
  let sg := final p c ops in
  kf_C08 w1 sg = cls /\ fst (run_c true w1 false None (fst sg)) = UpToDate /\
  all_current w1 (snd (run_c true w1 false None (fst sg))) = false.

(* the same shape of history, now detected: no class, the run regenerates and everything is current *)
Definition detects (p : project) (c : config) (ops : list cop) : Prop :=
  let sg := final p c ops in
  kf_C08 w1 sg = [] /\ fst (run_c true w1 false None (fst sg)) = Success /\
  all_current w1 (snd (run_c true w1 false None (fst sg))) = true.

Notation RunOp := (Run project config sched fname).
Notation SetSrcOp := (SetSrc project config sched fname).
Notation SetCfgOp := (SetCfg project config sched fname).
Notation DeleteOp := (Delete project config sched fname).

Lemma fixed_1 : detects p0 c0 [RunOp w1 false; SetSrcOp (ex_proj (ex_struct (Some (L "uid")) None v1) (ex_cmd None None) (L "ping"))].
Proof. vm_compute. repeat split. Qed.
Lemma fixed_2 : detects p0 c0 [RunOp w1 false; SetSrcOp (ex_proj (ex_struct None (Some (L "camelCase")) v1) (ex_cmd None None) (L "ping"))].
Proof. vm_compute. repeat split. Qed.
Lemma fixed_3 : detects p0 cz [RunOp w1 false; SetSrcOp (ex_proj (ex_struct None None v2) (ex_cmd None None) (L "ping"))].
Proof. vm_compute. repeat split. Qed.
Lemma fixed_4 : detects p0 c0 [RunOp w1 false; SetSrcOp (ex_proj (ex_struct None None v1) (ex_cmd (Some (L "snake_case")) None) (L "ping"))].
Proof. vm_compute. repeat split. Qed.
Lemma fixed_5 : detects p0 c0 [RunOp w1 false; SetSrcOp (ex_proj (ex_struct None None v1) (ex_cmd None (Some (L "uid"))) (L "ping"))].
Proof. vm_compute. repeat split. Qed.
Lemma fixed_6 : detects p0 c0 [RunOp w1 false; SetSrcOp (ex_proj (ex_struct None None v1) (ex_cmd None None) (L "pong"))].
Proof. vm_compute. repeat split. Qed.
Lemma fixed_7 : detects p0 c0 [RunOp w1 false; SetCfgOp (ex_cfg "none" true)].
Proof. vm_compute. repeat split. Qed.
Lemma refuted_8 : refutes [8] p0 (ex_cfg "none" true)
  [RunOp w1 false; SetSrcOp (ex_proj (ex_struct None None v1) (ex_cmd_at "11" None None) (L "ping"))].
Proof. vm_compute. repeat split. Qed.
Lemma fixed_9 : detects p0 c0 [RunOp w1 false; DeleteOp Types].
Proof. vm_compute. repeat split. Qed.
(* validator attributes do not reach the files in mode none: no class, no staleness *)
Lemma validator_none_harmless :
  let sg := final p0 c0 [RunOp w1 false; SetSrcOp (ex_proj (ex_struct None None v2) (ex_cmd None None) (L "ping"))] in
  kf_C08 w1 sg = [] /\ all_current w1 (snd (run_c true w1 false None (fst sg))) = true.
Proof. vm_compute. split; reflexivity. Qed.

(* a hashed edit is detected: the premises of the main theorem hold on a non-trivial history *)
Definition p_field_type : project :=
  [{| sf_path := ex_path; sf_cmds := [ex_cmd None None];
      sf_structs := [{| s_name := L "User"; s_file := ex_path; s_enum := false;
                        s_fields := [{| f_name := L "user_name"; f_type := L "u64"; f_opt := false; f_pub := true;
                                        f_rename := None; f_valid := v1 |}]; s_rename_all := None |}];
      sf_events := []; sf_ndefs := L "1" |}].
Lemma ex_detected :
  let sg := final p0 c0 [RunOp w1 false; SetSrcOp p_field_type; DeleteOp Events; RunOp w1 false; SetCfgOp cz] in
  kf_C08 w1 sg = [] /\ fst (run_c true w1 false None (fst sg)) = Success.
Proof. vm_compute. split; reflexivity. Qed.
Lemma ex_hit :
  let sg := final p0 c0 [RunOp w1 false; SetSrcOp p_field_type; RunOp w1 false] in
  kf_C08 w1 sg = [] /\ fst (run_c true w1 false None (fst sg)) = UpToDate.
Proof. vm_compute. split; reflexivity. Qed.

Lemma filter_nil {A} (f : A -> bool) l : (forall x, In x l -> f x = false) -> filter f l = [].
Proof. induction l as [|x l IH]; intros H; cbn [filter]; [reflexivity|].
  rewrite (H x (or_introl eq_refl)). apply IH. intros y Hy. apply H. right. exact Hy. Qed.

Lemma up_to_date_all_current w st :
  up_to_date project config sched fname tree tree files w st -> all_current w st = true.
Proof. intros H. unfold all_current, stale.
  rewrite !filter_nil; [reflexivity| |].
  - intros [f x] Hin. cbn [fst snd]. rewrite (H f x Hin). rewrite tree_eqb_refl. reflexivity.
  - intros [f x] Hin. cbn [fst snd]. rewrite (H f x Hin). reflexivity. Qed.

Lemma refutes_not_sound cls p c ops : refutes cls p c ops ->
  exists r st', run_c true w1 false None (fst (final p c ops)) = (r, st') /\ r = UpToDate /\
     ~ up_to_date project config sched fname tree tree files w1 st'.
Proof. intros (_ & Hr & Hc). destruct (run_c true w1 false None (fst (final p c ops))) as [r st'] eqn:E.
  exists r, st'. cbn [fst snd] in *. split; [reflexivity|]. split; [exact Hr|].
  intros Hu. apply up_to_date_all_current in Hu. congruence. Qed.

Lemma InvW_init p c : InvW project config sched fname tree tree files fp (init_state p c, None).
Proof. intros h Hc. cbn in Hc. discriminate. Qed.

(* ---- C14 witnesses ---- *)
Definition mk_file (path name : string) : sfile :=
  {| sf_path := L path; sf_structs := []; sf_events := []; sf_ndefs := L "0";
     sf_cmds := [{| c_name := L name; c_file := L path; c_line := L "3"; c_params := []; c_ret := L "String"; c_async := false;
                    c_chans := []; c_rename_all := None |}] |}.
Definition p2 : project := [mk_file "src-tauri/a.rs" "cmd_a"; mk_file "src-tauri/b.rs" "cmd_b"].
Definition w01 : sched := {| w_files := [0; 1]; w_maps := [] |}.
Definition w10 : sched := {| w_files := [1; 0]; w_maps := [] |}.
Definition cmaps : config :=
  {| g_lib := L "none"; g_private := false; g_maps := Some [(L "A", L "string"); (L "B", L "number")];
     g_pcase := L "camelCase"; g_fcase := L "snake_case"; g_viz := false; g_force := false; g_ppath := L "src-tauri" |}.
Definition wm01 : sched := {| w_files := [0]; w_maps := [0; 1] |}.
Definition wm10 : sched := {| w_files := [0]; w_maps := [1; 0] |}.

(* two files, two discovery orders; two type mappings: the second non-forced run answers up to date
   (former witnesses of C14-1 and C14-2) *)
Lemma c14_fixed_files :
  valid_sched w01 p2 c0 = true /\ valid_sched w10 p2 c0 = true /\
  let st1 := snd (run_c true w01 false None (init_state p2 c0)) in
  run_c true w10 false None st1 = (UpToDate, st1) /\ fst (run_c true w01 false None (init_state p2 c0)) = Success.
Proof. vm_compute. repeat split. Qed.
Lemma c14_fixed_maps :
  valid_sched wm01 p0 cmaps = true /\ valid_sched wm10 p0 cmaps = true /\
  let st1 := snd (run_c true wm01 false None (init_state p0 cmaps)) in
  fst (run_c true wm10 false None st1) = UpToDate.
Proof. vm_compute. repeat split. Qed.
Lemma c14_ex_keys :
  fp w01 p2 c0 = fp w10 p2 c0 /\ NoDup (map s_name (a_structs (analyse w01 p2))) /\ has_commands p2 = true /\
  u_events (analyse w01 p2) = u_events (analyse w10 p2).
Proof. split; [vm_compute; reflexivity|]. split; [constructor|]. split; reflexivity. Qed.

(* ---- C08-10: two commands of one file swapped (former witness: undetected while the hash sorted by name) ---- *)
Definition ex_cmd2 : command :=
  {| c_name := L "a_first"; c_file := ex_path; c_line := L "20"; c_params := []; c_ret := L "String"; c_async := false;
     c_chans := []; c_rename_all := None |}.
Definition p_two (ks : list command) : project :=
  [{| sf_path := ex_path; sf_cmds := ks; sf_structs := [ex_struct None None v1]; sf_events := []; sf_ndefs := L "1" |}].
Lemma fixed_10 : detects (p_two [ex_cmd None None; ex_cmd2]) c0 [RunOp w1 false; SetSrcOp (p_two [ex_cmd2; ex_cmd None None])].
Proof. vm_compute. repeat split. Qed.
(* class 8, second component: an unreferenced type definition added while visualize_deps is on *)
Lemma refuted_8b : refutes [8] p0 (ex_cfg "none" true)
  [RunOp w1 false; SetSrcOp [{| sf_path := ex_path; sf_cmds := [ex_cmd None None]; sf_structs := [ex_struct None None v1];
                               sf_events := [{| e_name := L "ping"; e_payload := L "String" |}]; sf_ndefs := L "2" |}]].
Proof. vm_compute. repeat split. Qed.

(* ---- C17 witness for the premises ---- *)
Lemma c17_ex :
  fst (run_c true w1 false (Some 1) (init_state p0 c0)) = Failure /\
  fst (run_c true w1 false (Some 4) (init_state p0 c0)) = Success /\
  length (files w1 p0 c0) = 4.
Proof. vm_compute. repeat split. Qed.

(* ---- C14: the same project reached through another spelling of the project path (former witness of C14-3):
   the fingerprint is the same and the second run is a no-op ---- *)
Definition mk_file_at (dir : string) : sfile := mk_file (dir ++ "/a.rs") "cmd_a".
Definition cfg_at (dir : string) (viz : bool) : config :=
  {| g_lib := L "none"; g_private := false; g_maps := None; g_pcase := L "camelCase"; g_fcase := L "snake_case";
     g_viz := viz; g_force := false; g_ppath := L dir |}.
Lemma c14_fixed_path :
  fp w1 [mk_file_at "./src-tauri"] (cfg_at "./src-tauri" false) = fp w1 [mk_file_at "src-tauri"] (cfg_at "src-tauri" false) /\
  let st1 := snd (run_c true w1 false None (init_state [mk_file_at "./src-tauri"] (cfg_at "./src-tauri" false))) in
  let st2 := step_c true (step_c true st1 (SetSrcOp [mk_file_at "src-tauri"])) (SetCfgOp (cfg_at "src-tauri" false)) in
  run_c true w1 false None st2 = (UpToDate, st2).
Proof. vm_compute. split; reflexivity. Qed.
(* with visualize_deps on the spelling is printed into the graph, is hashed, and the run regenerates *)
Lemma c14_path_under_viz :
  let st1 := snd (run_c true w1 false None (init_state [mk_file_at "./src-tauri"] (cfg_at "./src-tauri" true))) in
  let st2 := step_c true (step_c true st1 (SetSrcOp [mk_file_at "src-tauri"])) (SetCfgOp (cfg_at "src-tauri" true)) in
  fst (run_c true w1 false None st2) = Success.
Proof. vm_compute. reflexivity. Qed.

Lemma rel_path_app (root r : str) : rel_path root (root ++ L "/" ++ r)%list = r.
Proof. unfold rel_path. rewrite app_assoc.
  assert (H : forall a b : str, strip_pre a (a ++ b)%list = Some b).
  { induction a as [|x a IH]; intros b; cbn [strip_pre app]; [reflexivity|]. rewrite Ascii.eqb_refl. apply IH. }
  rewrite H. reflexivity. Qed.

(* ---- C17-1 (repaired): the record matches, types.ts is lost, the regenerating run fails at its first write; since
   the failed write leaves no file behind, the next run finds the file missing and regenerates everything ---- *)
Lemma c17_repaired_truncation :
  let st1 := snd (run_c true w1 false None (init_state p0 c0)) in
  let st2 := step_c true st1 (DeleteOp Types) in
  let r3 := run_c true w1 false (Some 0) st2 in
  let r4 := run_c true w1 false None (snd r3) in
  fst r3 = Failure /\ s_out (snd r3) Types = None /\ fst r4 = Success /\ all_current w1 (snd r4) = true.
Proof. vm_compute. repeat split. Qed.
