(* Proofs about the run / cache state machine (Model/C08Run.v): abstract part. *)
From Coq Require Import List Arith Lia Bool.
Require Import TT.Model.Str TT.Model.C08Fingerprint TT.Model.C08Run.
Import ListNotations.

Section RunProofs.
  Variables proj cfg schedT fnameT content fpT : Type.
  Variable fn_eqb : fnameT -> fnameT -> bool.
  Variable fpt_eqb : fpT -> fpT -> bool.
  Variable gfiles : schedT -> proj -> cfg -> list (fnameT * content).
  Variable gfp : schedT -> proj -> cfg -> fpT.
  Variable ghas_commands : proj -> bool.
  Variable cfg_force : cfg -> bool.
  Variable check_presence : bool.

  Hypothesis fn_eqb_spec : forall a b, fn_eqb a b = true <-> a = b.
  Hypothesis fpt_eqb_spec : forall a b, fpt_eqb a b = true <-> a = b.
  Hypothesis files_fun : forall w s c, NoDup (map fst (gfiles w s c)).

  Notation state := (state proj cfg fnameT content fpT).
  Notation run := (run proj cfg schedT fnameT content fpT fn_eqb fpt_eqb gfiles gfp ghas_commands cfg_force check_presence).
  Notation step := (step proj cfg schedT fnameT content fpT fn_eqb fpt_eqb gfiles gfp ghas_commands cfg_force check_presence).
  Notation stepG := (stepG proj cfg schedT fnameT content fpT fn_eqb fpt_eqb gfiles gfp ghas_commands cfg_force check_presence).
  Notation cache_hit := (cache_hit proj cfg schedT fnameT content fpT fpt_eqb gfiles gfp check_presence).
  Notation write_all := (write_all fnameT content fn_eqb).
  Notation upd := (upd fnameT content fn_eqb).
  Notation unwrite := (unwrite fnameT content fn_eqb).
  Notation present := (present fnameT content).
  Notation effective_force := (effective_force cfg cfg_force).
  Notation gfiles_of := (gfiles_of proj cfg schedT fnameT content gfiles).
  Notation gfp_of := (gfp_of proj cfg schedT fpT gfp).
  Notation regenerates := (regenerates proj cfg schedT fnameT content fpT fpt_eqb gfiles gfp ghas_commands cfg_force check_presence).

  Lemma fn_eqb_refl a : fn_eqb a a = true.
  Proof. apply fn_eqb_spec. reflexivity. Qed.

  Lemma upd_same o f x : upd o f x f = x.
  Proof. unfold C08Run.upd. rewrite fn_eqb_refl. reflexivity. Qed.

  Lemma upd_other o f x g : g <> f -> upd o f x g = o g.
  Proof. intros Hne. unfold C08Run.upd. destruct (fn_eqb g f) eqn:E; [|reflexivity].
    apply fn_eqb_spec in E. contradiction. Qed.

  Lemma write_all_notin : forall l o f, ~ In f (map fst l) -> write_all l o f = o f.
  Proof. induction l as [|[g y] l IH]; intros o f Hn; cbn [C08Run.write_all]; [reflexivity|].
    cbn [map fst In] in Hn. rewrite IH by tauto. apply upd_other. intro E; subst; tauto. Qed.

  Lemma write_all_in : forall l o f x, NoDup (map fst l) -> In (f, x) l -> write_all l o f = Some x.
  Proof. induction l as [|[g y] l IH]; intros o f x Hnd Hin; [destruct Hin|].
    cbn [map fst] in Hnd. inversion Hnd as [|? ? Hng Hnd']; subst.
    cbn [C08Run.write_all]. destruct Hin as [E|Hin].
    - inversion E; subst. rewrite write_all_notin by assumption. apply upd_same.
    - apply IH; assumption. Qed.

  Lemma present_true o l : present o l = true -> forall f x, In (f, x) l -> o f <> None.
  Proof. unfold C08Run.present. rewrite forallb_forall. intros H f x Hin. specialize (H _ Hin). cbn [fst] in H.
    destruct (o f); congruence. Qed.

  Definition up_to_date (w : schedT) (st : state) : Prop :=
    forall f x, In (f, x) (gfiles w (s_src st) (s_cfg st)) -> s_out st f = Some x.

  (* ---------- C08: weak ghost invariant, inductive over every operation ---------- *)
  Definition InvW (sg : state * option (gen proj cfg schedT)) : Prop :=
    forall h, s_cache (fst sg) = Some h ->
      exists g0, snd sg = Some g0 /\ h = gfp_of g0 /\
        forall f x, In (f, x) (gfiles_of g0) -> s_out (fst sg) f = Some x \/ s_out (fst sg) f = None.

  Lemma run_cases w flag st :
    (regenerates w flag st = true /\
       run w flag None st = (Success, {| s_src := s_src st; s_cfg := s_cfg st;
                                         s_out := write_all (gfiles w (s_src st) (s_cfg st)) (s_out st);
                                         s_cache := Some (gfp w (s_src st) (s_cfg st)) |})) \/
    (regenerates w flag st = false /\ snd (run w flag None st) = st /\
       (fst (run w flag None st) = NoCommands \/
        fst (run w flag None st) = UpToDate /\ ghas_commands (s_src st) = true /\
          effective_force flag (s_cfg st) = false /\ cache_hit w st = true)).
  Proof. unfold C08Run.regenerates, C08Run.run.
    destruct (ghas_commands (s_src st)); cbn [negb andb].
    - destruct (effective_force flag (s_cfg st)) eqn:Ef; cbn [negb andb].
      + left. split; reflexivity.
      + destruct (cache_hit w st) eqn:Eh; cbn [negb].
        * right. split; [reflexivity|]. split; [reflexivity|]. right. cbn [fst]. repeat split; reflexivity.
        * left. split; reflexivity.
    - right. split; [reflexivity|]. split; [reflexivity|]. left. reflexivity. Qed.

  Lemma InvW_stepG sg o : InvW sg -> InvW (stepG sg o).
  Proof. destruct sg as [st g]. intros HI. destruct o as [s|c|f| |w flag]; cbn [C08Run.stepG C08Run.step].
    - exact HI.
    - exact HI.
    - intros h Hc. cbn [fst snd s_cache] in *. destruct (HI h Hc) as (g0 & Hg & Hh & Hf).
      exists g0. split; [exact Hg|]. split; [exact Hh|]. intros g' x Hin. cbn [s_out].
      unfold C08Run.upd. destruct (fn_eqb g' f); [right; reflexivity|]. apply Hf. exact Hin.
    - intros h Hc. cbn [fst s_cache] in Hc. discriminate.
    - destruct (run_cases w flag st) as [[Hr Hrun]|[Hr [Hst _]]]; rewrite Hr.
      + rewrite Hrun. cbn [snd]. intros h Hc. cbn [fst s_cache] in Hc. inversion Hc; subst h.
        exists (w, s_src st, s_cfg st). split; [reflexivity|]. split; [reflexivity|].
        intros f x Hin. left. cbn [fst s_out C08Run.gfiles_of] in *. apply write_all_in; [apply files_fun|exact Hin].
      + rewrite Hst. exact HI. Qed.

  Lemma InvW_fold ops : forall sg, InvW sg -> InvW (fold_left stepG ops sg).
  Proof. induction ops as [|o ops IH]; intros sg H; cbn [fold_left]; [exact H|]. apply IH. apply InvW_stepG. exact H. Qed.

  (* what a cache hit has to guarantee; the faithful model fails it exactly in the recorded classes *)
  Definition sound_hit (w : schedT) (sg : state * option (gen proj cfg schedT)) : Prop :=
    forall g0, snd sg = Some g0 -> s_cache (fst sg) = Some (gfp_of g0) ->
      ghas_commands (s_src (fst sg)) = true -> effective_force false (s_cfg (fst sg)) = false ->
      cache_hit w (fst sg) = true ->
      gfiles_of g0 = gfiles w (s_src (fst sg)) (s_cfg (fst sg)) /\ present (s_out (fst sg)) (gfiles_of g0) = true.

  Theorem cache_sound_abstract : forall ops sg0 w, InvW sg0 ->
    let sg := fold_left stepG ops sg0 in
    sound_hit w sg ->
    forall r st', run w false None (fst sg) = (r, st') -> r = Success \/ r = UpToDate -> up_to_date w st'.
  Proof. intros ops sg0 w HI0 sg Hs r st' Hrun Hr.
    assert (HI : InvW sg) by (apply InvW_fold; exact HI0).
    destruct sg as [st g]. cbn [fst snd] in *.
    destruct (run_cases w false st) as [[_ Hrun']|[_ [Hst [Hn|(Hu & Hc & Hf & Hh)]]]].
    - rewrite Hrun' in Hrun. inversion Hrun; subst r st'. intros f x Hin. cbn [s_src s_cfg s_out] in *.
      apply write_all_in; [apply files_fun|exact Hin].
    - rewrite Hrun in Hn. cbn [fst] in Hn. subst r. destruct Hr; discriminate.
    - rewrite Hrun in Hst. cbn [snd] in Hst. subst st'.
      pose proof Hh as Hh'. unfold C08Run.cache_hit in Hh'. destruct (s_cache st) as [h|] eqn:Ec; [|discriminate].
      destruct (HI h Ec) as (g0 & Hg & Hh0 & Hfiles). cbn [snd] in Hg.
      assert (Hca : s_cache st = Some (gfp_of g0)) by (rewrite Ec, Hh0; reflexivity).
      destruct (Hs g0 Hg Hca Hc Hf Hh) as [Heq Hp]. cbn [fst snd] in Heq, Hp.
      intros f x Hin. rewrite <- Heq in Hin. destruct (Hfiles f x Hin) as [Ho|Ho]; [exact Ho|].
      exfalso. eapply present_true; eauto. Qed.

  (* ---------- C14 ---------- *)
  Lemma present_names o : forall l l', map fst l = map fst l' -> present o l = present o l'.
  Proof. unfold C08Run.present. induction l as [|x l IH]; intros [|y l'] E; cbn [map] in E; try discriminate; [reflexivity|].
    injection E as E1 E2. cbn [forallb]. rewrite E1. f_equal. apply IH. exact E2. Qed.

  Lemma present_written l o : NoDup (map fst l) -> present (write_all l o) l = true.
  Proof. intros Hnd. unfold C08Run.present. apply forallb_forall. intros [f x] Hin. cbn [fst].
    rewrite (write_all_in l o f x Hnd Hin). reflexivity. Qed.

  Theorem idempotent_sched :
    forall w1 w2 st r st1, run w1 false None st = (r, st1) -> r = Success \/ r = UpToDate ->
    cfg_force (s_cfg st) = false ->
    gfp w2 (s_src st) (s_cfg st) = gfp w1 (s_src st) (s_cfg st) ->
    map fst (gfiles w2 (s_src st) (s_cfg st)) = map fst (gfiles w1 (s_src st) (s_cfg st)) ->
    run w2 false None st1 = (UpToDate, st1).
  Proof. intros w1 w2 st r st1 Hrun Hr Hcf Hfp Hnames.
    assert (Hhit : forall t, s_src t = s_src st -> s_cfg t = s_cfg st -> ghas_commands (s_src st) = true ->
               s_cache t = Some (gfp w1 (s_src st) (s_cfg st)) ->
               (check_presence = true -> present (s_out t) (gfiles w1 (s_src st) (s_cfg st)) = true) ->
               run w2 false None t = (UpToDate, t)).
    { intros t Es Ec Hc Hca Hpr. unfold C08Run.run. rewrite Es, Hc. cbn [negb].
      unfold C08Run.effective_force. rewrite Ec, Hcf. cbn [orb negb andb].
      unfold C08Run.cache_hit. rewrite Hca, Es, Ec, Hfp.
      replace (fpt_eqb _ _) with true by (symmetry; apply fpt_eqb_spec; reflexivity).
      destruct check_presence; [|reflexivity].
      rewrite (present_names (s_out t) _ _ Hnames), (Hpr eq_refl). reflexivity. }
    destruct (run_cases w1 false st) as [[Hre Hrun']|[_ [Hst [Hn|(Hu & Hc & Hf & Hh)]]]].
    - rewrite Hrun' in Hrun. inversion Hrun; subst r st1. apply Hhit; try reflexivity.
      + unfold C08Run.regenerates in Hre. apply andb_prop in Hre. tauto.
      + intros _. cbn [s_out]. apply present_written. apply files_fun.
    - rewrite Hrun in Hn. cbn [fst] in Hn. subst r. destruct Hr; discriminate.
    - rewrite Hrun in Hst. cbn [snd] in Hst. subst st1.
      unfold C08Run.cache_hit in Hh. destruct (s_cache st) as [h|] eqn:Ec; [|discriminate].
      destruct (fpt_eqb h _) eqn:E; [|discriminate]. apply fpt_eqb_spec in E. subst h.
      apply Hhit; try reflexivity; [exact Hc|exact Ec|]. intros Hp. rewrite Hp in Hh. exact Hh. Qed.

  (* whatever the invocation looked like: a non-forced run over a record that equals the current
     fingerprint, with the files of the plan present, answers up to date and changes nothing *)
  Theorem matching_record_noop :
    forall w st, ghas_commands (s_src st) = true -> cfg_force (s_cfg st) = false ->
    s_cache st = Some (gfp w (s_src st) (s_cfg st)) ->
    present (s_out st) (gfiles w (s_src st) (s_cfg st)) = true ->
    run w false None st = (UpToDate, st).
  Proof. intros w st Hc Hf Hca Hpr. unfold C08Run.run. rewrite Hc. cbn [negb].
    unfold C08Run.effective_force. rewrite Hf. cbn [orb negb andb].
    unfold C08Run.cache_hit. rewrite Hca, Hpr.
    replace (fpt_eqb _ _) with true by (symmetry; apply fpt_eqb_spec; reflexivity).
    destruct check_presence; reflexivity. Qed.

  Theorem force_regenerates : forall w flag st, ghas_commands (s_src st) = true ->
    effective_force flag (s_cfg st) = true ->
    exists st', run w flag None st = (Success, st') /\ up_to_date w st' /\
      s_cache st' = Some (gfp w (s_src st) (s_cfg st)) /\
      (forall f, ~ In f (map fst (gfiles w (s_src st) (s_cfg st))) -> s_out st' f = s_out st f).
  Proof. intros w flag st Hc Hf. destruct (run_cases w flag st) as [[_ Hrun]|[Hre _]].
    - eexists. split; [exact Hrun|]. split; [|split; [reflexivity|]].
      + intros f x Hin. cbn [s_src s_cfg s_out] in *. apply write_all_in; [apply files_fun|exact Hin].
      + intros f Hn. cbn [s_out]. apply write_all_notin. exact Hn.
    - unfold C08Run.regenerates in Hre. rewrite Hc, Hf in Hre. discriminate. Qed.

  Lemma flag_prevails : forall c, effective_force true c = true.
  Proof. reflexivity. Qed.
  Lemma force_is_or : forall flag c, effective_force flag c = flag || cfg_force c.
  Proof. reflexivity. Qed.

  (* ---------- C17 ---------- *)
  Theorem fault_faithful :
    forall w st k r st1, run w false (Some k) st = (r, st1) -> r <> NoCommands -> r <> UpToDate ->
    cfg_force (s_cfg st) = false ->
    s_cache st <> Some (gfp w (s_src st) (s_cfg st)) ->
    let plan := gfiles w (s_src st) (s_cfg st) in
    s_src st1 = s_src st /\ s_cfg st1 = s_cfg st /\
    (k < length plan -> r = Failure /\ s_cache st1 = s_cache st /\
                        (forall f, s_out st1 f = unwrite (nth_error plan k) (write_all (firstn k plan) (s_out st)) f)) /\
    (length plan <= k -> r = Success /\ s_cache st1 = None /\ up_to_date w st1) /\
    cache_hit w st1 = false /\
    (forall w2 r2 st2, gfp w2 (s_src st) (s_cfg st) = gfp w (s_src st) (s_cfg st) ->
       run w2 false None st1 = (r2, st2) ->
       r2 = Success /\ up_to_date w2 st2 /\ s_cache st2 = Some (gfp w2 (s_src st) (s_cfg st))).
  Proof. intros w st k r st1 Hrun Hn1 Hn2 Hcf Hmis plan.
    unfold C08Run.run in Hrun.
    destruct (ghas_commands (s_src st)) eqn:Hc; cbn [negb] in Hrun; [|inversion Hrun; subst; congruence].
    unfold C08Run.effective_force in Hrun. rewrite Hcf in Hrun. cbn [orb negb andb] in Hrun.
    destruct (cache_hit w st) eqn:Eh; [inversion Hrun; subst; congruence|].
    fold plan in Hrun.
    assert (Hmiss : forall t, s_src t = s_src st -> s_cfg t = s_cfg st ->
              (s_cache t = s_cache st \/ s_cache t = None) -> forall w2,
              gfp w2 (s_src st) (s_cfg st) = gfp w (s_src st) (s_cfg st) -> cache_hit w2 t = false).
    { intros t Es Ec Hca w2 Hfp. unfold C08Run.cache_hit in *. rewrite Es, Ec, Hfp.
      destruct Hca as [Hca|Hca]; rewrite Hca; [|reflexivity].
      destruct (s_cache st) as [h|]; [|reflexivity].
      destruct (fpt_eqb h _) eqn:E; [|reflexivity]. apply fpt_eqb_spec in E. subst h. exfalso. apply Hmis. reflexivity. }
    assert (Hrec : forall t, s_src t = s_src st -> s_cfg t = s_cfg st ->
              (s_cache t = s_cache st \/ s_cache t = None) -> forall w2 r2 st2,
              gfp w2 (s_src st) (s_cfg st) = gfp w (s_src st) (s_cfg st) ->
              run w2 false None t = (r2, st2) ->
              r2 = Success /\ up_to_date w2 st2 /\ s_cache st2 = Some (gfp w2 (s_src st) (s_cfg st))).
    { intros t Es Ec Hca w2 r2 st2 Hfp Hrun2.
      destruct (run_cases w2 false t) as [[_ Hr]|[Hre _]].
      - rewrite Hr in Hrun2. inversion Hrun2; subst r2 st2. split; [reflexivity|]. split.
        + intros f x Hin. cbn [s_src s_cfg s_out] in *. apply write_all_in; [apply files_fun|exact Hin].
        + cbn [s_cache]. rewrite Es, Ec. reflexivity.
      - unfold C08Run.regenerates in Hre. rewrite Es, Hc in Hre. unfold C08Run.effective_force in Hre.
        rewrite Ec, Hcf in Hre. rewrite (Hmiss t Es Ec Hca w2 Hfp) in Hre. discriminate. }
    destruct (k <? length plan) eqn:Ek.
    - inversion Hrun; subst r st1; clear Hrun. cbn [s_src s_cfg s_cache s_out].
      split; [reflexivity|]. split; [reflexivity|]. split.
      { intros _. split; [reflexivity|]. split; reflexivity. }
      split. { intros Hle. apply Nat.ltb_lt in Ek. lia. }
      split. { apply Hmiss; [reflexivity|reflexivity|left; reflexivity|reflexivity]. }
      intros w2 r2 st2 Hfp Hrun2.
      eapply Hrec in Hrun2; [exact Hrun2|reflexivity|reflexivity|left; reflexivity|exact Hfp].
    - inversion Hrun; subst r st1; clear Hrun. cbn [s_src s_cfg s_cache s_out].
      split; [reflexivity|]. split; [reflexivity|]. split.
      { intros Hlt. apply Nat.ltb_ge in Ek. lia. }
      split. { intros _. split; [reflexivity|]. split; [reflexivity|].
               intros f x Hin. cbn [s_src s_cfg s_out] in *. apply write_all_in; [apply files_fun|exact Hin]. }
      split. { apply Hmiss; [reflexivity|reflexivity|right; reflexivity|reflexivity]. }
      intros w2 r2 st2 Hfp Hrun2.
      eapply Hrec in Hrun2; [exact Hrun2|reflexivity|reflexivity|right; reflexivity|exact Hfp]. Qed.

  (* every non-forced, fault-free run on a project with commands either regenerates everything or is a
     cache hit that leaves the state alone *)
  Theorem recovery_outcomes : forall w t r2 st2, ghas_commands (s_src t) = true ->
    run w false None t = (r2, st2) ->
    (r2 = Success /\ up_to_date w st2 /\ s_cache st2 = Some (gfp w (s_src t) (s_cfg t))) \/
    (r2 = UpToDate /\ st2 = t /\ cache_hit w t = true).
  Proof. intros w t r2 st2 Hc Hrun. destruct (run_cases w false t) as [[_ Hr]|[_ [Hst [Hn|(Hu & _ & _ & Hh)]]]].
    - rewrite Hr in Hrun. inversion Hrun; subst r2 st2. left. split; [reflexivity|]. split; [|reflexivity].
      intros f x Hin. cbn [s_src s_cfg s_out] in *. apply write_all_in; [apply files_fun|exact Hin].
    - exfalso. unfold C08Run.run in Hn. rewrite Hc in Hn. cbn [negb] in Hn.
      destruct (negb _ && _); cbn [fst] in Hn; discriminate.
    - rewrite Hrun in Hu, Hst. cbn [fst snd] in Hu, Hst. right. auto. Qed.

  (* the record is written after every file of the plan *)
  Theorem record_last : forall w flag fault st r st1,
    run w flag fault st = (r, st1) -> s_cache st1 <> s_cache st -> s_cache st1 <> None ->
    r = Success /\ up_to_date w st1.
  Proof. intros w flag fault st r st1 Hrun Hne Hsome. unfold C08Run.run in Hrun.
    destruct (negb (ghas_commands (s_src st))); [inversion Hrun; subst; congruence|].
    destruct (negb _ && _); [inversion Hrun; subst; congruence|].
    destruct fault as [k|].
    - destruct (k <? _); inversion Hrun; subst; cbn [s_cache] in *; congruence.
    - inversion Hrun; subst. split; [reflexivity|]. intros f x Hin. cbn [s_src s_cfg s_out] in *.
      apply write_all_in; [apply files_fun|exact Hin]. Qed.
End RunProofs.
